(* C19 — parts of the statement that were false of the pinned code (both repaired by fix: commits; the
   witnesses stay in the corpus of harness/c19.py) and a boundary of the format. *)
From Coq Require Import String Ascii List Bool ZArith.
Require Import V.Lib.PyStr V.Lib.JTree V.Dosini.Codec V.Dosini.Generated V.Dosini.Model V.Dosini.Text V.Dosini.Render.
Import ListNotations.
Open Scope string_scope.

(* F19 (fixed).  The pinned reader had no branch for the ini key max-restarts (it compared the key with
   the FlowIR name maxRestarts): the key was recognised, removed and stored nowhere.  With that row taken
   out of the measured reader table the check on the tables fails at exactly that option and a component
   that sets maxRestarts comes back without it. *)
Definition pinned_parse_table : list prow := remove_key "max-restarts" parse_table.

Theorem C19_pinned_max_restarts_refuted :
  tables_ok dump_table pinned_parse_table known_keys = false /\
  first_bad_row dump_table pinned_parse_table known_keys =
    Some ("workflowAttributes.maxRestarts", ("max-restarts", DStr)) /\
  exists c, opts c <> [] /\ roundtrip dump_table pinned_parse_table known_keys c = Some (mkComp [] []).
Proof.
  split; [|split]; try (vm_compute; reflexivity).
  exists (mkComp [("workflowAttributes.maxRestarts", VInt 4)] []).
  split; [discriminate|vm_compute; reflexivity].
Qed.
Print Assumptions C19_pinned_max_restarts_refuted.

(* F19b (fixed).  The pinned writers of the boolean options rendered str(value).lower(): a variable
   reference with an upper-case letter comes back as a reference to another variable. *)
Definition pinned_dump_table : list drow :=
  map (fun r : drow => let '(path, (ik, d)) := r in
                       (path, (ik, match d with DBool => DLower | _ => d end))) dump_table.

Theorem C19_pinned_bool_reference_refuted :
  tables_ok pinned_dump_table parse_table known_keys = false /\
  exists c, roundtrip pinned_dump_table parse_table known_keys c
            = Some (mkComp [("command.resolvePath", VStr "%(doresolve)s")] []) /\
            c = mkComp [("command.resolvePath", VStr "%(DoResolve)s")] [].
Proof.
  split; [vm_compute; reflexivity|].
  eexists. split; [|reflexivity]. vm_compute. reflexivity.
Qed.
Print Assumptions C19_pinned_bool_reference_refuted.

(* Boundary (not a defect: the section of a component is one flat namespace): a variable named like an
   option key is read back as that option. *)
Theorem C19_variable_named_like_option_refuted :
  exists c, roundtrip_c c <> Some c /\ opts c = [].
Proof.
  exists (mkComp [] [("queue", "fast")]). split; [|reflexivity]. vm_compute. discriminate.
Qed.
Print Assumptions C19_variable_named_like_option_refuted.

(* ------------------------------------------------------------------ the configparser text layer: every clause of
   the guard of C19_text_roundtrip is needed.  [via_text t] = the table read from the text written for t.  All
   witnesses are run on the real FlowConfigParser by harness/c19_text.py (WITNESSES) at every check. *)
Definition via_text (t : table) : option (entries * table) :=
  match write_table t with Some x => read_text x | None => None end.
Definition one (k v : string) : table := [("A", [(k, v)])].
Definition CR : string := String "013"%char "".

(* a line of a value that starts with a comment prefix is dropped by the reader, silently (F19e, open) *)
Theorem C19_text_comment_line_refuted :
  table_ok (one "k" ("a" ++ NL ++ "#b" ++ NL ++ "c")) = false /\
  via_text (one "k" ("a" ++ NL ++ "#b" ++ NL ++ "c")) = Some ([], one "k" ("a" ++ NL ++ "c")) /\
  via_text (one "k" ("a" ++ NL ++ ";b")) = Some ([], one "k" "a").
Proof. vm_compute. repeat split; reflexivity. Qed.
Print Assumptions C19_text_comment_line_refuted.

(* blanks at the ends of a value, or of a line of a value, are stripped (F19f, open): a leading blank, a trailing
   newline, a blank before a line break, the indentation of a continuation line *)
Theorem C19_text_outer_blank_refuted :
  via_text (one "k" " a") = Some ([], one "k" "a") /\
  via_text (one "k" ("a" ++ NL)) = Some ([], one "k" "a") /\
  via_text (one "k" ("a " ++ NL ++ "b")) = Some ([], one "k" ("a" ++ NL ++ "b")) /\
  via_text (one "k" ("a" ++ NL ++ "  b")) = Some ([], one "k" ("a" ++ NL ++ "b")) /\
  table_ok (one "k" " a") = false /\ table_ok (one "k" ("a" ++ NL)) = false /\
  table_ok (one "k" ("a " ++ NL ++ "b")) = false /\ table_ok (one "k" ("a" ++ NL ++ "  b")) = false.
Proof. vm_compute. repeat split; reflexivity. Qed.
Print Assumptions C19_text_outer_blank_refuted.

(* a carriage return is a line break for the reader (universal newlines) but is not indented by the writer: the
   rest of the value becomes a line without delimiter and the file cannot be read (ParsingError) *)
Theorem C19_text_carriage_return_refuted :
  table_ok (one "k" ("a" ++ CR ++ "b")) = false /\
  (exists x, write_table (one "k" ("a" ++ CR ++ "b")) = Some x) /\
  via_text (one "k" ("a" ++ CR ++ "b")) = None.
Proof. vm_compute. repeat split; try reflexivity. eexists; reflexivity. Qed.
Print Assumptions C19_text_carriage_return_refuted.

(* a key with a delimiter is cut at the delimiter; a key starting with a comment prefix makes its entry a
   comment; a key starting with '[' makes the line a section header; a blank at the end of a key is stripped *)
Theorem C19_text_key_refuted :
  via_text (one "a:b" "v") = Some ([], one "a" "b = v") /\
  via_text (one "a=b" "v") = Some ([], one "a" "b = v") /\
  via_text (one "#k" "v") = Some ([], [("A", [])]) /\
  via_text (one ";k" "v") = Some ([], [("A", [])]) /\
  via_text (one "[k]" "v") = Some ([], [("A", []); ("k", [])]) /\
  via_text (one "k " "v") = Some ([], one "k" "v") /\
  forallb (fun k => negb (table_ok (one k "v"))) ["a:b"; "a=b"; "#k"; ";k"; "[k]"; "k "; " k"; ""] = true.
Proof. vm_compute. repeat split; reflexivity. Qed.
Print Assumptions C19_text_key_refuted.

(* interpolation is ON when a value is set: a '%' that is neither '%%' nor the start of %(name)s is refused
   (ValueError; F19c, open) although the reader, which reads raw values, would accept the text *)
Theorem C19_text_bare_percent_refuted :
  write_table (one "k" "50% done") = None /\ table_ok (one "k" "50% done") = false /\
  read_text ("[A]" ++ NL ++ "k = 50% done" ++ NL) = Some ([], one "k" "50% done").
Proof. vm_compute. repeat split; reflexivity. Qed.
Print Assumptions C19_text_bare_percent_refuted.

(* section names: DEFAULT cannot be added (ValueError); the entries of a section named '' are written under
   [DEFAULT] and its own header '[]' cannot be read; two sections cannot share a name *)
Theorem C19_text_section_name_refuted :
  write_table [("DEFAULT", [("k", "v")])] = None /\
  write_table [("", [("k", "v")])] = Some ("[DEFAULT]" ++ NL ++ "k = v" ++ NL ++ NL ++ "[]" ++ NL ++ NL) /\
  via_text [("", [("k", "v")])] = None /\
  write_table [("A", []); ("A", [])] = None.
Proof. vm_compute. repeat split; reflexivity. Qed.
Print Assumptions C19_text_section_name_refuted.

(* ---- the guard of C19_environments_through_file is needed (boundary of the section namespace of the environment file):
   an environment called `sandbox` is written as [ENV-SANDBOX], read back under the reserved name SANDBOX and removed with it;
   two environments whose names differ by case only share one section name and the file cannot be written *)
Require Import V.Dosini.Envs V.Dosini.EnvsProofs.
Theorem C19_environment_named_sandbox_refuted :
  exists r, root_via_file r <> Some (upper_names r) /\ root_via_file r = Some (mkRoot [("ENVA", [])] [] []).
Proof. exists (mkRoot [("sandbox", [("X", "1")]); ("envA", [])] [] []). split; [vm_compute; discriminate|exact sandbox_name_refuted]. Qed.
Print Assumptions C19_environment_named_sandbox_refuted.
Theorem C19_environment_names_ignoring_case_refuted :
  exists r, root_via_file r = None.
Proof. exists (mkRoot [("envA", [("X", "1")]); ("ENVa", [])] [] []). exact same_name_ignoring_case_refuted. Qed.
Print Assumptions C19_environment_names_ignoring_case_refuted.

(* ---- the cleanup of Dosini.dump(update_existing=True) is needed: a write that replaces every file it produces but removes
   nothing (Rewrite.overwrite_dir) leaves the stage file of a stage that no longer holds a component, and the load of the instance
   discovers it: the previous version's components come back (class of the seeded regression C19_m9; run on the real code by
   stream R) *)
Require Import V.Dosini.Rewrite.
Theorem C19_rewrite_without_cleanup_refuted :
  exists old fresh f, reads true f = true /\ lookup f fresh = None /\ cleaned true f = true /\
                      lookup f (overwrite_dir true old fresh) = Some "previous version".
Proof.
  exists [("stages.d/stage0.instance.conf", "a1"); ("stages.d/stage1.instance.conf", "previous version")],
         [("experiment.instance.conf", "e2"); ("stages.d/stage0.instance.conf", "a2")], "stages.d/stage1.instance.conf".
  vm_compute. repeat split; reflexivity.
Qed.
Print Assumptions C19_rewrite_without_cleanup_refuted.

(* the rendering matters: with the lower-casing rendering of the boolean OPTIONS (Codec.encv DBool) a variable holding the boolean
   True is stored as true, and a reference to it reads another text than in the description (class of C19_m10) *)
Theorem C19_meta_bool_rendering_refuted :
  exists v, scalar v = true /\ encv DBool v <> pystr v.
Proof. exists (VBool true). split; [reflexivity|vm_compute; discriminate]. Qed.
Print Assumptions C19_meta_bool_rendering_refuted.

(* the private copy of _translate_dict_to_dict is necessary: without it (`del field[key]` on the dictionary of the description
   itself) the first render of a description object is the right section, the object is left without the options that were
   rendered, and the second render of the same object (or Dosini.dump of it) writes a section holding the variables only
   (class of C19_m12; pinned one-row writer table) *)
Theorem C19_render_without_private_copy_refuted :
  exists dt o vs,
    set_cells o <> [] /\
    nth 0 (fst (render_seq false dt 2 [o] 0 vs)) None = dump_comp dt (mkComp (set_cells o) vs) /\
    nth 1 (fst (render_seq false dt 2 [o] 0 vs)) None = Some vs /\
    set_cells (sget (snd (render_seq false dt 2 [o] 0 vs)) 0) = [].
Proof.
  exists [("command.executable", ("executable", DStr))], [("command.executable", Some (VStr "echo"))], [("v", "1")].
  vm_compute. repeat split; try reflexivity. discriminate.
Qed.
Print Assumptions C19_render_without_private_copy_refuted.
