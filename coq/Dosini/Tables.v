(* C19 — the obligations re-checked on the tables measured at this run (Generated.v): a finite check by
   vm_compute.  When the code under test changes the translation of an option, this file stops compiling. *)
From Coq Require Import String List Bool.
Require Import V.Lib.JTree V.Dosini.Codec V.Dosini.Generated V.Dosini.Proofs.
Import ListNotations.
Open Scope string_scope.

Lemma measured_tables_ok : tables_ok dump_table parse_table known_keys = true.
Proof. vm_compute. reflexivity. Qed.

(* no known key is recognised and then stored nowhere *)
Lemma measured_nothing_dropped : dropped_keys = [].
Proof. vm_compute. reflexivity. Qed.

(* the options the writers emit nothing for *)
Lemma measured_inexpressible :
  forallb (fun p => is_none (lookup p dump_table)) inexpressible = true.
Proof. vm_compute. reflexivity. Qed.

(* the derived options (isRepeat) have no writer, and every other option path is written *)
Lemma measured_partition :
  forallb (fun p => mem p inexpressible || negb (is_none (lookup p dump_table))) option_paths = true.
Proof. vm_compute. reflexivity. Qed.

(* every option the reader can store is written, and under the very key the reader recognises it by: the two
   tables are inverse of each other in both directions.  An option the reader has a key for but the writers - probed with
   that option alone - emit nothing for (a writer that only writes it next to another option) breaks this obligation. *)
Definition reader_row_written (dt : list drow) (r : prow) : bool :=
  let '(ik, (path, _, _)) := r in
  match lookup path dt with Some (ik', _) => String.eqb ik' ik | None => false end.

Lemma measured_reader_rows_written : forallb (reader_row_written dump_table) parse_table = true.
Proof. vm_compute. reflexivity. Qed.

Lemma reader_rows_written ik path p ex :
  In (ik, (path, p, ex)) parse_table -> exists d, lookup path dump_table = Some (ik, d).
Proof.
  intros H. pose proof measured_reader_rows_written as M. rewrite forallb_forall in M.
  specialize (M _ H). unfold reader_row_written in M.
  destruct (lookup path dump_table) as [[ik' d]|]; [|discriminate].
  apply String.eqb_eq in M. subst ik'. exists d. reflexivity.
Qed.
