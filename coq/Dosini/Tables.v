(* C19 — the obligations re-checked on the tables measured at this run (Generated.v): a finite check by
   vm_compute.  When the code under test changes the translation of an option, this file stops compiling. *)
From Coq Require Import String List Bool.
Require Import V.Lib.JTree V.Dosini.Codec V.Dosini.Generated V.Dosini.Proofs.
Import ListNotations.
Open Scope string_scope.

Lemma measured_tables_ok : tables_ok dump_table parse_table known_keys = true.
Proof. vm_compute. reflexivity. Qed.

(* no known key is recognised and then stored nowhere *)
Lemma measured_nothing_dropped : dropped_keys = [].
Proof. vm_compute. reflexivity. Qed.

(* the options the writers emit nothing for *)
Lemma measured_inexpressible :
  forallb (fun p => is_none (lookup p dump_table)) inexpressible = true.
Proof. vm_compute. reflexivity. Qed.

(* the derived options (isRepeat) have no writer, and every other option path is written *)
Lemma measured_partition :
  forallb (fun p => mem p inexpressible || negb (is_none (lookup p dump_table))) option_paths = true.
Proof. vm_compute. reflexivity. Qed.
