(* C19 — proofs: the codecs round-trip on their domains; a table that passes [tables_ok] makes
   parse (dump c) = c for every component in the domain; the measured tables pass. *)
From Coq Require Import String Ascii List Bool ZArith NArith Lia DecimalString.
Require Import V.Lib.PyStr V.Lib.JTree V.Dosini.Codec.
Import ListNotations.
Open Scope string_scope.

(* ------------------------------------------------------------------ int <-> decimal *)
Lemma undec_minus r : undec (String "-" r) = None.
Proof.
  unfold undec, NilZero.uint_of_string. cbn [NilEmpty.uint_of_string].
  destruct (NilEmpty.uint_of_string r); reflexivity.
Qed.

Lemma int_lit_dec n : int_lit (dec n) = Some (Z.of_N n).
Proof.
  pose proof (undec_dec n) as H. unfold int_lit.
  destruct (dec n) as [|a r] eqn:E.
  - unfold undec in H. cbn in H. discriminate.
  - destruct (Ascii.eqb a "-") eqn:Ea.
    + apply Ascii.eqb_eq in Ea. subst a. rewrite undec_minus in H. discriminate.
    + rewrite H. reflexivity.
Qed.

Lemma int_lit_zstr z : int_lit (zstr z) = Some z.
Proof.
  destruct z as [|p|p]; cbn [zstr].
  - reflexivity.
  - rewrite int_lit_dec. reflexivity.
  - unfold int_lit. rewrite Ascii.eqb_refl, undec_dec. reflexivity.
Qed.

(* ------------------------------------------------------------------ ' '.join <-> split() *)
Lemma words_aux_word acc w rest :
  all_chars (fun a => negb (is_ws a)) w = true ->
  words_aux acc (w ++ rest) = words_aux (acc ++ w) rest.
Proof.
  revert acc. induction w as [|a w IH]; intros acc H; cbn in *.
  - rewrite append_nil_r. reflexivity.
  - apply andb_true_iff in H as [Ha Hw]. apply negb_true_iff in Ha. rewrite Ha.
    rewrite IH by exact Hw. rewrite append_assoc. reflexivity.
Qed.

Lemma words_join l : forallb word_ok l = true -> words (join " " l) = l.
Proof.
  unfold words. induction l as [|x l IH]; intros H; [reflexivity|].
  cbn [forallb] in H. apply andb_true_iff in H as [Hx Hl].
  assert (Hne : x <> "" /\ all_chars (fun a => negb (is_ws a)) x = true).
  { unfold word_ok in Hx. destruct x; [discriminate|]. split; [discriminate|exact Hx]. }
  destruct Hne as [Hne Hws].
  destruct l as [|y l'].
  - cbn [join]. rewrite <- (append_nil_r x) at 1. rewrite words_aux_word by exact Hws.
    cbn. destruct x; [contradiction|reflexivity].
  - change (join " " (x :: y :: l')) with (x ++ " " ++ join " " (y :: l')).
    rewrite words_aux_word by exact Hws. cbn [append words_aux].
    change (is_ws " ") with true. cbn iota.
    rewrite (IH Hl). destruct x; [contradiction|reflexivity].
Qed.

(* ------------------------------------------------------------------ the codecs *)
Lemma codec_roundtrip d p v :
  wf_valb d p v = true -> exists s, encv d v = Some s /\ decv p s = Some v.
Proof.
  destruct d, p, v; cbn [wf_valb]; intros H; try discriminate.
  - (* DStr PStr VStr *) eexists; split; reflexivity.
  - (* DStr PInt VStr *)
    apply andb_true_iff in H as [Hr Hn]. exists s. split; [reflexivity|]. cbn.
    destruct (int_lit s); [discriminate|]. unfold keep_ref. rewrite Hr. reflexivity.
  - (* DStr PInt VInt *) exists (zstr z). split; [reflexivity|]. cbn. rewrite int_lit_zstr. reflexivity.
  - (* DStr PFloat VStr *)
    apply andb_true_iff in H as [Hr Hn]. exists s. split; [reflexivity|]. cbn.
    destruct (float_norm s); [discriminate|]. unfold keep_ref. rewrite Hr. reflexivity.
  - (* DStr PFloat VFlt *)
    exists r. split; [reflexivity|]. cbn. destruct (float_norm r) as [r'|]; [|discriminate].
    apply String.eqb_eq in H. subst r'. reflexivity.
  - (* DStr PBool VStr *)
    apply andb_true_iff in H as [Hr Hn]. exists s. split; [reflexivity|]. cbn.
    destruct (bool_word s); [discriminate|]. unfold keep_ref. rewrite Hr. reflexivity.
  - (* DStr PBool VBool *) destruct b; eexists; split; reflexivity.
  - (* DStr PMem VStr *)
    exists s. split; [reflexivity|]. cbn. destruct (memok s); [reflexivity|].
    cbn in H. unfold keep_ref. rewrite H. reflexivity.
  - (* DLower PBool VStr *)
    apply andb_true_iff in H as [H Hn]. apply andb_true_iff in H as [Hr Hl].
    apply String.eqb_eq in Hl. exists s. split; [cbn; rewrite Hl; reflexivity|]. cbn.
    destruct (bool_word s); [discriminate|]. unfold keep_ref. rewrite Hr. reflexivity.
  - (* DLower PBool VBool *) destruct b; eexists; split; reflexivity.
  - (* DBool PBool VStr *)
    apply andb_true_iff in H as [Hr Hn]. exists s. split; [reflexivity|]. cbn.
    destruct (bool_word s); [discriminate|]. unfold keep_ref. rewrite Hr. reflexivity.
  - (* DBool PBool VBool *) destruct b; eexists; split; reflexivity.
  - (* DJoin PList VList *)
    exists (join " " l). split; [reflexivity|]. cbn. rewrite words_join by exact H. reflexivity.
Qed.

(* ------------------------------------------------------------------ tables *)
Lemma lookup_In {A} k (m : list (string * A)) v : lookup k m = Some v -> In (k, v) m.
Proof.
  induction m as [|[k' v'] m IH]; cbn; [discriminate|].
  destruct (String.eqb k k') eqn:E.
  - intros H. injection H as <-. apply String.eqb_eq in E. subst. left. reflexivity.
  - intros H. right. exact (IH H).
Qed.

Lemma mem_In k l : mem k l = true <-> In k l.
Proof.
  unfold mem. rewrite existsb_exists. split.
  - intros [x [Hx E]]. apply String.eqb_eq in E. subst. exact Hx.
  - intros H. exists k. split; [exact H|apply String.eqb_refl].
Qed.

Lemma nodupb_NoDup l : nodupb l = true -> NoDup l.
Proof.
  induction l as [|x l IH]; cbn; intros H; constructor.
  - apply andb_true_iff in H as [H _]. apply negb_true_iff in H. intros Hin.
    apply mem_In in Hin. congruence.
  - apply andb_true_iff in H as [_ H]. exact (IH H).
Qed.

Lemma tables_ok_rows dt pt known :
  tables_ok dt pt known = true ->
  forall path ik d, In (path, (ik, d)) dt ->
    In ik known /\ exists p ex, lookup ik pt = Some (path, p, ex) /\ compat d p = true.
Proof.
  unfold tables_ok. intros H path ik d Hin.
  apply andb_true_iff in H as [H _]. apply andb_true_iff in H as [H _].
  rewrite forallb_forall in H. specialize (H _ Hin). cbn in H.
  apply andb_true_iff in H as [Hk H]. split; [apply mem_In; exact Hk|].
  destruct (lookup ik pt) as [[[path' p] ex]|]; [|discriminate].
  apply andb_true_iff in H as [E C]. apply String.eqb_eq in E. subst path'.
  exists p, ex. split; [reflexivity|exact C].
Qed.

Lemma tables_ok_keys dt pt known :
  tables_ok dt pt known = true ->
  NoDup (map (fun r : drow => fst (snd r)) dt) /\ NoDup (map fst dt).
Proof.
  unfold tables_ok. intros H.
  apply andb_true_iff in H as [H H2]. apply andb_true_iff in H as [_ H1].
  split; apply nodupb_NoDup; assumption.
Qed.

(* no two options are written under one ini key *)
Lemma NoDup_map_inj {A B} (f : A -> B) l x y :
  NoDup (map f l) -> In x l -> In y l -> f x = f y -> x = y.
Proof.
  induction l as [|a l IH]; cbn; intros ND Hx Hy E; [contradiction|].
  inversion ND as [|? ? Hn ND']; subst.
  destruct Hx as [<-|Hx], Hy as [<-|Hy]; try reflexivity.
  - exfalso. apply Hn. rewrite E. apply in_map. exact Hy.
  - exfalso. apply Hn. rewrite <- E. apply in_map. exact Hx.
  - exact (IH ND' Hx Hy E).
Qed.

(* ------------------------------------------------------------------ components *)
Local Open Scope list_scope.
(* the options derived on the side by the reader of the row that writes [o] *)
Definition derived (dt : list drow) (pt : list prow) (o : string * val) : list (string * val) :=
  match lookup (fst o) dt with
  | Some (ik, _) => match lookup ik pt with Some (_, _, ex) => ex | None => [] end
  | None => []
  end.

Definition wf_opt (dt : list drow) (pt : list prow) (o : string * val) : bool :=
  match lookup (fst o) dt with
  | Some (ik, d) => match lookup ik pt with Some (_, p, _) => wf_valb d p (snd o) | None => false end
  | None => false
  end.

Definition wf_comp (dt : list drow) (pt : list prow) (known : list string) (c : comp) : bool :=
  forallb (wf_opt dt pt) (opts c) && forallb (fun kv => negb (mem (fst kv) known)) (vars c).

Definition normal (dt : list drow) (pt : list prow) (c : comp) : comp :=
  mkComp (flat_map (fun o => o :: derived dt pt o) (opts c)) (vars c).

Lemma parse_app pt known a b :
  parse_ini pt known (a ++ b) =
  match parse_ini pt known a, parse_ini pt known b with
  | Some x, Some y => Some (mkComp (opts x ++ opts y) (vars x ++ vars y))
  | _, _ => None
  end.
Proof.
  induction a as [|e a IH]; cbn [app parse_ini].
  - destruct (parse_ini pt known b) as [[o v]|]; reflexivity.
  - rewrite IH. destruct (parse_entry pt known e) as [[o v]|]; [|reflexivity].
    destruct (parse_ini pt known a) as [x|]; [|reflexivity].
    destruct (parse_ini pt known b) as [y|]; [|reflexivity].
    cbn. rewrite <- !app_assoc. reflexivity.
Qed.

Lemma parse_vars pt known vs :
  forallb (fun kv : string * string => negb (mem (fst kv) known)) vs = true ->
  parse_ini pt known vs = Some (mkComp [] vs).
Proof.
  induction vs as [|e vs IH]; cbn [forallb parse_ini]; intros H; [reflexivity|].
  apply andb_true_iff in H as [He Hv]. apply negb_true_iff in He.
  unfold parse_entry. rewrite He, (IH Hv). reflexivity.
Qed.

Lemma roundtrip_opts dt pt known os :
  tables_ok dt pt known = true ->
  forallb (wf_opt dt pt) os = true ->
  exists l, traverse (dump_opt dt) os = Some l /\
            parse_ini pt known l = Some (mkComp (flat_map (fun o => o :: derived dt pt o) os) []).
Proof.
  intros T. induction os as [|[path v] os IH]; cbn [forallb]; intros H.
  - exists []. split; reflexivity.
  - apply andb_true_iff in H as [Ho Hos]. destruct (IH Hos) as [l [Hl Hp]].
    unfold wf_opt in Ho. cbn [fst snd] in Ho.
    destruct (lookup path dt) as [[ik d]|] eqn:Ed; [|discriminate].
    destruct (tables_ok_rows _ _ _ T _ _ _ (lookup_In _ _ _ Ed)) as [Hk [p [ex [Ep C]]]].
    rewrite Ep in Ho. destruct (codec_roundtrip _ _ _ Ho) as [s [Es Ds]].
    assert (D1 : dump_opt dt (path, v) = Some [(ik, s)]).
    { unfold dump_opt. cbn [fst snd]. rewrite Ed, Es. reflexivity. }
    assert (D2 : derived dt pt (path, v) = ex).
    { unfold derived. cbn [fst]. rewrite Ed, Ep. reflexivity. }
    assert (D3 : parse_entry pt known (ik, s) = Some ((path, v) :: ex, [])).
    { unfold parse_entry. cbn [fst snd]. apply mem_In in Hk. rewrite Hk, Ep, Ds. reflexivity. }
    exists ((ik, s) :: l). split.
    + cbn [traverse]. rewrite D1, Hl. reflexivity.
    + cbn [parse_ini app]. rewrite Hp, D3. cbn [flat_map opts vars]. rewrite D2. reflexivity.
Qed.

Theorem roundtrip_normal dt pt known c :
  tables_ok dt pt known = true -> wf_comp dt pt known c = true ->
  roundtrip dt pt known c = Some (normal dt pt c).
Proof.
  intros T W. unfold wf_comp in W. apply andb_true_iff in W as [Wo Wv].
  destruct (roundtrip_opts dt pt known (opts c) T Wo) as [l [Hl Hp]].
  unfold roundtrip, dump_comp. rewrite Hl, parse_app, Hp, (parse_vars _ _ _ Wv).
  unfold normal. cbn. rewrite app_nil_r. reflexivity.
Qed.

(* when no used row derives anything the round trip is the identity *)
Lemma flat_map_no_derived dt pt os :
  forallb (fun o => match derived dt pt o with [] => true | _ => false end) os = true ->
  flat_map (fun o => o :: derived dt pt o) os = os.
Proof.
  induction os as [|o os IH]; cbn [forallb flat_map]; intros H; [reflexivity|].
  apply andb_true_iff in H as [Ho Hos]. rewrite (IH Hos).
  destruct (derived dt pt o); [reflexivity|discriminate].
Qed.

Theorem roundtrip_identity dt pt known c :
  tables_ok dt pt known = true -> wf_comp dt pt known c = true ->
  forallb (fun o => match derived dt pt o with [] => true | _ => false end) (opts c) = true ->
  roundtrip dt pt known c = Some c.
Proof.
  intros T W N. rewrite (roundtrip_normal _ _ _ _ T W). unfold normal.
  rewrite (flat_map_no_derived _ _ _ N). destruct c; reflexivity.
Qed.

