(* C04 — the conversion table as a whole: every typed leaf of a converted configuration has its declared type *)
From Coq Require Import String Ascii List Bool ZArith Arith Lia.
Import ListNotations.
Require Import V.Lib.PyStr V.Lib.JTree V.Conf.Model V.Conf.Proofs V.Conf.Rescan.
Open Scope string_scope.
Open Scope list_scope.

(* neither path is a prefix of the other *)
Fixpoint incomp (p q : list string) : bool :=
  match p, q with
  | k :: p', k' :: q' => if String.eqb k k' then incomp p' q' else true
  | _, _ => false
  end.

Fixpoint prefix_free (t : list (list string * conv)) : bool :=
  match t with
  | [] => true
  | r :: rest => forallb (fun r' => incomp (fst r) (fst r')) rest && prefix_free rest
  end.

(* writing at one path leaves every incomparable path alone *)
Lemma get_set_path_other : forall pi pj x x' v,
  get_path pi v = Some x -> incomp pi pj = true -> get_path pj (set_path pi x' v) = get_path pj v.
Proof.
  induction pi as [|k p IH]; intros pj x x' v Hg Hi; [discriminate|].
  destruct pj as [|k' q]; [discriminate|]. cbn [incomp] in Hi.
  destruct v as [| | | | | |m]; try discriminate. rewrite get_path_cons_dict in Hg.
  destruct (lookup k m) as [w|] eqn:Ek; [|discriminate].
  cbn [set_path jdict_of]. rewrite Ek. rewrite !get_path_cons_dict, lookup_set_key.
  rewrite String.eqb_sym. destruct (String.eqb k k') eqn:E.
  - apply String.eqb_eq in E. subst k'. rewrite Ek. exact (IH q x x' w Hg Hi).
  - reflexivity.
Qed.

Lemma convertible_dec x : {convertible x} + {~ convertible x}.
Proof. destruct x; cbn; auto. Qed.

Lemma convert_cons r rest v : convert (r :: rest) v = convert_at r (convert rest v).
Proof. reflexivity. Qed.

(* the whole table, by induction over its rows *)
Lemma convert_typed : forall table, prefix_free table = true ->
  forall v v', convert table v = Ok v' ->
  forall pi k, In (pi, k) table -> forall x', get_path pi v' = Some x' -> convertible x' -> has_conv_type k x'.
Proof.
  induction table as [|[pr kr] rest IH]; intros Hp v v' H pi k Hin x' Hx Hc; [destruct Hin|].
  cbn [prefix_free fst] in Hp. apply andb_true_iff in Hp as [Hp1 Hp2].
  rewrite convert_cons in H. destruct (convert rest v) as [v1|e1] eqn:E1; [|discriminate].
  destruct Hin as [Hin|Hin].
  - injection Hin as -> ->.
    destruct (get_path pi v1) as [x|] eqn:Eg.
    + destruct (convert_at_typed pi k v1 v' x H Eg) as (xx & Hcl & Hgx).
      rewrite Hgx in Hx. injection Hx as ->.
      destruct (conv_leaf_typed k x x' Hcl) as [T1 T2].
      destruct (convertible_dec x) as [Cx|Cx]; [exact (T1 Cx)|].
      rewrite (T2 Cx) in Hc. contradiction.
    + unfold convert_at in H. cbn [rbind fst] in H. rewrite Eg in H. injection H as <-. congruence.
  - rewrite forallb_forall in Hp1. pose proof (Hp1 (pi, k) Hin) as Hi. cbn [fst] in Hi.
    assert (Hsame : get_path pi v' = get_path pi v1).
    { unfold convert_at in H. cbn [rbind fst snd] in H.
      destruct (get_path pr v1) as [x|] eqn:Eg; [|injection H as <-; reflexivity].
      destruct (conv_leaf kr x) as [xx|]; [|discriminate]. injection H as <-.
      exact (get_set_path_other pr pi x xx v1 Eg Hi). }
    rewrite Hsame in Hx. exact (IH Hp2 v v1 E1 pi k Hin x' Hx Hc).
Qed.

Lemma conv_table_prefix_free : prefix_free conv_table = true.
Proof. vm_compute. reflexivity. Qed.

Lemma conv_table_typed v v' : convert conv_table v = Ok v' ->
  forall pi k, In (pi, k) conv_table -> forall x', get_path pi v' = Some x' -> convertible x' -> has_conv_type k x'.
Proof. exact (convert_typed conv_table conv_table_prefix_free v v'). Qed.

(* ... and therefore of every resolved configuration, whatever the string interpolator *)
Lemma resolve_with_typed I dflt d files p stage name r : resolve_with I dflt d files p stage name = Ok r ->
  forall pi k, In (pi, k) conv_table -> forall x, get_path pi r = Some x -> convertible x -> has_conv_type k x.
Proof.
  unfold resolve_with. destruct (find_comp d stage name) as [c|]; [|discriminate].
  destruct (user_vars files) as [u|]; [|discriminate]. destruct (view dflt d u p stage c) as [ols vls].
  unfold resolve_layers_with. destruct (merged_of ols vls) as [m|]; [|discriminate].
  destruct (inject_all dflt m) as [full|]; [|discriminate].
  destruct (map_tree (I (layer_vars vls)) full) as [t|e]; [|discriminate]. cbn [rbind].
  exact (conv_table_typed t r).
Qed.
