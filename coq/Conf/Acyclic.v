(* C04 — acyclic variable dependencies: a bounded ranking exists exactly when no variable reaches itself *)
From Coq Require Import String Ascii List Bool ZArith Arith Lia Relations.
Import ListNotations.
Require Import V.Lib.PyStr V.Lib.JTree V.Conf.Model V.Conf.Proofs.
Open Scope string_scope.

(* w refers to n: the value of w is a string in which the pattern matches the name n *)
Definition dep (ctx : alist) (w n : string) : Prop :=
  exists s, lookup w ctx = Some (JStr s) /\ In (TRef n) (scan 0 s).

(* no variable reaches itself *)
Definition acyclic (ctx : alist) : Prop := forall w, ~ clos_trans string (dep ctx) w w.

Definition ranked (ctx : alist) (rank : string -> nat) : Prop :=
  (forall w s n, lookup w ctx = Some (JStr s) -> In (TRef n) (scan 0 s) -> rank n < rank w) /\
  (forall n, rank n <= length ctx).

Lemma ranked_acyclic ctx rank : ranked ctx rank -> acyclic ctx.
Proof.
  intros [Hr _] w H.
  assert (G : forall a b, clos_trans string (dep ctx) a b -> rank b < rank a).
  { intros a b P. induction P as [a b (s & E & I)|a b c _ I1 _ I2]; [exact (Hr a s b E I)|lia]. }
  specialize (G w w H). lia.
Qed.

(* ------------------------------------------------------------------ chains of references *)
Definition isstr (ctx : alist) (n : string) : Prop := exists s, lookup n ctx = Some (JStr s).

Fixpoint chain_from (ctx : alist) (n : string) (l : list string) : Prop :=
  match l with
  | [] => True
  | x :: r => x = n /\ isstr ctx n /\
              match r with [] => True | _ => exists n', dep ctx n n' /\ chain_from ctx n' r end
  end.

Lemma chain_reach ctx : forall l n y, chain_from ctx n l -> In y l -> y = n \/ clos_trans string (dep ctx) n y.
Proof.
  induction l as [|x r IH]; intros n y H Hy; [destruct Hy|].
  destruct H as (-> & _ & H). destruct Hy as [<-|Hy]; [left; reflexivity|].
  destruct r as [|x' r']; [destruct Hy|]. destruct H as (n' & D & C).
  right. destruct (IH n' y C Hy) as [->|T]; [apply t_step; exact D|].
  eapply t_trans; [apply t_step; exact D|exact T].
Qed.

Lemma chain_nodup ctx : acyclic ctx -> forall l n, chain_from ctx n l -> NoDup l.
Proof.
  intros Ha. induction l as [|x r IH]; intros n H; [constructor|].
  destruct H as (-> & _ & H). destruct r as [|x' r']; [constructor; [intros []|constructor]|].
  destruct H as (n' & D & C). constructor; [|exact (IH n' C)].
  intros Hin. destruct (chain_reach ctx _ n' n C Hin) as [E|T].
  - subst n'. exact (Ha n (t_step _ _ _ _ D)).
  - exact (Ha n (t_trans _ _ _ _ _ (t_step _ _ _ _ D) T)).
Qed.

Lemma lookup_in_keys {A} k (m : list (string * A)) v : lookup k m = Some v -> In k (map fst m).
Proof.
  induction m as [|[k0 v0] r IH]; cbn; [discriminate|].
  destruct (String.eqb k k0) eqn:E; [apply String.eqb_eq in E; subst; left; reflexivity|].
  intros H. right. exact (IH H).
Qed.

Lemma chain_keys ctx : forall l n, chain_from ctx n l -> incl l (map fst ctx).
Proof.
  induction l as [|x r IH]; intros n H y Hy; [destruct Hy|].
  destruct H as (-> & (s & E) & H). destruct Hy as [<-|Hy]; [exact (lookup_in_keys _ _ _ E)|].
  destruct r as [|x' r']; [destruct Hy|]. destruct H as (n' & _ & C). exact (IH n' C y Hy).
Qed.

(* an acyclic context has no chain longer than the number of its variables *)
Lemma chain_short ctx l n : acyclic ctx -> chain_from ctx n l -> length l <= length ctx.
Proof.
  intros Ha C. rewrite <- (map_length fst ctx).
  apply NoDup_incl_length; [exact (chain_nodup ctx Ha l n C)|exact (chain_keys ctx l n C)].
Qed.

(* the cycle error of the one-pass model comes with a chain as long as the fuel *)
Lemma ecycle_chain ctx : forall fuel n, resolve_var fuel ctx n = Err ECycle ->
  fuel = 0 \/ exists l, length l = fuel /\ chain_from ctx n l.
Proof.
  induction fuel as [|f IH]; intros n H; [left; reflexivity|]. right. cbn in H.
  destruct (lookup n ctx) as [[| | | |s| |]|] eqn:El; try discriminate.
  destruct (finish_str_err _ _ H) as [E|E]; [discriminate|].
  destruct (subst_toks_err _ _ _ _ E) as [[E1 _]|(n' & I1 & I2 & I3)]; [discriminate|].
  destruct (IH n' I3) as [->|(l & Hl & C)].
  - exists [n]. split; [reflexivity|]. repeat split. exists s; exact El.
  - exists (n :: l). split; [cbn; rewrite Hl; reflexivity|]. split; [reflexivity|]. split; [exists s; exact El|].
    destruct l as [|x r]; [exact I|]. exists n'. split; [exists s; split; assumption|exact C].
Qed.

Lemma acyclic_resolve_var_no_cycle ctx n : acyclic ctx -> resolve_var (fuel_of ctx) ctx n <> Err ECycle.
Proof.
  intros Ha H. destruct (ecycle_chain ctx _ n H) as [E|(l & Hl & C)]; [discriminate|].
  pose proof (chain_short ctx l n Ha C). unfold fuel_of in Hl. lia.
Qed.

Lemma acyclic_interp_no_cycle ctx s : acyclic ctx -> interp_string ctx s <> Err ECycle.
Proof.
  intros Ha H. unfold interp_string in H.
  destruct (finish_str_err _ _ H) as [E|E]; [discriminate|].
  destruct (subst_toks_err _ _ _ _ E) as [[E1 _]|(n' & I1 & I2 & I3)]; [discriminate|].
  exact (acyclic_resolve_var_no_cycle ctx n' Ha I3).
Qed.

(* ------------------------------------------------------------------ the ranking: longest chain from a variable *)
Definition tok_height (h : string -> nat) (t : tok) : nat := match t with TRef m => h m | TChr _ => 0 end.

Fixpoint height (ctx : alist) (f : nat) (n : string) : nat :=
  match f with
  | O => 0
  | S f' => match lookup n ctx with
            | Some (JStr s) => S (list_max (map (tok_height (height ctx f')) (scan 0 s)))
            | _ => 0
            end
  end.

Lemma list_max_in : forall l, list_max l <> 0 -> In (list_max l) l.
Proof.
  induction l as [|x r IH]; cbn [list_max fold_right]; intros H; [contradiction|].
  fold (list_max r) in *. destruct (Nat.max_spec x (list_max r)) as [[Hlt E]|[Hle E]]; rewrite E in *.
  - right. apply IH. exact H.
  - left. reflexivity.
Qed.

Lemma list_max_ge : forall l x, In x l -> x <= list_max l.
Proof.
  intros l x H. pose proof (proj1 (list_max_le l (list_max l)) (le_n _)) as F.
  rewrite Forall_forall in F. exact (F x H).
Qed.

Lemma height_le ctx : forall f n, height ctx f n <= f.
Proof.
  induction f as [|f IH]; intros n; [reflexivity|]. cbn [height].
  destruct (lookup n ctx) as [[| | | |s| |]|]; try lia.
  apply le_n_S. apply list_max_le. rewrite Forall_forall. intros x Hx.
  apply in_map_iff in Hx as ([c|m] & <- & _); cbn; [lia|apply IH].
Qed.

Lemma height_stable ctx : forall f n, height ctx (S f) n <= f -> height ctx (S f) n = height ctx f n.
Proof.
  induction f as [|f IH]; intros n H.
  - cbn [height] in *. destruct (lookup n ctx) as [[| | | |s| |]|]; try reflexivity. lia.
  - cbn [height] in H. change (height ctx (S (S f)) n) with
      (match lookup n ctx with
       | Some (JStr s) => S (list_max (map (tok_height (height ctx (S f))) (scan 0 s)))
       | _ => 0 end).
    change (height ctx (S f) n) with
      (match lookup n ctx with
       | Some (JStr s) => S (list_max (map (tok_height (height ctx f)) (scan 0 s)))
       | _ => 0 end).
    destruct (lookup n ctx) as [[| | | |s| |]|]; try reflexivity.
    f_equal. f_equal. apply map_ext_in. intros [c|m] Hin; [reflexivity|]. cbn [tok_height].
    apply IH. apply le_S_n in H. apply list_max_le in H. rewrite Forall_forall in H.
    exact (H _ (in_map (tok_height (height ctx (S f))) _ _ Hin)).
Qed.

Lemma height_chain ctx : forall f n, height ctx f n = f -> exists l, length l = f /\ chain_from ctx n l.
Proof.
  induction f as [|f IH]; intros n H; [exists []; split; [reflexivity|exact I]|].
  cbn [height] in H. destruct (lookup n ctx) as [[| | | |s| |]|] eqn:El; try discriminate.
  injection H as H. destruct f as [|f'].
  - exists [n]. split; [reflexivity|]. repeat split. exists s; exact El.
  - assert (Hin : In (S f') (map (tok_height (height ctx (S f'))) (scan 0 s))).
    { rewrite <- H at 1. apply list_max_in. rewrite H. discriminate. }
    apply in_map_iff in Hin as ([c|m] & Hm & Hin); [discriminate|]. cbn [tok_height] in Hm.
    destruct (IH m Hm) as (l & Hl & C). exists (n :: l).
    split; [cbn; rewrite Hl; reflexivity|]. split; [reflexivity|]. split; [exists s; exact El|].
    destruct l as [|x r]; [discriminate|]. exists m. split; [exists s; split; assumption|exact C].
Qed.

Lemma acyclic_height_bound ctx n : acyclic ctx -> height ctx (S (length ctx)) n <= length ctx.
Proof.
  intros Ha. pose proof (height_le ctx (S (length ctx)) n) as H1.
  destruct (Nat.eq_dec (height ctx (S (length ctx)) n) (S (length ctx))) as [E|E]; [|lia].
  destruct (height_chain ctx _ n E) as (l & Hl & C). pose proof (chain_short ctx l n Ha C). lia.
Qed.

(* every acyclic context is ranked by the length of the longest chain of references from a variable *)
Lemma acyclic_ranked ctx : acyclic ctx -> ranked ctx (height ctx (length ctx)).
Proof.
  intros Ha. split; [|intros n; apply height_le].
  intros w s n El Hin.
  pose proof (acyclic_height_bound ctx w Ha) as Hb.
  rewrite <- (height_stable ctx (length ctx) w Hb).
  cbn [height] in Hb |- *. rewrite El in Hb |- *.
  apply le_n_S. apply list_max_ge. exact (in_map (tok_height (height ctx (length ctx))) _ (TRef n) Hin).
Qed.

Lemma acyclic_iff_ranked ctx : acyclic ctx <-> exists rank, ranked ctx rank.
Proof.
  split; [intros Ha; exists (height ctx (length ctx)); exact (acyclic_ranked ctx Ha)|].
  intros [rank Hr]. exact (ranked_acyclic ctx rank Hr).
Qed.

(* ------------------------------------------------------------------ concrete contexts (non-vacuity, witnesses) *)
Ltac solve_in H :=
  repeat (destruct H as [H|H]; [try discriminate H; try (injection H as <-; cbn; lia)|]); try destruct H.

Lemma ex_ctx_acyclic : acyclic [("a", JStr "<%(b)s>"); ("b", JStr "B")].
Proof.
  apply (ranked_acyclic _ (fun n => if String.eqb n "a" then 1 else 0)). split.
  - intros w s n El Hin. cbn in El. destruct (String.eqb w "a") eqn:Ea.
    + injection El as <-. vm_compute in Hin. solve_in Hin.
    + destruct (String.eqb w "b"); [|discriminate]. injection El as <-. vm_compute in Hin. solve_in Hin.
  - intros n. cbn. destruct (String.eqb n "a"); lia.
Qed.

(* statically acyclic, but the value of a completes a reference to a itself once b = "%" is substituted *)
Definition np_ctx : alist := [("a", JStr "%(b)s(a)s"); ("b", JStr "%")].

Lemma np_ctx_acyclic : acyclic np_ctx.
Proof.
  apply (ranked_acyclic _ (fun n => if String.eqb n "a" then 1 else 0)). split.
  - intros w s n El Hin. unfold np_ctx in El. cbn in El. destruct (String.eqb w "a") eqn:Ea.
    + injection El as <-. vm_compute in Hin. solve_in Hin.
    + destruct (String.eqb w "b"); [|discriminate]. injection El as <-. vm_compute in Hin. solve_in Hin.
  - intros n. cbn. destruct (String.eqb n "a"); lia.
Qed.

Lemma self_ctx_cyclic : ~ acyclic [("a", JStr "%(a)s")].
Proof.
  intros H. apply (H "a"). apply t_step. exists "%(a)s". split; [reflexivity|]. vm_compute. left. reflexivity.
Qed.
