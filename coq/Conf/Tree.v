(* C04 — from strings to trees (FlowIR.fill_in), and the conversion table as a whole *)
From Coq Require Import String Ascii List Bool ZArith Arith Lia.
Import ListNotations.
Require Import V.Lib.PyStr V.Lib.JTree V.Conf.Model V.Conf.Proofs V.Conf.Rescan V.Conf.RescanProofs.
Open Scope string_scope.
Open Scope list_scope.

(* ------------------------------------------------------------------ induction over jv *)
Section JvInd.
  Variable P : jv -> Prop.
  Hypothesis Hnull : P JNull.
  Hypothesis Hbool : forall b, P (JBool b).
  Hypothesis Hint : forall z, P (JInt z).
  Hypothesis Hflt : forall r, P (JFlt r).
  Hypothesis Hstr : forall s, P (JStr s).
  Hypothesis Hlist : forall l, Forall P l -> P (JList l).
  Hypothesis Hdict : forall m, Forall (fun kv : string * jv => P (snd kv)) m -> P (JDict m).

  Fixpoint jv_rect' (v : jv) : P v :=
    match v with
    | JNull => Hnull
    | JBool b => Hbool b
    | JInt z => Hint z
    | JFlt r => Hflt r
    | JStr s => Hstr s
    | JList l => Hlist l ((fix go (l : list jv) : Forall P l :=
                             match l with
                             | [] => Forall_nil _
                             | x :: r => Forall_cons x (jv_rect' x) (go r)
                             end) l)
    | JDict m => Hdict m ((fix go (m : list (string * jv)) : Forall (fun kv => P (snd kv)) m :=
                             match m with
                             | [] => Forall_nil _
                             | kv :: r => Forall_cons kv (jv_rect' (snd kv)) (go r)
                             end) m)
    end.
End JvInd.

(* the string leaves of a tree, in the order fill_in visits them *)
Fixpoint leaves (v : jv) : list string :=
  match v with
  | JStr s => [s]
  | JList l => (fix go (l : list jv) : list string :=
                  match l with [] => [] | x :: r => leaves x ++ go r end) l
  | JDict m => (fix go (m : list (string * jv)) : list string :=
                  match m with [] => [] | (_, x) :: r => leaves x ++ go r end) m
  | _ => []
  end.

Definition leaves_list (l : list jv) : list string := flat_map leaves l.
Definition leaves_dict (m : list (string * jv)) : list string := flat_map (fun kv => leaves (snd kv)) m.

Lemma leaves_JList l : leaves (JList l) = leaves_list l.
Proof. cbn [leaves]. induction l as [|x r IH]; [reflexivity|]. cbn [leaves_list flat_map]. rewrite IH. reflexivity. Qed.

Lemma leaves_JDict m : leaves (JDict m) = leaves_dict m.
Proof.
  cbn [leaves]. induction m as [|[k x] r IH]; [reflexivity|]. cbn [leaves_dict flat_map snd]. rewrite IH. reflexivity.
Qed.

Definition map_list (g : jv -> res jv) : list jv -> res (list jv) :=
  fix go (l : list jv) : res (list jv) :=
    match l with
    | [] => Ok []
    | x :: r => rbind (g x) (fun x' => rmap (cons x') (go r))
    end.

Definition map_dict (g : jv -> res jv) : list (string * jv) -> res (list (string * jv)) :=
  fix go (m : list (string * jv)) : res (list (string * jv)) :=
    match m with
    | [] => Ok []
    | (k, x) :: r => rbind (g x) (fun x' => rmap (cons (k, x')) (go r))
    end.

Lemma map_tree_JList f l : map_tree f (JList l) = rmap JList (map_list (map_tree f) l).
Proof. reflexivity. Qed.
Lemma map_tree_JDict f m : map_tree f (JDict m) = rmap JDict (map_dict (map_tree f) m).
Proof. reflexivity. Qed.

(* the one-pass fill_in of Model.v is the instance of map_tree *)
Lemma interp_tree_map_tree ctx : forall v, interp_tree ctx v = map_tree (interp_string ctx) v.
Proof.
  apply jv_rect'; try reflexivity.
  - intros l H. cbn [interp_tree map_tree]. f_equal.
    induction H as [|x r Hx _ IH]; [reflexivity|]. rewrite Hx, IH. reflexivity.
  - intros m H. cbn [interp_tree map_tree]. f_equal.
    induction H as [|[k x] r Hx _ IH]; [reflexivity|]. cbn [snd] in Hx. rewrite Hx, IH. reflexivity.
Qed.

Lemma resolve_with_one_pass dflt d files p stage name :
  resolve_with interp_string dflt d files p stage name = resolve dflt d files p stage name.
Proof.
  unfold resolve_with, resolve. destruct (find_comp d stage name); [|reflexivity].
  destruct (user_vars files); [|reflexivity]. destruct (view dflt d j0 p stage j) as [ols vls].
  unfold resolve_layers_with, resolve_layers. destruct (merged_of ols vls); [|reflexivity].
  destruct (inject_all dflt j1); [|reflexivity]. rewrite interp_tree_map_tree. reflexivity.
Qed.

(* ------------------------------------------------------------------ success: leaf by leaf *)
Section MapTree.
  Variable f : string -> res string.

  Definition ok_pair (s t : string) : Prop := f s = Ok t.
  (* e is the error of the first failing leaf of l *)
  Definition first_err (l : list string) (e : err) : Prop :=
    exists l1 s l2, l = l1 ++ s :: l2 /\ (forall x, In x l1 -> exists t, f x = Ok t) /\ f s = Err e.

  Lemma first_err_app_l l l' e : first_err l e -> first_err (l ++ l') e.
  Proof.
    intros (l1 & s & l2 & E & A & F). exists l1, s, (l2 ++ l'). subst l. rewrite <- app_assoc. repeat split; assumption.
  Qed.

  Lemma first_err_app_r l l' e : (forall x, In x l -> exists t, f x = Ok t) -> first_err l' e -> first_err (l ++ l') e.
  Proof.
    intros Hl (l1 & s & l2 & E & A & F). exists (l ++ l1), s, l2. subst l'. rewrite <- app_assoc.
    repeat split; try assumption. intros x Hx. apply in_app_or in Hx as [Hx|Hx]; [exact (Hl x Hx)|exact (A x Hx)].
  Qed.

  Lemma Forall2_ok_left l l' : Forall2 ok_pair l l' -> forall x, In x l -> exists t, f x = Ok t.
  Proof.
    induction 1 as [|s t l l' Hst _ IH]; intros x Hx; [destruct Hx|].
    destruct Hx as [<-|Hx]; [exists t; exact Hst|exact (IH x Hx)].
  Qed.

  Lemma Forall2_ok_right l l' : Forall2 ok_pair l l' -> forall t, In t l' -> exists s, In s l /\ f s = Ok t.
  Proof.
    induction 1 as [|s t0 l l' Hst _ IH]; intros t Ht; [destruct Ht|].
    destruct Ht as [<-|Ht]; [exists s; split; [left; reflexivity|exact Hst]|].
    destruct (IH t Ht) as (s' & I1 & I2). exists s'. split; [right; exact I1|exact I2].
  Qed.

  Definition tree_spec (v : jv) : Prop :=
    (forall v', map_tree f v = Ok v' -> Forall2 ok_pair (leaves v) (leaves v')) /\
    (forall e, map_tree f v = Err e -> first_err (leaves v) e).

  Lemma map_tree_spec : forall v, tree_spec v.
  Proof.
    apply jv_rect'; unfold tree_spec.
    1-4: (intros; split; [intros v' H; injection H as <-; constructor|intros e H; discriminate]).
    - intros s. cbn [map_tree leaves]. split.
      + intros v' H. destruct (f s) as [t|e0] eqn:E; [|discriminate]. injection H as <-.
        constructor; [exact E|constructor].
      + intros e H. destruct (f s) as [t|e0] eqn:E; [discriminate|]. injection H as <-.
        exists [], s, []. repeat split; [intros x []|exact E].
    - intros l Hl. rewrite map_tree_JList, leaves_JList.
      assert (G : (forall l', map_list (map_tree f) l = Ok l' -> Forall2 ok_pair (leaves_list l) (leaves_list l')) /\
                  (forall e, map_list (map_tree f) l = Err e -> first_err (leaves_list l) e)).
      { induction Hl as [|x r [Hx1 Hx2] _ [I1 I2]]; cbn [map_list leaves_list flat_map].
        - split; [intros l' H; injection H as <-; constructor|intros e H; discriminate].
        - fold (map_list (map_tree f) r). fold (leaves_list r). split.
          + intros l' H. destruct (map_tree f x) as [x'|e0]; [|discriminate]. cbn [rbind] in H.
            destruct (map_list (map_tree f) r) as [r'|e1]; [|discriminate]. injection H as <-.
            cbn [leaves_list flat_map]. apply Forall2_app; [exact (Hx1 x' eq_refl)|exact (I1 r' eq_refl)].
          + intros e H. destruct (map_tree f x) as [x'|e0].
            * cbn [rbind] in H. destruct (map_list (map_tree f) r) as [r'|e1]; [discriminate|]. injection H as <-.
              apply first_err_app_r; [exact (Forall2_ok_left _ _ (Hx1 x' eq_refl))|exact (I2 e1 eq_refl)].
            * injection H as <-. apply first_err_app_l. exact (Hx2 e0 eq_refl). }
      destruct G as [G1 G2]. split.
      + intros v' H. destruct (map_list (map_tree f) l) as [l'|e0]; [|discriminate]. injection H as <-.
        rewrite leaves_JList. exact (G1 l' eq_refl).
      + intros e H. destruct (map_list (map_tree f) l) as [l'|e0]; [discriminate|]. injection H as <-.
        exact (G2 e0 eq_refl).
    - intros m Hm. rewrite map_tree_JDict, leaves_JDict.
      assert (G : (forall m', map_dict (map_tree f) m = Ok m' -> Forall2 ok_pair (leaves_dict m) (leaves_dict m')) /\
                  (forall e, map_dict (map_tree f) m = Err e -> first_err (leaves_dict m) e)).
      { induction Hm as [|[k x] r [Hx1 Hx2] _ [I1 I2]]; cbn [map_dict leaves_dict flat_map snd] in *.
        - split; [intros m' H; injection H as <-; constructor|intros e H; discriminate].
        - fold (map_dict (map_tree f) r). fold (leaves_dict r). split.
          + intros m' H. destruct (map_tree f x) as [x'|e0]; [|discriminate]. cbn [rbind] in H.
            destruct (map_dict (map_tree f) r) as [r'|e1]; [|discriminate]. injection H as <-.
            cbn [leaves_dict flat_map snd]. apply Forall2_app; [exact (Hx1 x' eq_refl)|exact (I1 r' eq_refl)].
          + intros e H. destruct (map_tree f x) as [x'|e0].
            * cbn [rbind] in H. destruct (map_dict (map_tree f) r) as [r'|e1]; [discriminate|]. injection H as <-.
              apply first_err_app_r; [exact (Forall2_ok_left _ _ (Hx1 x' eq_refl))|exact (I2 e1 eq_refl)].
            * injection H as <-. apply first_err_app_l. exact (Hx2 e0 eq_refl). }
      destruct G as [G1 G2]. split.
      + intros v' H. destruct (map_dict (map_tree f) m) as [m'|e0]; [|discriminate]. injection H as <-.
        rewrite leaves_JDict. exact (G1 m' eq_refl).
      + intros e H. destruct (map_dict (map_tree f) m) as [m'|e0]; [discriminate|]. injection H as <-.
        exact (G2 e0 eq_refl).
  Qed.

  (* every string leaf of the result is the interpolation of a leaf of the input *)
  Lemma map_tree_ok_leaf v v' : map_tree f v = Ok v' ->
    forall t, In t (leaves v') -> exists s, In s (leaves v) /\ f s = Ok t.
  Proof. intros H. exact (Forall2_ok_right _ _ (proj1 (map_tree_spec v) v' H)). Qed.

  Lemma map_tree_ok_all v v' : map_tree f v = Ok v' -> forall s, In s (leaves v) -> exists t, f s = Ok t.
  Proof. intros H. exact (Forall2_ok_left _ _ (proj1 (map_tree_spec v) v' H)). Qed.

  Lemma map_tree_err_leaf v e : map_tree f v = Err e -> first_err (leaves v) e.
  Proof. exact (proj2 (map_tree_spec v) e). Qed.
End MapTree.
