(* C04 — lemmas: precedence of the layered merge, independence from other platforms, interpolation, typed leaves *)
From Coq Require Import String Ascii List Bool ZArith Arith Lia.
Import ListNotations.
Require Import V.Lib.PyStr V.Lib.JTree V.Conf.Model.
Open Scope string_scope.

(* ================================================================== A. dictionaries *)
Lemma lookup_set_key {A} k k' (v : A) m :
  lookup k (set_key k' v m) = if String.eqb k k' then Some v else lookup k m.
Proof.
  induction m as [|[k0 v0] r IH]; cbn.
  - destruct (String.eqb k k'); reflexivity.
  - destruct (String.eqb k' k0) eqn:E0; cbn.
    + apply String.eqb_eq in E0; subst k0. destruct (String.eqb k k'); reflexivity.
    + destruct (String.eqb k k0) eqn:E1.
      * apply String.eqb_eq in E1; subst k0.
        destruct (String.eqb k k') eqn:E2; [|reflexivity].
        apply String.eqb_eq in E2; subst k'. rewrite String.eqb_refl in E0. discriminate.
      * exact IH.
Qed.

Lemma lookup_update k a b :
  lookup k (update a b) = match lookup k b with Some v => Some v | None => lookup k a end.
Proof.
  unfold update. induction b as [|[k0 v0] r IH]; cbn; [reflexivity|].
  rewrite lookup_set_key. destruct (String.eqb k k0); [reflexivity|exact IH].
Qed.

(* the first layer (in list order) for which f answers *)
Fixpoint first_some {A B} (f : A -> option B) (l : list A) : option B :=
  match l with
  | [] => None
  | x :: r => match f x with Some v => Some v | None => first_some f r end
  end.

Lemma first_some_app {A B} (f : A -> option B) l1 l2 :
  first_some f (l1 ++ l2) = match first_some f l1 with Some v => Some v | None => first_some f l2 end.
Proof. induction l1 as [|x r IH]; cbn; [reflexivity|]. destruct (f x); [reflexivity|exact IH]. Qed.

Lemma fold_update_lookup k layers acc :
  lookup k (fold_left update layers acc) =
  match first_some (lookup k) (rev layers) with Some v => Some v | None => lookup k acc end.
Proof.
  revert acc; induction layers as [|l r IH]; intros acc; cbn; [reflexivity|].
  rewrite IH, first_some_app. cbn. rewrite lookup_update.
  destruct (first_some (lookup k) (rev r)); [reflexivity|]. destruct (lookup k l); reflexivity.
Qed.

(* variables: the value of a variable is that of the highest-priority layer defining it *)
Lemma layer_vars_precedence k layers :
  lookup k (layer_vars layers) = first_some (lookup k) (rev layers).
Proof.
  unfold layer_vars. rewrite fold_update_lookup. destruct (first_some (lookup k) (rev layers)); reflexivity.
Qed.

(* ================================================================== B. override_object *)
(* the local fixpoint of JTree.override as a top-level function *)
Fixpoint merge_go (mn mo : list (string * jv)) : option (list (string * jv)) :=
  match mo with
  | [] => Some []
  | (k, v) :: r =>
      match lookup k mn with
      | Some v' => match override v v', merge_go mn r with
                   | Some x, Some y => Some ((k, x) :: y)
                   | _, _ => None
                   end
      | None => option_map (cons (k, v)) (merge_go mn r)
      end
  end.

Definition novel (mo mn : list (string * jv)) := filter (fun kv : string * jv => negb (has_key (fst kv) mo)) mn.

Lemma override_dict_dict mo e mn :
  override (JDict mo) (JDict (e :: mn)) =
  match merge_go (e :: mn) mo with
  | Some l => Some (JDict (l ++ novel mo (e :: mn)))
  | None => None
  end.
Proof.
  cbn [override falsy].
  match goal with |- match ?F mo with _ => _ end = _ => assert (H : forall m, F m = merge_go (e :: mn) m) end.
  { induction m as [|[k v] r IH]; [reflexivity|]. cbn [merge_go]. rewrite <- IH. reflexivity. }
  rewrite H. reflexivity.
Qed.

Lemma lookup_app {A} k (l1 l2 : list (string * A)) :
  lookup k (l1 ++ l2) = match lookup k l1 with Some v => Some v | None => lookup k l2 end.
Proof.
  induction l1 as [|[k0 v0] r IH]; cbn; [reflexivity|]. destruct (String.eqb k k0); [reflexivity|exact IH].
Qed.

Lemma lookup_filter_key {A} (P : string -> bool) k (m : list (string * A)) :
  lookup k (filter (fun kv => P (fst kv)) m) = if P k then lookup k m else None.
Proof.
  induction m as [|[k0 v0] r IH]; cbn; [destruct (P k); reflexivity|].
  destruct (P k0) eqn:E0; cbn.
  - destruct (String.eqb k k0) eqn:E1.
    + apply String.eqb_eq in E1; subst k0. rewrite E0. reflexivity.
    + exact IH.
  - destruct (String.eqb k k0) eqn:E1.
    + apply String.eqb_eq in E1; subst k0. rewrite E0 in *. exact IH.
    + exact IH.
Qed.

Lemma merge_go_lookup mn : forall mo l k, merge_go mn mo = Some l ->
  lookup k l = match lookup k mo with
               | Some x => match lookup k mn with Some y => override x y | None => Some x end
               | None => None
               end.
Proof.
  induction mo as [|[k0 v0] r IH]; intros l k H; cbn in H.
  - injection H as <-. reflexivity.
  - destruct (lookup k0 mn) as [v'|] eqn:Ek0.
    + destruct (override v0 v') as [x|] eqn:Eo; [|discriminate].
      destruct (merge_go mn r) as [y|] eqn:Eg; [|discriminate].
      injection H as <-. cbn. destruct (String.eqb k k0) eqn:E.
      * apply String.eqb_eq in E; subst k0. rewrite Ek0. symmetry; exact Eo.
      * apply IH. reflexivity.
    + destruct (merge_go mn r) as [y|] eqn:Eg; [|discriminate]. cbn in H.
      injection H as <-. cbn. destruct (String.eqb k k0) eqn:E.
      * apply String.eqb_eq in E; subst k0. rewrite Ek0. reflexivity.
      * apply IH. reflexivity.
Qed.

Lemma merge_go_override_ok mn : forall mo l k x y, merge_go mn mo = Some l ->
  lookup k mo = Some x -> lookup k mn = Some y -> override x y <> None.
Proof.
  induction mo as [|[k0 v0] r IH]; intros l k x y H Ex Ey; [discriminate|].
  cbn in H, Ex. destruct (String.eqb k k0) eqn:E.
  - apply String.eqb_eq in E; subst k0. injection Ex as ->. rewrite Ey in H.
    destruct (override x y); [discriminate|]. discriminate.
  - destruct (lookup k0 mn) as [v'|].
    + destruct (override v0 v'); [|discriminate]. destruct (merge_go mn r) as [y'|] eqn:Eg; [|discriminate].
      eapply IH; eauto.
    + destruct (merge_go mn r) as [y'|] eqn:Eg; [|discriminate]. eapply IH; eauto.
Qed.

Lemma merged_lookup mo mn l k : merge_go mn mo = Some l ->
  lookup k (l ++ novel mo mn) =
  match lookup k mo, lookup k mn with
  | Some x, Some y => override x y
  | Some x, None => Some x
  | None, o => o
  end.
Proof.
  intros H. rewrite lookup_app, (merge_go_lookup mn mo l k H).
  unfold novel. rewrite (lookup_filter_key (fun k => negb (has_key k mo))). unfold has_key.
  destruct (lookup k mo) as [x|] eqn:Eo.
  - destruct (lookup k mn) as [y|] eqn:En; [|reflexivity].
    destruct (override x y) eqn:Ex; [reflexivity|].
    exfalso. exact (merge_go_override_ok mn mo l k x y H Eo En Ex).
  - cbn. reflexivity.
Qed.

(* "no dictionary here" and "value here, null counting as absent" *)
Definition nodict (o : option jv) : Prop := match o with Some (JDict _) => False | _ => True end.
Definition denull (o : option jv) : option jv := match o with Some JNull => None | _ => o end.
Definition val (pi : list string) (v : jv) : option jv := denull (get_path pi v).

Lemma get_path_cons_dict k pi m :
  get_path (k :: pi) (JDict m) = match lookup k m with Some w => get_path pi w | None => None end.
Proof. reflexivity. Qed.

Lemma get_path_cons_nondict k pi v : (forall m, v <> JDict m) -> get_path (k :: pi) v = None.
Proof. intros H. destruct v; try reflexivity. exfalso; eapply H; reflexivity. Qed.

Definition pick (nb oa : option jv) : option jv := match nb with Some x => Some x | None => oa end.

(* one application of override_object, observed at a path at which the lower value is not a dictionary *)
Lemma override_path : forall pi a b r,
  override a b = Some r -> nodict (get_path pi a) ->
  val pi r = pick (val pi b) (val pi a) /\ (nodict (get_path pi b) -> nodict (get_path pi r)).
Proof.
  induction pi as [|k pi IH]; intros a b r H Ha.
  - (* at the end of the path the lower value is a scalar, a list or null *)
    cbn in Ha. destruct a; try contradiction; cbn in H.
    all: destruct b; injection H as <-; cbn; split; auto.
  - destruct a as [| | | | | |mo].
    1-6: (cbn in H; destruct b; injection H as <-; unfold val; cbn; split; auto;
          try (destruct (lookup k m) as [w|]; [destruct (get_path pi w) as [[]|]|]; reflexivity)).
    (* lower value is a dictionary *)
    assert (Hf : falsy b = true -> val (k :: pi) b = None).
    { unfold val. destruct b; cbn; try reflexivity; try discriminate.
      destruct m; [reflexivity|discriminate]. }
    destruct (falsy b) eqn:Efb.
    + assert (r = JDict mo) as ->.
      { destruct b; cbn in H, Efb; try rewrite Efb in H; try (injection H as <-; reflexivity); try discriminate.
        all: try (destruct m; [injection H as <-; reflexivity|discriminate]). }
      rewrite (Hf eq_refl). split; [reflexivity|intros _; exact Ha].
    + destruct b as [| | | | | |mn]; cbn in H, Efb; try rewrite Efb in H; try discriminate.
      destruct mn as [|e mn]; [discriminate|].
      change (override (JDict mo) (JDict (e :: mn)) = Some r) in H.
      rewrite override_dict_dict in H.
      destruct (merge_go (e :: mn) mo) as [l|] eqn:Eg; [|discriminate].
      assert (Hr : r = JDict (l ++ novel mo (e :: mn))) by (injection H as <-; reflexivity).
      subst r. clear H.
      unfold val. rewrite !get_path_cons_dict. rewrite (merged_lookup mo (e :: mn) l k Eg).
      rewrite get_path_cons_dict in Ha.
      destruct (lookup k mo) as [x|] eqn:Ex; destruct (lookup k (e :: mn)) as [y|] eqn:Ey.
      * destruct (override x y) as [w|] eqn:Ew.
        -- destruct (IH x y w Ew Ha) as [I1 I2]. unfold val in I1. split; assumption.
        -- exfalso. exact (merge_go_override_ok (e :: mn) mo l k x y Eg Ex Ey Ew).
      * split; [|intros _; exact Ha]. unfold pick. destruct (denull (get_path pi x)); reflexivity.
      * split; [|intros Hb; exact Hb]. unfold pick. destruct (denull (get_path pi y)); reflexivity.
      * split; [reflexivity|exact (fun _ => I)].
Qed.

Lemma fold_override_none layers : fold_override None layers = None.
Proof. induction layers as [|l r IH]; [reflexivity|exact IH]. Qed.

Lemma fold_override_path pi : forall layers acc r,
  fold_override (Some acc) layers = Some r ->
  nodict (get_path pi acc) -> Forall (fun l => nodict (get_path pi l)) layers ->
  val pi r = pick (first_some (val pi) (rev layers)) (val pi acc) /\ nodict (get_path pi r).
Proof.
  induction layers as [|l ls IH]; intros acc r H Ha Hl.
  - cbn in H. injection H as <-. split; [reflexivity|exact Ha].
  - change (fold_override (override acc l) ls = Some r) in H.
    destruct (override acc l) as [a'|] eqn:Eo; [|rewrite fold_override_none in H; discriminate].
    inversion Hl as [|? ? Hl1 Hl2]; subst.
    destruct (override_path pi acc l a' Eo Ha) as [P1 P2].
    destruct (IH a' r H (P2 Hl1) Hl2) as [Q1 Q2]. split; [|exact Q2].
    rewrite Q1. cbn [rev]. rewrite first_some_app. cbn [first_some]. rewrite P1.
    destruct (first_some (val pi) (rev ls)); [reflexivity|]. unfold pick. destruct (val pi l); reflexivity.
Qed.

(* options: the layered merge IS the per-option priority lookup *)
Lemma fold_override_precedence layers r k pi :
  fold_override (Some (JDict [])) layers = Some r ->
  Forall (fun l => nodict (get_path (k :: pi) l)) layers ->
  val (k :: pi) r = first_some (val (k :: pi)) (rev layers).
Proof.
  intros H Hl. destruct (fold_override_path (k :: pi) layers (JDict []) r H I Hl) as [P _].
  rewrite P. unfold pick. destruct (first_some (val (k :: pi)) (rev layers)); reflexivity.
Qed.

(* the precedence statements about the configuration that raw=True returns *)
Lemma resolve_raw_precedence dflt d files p stage name c u m :
  find_comp d stage name = Some c -> user_vars files = Some u ->
  resolve_raw dflt d files p stage name = Ok m ->
  (forall k pi, k <> "variables" ->
     Forall (fun l => nodict (get_path (k :: pi) l)) (opt_layers dflt d p (zrepr stage) c) ->
     val (k :: pi) m = first_some (val (k :: pi)) (rev (opt_layers dflt d p (zrepr stage) c)))
  /\ (forall v, get_path ["variables"; v] m = first_some (lookup v) (rev (var_layers d u p (zrepr stage) c))).
Proof.
  intros Hc Hu H. unfold resolve_raw in H. rewrite Hc, Hu in H. unfold view, merged_of in H.
  destruct (fold_override (Some (JDict [])) (opt_layers dflt d p (zrepr stage) c)) as [[| | | | | |m0]|] eqn:Ef;
    try discriminate.
  injection H as <-. split.
  - intros k pi Hk Hl. rewrite <- (fold_override_precedence _ _ k pi Ef Hl).
    unfold val. rewrite !get_path_cons_dict, lookup_set_key.
    destruct (String.eqb k "variables") eqn:E; [apply String.eqb_eq in E; contradiction|reflexivity].
  - intros v. rewrite get_path_cons_dict, lookup_set_key, String.eqb_refl.
    cbn [get_path]. rewrite layer_vars_precedence. destruct (first_some (lookup v) _); reflexivity.
Qed.

(* ================================================================== C. no leak between platforms *)
Definition same_for (p sk : string) (d d' : doc) : Prop :=
  forall P, P = "default" \/ P = p ->
    get_path [P; "global"] (d_blueprint d) = get_path [P; "global"] (d_blueprint d') /\
    get_path [P; "stages"; sk] (d_blueprint d) = get_path [P; "stages"; sk] (d_blueprint d') /\
    get_path [P; "global"] (d_variables d) = get_path [P; "global"] (d_variables d') /\
    get_path [P; "stages"; sk] (d_variables d) = get_path [P; "stages"; sk] (d_variables d').

Definition comp_same (p : string) (c c' : jv) : Prop :=
  comp_layer c = comp_layer c' /\ get_path ["variables"] c = get_path ["variables"] c' /\
  get_path ["override"; p] c = get_path ["override"; p] c'.

Lemma get_path_app p1 p2 v :
  get_path (p1 ++ p2) v = match get_path p1 v with Some w => get_path p2 w | None => None end.
Proof.
  revert v; induction p1 as [|k r IH]; intros v; [reflexivity|].
  cbn. destruct v; try reflexivity. destruct (lookup k m); [apply IH|reflexivity].
Qed.

Lemma view_no_leak dflt d d' u p stage c c' :
  same_for p (zrepr stage) d d' -> comp_same p c c' ->
  view dflt d u p stage c = view dflt d' u p stage c'.
Proof.
  intros Hs (C1 & C2 & C3).
  destruct (Hs "default" (or_introl eq_refl)) as (A1 & A2 & A3 & A4).
  destruct (Hs p (or_intror eq_refl)) as (B1 & B2 & B3 & B4).
  assert (C4 : get_path ["override"; p; "variables"] c = get_path ["override"; p; "variables"] c').
  { change ["override"; p; "variables"] with ((["override"; p] ++ ["variables"])%list). rewrite !get_path_app, C3. reflexivity. }
  unfold view, opt_layers, var_layers, bp_global, bp_stage, vars_global, vars_stage, comp_override, get_or.
  rewrite A1, A2, A3, A4, B1, B2, B3, B4, C1, C2, C3, C4. reflexivity.
Qed.

Lemma resolve_no_leak dflt d d' files p stage name c c' :
  find_comp d stage name = Some c -> find_comp d' stage name = Some c' ->
  same_for p (zrepr stage) d d' -> comp_same p c c' ->
  resolve dflt d files p stage name = resolve dflt d' files p stage name /\
  resolve_raw dflt d files p stage name = resolve_raw dflt d' files p stage name.
Proof.
  intros H1 H2 Hs Hc. unfold resolve, resolve_raw. rewrite H1, H2.
  destruct (user_vars files) as [u|]; [|split; reflexivity].
  rewrite (view_no_leak dflt d d' u p stage c c' Hs Hc). split; reflexivity.
Qed.

(* ================================================================== D. interpolation *)
Lemma finish_str_err r e : finish_str r = Err e -> e = EIncomplete \/ r = Err e.
Proof.
  destruct r as [t|e0]; cbn; [|intros H; right; exact H].
  destruct (has_incomplete t); [|discriminate]. intros H. injection H as <-. left; reflexivity.
Qed.

Lemma finish_str_ok r t : finish_str r = Ok t -> r = Ok t.
Proof.
  destruct r as [t0|e0]; cbn; [|discriminate]. destruct (has_incomplete t0); [discriminate|]. exact (fun H => H).
Qed.

Lemma subst_toks_err rv top ts e : subst_toks rv top ts = Err e ->
  (e = EScope /\ top = false) \/ exists n, In (TRef n) ts /\ dotted n = false /\ rv n = Err e.
Proof.
  induction ts as [|[c|n] r IH]; cbn [subst_toks]; intros H.
  - discriminate.
  - destruct (subst_toks rv top r) as [t|e0]; cbn in H; [discriminate|]. injection H as ->.
    destruct (IH eq_refl) as [L|(n & I1 & I2 & I3)]; [left; exact L|right; exists n; cbn; auto].
  - destruct (dotted n) eqn:Ed.
    + destruct top.
      * destruct (subst_toks rv true r) as [t|e0]; cbn in H; [discriminate|]. injection H as ->.
        destruct (IH eq_refl) as [L|(n' & I1 & I2 & I3)]; [left; exact L|right; exists n'; cbn; auto].
      * injection H as <-. left; split; reflexivity.
    + destruct (rv n) as [v|e0] eqn:Ev; cbn in H.
      * destruct (subst_toks rv top r) as [t|e1]; cbn in H; [discriminate|]. injection H as ->.
        destruct (IH eq_refl) as [L|(n' & I1 & I2 & I3)]; [left; exact L|right; exists n'; cbn; auto].
      * injection H as ->. right. exists n. cbn. auto.
Qed.

Lemma subst_toks_ok rv top ts t : subst_toks rv top ts = Ok t ->
  forall n, In (TRef n) ts -> dotted n = false -> exists v, rv n = Ok v.
Proof.
  revert t; induction ts as [|[c|n0] r IH]; cbn [subst_toks]; intros t H n Hin Hd.
  - destruct Hin.
  - destruct (subst_toks rv top r) as [t0|e0]; cbn in H; [|discriminate].
    destruct Hin as [Hin|Hin]; [discriminate|]. eapply IH; eauto.
  - destruct (dotted n0) eqn:Ed.
    + destruct top; [|discriminate].
      destruct (subst_toks rv true r) as [t0|e0]; cbn in H; [|discriminate].
      destruct Hin as [Hin|Hin]; [injection Hin as ->; congruence|]. eapply IH; eauto.
    + destruct (rv n0) as [v|e0] eqn:Ev; cbn in H; [|discriminate].
      destruct (subst_toks rv top r) as [t0|e1]; cbn in H; [|discriminate].
      destruct Hin as [Hin|Hin]; [injection Hin as <-; exists v; exact Ev|]. eapply IH; eauto.
Qed.

(* an "unknown variable" error names a variable that is undefined and is referenced by the string being
   resolved or by the value of some variable *)
Lemma resolve_var_unknown ctx : forall fuel n v, resolve_var fuel ctx n = Err (EUnknown v) ->
  lookup v ctx = None /\ (v = n \/ exists w s, lookup w ctx = Some (JStr s) /\ In (TRef v) (scan 0 s)).
Proof.
  induction fuel as [|f IH]; intros n v H; cbn in H; [discriminate|].
  destruct (lookup n ctx) as [[| | | |s| |]|] eqn:El; try discriminate.
  - destruct (finish_str_err _ _ H) as [E|E]; [discriminate|].
    destruct (subst_toks_err _ _ _ _ E) as [[E1 _]|(n' & I1 & I2 & I3)]; [discriminate|].
    destruct (IH n' v I3) as [U [E1|R]].
    + subst n'. split; [exact U|]. right. exists n, s. split; assumption.
    + split; [exact U|right; exact R].
  - injection H as <-. split; [exact El|left; reflexivity].
Qed.

Lemma interp_string_unknown ctx s v : interp_string ctx s = Err (EUnknown v) ->
  lookup v ctx = None /\
  (In (TRef v) (scan 0 s) \/ exists w s', lookup w ctx = Some (JStr s') /\ In (TRef v) (scan 0 s')).
Proof.
  unfold interp_string. intros H.
  destruct (finish_str_err _ _ H) as [E|E]; [discriminate|].
  destruct (subst_toks_err _ _ _ _ E) as [[E1 _]|(n' & I1 & I2 & I3)]; [discriminate|].
  destruct (resolve_var_unknown ctx _ n' v I3) as [U [E1|R]].
  - subst n'. split; [exact U|left; exact I1].
  - split; [exact U|right; exact R].
Qed.

(* a successful resolution never passed over a reference to an undefined variable *)
Lemma interp_string_ok_defined ctx s t : interp_string ctx s = Ok t ->
  forall n, In (TRef n) (scan 0 s) -> dotted n = false -> lookup n ctx <> None.
Proof.
  unfold interp_string. intros H n Hin Hd.
  apply finish_str_ok in H. destruct (subst_toks_ok _ _ _ _ H n Hin Hd) as [v Hv].
  unfold fuel_of in Hv. cbn in Hv. intros E. rewrite E in Hv. discriminate.
Qed.

(* a ranking of the variables that decreases along references excludes the cycle error *)
Lemma resolve_var_no_cycle ctx (rank : string -> nat) :
  (forall w s n', lookup w ctx = Some (JStr s) -> In (TRef n') (scan 0 s) -> rank n' < rank w) ->
  forall fuel n, rank n < fuel -> resolve_var fuel ctx n <> Err ECycle.
Proof.
  intros Hr. induction fuel as [|f IH]; intros n Hn H; [lia|]. cbn in H.
  destruct (lookup n ctx) as [[| | | |s| |]|] eqn:El; try discriminate.
  destruct (finish_str_err _ _ H) as [E|E]; [discriminate|].
  destruct (subst_toks_err _ _ _ _ E) as [[E1 _]|(n' & I1 & I2 & I3)]; [discriminate|].
  apply (IH n'); [|exact I3]. specialize (Hr n s n' El I1). lia.
Qed.

Lemma interp_string_no_cycle ctx (rank : string -> nat) s :
  (forall w s n', lookup w ctx = Some (JStr s) -> In (TRef n') (scan 0 s) -> rank n' < rank w) ->
  (forall n, rank n <= length ctx) ->
  interp_string ctx s <> Err ECycle.
Proof.
  intros Hr Hb H. unfold interp_string in H.
  destruct (finish_str_err _ _ H) as [E|E]; [discriminate|].
  destruct (subst_toks_err _ _ _ _ E) as [[E1 _]|(n' & I1 & I2 & I3)]; [discriminate|].
  apply (resolve_var_no_cycle ctx rank Hr (fuel_of ctx) n'); [|exact I3]. unfold fuel_of. specialize (Hb n'). lia.
Qed.

(* ---- nothing is left to resolve *)
Definition not_pct (c : ascii) : bool := negb (Ascii.eqb c "%").
Definition no_pct (s : string) : Prop := all_chars not_pct s = true.

Lemma no_pct_app a b : no_pct a -> no_pct b -> no_pct (a ++ b).
Proof.
  unfold no_pct. induction a as [|c a IH]; cbn; intros Ha Hb; [exact Hb|].
  apply andb_true_iff in Ha as [H1 H2]. rewrite H1. cbn. apply IH; assumption.
Qed.

Lemma no_pct_uint u : no_pct (DecimalString.NilEmpty.string_of_uint u).
Proof. unfold no_pct. induction u; cbn; try rewrite IHu; reflexivity. Qed.

Lemma no_pct_dec n : no_pct (dec n).
Proof.
  unfold dec, DecimalString.NilZero.string_of_uint. destruct (N.to_uint n); try reflexivity; apply no_pct_uint.
Qed.

Lemma no_pct_zrepr z : no_pct (zrepr z).
Proof. unfold zrepr. destruct (z <? 0)%Z; [apply no_pct_app; [reflexivity|]|]; apply no_pct_dec. Qed.

Definition lits_plain (ts : list tok) : Prop := forall c, In (TChr c) ts -> not_pct c = true.
Definition no_dotted (ts : list tok) : Prop := forall n, In (TRef n) ts -> dotted n = false.

Lemma subst_toks_no_pct rv top ts :
  (forall n v, rv n = Ok v -> no_pct v) -> lits_plain ts -> (top = true -> no_dotted ts) ->
  forall t, subst_toks rv top ts = Ok t -> no_pct t.
Proof.
  intros Hrv. induction ts as [|[c|n] r IH]; intros Hl Hd t H; cbn [subst_toks] in H.
  - injection H as <-. reflexivity.
  - destruct (subst_toks rv top r) as [t0|e0] eqn:E; cbn in H; [|discriminate]. injection H as <-.
    unfold no_pct. cbn. rewrite (Hl c (or_introl eq_refl)). cbn.
    apply IH; [intros c' Hc'; apply Hl; right; exact Hc'|intros Ht n' Hn'; apply (Hd Ht); right; exact Hn'|reflexivity].
  - assert (Hl' : lits_plain r) by (intros c' Hc'; apply Hl; right; exact Hc').
    assert (Hd' : top = true -> no_dotted r) by (intros Ht n' Hn'; apply (Hd Ht); right; exact Hn').
    destruct (dotted n) eqn:Ed.
    + destruct top; [|discriminate]. rewrite (Hd eq_refl n (or_introl eq_refl)) in Ed. discriminate.
    + destruct (rv n) as [v|e0] eqn:Ev; cbn in H; [|discriminate].
      destruct (subst_toks rv top r) as [t0|e1] eqn:E; cbn in H; [|discriminate]. injection H as <-.
      apply no_pct_app; [exact (Hrv n v Ev)|apply IH; auto].
Qed.

(* the context is plain: literal text of string values has no '%', float representations have none *)
Definition ctx_plain (ctx : alist) : Prop :=
  (forall w s, lookup w ctx = Some (JStr s) -> lits_plain (scan 0 s)) /\
  (forall w r, lookup w ctx = Some (JFlt r) -> no_pct r).

Lemma resolve_var_no_pct ctx : ctx_plain ctx -> forall fuel n v, resolve_var fuel ctx n = Ok v -> no_pct v.
Proof.
  intros [Hs Hf]. induction fuel as [|f IH]; intros n v H; cbn in H; [discriminate|].
  destruct (lookup n ctx) as [[|b|z|r|s| |]|] eqn:El; try discriminate.
  - injection H as <-. destruct b; reflexivity.
  - injection H as <-. apply no_pct_zrepr.
  - injection H as <-. exact (Hf n r El).
  - apply finish_str_ok in H.
    eapply (subst_toks_no_pct (resolve_var f ctx) false); [exact IH|exact (Hs n s El)|discriminate|exact H].
Qed.

Lemma interp_string_no_pct ctx s t :
  ctx_plain ctx -> lits_plain (scan 0 s) -> no_dotted (scan 0 s) -> interp_string ctx s = Ok t -> no_pct t.
Proof.
  intros Hc Hl Hd H. unfold interp_string in H. apply finish_str_ok in H.
  eapply (subst_toks_no_pct _ true); [|exact Hl|intros _; exact Hd|exact H].
  intros n v. apply resolve_var_no_pct. exact Hc.
Qed.

Lemma match_ref_pct s n : match_ref s = Some n -> exists s', s = String "%" s'.
Proof.
  destruct s as [|a s]; [discriminate|]. cbn.
  destruct a as [[] [] [] [] [] [] [] []]; try discriminate. intros _. eexists; reflexivity.
Qed.

Lemma no_pct_no_refs t : no_pct t -> forall k n, ~ In (TRef n) (scan k t).
Proof.
  unfold no_pct. induction t as [|c t IH]; intros H k n; cbn [scan]; [exact (fun x => x)|].
  cbn in H. apply andb_true_iff in H as [H1 H2].
  destruct k as [|k]; [|apply IH; exact H2].
  destruct (match_ref (String c t)) as [m|] eqn:Em.
  - destruct (match_ref_pct _ _ Em) as [s' Es]. injection Es as -> _. discriminate.
  - intros [F|F]; [discriminate|]. exact (IH H2 0 n F).
Qed.

(* ================================================================== E. typed leaves *)
Definition has_conv_type (k : conv) (v : jv) : Prop :=
  match k, v with
  | CStr, JStr _ | CInt, JInt _ | CBool, JBool _ | CB2, JBool _ | CS2B, JBool _ | CFloat, JFlt _ | COpaque, _ => True
  | _, _ => False
  end.

Definition convertible (v : jv) : Prop := match v with JStr _ | JInt _ | JBool _ => True | _ => False end.

Lemma conv_leaf_typed k v v' : conv_leaf k v = Some v' ->
  (convertible v -> has_conv_type k v') /\ (~ convertible v -> v' = v).
Proof.
  intros H. split.
  - intros Hc. destruct v; try contradiction; destruct k; cbn in H;
      try (injection H as <-; exact I);
      try (destruct (parse_int s); cbn in H; [injection H as <-; exact I|discriminate]);
      try (destruct (str_to_bool s); cbn in H; [injection H as <-; exact I|discriminate]);
      try discriminate.
  - intros Hn. destruct v; cbn in Hn; try (exfalso; apply Hn; exact I); cbn in H.
    1-3: injection H as <-; reflexivity.
    destruct m; [injection H as <-; reflexivity|]. destruct k; try discriminate. injection H as <-; reflexivity.
Qed.

Lemma get_set_path_same : forall pi x v, get_path pi (set_path pi x v) = Some x.
Proof.
  induction pi as [|k r IH]; intros x v; [reflexivity|].
  cbn [set_path]. rewrite get_path_cons_dict, lookup_set_key, String.eqb_refl. apply IH.
Qed.

(* one row of the conversion table: the leaf at the row's path is converted by the row's converter *)
Lemma convert_at_typed pi k v v' x : convert_at (pi, k) (Ok v) = Ok v' -> get_path pi v = Some x ->
  exists x', conv_leaf k x = Some x' /\ get_path pi v' = Some x'.
Proof.
  unfold convert_at. cbn. intros H Hx. rewrite Hx in H.
  destruct (conv_leaf k x) as [x'|] eqn:Ec; [|discriminate]. injection H as <-.
  exists x'. split; [reflexivity|apply get_set_path_same].
Qed.
