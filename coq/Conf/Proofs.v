(* C04 — lemmas: precedence of the layered merge, independence from other platforms, interpolation, typed leaves *)
From Coq Require Import String Ascii List Bool ZArith Arith Lia.
Import ListNotations.
Require Import V.Lib.PyStr V.Lib.JTree V.Conf.Model.
Open Scope string_scope.

(* ================================================================== A. dictionaries *)
Lemma lookup_set_key {A} k k' (v : A) m :
  lookup k (set_key k' v m) = if String.eqb k k' then Some v else lookup k m.
Proof.
  induction m as [|[k0 v0] r IH]; cbn.
  - destruct (String.eqb k k'); reflexivity.
  - destruct (String.eqb k' k0) eqn:E0; cbn.
    + apply String.eqb_eq in E0; subst k0. destruct (String.eqb k k'); reflexivity.
    + destruct (String.eqb k k0) eqn:E1.
      * apply String.eqb_eq in E1; subst k0.
        destruct (String.eqb k k') eqn:E2; [|reflexivity].
        apply String.eqb_eq in E2; subst k'. rewrite String.eqb_refl in E0. discriminate.
      * exact IH.
Qed.

Lemma lookup_update k a b :
  lookup k (update a b) = match lookup k b with Some v => Some v | None => lookup k a end.
Proof.
  unfold update. induction b as [|[k0 v0] r IH]; cbn; [reflexivity|].
  rewrite lookup_set_key. destruct (String.eqb k k0); [reflexivity|exact IH].
Qed.

(* the first layer (in list order) for which f answers *)
Fixpoint first_some {A B} (f : A -> option B) (l : list A) : option B :=
  match l with
  | [] => None
  | x :: r => match f x with Some v => Some v | None => first_some f r end
  end.

Lemma first_some_app {A B} (f : A -> option B) l1 l2 :
  first_some f (l1 ++ l2) = match first_some f l1 with Some v => Some v | None => first_some f l2 end.
Proof. induction l1 as [|x r IH]; cbn; [reflexivity|]. destruct (f x); [reflexivity|exact IH]. Qed.

Lemma fold_update_lookup k layers acc :
  lookup k (fold_left update layers acc) =
  match first_some (lookup k) (rev layers) with Some v => Some v | None => lookup k acc end.
Proof.
  revert acc; induction layers as [|l r IH]; intros acc; cbn; [reflexivity|].
  rewrite IH, first_some_app. cbn. rewrite lookup_update.
  destruct (first_some (lookup k) (rev r)); [reflexivity|]. destruct (lookup k l); reflexivity.
Qed.

(* variables: the value of a variable is that of the highest-priority layer defining it *)
Lemma layer_vars_precedence k layers :
  lookup k (layer_vars layers) = first_some (lookup k) (rev layers).
Proof.
  unfold layer_vars. rewrite fold_update_lookup. destruct (first_some (lookup k) (rev layers)); reflexivity.
Qed.

(* ================================================================== B. override_object *)
(* the local fixpoint of JTree.override as a top-level function *)
Fixpoint merge_go (mn mo : list (string * jv)) : option (list (string * jv)) :=
  match mo with
  | [] => Some []
  | (k, v) :: r =>
      match lookup k mn with
      | Some v' => match override v v', merge_go mn r with
                   | Some x, Some y => Some ((k, x) :: y)
                   | _, _ => None
                   end
      | None => option_map (cons (k, v)) (merge_go mn r)
      end
  end.

Definition novel (mo mn : list (string * jv)) := filter (fun kv : string * jv => negb (has_key (fst kv) mo)) mn.

Lemma override_dict_dict mo e mn :
  override (JDict mo) (JDict (e :: mn)) =
  match merge_go (e :: mn) mo with
  | Some l => Some (JDict (l ++ novel mo (e :: mn)))
  | None => None
  end.
Proof.
  cbn [override falsy].
  match goal with |- match ?F mo with _ => _ end = _ => assert (H : forall m, F m = merge_go (e :: mn) m) end.
  { induction m as [|[k v] r IH]; [reflexivity|]. cbn [merge_go]. rewrite <- IH. reflexivity. }
  rewrite H. reflexivity.
Qed.

Lemma lookup_app {A} k (l1 l2 : list (string * A)) :
  lookup k (l1 ++ l2) = match lookup k l1 with Some v => Some v | None => lookup k l2 end.
Proof.
  induction l1 as [|[k0 v0] r IH]; cbn; [reflexivity|]. destruct (String.eqb k k0); [reflexivity|exact IH].
Qed.

Lemma lookup_filter_key {A} (P : string -> bool) k (m : list (string * A)) :
  lookup k (filter (fun kv => P (fst kv)) m) = if P k then lookup k m else None.
Proof.
  induction m as [|[k0 v0] r IH]; cbn; [destruct (P k); reflexivity|].
  destruct (P k0) eqn:E0; cbn.
  - destruct (String.eqb k k0) eqn:E1.
    + apply String.eqb_eq in E1; subst k0. rewrite E0. reflexivity.
    + exact IH.
  - destruct (String.eqb k k0) eqn:E1.
    + apply String.eqb_eq in E1; subst k0. rewrite E0 in *. exact IH.
    + exact IH.
Qed.

Lemma merge_go_lookup mn : forall mo l k, merge_go mn mo = Some l ->
  lookup k l = match lookup k mo with
               | Some x => match lookup k mn with Some y => override x y | None => Some x end
               | None => None
               end.
Proof.
  induction mo as [|[k0 v0] r IH]; intros l k H; cbn in H.
  - injection H as <-. reflexivity.
  - destruct (lookup k0 mn) as [v'|] eqn:Ek0.
    + destruct (override v0 v') as [x|] eqn:Eo; [|discriminate].
      destruct (merge_go mn r) as [y|] eqn:Eg; [|discriminate].
      injection H as <-. cbn. destruct (String.eqb k k0) eqn:E.
      * apply String.eqb_eq in E; subst k0. rewrite Ek0. symmetry; exact Eo.
      * apply IH. reflexivity.
    + destruct (merge_go mn r) as [y|] eqn:Eg; [|discriminate]. cbn in H.
      injection H as <-. cbn. destruct (String.eqb k k0) eqn:E.
      * apply String.eqb_eq in E; subst k0. rewrite Ek0. reflexivity.
      * apply IH. reflexivity.
Qed.

Lemma merge_go_override_ok mn : forall mo l k x y, merge_go mn mo = Some l ->
  lookup k mo = Some x -> lookup k mn = Some y -> override x y <> None.
Proof.
  induction mo as [|[k0 v0] r IH]; intros l k x y H Ex Ey; [discriminate|].
  cbn in H, Ex. destruct (String.eqb k k0) eqn:E.
  - apply String.eqb_eq in E; subst k0. injection Ex as ->. rewrite Ey in H.
    destruct (override x y); [discriminate|]. discriminate.
  - destruct (lookup k0 mn) as [v'|].
    + destruct (override v0 v'); [|discriminate]. destruct (merge_go mn r) as [y'|] eqn:Eg; [|discriminate].
      eapply IH; eauto.
    + destruct (merge_go mn r) as [y'|] eqn:Eg; [|discriminate]. eapply IH; eauto.
Qed.

Lemma merged_lookup mo mn l k : merge_go mn mo = Some l ->
  lookup k (l ++ novel mo mn) =
  match lookup k mo, lookup k mn with
  | Some x, Some y => override x y
  | Some x, None => Some x
  | None, o => o
  end.
Proof.
  intros H. rewrite lookup_app, (merge_go_lookup mn mo l k H).
  unfold novel. rewrite (lookup_filter_key (fun k => negb (has_key k mo))). unfold has_key.
  destruct (lookup k mo) as [x|] eqn:Eo.
  - destruct (lookup k mn) as [y|] eqn:En; [|reflexivity].
    destruct (override x y) eqn:Ex; [reflexivity|].
    exfalso. exact (merge_go_override_ok mn mo l k x y H Eo En Ex).
  - cbn. reflexivity.
Qed.

(* "no dictionary here" and "value here, null counting as absent" *)
Definition nodict (o : option jv) : Prop := match o with Some (JDict _) => False | _ => True end.
Definition denull (o : option jv) : option jv := match o with Some JNull => None | _ => o end.
Definition val (pi : list string) (v : jv) : option jv := denull (get_path pi v).

Lemma get_path_cons_dict k pi m :
  get_path (k :: pi) (JDict m) = match lookup k m with Some w => get_path pi w | None => None end.
Proof. reflexivity. Qed.

Lemma get_path_cons_nondict k pi v : (forall m, v <> JDict m) -> get_path (k :: pi) v = None.
Proof. intros H. destruct v; try reflexivity. exfalso; eapply H; reflexivity. Qed.

Definition pick (nb oa : option jv) : option jv := match nb with Some x => Some x | None => oa end.

(* one application of override_object, observed at a path at which the lower value is not a dictionary *)
Lemma override_path : forall pi a b r,
  override a b = Some r -> nodict (get_path pi a) ->
  val pi r = pick (val pi b) (val pi a) /\ (nodict (get_path pi b) -> nodict (get_path pi r)).
Proof.
  induction pi as [|k pi IH]; intros a b r H Ha.
  - (* at the end of the path the lower value is a scalar, a list or null *)
    cbn in Ha. destruct a; try contradiction; cbn in H.
    all: destruct b; injection H as <-; cbn; split; auto.
  - destruct a as [| | | | | |mo].
    1-6: (cbn in H; destruct b; injection H as <-; unfold val; cbn; split; auto;
          try (destruct (lookup k m) as [w|]; [destruct (get_path pi w) as [[]|]|]; reflexivity)).
    (* lower value is a dictionary *)
    assert (Hf : falsy b = true -> val (k :: pi) b = None).
    { unfold val. destruct b; cbn; try reflexivity; try discriminate.
      destruct m; [reflexivity|discriminate]. }
    destruct (falsy b) eqn:Efb.
    + assert (r = JDict mo) as ->.
      { destruct b; cbn in H, Efb; try rewrite Efb in H; try (injection H as <-; reflexivity); try discriminate.
        all: try (destruct m; [injection H as <-; reflexivity|discriminate]). }
      rewrite (Hf eq_refl). split; [reflexivity|intros _; exact Ha].
    + destruct b as [| | | | | |mn]; cbn in H, Efb; try rewrite Efb in H; try discriminate.
      destruct mn as [|e mn]; [discriminate|].
      change (override (JDict mo) (JDict (e :: mn)) = Some r) in H.
      rewrite override_dict_dict in H.
      destruct (merge_go (e :: mn) mo) as [l|] eqn:Eg; [|discriminate].
      assert (Hr : r = JDict (l ++ novel mo (e :: mn))) by (injection H as <-; reflexivity).
      subst r. clear H.
      unfold val. rewrite !get_path_cons_dict. rewrite (merged_lookup mo (e :: mn) l k Eg).
      rewrite get_path_cons_dict in Ha.
      destruct (lookup k mo) as [x|] eqn:Ex; destruct (lookup k (e :: mn)) as [y|] eqn:Ey.
      * destruct (override x y) as [w|] eqn:Ew.
        -- destruct (IH x y w Ew Ha) as [I1 I2]. unfold val in I1. split; assumption.
        -- exfalso. exact (merge_go_override_ok (e :: mn) mo l k x y Eg Ex Ey Ew).
      * split; [|intros _; exact Ha]. unfold pick. destruct (denull (get_path pi x)); reflexivity.
      * split; [|intros Hb; exact Hb]. unfold pick. destruct (denull (get_path pi y)); reflexivity.
      * split; [reflexivity|exact (fun _ => I)].
Qed.

Lemma fold_override_none layers : fold_override None layers = None.
Proof. induction layers as [|l r IH]; [reflexivity|exact IH]. Qed.

Lemma fold_override_path pi : forall layers acc r,
  fold_override (Some acc) layers = Some r ->
  nodict (get_path pi acc) -> Forall (fun l => nodict (get_path pi l)) layers ->
  val pi r = pick (first_some (val pi) (rev layers)) (val pi acc) /\ nodict (get_path pi r).
Proof.
  induction layers as [|l ls IH]; intros acc r H Ha Hl.
  - cbn in H. injection H as <-. split; [reflexivity|exact Ha].
  - change (fold_override (override acc l) ls = Some r) in H.
    destruct (override acc l) as [a'|] eqn:Eo; [|rewrite fold_override_none in H; discriminate].
    inversion Hl as [|? ? Hl1 Hl2]; subst.
    destruct (override_path pi acc l a' Eo Ha) as [P1 P2].
    destruct (IH a' r H (P2 Hl1) Hl2) as [Q1 Q2]. split; [|exact Q2].
    rewrite Q1. cbn [rev]. rewrite first_some_app. cbn [first_some]. rewrite P1.
    destruct (first_some (val pi) (rev ls)); [reflexivity|]. unfold pick. destruct (val pi l); reflexivity.
Qed.

(* options: the layered merge IS the per-option priority lookup *)
Lemma fold_override_precedence layers r k pi :
  fold_override (Some (JDict [])) layers = Some r ->
  Forall (fun l => nodict (get_path (k :: pi) l)) layers ->
  val (k :: pi) r = first_some (val (k :: pi)) (rev layers).
Proof.
  intros H Hl. destruct (fold_override_path (k :: pi) layers (JDict []) r H I Hl) as [P _].
  rewrite P. unfold pick. destruct (first_some (val (k :: pi)) (rev layers)); reflexivity.
Qed.
