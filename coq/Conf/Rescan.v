(* C04 — the RE-SCANNING model of FlowIR.interpolate (second loop of flowir.py:interpolate, read line by line).

   The code does not tokenise the string once: it repeats
       matches = pattern.finditer(input_str, search_from); match = left-most
       value   = resolve_using_symbol_table(name)          (the fully interpolated value of the variable)
       input_str = input_str[:match.start()] + value + input_str[match.end():]
   until no match is left, i.e. the text produced by a substitution is scanned AGAIN together with the text around it.
   A dotted name at the top level (use_symbol_table=False) is stepped over with search_from = match.start()+1
   (everything up to and including its '%' is never looked at again); inside the value of a variable it raises.

   [rescan] is that loop.  The Python loop has no bound; the model's loop has fuel [lf]: running out of it is reported
   as ECycle (the theorems say when this cannot happen; the correspondence run passes a generous [extra]).
   The recursion over variables (resolve_using_symbol_table -> interpolate -> ...) keeps the fuel of Model.resolve_var
   (number of variables + 1; a longer chain of DISTINCT defined variables does not exist).

   Model.v's one-pass definitions are untouched; everything here is new and generic in the string interpolator, so
   that the one-pass resolve of Model.v is literally the instance [interp_string] (lemma resolve_with_one_pass in
   RescanProofs.v).  Not modelled, as in Model.v: array-index expansion, `%(v)s[i]`. *)
From Coq Require Import String Ascii List Bool ZArith Arith Lia.
Import ListNotations.
Require Import V.Lib.PyStr V.Lib.JTree V.Conf.Model.
Open Scope string_scope.

(* left-most match of %\([a-zA-Z0-9_.-]+\)s : (text before, name, text after) *)
Fixpoint first_ref (s : string) : option (string * string * string) :=
  match s with
  | EmptyString => None
  | String c s' =>
      match match_ref s with
      | Some n => Some (EmptyString, n, drop (String.length n + 3) s')
      | None => match first_ref s' with
                | Some (b, n, a) => Some (String c b, n, a)
                | None => None
                end
      end
  end.

Fixpoint rescan (lf : nat) (rv : string -> res string) (top : bool) (s : string) : res string :=
  match lf with
  | O => Err ECycle
  | S f =>
      match first_ref s with
      | None => Ok s
      | Some (b, n, a) =>
          if dotted n then
            (* search_from = match.start() + 1: the text up to and including this '%' is frozen *)
            if top then rmap (fun t => b ++ "%" ++ t) (rescan f rv top ("(" ++ n ++ ")s" ++ a))
            else Err EScope
          else rbind (rv n) (fun v => rescan f rv top (b ++ v ++ a))
      end
  end.

Definition loop_fuel (extra : nat) (s : string) : nat := S (String.length s) + extra.

Fixpoint resolve_var_rs (extra fuel : nat) (ctx : alist) (n : string) : res string :=
  match fuel with
  | O => Err ECycle
  | S f =>
      match lookup n ctx with
      | None => Err (EUnknown n)
      | Some (JStr s) => finish_str (rescan (loop_fuel extra s) (resolve_var_rs extra f ctx) false s)
      | Some (JInt z) => Ok (zrepr z)
      | Some (JBool b) => Ok (if b then "True" else "False")
      | Some (JFlt r) => Ok r
      | Some _ => Err (EInvalidVar n)
      end
  end.

(* FlowIR.interpolate(s, ctx, use_symbol_table=False), re-scanning *)
Definition interp_string_rs (extra : nat) (ctx : alist) (s : string) : res string :=
  finish_str (rescan (loop_fuel extra s) (resolve_var_rs extra (fuel_of ctx) ctx) true s).

(* ------------------------------------------------------------------ FlowIR.fill_in over any string interpolator *)
Fixpoint map_tree (f : string -> res string) (v : jv) : res jv :=
  match v with
  | JStr s => rmap JStr (f s)
  | JList l =>
      rmap JList ((fix go (l : list jv) : res (list jv) :=
                     match l with
                     | [] => Ok []
                     | x :: r => rbind (map_tree f x) (fun x' => rmap (cons x') (go r))
                     end) l)
  | JDict m =>
      rmap JDict ((fix go (m : list (string * jv)) : res (list (string * jv)) :=
                     match m with
                     | [] => Ok []
                     | (k, x) :: r => rbind (map_tree f x) (fun x' => rmap (cons (k, x')) (go r))
                     end) m)
  | _ => Ok v
  end.

Definition interp_tree_rs (extra : nat) (ctx : alist) : jv -> res jv := map_tree (interp_string_rs extra ctx).

(* ------------------------------------------------------------------ resolve over any string interpolator *)
Definition resolve_layers_with (I : alist -> string -> res string) (dflt : jv) (ols : list jv) (vls : list alist)
  : res jv :=
  match merged_of ols vls with
  | None => Err EShape
  | Some m =>
      match inject_all dflt m with
      | None => Err EShape
      | Some full => rbind (map_tree (I (layer_vars vls)) full) (convert conv_table)
      end
  end.

Definition resolve_with (I : alist -> string -> res string)
  (dflt : jv) (d : doc) (files : list jv) (p : string) (stage : Z) (name : string) : res jv :=
  match find_comp d stage name with
  | None => Err ENoComponent
  | Some c =>
      match user_vars files with
      | None => Err EShape
      | Some u => let (ols, vls) := view dflt d u p stage c in resolve_layers_with I dflt ols vls
      end
  end.

Definition resolve_rs (extra : nat) := resolve_with (interp_string_rs extra).

(* error of every failing leaf (see Model.leaf_errors for why) *)
Fixpoint leaf_errors_with (f : string -> res string) (v : jv) : list err :=
  match v with
  | JStr s => match f s with Err e => [e] | Ok _ => [] end
  | JList l => (fix go (l : list jv) : list err :=
                  match l with [] => [] | x :: r => (leaf_errors_with f x ++ go r)%list end) l
  | JDict m => (fix go (m : list (string * jv)) : list err :=
                  match m with [] => [] | (_, x) :: r => (leaf_errors_with f x ++ go r)%list end) m
  | _ => []
  end.

Definition resolve_errors_with (I : alist -> string -> res string)
  (dflt : jv) (d : doc) (files : list jv) (p : string) (stage : Z) (name : string) : list err :=
  match resolve_with I dflt d files p stage name with
  | Ok _ => []
  | Err e0 =>
      match find_comp d stage name, user_vars files with
      | Some c, Some u =>
          let (ols, vls) := view dflt d u p stage c in
          match merged_of ols vls with
          | Some m => match inject_all dflt m with
                      | Some full => match leaf_errors_with (I (layer_vars vls)) full with [] => [e0] | es => es end
                      | None => [e0]
                      end
          | None => [e0]
          end
      | _, _ => [e0]
      end
  end.

(* correspondence checker for the re-scanning model; [extra] = loop fuel beyond (length of the string + 1) *)
Definition rs_extra : nat := 64.

Definition check_case_rs (c : case_in * (outcome * outcome)) : bool :=
  let (i, o) := c in
  let '(dflt, (b, v, cs), files, p, stage, name) := i in
  let d := {| d_blueprint := b; d_variables := v; d_components := cs |} in
  agrees (resolve_raw dflt d files p stage name) (fst o)
  && agrees_any (resolve_rs rs_extra dflt d files p stage name)
                (resolve_errors_with (interp_string_rs rs_extra) dflt d files p stage name) (snd o).

(* both models against the same observation (inputs on which they are meant to coincide) *)
Definition check_case_both (c : case_in * (outcome * outcome)) : bool := check_case c && check_case_rs c.

(* string-level correspondence: (variables, string, outcome of FlowIR.interpolate(s, ctx, use_symbol_table=False)) *)
Definition str_outcome := (string + (string * string))%type.

Definition agrees_str (m : res string) (o : str_outcome) : bool :=
  match m, o with
  | Ok a, inl b => String.eqb a b
  | Err e, inr (c, d) => err_matches c d e
  | _, _ => false
  end.

Definition check_interp_rs (c : list (string * jv) * string * str_outcome) : bool :=
  let '(ctx, s, o) := c in agrees_str (interp_string_rs rs_extra ctx s) o.
