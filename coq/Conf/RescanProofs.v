(* C04 — lemmas about the re-scanning model of FlowIR.interpolate (Rescan.v) *)
From Coq Require Import String Ascii List Bool ZArith Arith Lia.
Import ListNotations.
Require Import V.Lib.PyStr V.Lib.JTree V.Conf.Model V.Conf.Proofs V.Conf.Rescan.
Open Scope string_scope.

(* ================================================================== A. the reference pattern *)
Definition name_str (n : string) : Prop := all_chars is_name_char n = true.

Definition stops (r : string) : Prop :=
  match r with String c _ => is_name_char c = false | EmptyString => True end.

Lemma take_name_spec : forall s n r, take_name s = (n, r) -> s = n ++ r /\ name_str n /\ stops r.
Proof.
  induction s as [|a s IH]; cbn [take_name]; intros n r H.
  - injection H as <- <-. repeat split.
  - destruct (is_name_char a) eqn:Ea.
    + destruct (take_name s) as [n0 r0]. injection H as <- <-.
      destruct (IH n0 r0 eq_refl) as (E & N & R). repeat split.
      * cbn [append]. rewrite <- E. reflexivity.
      * unfold name_str. cbn [all_chars]. rewrite Ea. exact N.
      * exact R.
    + injection H as <- <-. repeat split. exact Ea.
Qed.

Lemma take_name_app : forall n r, name_str n -> stops r -> take_name (n ++ r) = (n, r).
Proof.
  induction n as [|a n IH]; cbn [append]; intros r N R.
  - destruct r as [|c r]; [reflexivity|]. cbn [take_name]. cbn in R. rewrite R. reflexivity.
  - unfold name_str in N. cbn [all_chars] in N. apply andb_true_iff in N as [N1 N2].
    cbn [take_name]. rewrite N1, (IH r N2 R). reflexivity.
Qed.

Lemma take_name_pct : forall x y,
  take_name (x ++ String "%" y) = (fst (take_name x), snd (take_name x) ++ String "%" y).
Proof.
  induction x as [|a x IH]; intros y.
  - reflexivity.
  - cbn [append take_name]. destruct (is_name_char a); [|reflexivity].
    rewrite IH. destruct (take_name x); reflexivity.
Qed.

Lemma match_ref_spec s n : match_ref s = Some n ->
  n <> "" /\ name_str n /\ exists r, s = "%(" ++ n ++ ")s" ++ r.
Proof.
  unfold match_ref. destruct s as [|c0 s]; [discriminate|].
  destruct c0 as [[] [] [] [] [] [] [] []]; try discriminate.
  destruct s as [|c1 s]; [discriminate|].
  destruct c1 as [[] [] [] [] [] [] [] []]; try discriminate.
  destruct (take_name s) as [n0 r0] eqn:Et.
  destruct n0 as [|x n0]; [discriminate|].
  destruct r0 as [|c2 r0]; [discriminate|].
  destruct c2 as [[] [] [] [] [] [] [] []]; try discriminate.
  destruct r0 as [|c3 r0]; [discriminate|].
  destruct c3 as [[] [] [] [] [] [] [] []]; try discriminate.
  intros H. injection H as <-.
  destruct (take_name_spec _ _ _ Et) as (E & N & _).
  split; [discriminate|]. split; [exact N|]. exists r0. cbn [append]. rewrite E. reflexivity.
Qed.

Lemma match_ref_intro n r : n <> "" -> name_str n -> match_ref ("%(" ++ n ++ ")s" ++ r) = Some n.
Proof.
  intros Hn N. cbn [append]. unfold match_ref.
  rewrite (take_name_app n (String ")" (String "s" r)) N eq_refl).
  destruct n; [contradiction|reflexivity].
Qed.

Lemma match_ref_not_pct c s : not_pct c = true -> match_ref (String c s) = None.
Proof.
  intros H. destruct (match_ref (String c s)) as [n|] eqn:E; [|reflexivity].
  destruct (match_ref_pct _ _ E) as [s' Es]. injection Es as -> _. discriminate.
Qed.

(* a match that starts strictly before a '%' ends before it: what follows the '%' is irrelevant *)
Lemma match_ref_stable x y y' : x <> "" -> match_ref (x ++ String "%" y) = match_ref (x ++ String "%" y').
Proof.
  intros Hx. destruct x as [|c0 x]; [contradiction|]. cbn [append]. unfold match_ref.
  destruct c0 as [[] [] [] [] [] [] [] []]; try reflexivity.
  destruct x as [|c1 x]; [reflexivity|]. cbn [append].
  destruct c1 as [[] [] [] [] [] [] [] []]; try reflexivity.
  rewrite !take_name_pct. destruct (take_name x) as [n0 r0]. cbn [fst snd].
  destruct n0 as [|a0 n0]; [reflexivity|].
  destruct r0 as [|c2 r0]; [reflexivity|]. cbn [append].
  destruct c2 as [[] [] [] [] [] [] [] []]; try reflexivity.
  destruct r0 as [|c3 r0]; [reflexivity|]. cbn [append].
  destruct c3 as [[] [] [] [] [] [] [] []]; reflexivity.
Qed.

Lemma name_char_not_pct c : is_name_char c = true -> not_pct c = true.
Proof. destruct c as [[] [] [] [] [] [] [] []]; intros H; try reflexivity. vm_compute in H. discriminate. Qed.

Lemma name_no_pct n : name_str n -> no_pct n.
Proof.
  unfold name_str, no_pct. induction n as [|a n IH]; cbn [all_chars]; intros H; [reflexivity|].
  apply andb_true_iff in H as [H1 H2]. rewrite (name_char_not_pct a H1), (IH H2). reflexivity.
Qed.

Definition paren (n : string) : string := "(" ++ n ++ ")s".

Lemma paren_app n t : "(" ++ n ++ ")s" ++ t = paren n ++ t.
Proof. unfold paren. cbn [append]. rewrite append_assoc. reflexivity. Qed.

Lemma paren_no_pct n : name_str n -> no_pct (paren n).
Proof.
  intros N. unfold paren. apply (no_pct_app "("); [reflexivity|].
  apply no_pct_app; [apply name_no_pct; exact N|reflexivity].
Qed.

Lemma drop_app : forall x k y, drop (String.length x + k) (x ++ y) = drop k y.
Proof. induction x as [|a x IH]; intros k y; [reflexivity|]. cbn [String.length Nat.add append drop]. apply IH. Qed.

(* ================================================================== B. references alive in a string *)
(* the names matched by the pattern at ANY position of the string *)
Fixpoint live (s : string) : list string :=
  match s with
  | EmptyString => []
  | String c s' => match match_ref s with Some n => n :: live s' | None => live s' end
  end.

Lemma scan_live : forall s k n, In (TRef n) (scan k s) -> In n (live s).
Proof.
  induction s as [|c s IH]; intros k n H; [destruct k; exact H|].
  cbn [live]. destruct k as [|k].
  - cbn [scan] in H. destruct (match_ref (String c s)) as [m|] eqn:Em.
    + destruct H as [H|H]; [injection H as ->; left; reflexivity|right; exact (IH _ _ H)].
    + destruct H as [H|H]; [discriminate|exact (IH _ _ H)].
  - cbn [scan] in H. destruct (match_ref (String c s)); [right|]; exact (IH _ _ H).
Qed.

(* no match starts inside b when b is followed by '%' y *)
Fixpoint quiet (b y : string) : Prop :=
  match b with
  | EmptyString => True
  | String c b' => match_ref (String c b' ++ String "%" y) = None /\ quiet b' y
  end.

Lemma quiet_stable : forall b y y', quiet b y -> quiet b y'.
Proof.
  induction b as [|c b IH]; intros y y' H; [exact I|]. destruct H as [H1 H2]. split.
  - rewrite (match_ref_stable (String c b) y' y); [exact H1|discriminate].
  - exact (IH y y' H2).
Qed.

Lemma live_quiet : forall b y, quiet b y -> live (b ++ String "%" y) = live (String "%" y).
Proof.
  induction b as [|c b IH]; intros y H; [reflexivity|]. destruct H as [H1 H2].
  cbn [append] in *. cbn [live]. rewrite H1. exact (IH y H2).
Qed.

Lemma live_nopct : forall p x, no_pct p -> live (p ++ x) = live x.
Proof.
  unfold no_pct. induction p as [|c p IH]; intros x H; [reflexivity|].
  cbn [all_chars] in H. apply andb_true_iff in H as [H1 H2].
  cbn [append live]. rewrite (match_ref_not_pct c _ H1). exact (IH x H2).
Qed.

Lemma first_ref_none : forall s, first_ref s = None -> live s = [].
Proof.
  induction s as [|c s IH]; [reflexivity|]. cbn [first_ref live].
  destruct (match_ref (String c s)); [discriminate|].
  destruct (first_ref s) as [[[b n] a]|]; [discriminate|]. intros _. exact (IH eq_refl).
Qed.

Lemma first_ref_some : forall s b n a, first_ref s = Some (b, n, a) ->
  n <> "" /\ name_str n /\ s = b ++ "%(" ++ n ++ ")s" ++ a /\ quiet b ("(" ++ n ++ ")s" ++ a).
Proof.
  induction s as [|c s IH]; intros b n a H; [discriminate|]. cbn [first_ref] in H.
  destruct (match_ref (String c s)) as [m|] eqn:Em.
  - injection H as <- <- <-. destruct (match_ref_spec _ _ Em) as (Nn & Ns & r & Er).
    cbn [append] in Er. injection Er as -> ->.
    assert (Ed : drop (String.length m + 3) (String "(" (m ++ String ")" (String "s" r))) = r).
    { replace (String.length m + 3) with (S (String.length m + 2)) by lia. cbn [drop].
      rewrite drop_app. reflexivity. }
    rewrite Ed. repeat split; assumption.
  - destruct (first_ref s) as [[[b0 n0] a0]|] eqn:Ef; [|discriminate]. injection H as <- <- <-.
    destruct (IH b0 n0 a0 eq_refl) as (Nn & Ns & Es & Q). repeat split; try assumption.
    + rewrite Es. reflexivity.
    + rewrite Es in Em. exact Em.
Qed.

(* ================================================================== C. the loop *)
Lemma rmap_rmap {A B C} (f : B -> C) (g : A -> B) r : rmap f (rmap g r) = rmap (fun x => f (g x)) r.
Proof. destruct r; reflexivity. Qed.

Lemma rmap_ext {A B} (f g : A -> B) r : (forall x, f x = g x) -> rmap f r = rmap g r.
Proof. intros H. destruct r; cbn; [rewrite H|]; reflexivity. Qed.

Lemma first_ref_nopct_prefix : forall p x, no_pct p ->
  first_ref (p ++ x) = match first_ref x with Some (b, n, a) => Some (p ++ b, n, a) | None => None end.
Proof.
  unfold no_pct. induction p as [|c p IH]; intros x H.
  - cbn [append]. destruct (first_ref x) as [[[b n] a]|]; reflexivity.
  - cbn [all_chars] in H. apply andb_true_iff in H as [H1 H2].
    cbn [append first_ref]. rewrite (match_ref_not_pct c _ H1), (IH x H2).
    destruct (first_ref x) as [[[b n] a]|]; reflexivity.
Qed.

(* text without '%' in front of the scanned string passes through the loop unchanged *)
Lemma rescan_nopct_prefix rv top p : no_pct p ->
  forall lf x, rescan lf rv top (p ++ x) = rmap (append p) (rescan lf rv top x).
Proof.
  intros Hp. induction lf as [|lf IH]; intros x; [reflexivity|].
  cbn [rescan]. rewrite (first_ref_nopct_prefix p x Hp).
  destruct (first_ref x) as [[[b n] a]|]; [|reflexivity].
  destruct (dotted n).
  - destruct top; [|reflexivity]. rewrite rmap_rmap. apply rmap_ext. intros t. apply append_assoc.
  - destruct (rv n) as [v|e]; [|reflexivity]. cbn [rbind]. rewrite append_assoc. apply IH.
Qed.

(* when the loop ends normally, every reference still in the text is a dotted name of a top-level string *)
Lemma rescan_ok_live rv top : forall lf s t, rescan lf rv top s = Ok t ->
  forall n, In n (live t) -> dotted n = true /\ top = true.
Proof.
  induction lf as [|lf IH]; intros s t H m Hm; [discriminate|].
  cbn [rescan] in H. destruct (first_ref s) as [[[b n] a]|] eqn:Ef.
  - destruct (first_ref_some _ _ _ _ Ef) as (Nn & Ns & Es & Q).
    destruct (dotted n) eqn:Ed.
    + destruct top; [|discriminate].
      rewrite paren_app, (rescan_nopct_prefix rv true (paren n) (paren_no_pct n Ns)) in H.
      destruct (rescan lf rv true a) as [t2|e] eqn:E2; [|discriminate]. cbn [rmap] in H. injection H as <-.
      rewrite paren_app in Q. apply (quiet_stable b _ (paren n ++ t2)) in Q.
      assert (Hm' : In m (live (b ++ String "%" (paren n ++ t2)))) by exact Hm.
      clear Hm; rename Hm' into Hm.
      rewrite (live_quiet b _ Q) in Hm.
      cbn [live] in Hm.
      assert (Em : match_ref (String "%" (paren n ++ t2)) = Some n).
      { rewrite <- paren_app. exact (match_ref_intro n t2 Nn Ns). }
      rewrite Em, (live_nopct (paren n) t2 (paren_no_pct n Ns)) in Hm.
      destruct Hm as [<-|Hm]; [split; [exact Ed|reflexivity]|exact (IH a t2 E2 m Hm)].
    + destruct (rv n) as [v|e]; [|discriminate]. cbn [rbind] in H. exact (IH _ t H m Hm).
  - injection H as <-. rewrite (first_ref_none s Ef) in Hm. destruct Hm.
Qed.

Lemma rescan_err rv top : forall lf s e, rescan lf rv top s = Err e ->
  e = ECycle \/ (e = EScope /\ top = false) \/ exists n, rv n = Err e.
Proof.
  induction lf as [|lf IH]; intros s e H; [injection H as <-; left; reflexivity|].
  cbn [rescan] in H. destruct (first_ref s) as [[[b n] a]|]; [|discriminate].
  destruct (dotted n).
  - destruct top.
    + destruct (rescan lf rv true _) as [t|e0] eqn:E; [discriminate|]. injection H as <-. exact (IH _ _ E).
    + injection H as <-. right; left; split; reflexivity.
  - destruct (rv n) as [v|e0] eqn:Ev.
    + exact (IH _ _ H).
    + injection H as <-. right; right. exists n. exact Ev.
Qed.

(* the variable an unknown-variable error names is undefined *)
Lemma resolve_var_rs_unknown extra ctx : forall fuel n v,
  resolve_var_rs extra fuel ctx n = Err (EUnknown v) -> lookup v ctx = None.
Proof.
  induction fuel as [|f IH]; intros n v H; [discriminate|]. cbn [resolve_var_rs] in H.
  destruct (lookup n ctx) as [[| | | |s| |]|] eqn:El; try discriminate.
  - destruct (finish_str_err _ _ H) as [E|E]; [discriminate|].
    destruct (rescan_err _ _ _ _ _ E) as [E1|[[E1 _]|[n' E1]]]; try discriminate. exact (IH n' v E1).
  - injection H as <-. exact El.
Qed.

Lemma interp_string_rs_unknown extra ctx s v :
  interp_string_rs extra ctx s = Err (EUnknown v) -> lookup v ctx = None.
Proof.
  unfold interp_string_rs. intros H. destruct (finish_str_err _ _ H) as [E|E]; [discriminate|].
  destruct (rescan_err _ _ _ _ _ E) as [E1|[[E1 _]|[n' E1]]]; try discriminate.
  exact (resolve_var_rs_unknown extra ctx _ n' v E1).
Qed.

Lemma interp_string_rs_ok_live extra ctx s t : interp_string_rs extra ctx s = Ok t ->
  forall n, In n (live t) -> dotted n = true.
Proof.
  unfold interp_string_rs. intros H n Hn. apply finish_str_ok in H.
  exact (proj1 (rescan_ok_live _ _ _ _ _ H n Hn)).
Qed.

(* an undefined left-most reference is reported *)
Lemma interp_string_rs_first_undefined extra ctx s b n a :
  first_ref s = Some (b, n, a) -> dotted n = false -> lookup n ctx = None ->
  interp_string_rs extra ctx s = Err (EUnknown n).
Proof.
  intros Ef Ed El. unfold interp_string_rs, loop_fuel, fuel_of. cbn [Nat.add rescan resolve_var_rs].
  rewrite Ef, Ed. cbn [resolve_var_rs]. rewrite El. reflexivity.
Qed.

(* ================================================================== D. one pass = re-scanning on plain text *)
Fixpoint lits (s : string) : list tok :=
  match s with EmptyString => [] | String c s' => TChr c :: lits s' end.

Lemma scan_drop : forall s k, scan k s = scan 0 (drop k s).
Proof.
  induction s as [|c s IH]; intros k; [destruct k; reflexivity|].
  destruct k as [|k]; [reflexivity|]. cbn [scan drop]. apply IH.
Qed.

Lemma scan_first_ref : forall s,
  match first_ref s with
  | Some (b, n, a) => scan 0 s = (lits b ++ TRef n :: scan 0 a)%list
  | None => scan 0 s = lits s
  end.
Proof.
  induction s as [|c s IH]; [reflexivity|]. cbn [first_ref scan].
  destruct (match_ref (String c s)) as [m|] eqn:Em.
  - cbn [lits app]. rewrite scan_drop. reflexivity.
  - destruct (first_ref s) as [[[b n] a]|]; cbn [lits app]; rewrite IH; reflexivity.
Qed.

Lemma scan_length : forall s k, length (scan k s) <= String.length s.
Proof.
  induction s as [|c s IH]; intros k; [destruct k; cbn; lia|].
  destruct k as [|k]; cbn [scan String.length].
  - destruct (match_ref (String c s)) as [m|]; cbn [length].
    + specialize (IH (String.length m + 3)). lia.
    + specialize (IH 0). lia.
  - specialize (IH k). lia.
Qed.

Lemma subst_toks_lits rv top : forall b ts,
  subst_toks rv top (lits b ++ ts)%list = rmap (append b) (subst_toks rv top ts).
Proof.
  induction b as [|c b IH]; intros ts; cbn [lits app subst_toks].
  - destruct (subst_toks rv top ts); reflexivity.
  - rewrite IH, rmap_rmap. apply rmap_ext. intros x. reflexivity.
Qed.

Lemma lits_plain_app b ts : lits_plain (lits b ++ ts)%list -> no_pct b /\ lits_plain ts.
Proof.
  unfold lits_plain, no_pct. induction b as [|c b IH]; cbn [lits app all_chars]; intros H.
  - split; [reflexivity|exact H].
  - destruct IH as [I1 I2]; [intros c' Hc'; apply H; right; exact Hc'|].
    rewrite (H c (or_introl eq_refl)), I1. split; [reflexivity|exact I2].
Qed.

Lemma subst_toks_ext rv rv' top : (forall n, rv n = rv' n) ->
  forall ts, subst_toks rv top ts = subst_toks rv' top ts.
Proof.
  intros He. induction ts as [|[c|n] r IH]; cbn [subst_toks]; [reflexivity|rewrite IH; reflexivity|].
  rewrite IH, He. reflexivity.
Qed.

(* when neither the literal text nor any substituted value carries a '%', a substitution cannot complete a new
   reference with the text around it: the loop computes what the single left-to-right pass computes *)
Lemma rescan_eq_subst rv top : (forall n v, rv n = Ok v -> no_pct v) ->
  forall lf s, lits_plain (scan 0 s) -> length (scan 0 s) < lf ->
  rescan lf rv top s = subst_toks rv top (scan 0 s).
Proof.
  intros Hrv. induction lf as [|lf IH]; intros s Hl Hn; [lia|].
  cbn [rescan]. pose proof (scan_first_ref s) as Hs.
  destruct (first_ref s) as [[[b n] a]|] eqn:Ef.
  - destruct (first_ref_some _ _ _ _ Ef) as (Nn & Ns & Es & Q).
    rewrite Hs in Hl, Hn |- *. destruct (lits_plain_app _ _ Hl) as [Hb Hl'].
    assert (Hla : lits_plain (scan 0 a)) by (intros c Hc; apply Hl'; right; exact Hc).
    assert (Hna : length (scan 0 a) < lf) by (rewrite app_length in Hn; cbn [length] in Hn; lia).
    rewrite subst_toks_lits. cbn [subst_toks]. destruct (dotted n).
    + destruct top; [|reflexivity].
      rewrite paren_app, (rescan_nopct_prefix rv true (paren n) (paren_no_pct n Ns)), (IH a Hla Hna).
      rewrite !rmap_rmap. apply rmap_ext. intros t. rewrite <- paren_app. reflexivity.
    + destruct (rv n) as [v|e] eqn:Ev; [|reflexivity]. cbn [rbind].
      rewrite (rescan_nopct_prefix rv top b Hb), (rescan_nopct_prefix rv top v (Hrv n v Ev)), (IH a Hla Hna).
      reflexivity.
  - rewrite Hs. rewrite <- (app_nil_r (lits s)), subst_toks_lits. cbn [subst_toks rmap].
    rewrite append_nil_r. reflexivity.
Qed.

Lemma resolve_var_rs_eq extra ctx : ctx_plain ctx ->
  forall f n, resolve_var_rs extra f ctx n = resolve_var f ctx n.
Proof.
  intros Hc. induction f as [|f IH]; intros n; [reflexivity|]. cbn [resolve_var_rs resolve_var].
  destruct (lookup n ctx) as [[| | | |s| |]|] eqn:El; try reflexivity. f_equal.
  rewrite rescan_eq_subst.
  - apply subst_toks_ext. exact IH.
  - intros m v Hv. rewrite IH in Hv. exact (resolve_var_no_pct ctx Hc f m v Hv).
  - exact (proj1 Hc n s El).
  - unfold loop_fuel. pose proof (scan_length s 0). lia.
Qed.

Lemma interp_string_rs_eq extra ctx s : ctx_plain ctx -> lits_plain (scan 0 s) ->
  interp_string_rs extra ctx s = interp_string ctx s.
Proof.
  intros Hc Hl. unfold interp_string_rs, interp_string. f_equal. rewrite rescan_eq_subst.
  - apply subst_toks_ext. intros n. apply resolve_var_rs_eq. exact Hc.
  - intros m v Hv. rewrite (resolve_var_rs_eq extra ctx Hc) in Hv. exact (resolve_var_no_pct ctx Hc _ m v Hv).
  - exact Hl.
  - unfold loop_fuel. pose proof (scan_length s 0). lia.
Qed.
