(* C04 — FlowIR.apply_replicate (python/experiment/model/frontends/flowir.py), called by FlowIRConcrete.replicate()
   on the instance of the platform, i.e. by every non-primitive FlowIRExperimentConfiguration: the typed options
   workflowAttributes.replicate (int) and workflowAttributes.aggregate (bool) of every component are resolved there, by
   a THIRD piece of code that builds the dictionary of the variables visible to the component on its own:

       visible_vars = deep_copy(variables.default.global of the instance)
       visible_vars = override_object(visible_vars, variables.default.stages[stage] of the instance)
       visible_vars = override_object(visible_vars, variables of the component of the instance)
       value = fill_in(workflowAttributes[key], visible_vars, is_primitive=True) ; value = convert(value)

   (the sections hold scalars only - instance() rejects anything else - so override_object is dict.update).  The number
   of replicas that replicate() generates for the component is that value.  The sections of the instance are the ones
   of Instance.v (global / stage pre-resolved in their own scope; the component variables own + override[platform],
   filled in against global < stage < component with ignore_errors=True). *)
From Coq Require Import String Ascii List Bool ZArith Arith Lia.
Import ListNotations.
Require Import V.Lib.PyStr V.Lib.JTree V.Conf.Model V.Conf.Proofs V.Conf.Rescan V.Conf.RescanProofs V.Conf.Instance.
Open Scope string_scope.

Definition repl_visible (G S C : alist) : alist := update (update G S) C.

(* fill_in(value, visible_vars): a string is interpolated, numbers / booleans / null stay *)
Definition repl_fill (extra : nat) (vis : alist) (v : jv) : res jv :=
  match v with
  | JStr s => rmap JStr (interp_string_rs extra vis s)
  | _ => Ok v
  end.

(* to_replicate: int(value), a float is rejected *)
Definition repl_conv_int (v : jv) : option Z :=
  match v with
  | JStr s => parse_int s
  | JInt z => Some z
  | JBool b => Some (if b then 1 else 0)%Z
  | _ => None
  end.

(* to_bool: a bool stays, text is looked up (lower case) in true/false/y/n/yes/no, anything else raises *)
Definition repl_conv_bool (v : jv) : option bool :=
  match v with
  | JBool b => Some b
  | JStr s => let l := lower s in
              if String.eqb l "true" || String.eqb l "y" || String.eqb l "yes" then Some true
              else if String.eqb l "false" || String.eqb l "n" || String.eqb l "no" then Some false
              else None
  | _ => None
  end.

(* the variables of the component of the instance: fill_in(own + override[platform], global < stage < component,
   ignore_errors=True) - a value that meets an unknown variable is kept (its partial resolution is not modelled: such
   a value gives an unknown-variable error again when the option refers to it) *)
Definition repl_sections (extra : nat) (d : doc) (u : jv) (p sk : string) (c : jv) : res (alist * alist * alist) :=
  rbind (inst_vars_pre extra d u p sk) (fun GS =>
    let C := inst_comp_vars p c in
    rmap (fun C' => (fst GS, snd GS, C')) (pre_layer extra (repl_visible (fst GS) (snd GS) C) C)).

(* the value of workflowAttributes.<key> of the component as apply_replicate resolves it; None = not given / null *)
Definition repl_option (extra : nat) (dflt : jv) (d : doc) (u : jv) (p : string) (stage : Z) (c : jv) (key : string)
  : res (option jv) :=
  let (ols, vls) := view dflt d u p stage c in
  match merged_of ols vls with
  | None => Err EShape
  | Some m =>
      match get_path [WA; key] m with
      | None | Some JNull => Ok None
      | Some v => rbind (repl_sections extra d u p (zrepr stage) c) (fun s =>
                    let '(G0, S0, C0) := s in rmap Some (repl_fill extra (repl_visible G0 S0 C0) v))
      end
  end.

Definition repl_count (extra : nat) (dflt : jv) (d : doc) (u : jv) (p : string) (stage : Z) (c : jv) : res (option Z) :=
  rbind (repl_option extra dflt d u p stage c "replicate") (fun o =>
    match o with
    | None => Ok None
    | Some v => match repl_conv_int v with Some z => Ok (Some z) | None => Err EConvert end
    end).

Definition repl_aggregate (extra : nat) (dflt : jv) (d : doc) (u : jv) (p : string) (stage : Z) (c : jv) : res bool :=
  rbind (repl_option extra dflt d u p stage c "aggregate") (fun o =>
    match o with
    | None => Ok false
    | Some v => match repl_conv_bool v with Some b => Ok b | None => Err EConvert end
    end).

(* ================================================================== lemmas *)
Lemma repl_visible_lookup G S C x :
  lookup x (repl_visible G S C) = lookup x (layer_vars [G; S; C]).
Proof.
  rewrite layer_vars_precedence. unfold repl_visible. cbn [rev app first_some]. rewrite !lookup_update.
  destruct (lookup x C); [reflexivity|]. destruct (lookup x S); [reflexivity|]. destruct (lookup x G); reflexivity.
Qed.

(* the dictionary apply_replicate builds reads global < stage < component: for every variable it holds the value of
   the layer that the documented order picks *)
Lemma repl_visible_documented d u p sk c x :
  lookup x (repl_visible (inst_global d p) (inst_stage d u p sk) (inst_comp_vars p c))
  = lookup x (layer_vars (var_layers d u p sk c)).
Proof. rewrite repl_visible_lookup. exact (inst_layers_lookup d u p sk c x). Qed.

Lemma repl_sections_defined extra d u p sk c G' S' C' x :
  repl_sections extra d u p sk c = Ok (G', S', C') ->
  (lookup x (repl_visible G' S' C') = None <-> lookup x (layer_vars (var_layers d u p sk c)) = None).
Proof.
  unfold repl_sections. intros H.
  destruct (inst_vars_pre extra d u p sk) as [[G1 S1]|e] eqn:EP; [|discriminate].
  cbn [rbind fst snd] in H.
  destruct (pre_layer extra (repl_visible G1 S1 (inst_comp_vars p c)) (inst_comp_vars p c)) as [C1|e] eqn:EC; [|discriminate].
  cbn [rmap] in H. injection H as <- <- <-.
  rewrite <- (inst_pre_defined extra d u p sk c G1 S1 x EP).
  rewrite !repl_visible_lookup, !layer_vars_precedence. cbn [rev app first_some].
  pose proof (pre_layer_none extra _ _ _ x EC) as PC.
  destruct (lookup x C1) as [c1|]; destruct (lookup x (inst_comp_vars p c)) as [c0|].
  - split; discriminate.
  - destruct PC as [_ PC]. specialize (PC eq_refl). discriminate.
  - destruct PC as [PC _]. specialize (PC eq_refl). discriminate.
  - tauto.
Qed.

Lemma repl_sections_plain extra d u p sk c G' S' C' x v :
  repl_sections extra d u p sk c = Ok (G', S', C') ->
  lookup x (layer_vars (var_layers d u p sk c)) = Some v -> value_plain v ->
  lookup x (repl_visible G' S' C') = Some v.
Proof.
  unfold repl_sections. intros H Hv Hp.
  destruct (inst_vars_pre extra d u p sk) as [[G1 S1]|e] eqn:EP; [|discriminate].
  cbn [rbind fst snd] in H.
  destruct (pre_layer extra (repl_visible G1 S1 (inst_comp_vars p c)) (inst_comp_vars p c)) as [C1|e] eqn:EC; [|discriminate].
  cbn [rmap] in H. injection H as <- <- <-.
  pose proof (inst_pre_plain extra d u p sk c G1 S1 x v EP Hv Hp) as Q.
  rewrite repl_visible_lookup. rewrite layer_vars_precedence in Q |- *. cbn [rev app first_some] in Q |- *.
  destruct (lookup x (inst_comp_vars p c)) as [c0|] eqn:E0.
  - injection Q as ->. rewrite (pre_layer_plain extra _ _ _ x v EC E0 Hp). reflexivity.
  - pose proof (pre_layer_none extra _ _ _ x EC) as PC. destruct PC as [_ PC]. rewrite (PC E0). exact Q.
Qed.

(* ================================================================== correspondence checker *)
(* observation of FlowIRConcrete.replicate(platform, ignore_errors=True) (or of the non-primitive experiment
   configuration) for a component c and a consumer col of c in the same stage:
   inl (number of replicas generated for c (0 = c is kept as it is), number of replicas of col (0 = kept / aggregating))
   | inr (exception class, detail) *)
Definition repl_outcome := ((Z * Z) + (string * string))%type.

Definition check_replicate (c : case_in * string * repl_outcome) : bool :=
  let '(dflt, (b, v, cs), files, p, stage, name) := fst (fst c) in
  let colname := snd (fst c) in
  let d := {| d_blueprint := b; d_variables := v; d_components := cs |} in
  match find_comp d stage name, find_comp d stage colname, user_vars files with
  | Some comp, Some col, Some u =>
      let sure_fail := inst_must_fail dflt d u p in
      let may_fail := inst_may_fail d u p in
      match repl_count rs_extra dflt d u p stage comp, repl_aggregate rs_extra dflt d u p stage col,
            repl_aggregate rs_extra dflt d u p stage comp with
      | Ok n, Ok ag, Ok false =>
          let k := match n with Some z => if (0 <? z)%Z then z else 0%Z | None => 0%Z end in
          match snd c with
          | inl (nc, ncol) => negb sure_fail && Z.eqb nc k && Z.eqb ncol (if ag then 0%Z else k)
          | inr _ => sure_fail || may_fail
          end
      | Ok _, Ok _, Ok true => true      (* an aggregating component that replicates: never generated *)
      | _, _, _ => match snd c with inr _ => true | inl _ => false end
      end
  | _, _, _ => match snd c with inr _ => true | inl _ => false end
  end.
