(* C04 — Resolved component configuration follows the documented layering order.

   Executable model of (python/experiment/model/frontends/flowir.py)
     FlowIRConcrete.get_component_variables      -> var_layers / layer_vars
     FlowIRConcrete.get_component_configuration  -> opt_layers / merged / resolve
     FlowIR.override_object                      -> V.Lib.JTree.override (checked by the same correspondence)
     FlowIR.inject_default_values_to_component   -> inject_all
     FlowIR.fill_in / FlowIR.interpolate         -> interp_tree / interp_string
     FlowIR.convert_component_types              -> convert / conv_table
   and (python/experiment/model/conf.py)
     FlowIRExperimentConfiguration.layer_many_variable_files / _patch_in_variable_files -> user_vars / patched stage variables.

   The document model ([doc]), the layer views and [resolve] are meant to be reused by the other
   configuration properties (C07, C08, C11).

   Conventions.  A FlowIR document is a record of jv trees exactly as the YAML gives them, except that the
   integer stage keys of `blueprint.<platform>.stages` / `variables.<platform>.stages` are their decimal strings
   (that is what the Python printer common.cjv emits).  The table of built-in defaults
   (FlowIR.default_component_structure()) is NOT copied here: it is an argument [dflt] of every function
   (the correspondence run passes the table the running code returns).

   Not modelled (the generators of the correspondence never produce them; see harness/c04.py):
   array-index expansion (`%(v)s[1]`, `a b c[0]`, files), the `interpreter` rewrite of command,
   memory_to_bytes / kubernetes qos converters, float literals inside strings given to float options,
   re-scanning of a string after a substitution (the model substitutes in one left-to-right pass; the two
   coincide when no text around a reference completes a new `%(name)s` with the substituted value, in
   particular when literal text contains no '%'). *)
From Coq Require Import String Ascii List Bool ZArith Arith Lia.
Import ListNotations.
Require Import V.Lib.PyStr V.Lib.JTree.
Open Scope string_scope.

(* ------------------------------------------------------------------ results *)
Inductive err :=
  | EShape                      (* AttributeError of override_object: non-empty scalar layered on a dictionary *)
  | EUnknown (v : string)       (* FlowIRVariableUnknown *)
  | ECycle                      (* RecursionError: a variable (indirectly) refers to itself *)
  | EIncomplete                 (* FlowIRVariablesIncomplete: `%(name)` without the trailing s *)
  | EScope                      (* dotted variable name inside the value of a variable *)
  | EInvalidVar (v : string)    (* FlowIRVariableInvalid: variable whose value is null / list / dictionary *)
  | EConvert                    (* FlowIRFailedComponentConvertType *)
  | ENoComponent.               (* FlowIRComponentUnknown *)

Inductive res (A : Type) := Ok (a : A) | Err (e : err).
Arguments Ok {A} a.
Arguments Err {A} e.

Definition rbind {A B} (r : res A) (f : A -> res B) : res B :=
  match r with Ok a => f a | Err e => Err e end.
Definition rmap {A B} (f : A -> B) (r : res A) : res B :=
  match r with Ok a => Ok (f a) | Err e => Err e end.

Definition alist := list (string * jv).

(* ------------------------------------------------------------------ the document *)
Record doc := {
  d_blueprint : jv;          (* platform -> { "global": component-blueprint, "stages": { "<i>": blueprint } } *)
  d_variables : jv;          (* platform -> { "global": {name: value},       "stages": { "<i>": {name: value} } } *)
  d_components : list jv     (* component dictionaries: name, stage, options, "variables", "override": {platform: ...} *)
}.

Definition get_or (dflt : jv) (p : list string) (v : jv) : jv :=
  match get_path p v with Some x => x | None => dflt end.

(* blueprint.get(platform, {}).get('global', {})  /  ....get('stages', {}).get(stage, {}) *)
Definition bp_global (d : doc) (p : string) : jv := get_or (JDict []) [p; "global"] (d_blueprint d).
Definition bp_stage (d : doc) (p sk : string) : jv := get_or (JDict []) [p; "stages"; sk] (d_blueprint d).
Definition vars_global (d : doc) (p : string) : alist := jdict_of (get_or (JDict []) [p; "global"] (d_variables d)).
Definition vars_stage (d : doc) (p sk : string) : alist := jdict_of (get_or (JDict []) [p; "stages"; sk] (d_variables d)).

Definition zrepr (z : Z) : string :=
  if (z <? 0)%Z then "-" ++ dec (Z.to_N (- z)) else dec (Z.to_N z).

Definition is_comp (stage : Z) (name : string) (c : jv) : bool :=
  match get_path ["stage"] c, get_path ["name"] c with
  | Some (JInt z), Some (JStr n) => Z.eqb z stage && String.eqb n name
  | _, _ => false
  end.

Definition find_comp (d : doc) (stage : Z) (name : string) : option jv :=
  List.find (is_comp stage name) (d_components d).

(* ------------------------------------------------------------------ variables: dict.update chains *)
(* a.update(b): entries of b win; (the first entry of b for a key wins, Python dictionaries have no duplicates) *)
Definition update (a b : alist) : alist :=
  fold_right (fun kv acc => set_key (fst kv) (snd kv) acc) a b.

Definition layer_vars (layers : list alist) : alist := fold_left update layers [].

(* fold of FlowIR.override_object over a list of layers, lowest priority first *)
Definition fold_override (acc : option jv) (layers : list jv) : option jv :=
  fold_left (fun a l => match a with Some x => override x l | None => None end) layers acc.

(* layer_many_variable_files: agg = {}; for each file: override_object(agg, file) *)
Definition user_vars (files : list jv) : option jv := fold_override (Some (JDict [])) files.

(* what _patch_in_variable_files writes into the stage variables of EVERY platform:
   copy(user global) updated with user stage[i] *)
Definition user_patch (u : jv) (sk : string) : alist :=
  update (jdict_of (get_or (JDict []) ["global"] u)) (jdict_of (get_or (JDict []) ["stages"; sk] u)).

(* get_component_variables: the layers in the order the code applies them (lowest priority first).
   [u] is the layered content of the user variable files ({} when there are none). *)
Definition var_layers (d : doc) (u : jv) (p sk : string) (c : jv) : list alist :=
  [vars_global d "default"; update (vars_stage d "default" sk) (user_patch u sk)]
  ++ (if String.eqb p "default" then []
      else [vars_global d p; update (vars_stage d p sk) (user_patch u sk)])
  ++ [jdict_of (get_or (JDict []) ["variables"] c);
      jdict_of (get_or (JDict []) ["override"; p; "variables"] c)].

(* ------------------------------------------------------------------ defaults *)
Fixpoint set_path (p : list string) (x : jv) (v : jv) : jv :=
  match p with
  | [] => x
  | k :: p' => let m := jdict_of v in
               JDict (set_key k (set_path p' x (match lookup k m with Some w => w | None => JDict [] end)) m)
  end.

Fixpoint del_path (p : list string) (v : jv) : jv :=
  match p with
  | [] => v
  | [k] => match v with JDict m => JDict (remove_key k m) | _ => v end
  | k :: p' => match v with
               | JDict m => match lookup k m with Some w => JDict (set_key k (del_path p' w) m) | None => v end
               | _ => v
               end
  end.

(* x in [None, 0] with Python equality (False == 0, 0.0 == 0) *)
Definition none_or_zero (x : jv) : bool :=
  match x with
  | JNull | JInt Z0 | JBool false => true
  | JFlt r => String.eqb r "0.0" || String.eqb r "-0.0"
  | _ => false
  end.

Definition WA := "workflowAttributes".

(* FlowIR.inject_default_values_to_component(comp, all_values=True) *)
Definition inject_all (dflt c : jv) : option jv :=
  let rh := get_path [WA; "restartHookOn"] dflt in
  match override (del_path [WA; "restartHookOn"] dflt) c with
  | None => None
  | Some r =>
      let r1 := match rh with
                | Some rhv =>
                    if falsy rhv then r
                    else match get_path [WA; "restartHookOn"] r with
                         | None | Some JNull => set_path [WA; "restartHookOn"] rhv r
                         | _ => r
                         end
                | None => r
                end in
      Some (match get_path [WA; "repeatInterval"] r1 with
            | Some x => set_path [WA; "isRepeat"] (JBool (negb (none_or_zero x))) r1
            | None => r1
            end)
  end.

(* FlowIRConcrete.__init__ applies inject_default_values_to_component(comp, all_values=False) to every component:
   the only effect on a component that names its stage is that isRepeat is derived from the component's OWN
   repeatInterval (when it gives one) and stored in the component *)
Definition comp_pre (c : jv) : jv :=
  match get_path [WA; "repeatInterval"] c with
  | Some x => set_path [WA; "isRepeat"] (JBool (negb (none_or_zero x))) c
  | None => c
  end.

Definition builtin (dflt : jv) : jv :=
  match inject_all dflt (JDict []) with Some b => b | None => JNull end.

(* ------------------------------------------------------------------ option layers *)
(* The component's own "override" field is not an option: the implementation carries it through verbatim
   (the harness removes it from the implementation's answer before comparing). *)
Definition comp_layer (c : jv) : jv :=
  match comp_pre c with JDict m => JDict (remove_key "override" m) | x => x end.

Definition comp_override (p : string) (c : jv) : list jv :=
  match get_path ["override"; p] c with
  | Some o => if falsy o then [] else [o]
  | None => []
  end.

(* get_component_configuration: sequence = [flow defaults, default global, default stage, platform global,
   platform stage, component, component override for the platform] *)
Definition opt_layers (dflt : jv) (d : doc) (p sk : string) (c : jv) : list jv :=
  [builtin dflt; bp_global d "default"; bp_stage d "default" sk; bp_global d p; bp_stage d p sk; comp_layer c]
  ++ comp_override p c.

(* the layered, not yet interpolated configuration (what raw=True returns) *)
Definition merged_of (ols : list jv) (vls : list alist) : option jv :=
  match fold_override (Some (JDict [])) ols with
  | Some (JDict m) => Some (JDict (set_key "variables" (JDict (layer_vars vls)) m))
  | _ => None
  end.

(* ------------------------------------------------------------------ interpolation *)
Definition is_name_char (a : ascii) : bool :=
  let n := nat_of_ascii a in
  (Nat.leb 97 n && Nat.leb n 122) || (Nat.leb 65 n && Nat.leb n 90) || (Nat.leb 48 n && Nat.leb n 57)
  || Nat.eqb n 95 || Nat.eqb n 46 || Nat.eqb n 45.

(* longest prefix of name characters, and the rest *)
Fixpoint take_name (s : string) : string * string :=
  match s with
  | EmptyString => (EmptyString, EmptyString)
  | String a s' => if is_name_char a then let (n, r) := take_name s' in (String a n, r) else (EmptyString, s)
  end.

(* the regular expression  %\([a-zA-Z0-9_.-]+\)s  anchored at the head of s: the name *)
Definition match_ref (s : string) : option string :=
  match s with
  | String "%" (String "(" s') =>
      match take_name s' with
      | (EmptyString, _) => None
      | (n, String ")" (String "s" _)) => Some n
      | _ => None
      end
  | _ => None
  end.

(* %\([a-zA-Z0-9_.-]+\)  at the head of s, NOT followed by s *)
Definition match_incomplete (s : string) : bool :=
  match s with
  | String "%" (String "(" s') =>
      match take_name s' with
      | (EmptyString, _) => false
      | (_, String ")" (String "s" _)) => false
      | (_, String ")" _) => true
      | _ => false
      end
  | _ => false
  end.

Fixpoint has_incomplete (s : string) : bool :=
  match_incomplete s || match s with EmptyString => false | String _ s' => has_incomplete s' end.

Inductive tok := TChr (c : ascii) | TRef (n : string).

(* left-most, non-overlapping references; [skip] = characters of a matched reference still to drop *)
Fixpoint scan (skip : nat) (s : string) : list tok :=
  match s with
  | EmptyString => []
  | String c s' =>
      match skip with
      | S k => scan k s'
      | O => match match_ref s with
             | Some n => TRef n :: scan (String.length n + 3) s'
             | None => TChr c :: scan 0 s'
             end
      end
  end.

Definition dotted (n : string) : bool := occurs "." n.

(* one left-to-right pass; [rv] resolves a variable name to its fully interpolated text.
   top = true: the string is a leaf of the configuration (use_symbol_table=False: dotted names stay);
   top = false: it is the value of a variable (dotted names are not implemented). *)
Fixpoint subst_toks (rv : string -> res string) (top : bool) (ts : list tok) : res string :=
  match ts with
  | [] => Ok EmptyString
  | TChr c :: r => rmap (String c) (subst_toks rv top r)
  | TRef n :: r =>
      if dotted n then
        if top then rmap (fun t => "%(" ++ n ++ ")s" ++ t) (subst_toks rv top r) else Err EScope
      else rbind (rv n) (fun v => rmap (fun t => v ++ t) (subst_toks rv top r))
  end.

Definition finish_str (r : res string) : res string :=
  rbind r (fun t => if has_incomplete t then Err EIncomplete else Ok t).

(* resolve_using_symbol_table: ints/bools/floats by repr, strings by recursive interpolation *)
Fixpoint resolve_var (fuel : nat) (ctx : alist) (n : string) : res string :=
  match fuel with
  | O => Err ECycle
  | S f =>
      match lookup n ctx with
      | None => Err (EUnknown n)
      | Some (JStr s) => finish_str (subst_toks (resolve_var f ctx) false (scan 0 s))
      | Some (JInt z) => Ok (zrepr z)
      | Some (JBool b) => Ok (if b then "True" else "False")
      | Some (JFlt r) => Ok r
      | Some _ => Err (EInvalidVar n)
      end
  end.

Definition fuel_of (ctx : alist) : nat := S (length ctx).

(* FlowIR.interpolate(s, ctx, use_symbol_table=False) *)
Definition interp_string (ctx : alist) (s : string) : res string :=
  finish_str (subst_toks (resolve_var (fuel_of ctx) ctx) true (scan 0 s)).

(* FlowIR.fill_in *)
Fixpoint interp_tree (ctx : alist) (v : jv) : res jv :=
  match v with
  | JStr s => rmap JStr (interp_string ctx s)
  | JList l =>
      rmap JList ((fix go (l : list jv) : res (list jv) :=
                     match l with
                     | [] => Ok []
                     | x :: r => rbind (interp_tree ctx x) (fun x' => rmap (cons x') (go r))
                     end) l)
  | JDict m =>
      rmap JDict ((fix go (m : list (string * jv)) : res (list (string * jv)) :=
                     match m with
                     | [] => Ok []
                     | (k, x) :: r => rbind (interp_tree ctx x) (fun x' => rmap (cons (k, x')) (go r))
                     end) m)
  | _ => Ok v
  end.

(* ------------------------------------------------------------------ typed leaves *)
(* CBool is Python's bool() (what the pinned code used for boolean options: bool('False') = True);
   CB2 is to_bool of the repaired code: strings are parsed by str_to_bool, other values by bool(). *)
Inductive conv := CStr | CInt | CBool | CB2 | CFloat | CS2B | COpaque.

Definition parse_int (s : string) : option Z :=
  match s with
  | String "-" r => option_map (fun n => (- Z.of_N n)%Z) (undec r)
  | String "+" r => option_map Z.of_N (undec r)
  | _ => option_map Z.of_N (undec s)
  end.

Definition str_to_bool (s : string) : option bool :=
  let l := lower s in
  if String.eqb l "true" || String.eqb l "yes" then Some true
  else if String.eqb l "false" || String.eqb l "no" then Some false
  else None.

(* expected_type(value) for a value that is a str, int or bool; None = the conversion raised *)
Definition conv_scalar (k : conv) (v : jv) : option jv :=
  match k, v with
  | COpaque, _ => Some v
  | CStr, JStr s => Some (JStr s)
  | CStr, JInt z => Some (JStr (zrepr z))
  | CStr, JBool b => Some (JStr (if b then "True" else "False"))
  | CInt, JStr s => option_map JInt (parse_int s)
  | CInt, JInt z => Some (JInt z)
  | CInt, JBool b => Some (JInt (if b then 1 else 0))
  | CBool, JStr s => Some (JBool (negb (String.eqb s "")))
  | CBool, JInt z => Some (JBool (negb (Z.eqb z 0)))
  | CBool, JBool b => Some (JBool b)
  | CFloat, JStr s => option_map (fun z => JFlt (zrepr z ++ ".0")) (parse_int s)
  | CFloat, JInt z => Some (JFlt (zrepr z ++ ".0"))
  | CFloat, JBool b => Some (JFlt (if b then "1.0" else "0.0"))
  | CS2B, JBool b => Some (JBool b)
  | CS2B, JStr s => option_map JBool (str_to_bool s)
  | CS2B, JInt _ => None
  | CB2, JBool b => Some (JBool b)
  | CB2, JStr s => option_map JBool (str_to_bool s)
  | CB2, JInt z => Some (JBool (negb (Z.eqb z 0)))
  | _, _ => Some v
  end.

(* convert(value, expected_type) at a typed leaf: only str/int/bool values are converted; null, floats and
   lists are left alone; a non-empty dictionary under a scalar type fails *)
Definition conv_leaf (k : conv) (v : jv) : option jv :=
  match v with
  | JStr _ | JInt _ | JBool _ => conv_scalar k v
  | JDict (_ :: _) => match k with COpaque => Some v | _ => None end
  | _ => Some v
  end.

(* expected_types of convert_component_types as (path, converter); paths have length 2 to 4 *)
Definition conv_table : list (list string * conv) :=
  [ (["command"; "arguments"], CStr); (["command"; "environment"], CStr); (["command"; "executable"], CStr);
    (["command"; "resolvePath"], CS2B); (["command"; "interpreter"], CStr); (["command"; "expandArguments"], CStr);
    ([WA; "restartHookFile"], CStr); ([WA; "replicate"], CInt); ([WA; "aggregate"], CB2);
    ([WA; "isMigratable"], CB2); ([WA; "isMigrated"], CB2); ([WA; "repeatInterval"], CInt);
    ([WA; "repeatRetries"], CInt); ([WA; "isRepeat"], CB2); ([WA; "maxRestarts"], CInt);
    ([WA; "optimizer"; "disable"], CB2);
    ([WA; "memoization"; "disable"; "strong"], CB2); ([WA; "memoization"; "disable"; "fuzzy"], CB2); ([WA; "optimizer"; "exploitChance"], CFloat);
    ([WA; "optimizer"; "exploitTarget"], CFloat); ([WA; "optimizer"; "exploitTargetLow"], CFloat);
    ([WA; "optimizer"; "exploitTargetHigh"], CFloat);
    (["resourceRequest"; "numberProcesses"], CInt); (["resourceRequest"; "numberThreads"], CInt);
    (["resourceRequest"; "ranksPerNode"], CInt); (["resourceRequest"; "threadsPerCore"], CInt);
    (["resourceRequest"; "memory"], COpaque); (["resourceRequest"; "gpus"], CInt);
    (["resourceManager"; "config"; "backend"], CStr); (["resourceManager"; "config"; "walltime"], CFloat);
    (["resourceManager"; "lsf"; "queue"], CStr); (["resourceManager"; "lsf"; "reservation"], CStr);
    (["resourceManager"; "lsf"; "resourceString"], CStr); (["resourceManager"; "lsf"; "statusRequestInterval"], CFloat);
    (["resourceManager"; "lsf"; "dockerImage"], CStr); (["resourceManager"; "lsf"; "dockerProfileApp"], CStr);
    (["resourceManager"; "lsf"; "dockerOptions"], CStr);
    (["resourceManager"; "kubernetes"; "qos"], COpaque); (["resourceManager"; "kubernetes"; "image"], CStr);
    (["resourceManager"; "kubernetes"; "image-pull-secret"], CStr); (["resourceManager"; "kubernetes"; "namespace"], CStr);
    (["resourceManager"; "kubernetes"; "api-key-var"], CStr); (["resourceManager"; "kubernetes"; "host"], CStr);
    (["resourceManager"; "kubernetes"; "cpuUnitsPerCore"], CFloat); (["resourceManager"; "kubernetes"; "gracePeriod"], CInt);
    (["resourceManager"; "kubernetes"; "podSpec"], COpaque);
    (["resourceManager"; "docker"; "image"], CStr) ].

(* convert one typed path in place (absent path: nothing to do) *)
Definition convert_at (pk : list string * conv) (r : res jv) : res jv :=
  rbind r (fun v =>
    match get_path (fst pk) v with
    | None => Ok v
    | Some x => match conv_leaf (snd pk) x with
                | Some x' => Ok (set_path (fst pk) x' v)
                | None => Err EConvert
                end
    end).

Definition convert (table : list (list string * conv)) (v : jv) : res jv :=
  fold_right convert_at (Ok v) table.

(* ------------------------------------------------------------------ resolve *)
(* everything after the layering: second injection of defaults, interpolation, type conversion *)
Definition resolve_layers (dflt : jv) (ols : list jv) (vls : list alist) : res jv :=
  match merged_of ols vls with
  | None => Err EShape
  | Some m =>
      match inject_all dflt m with
      | None => Err EShape
      | Some full => rbind (interp_tree (layer_vars vls) full) (convert conv_table)
      end
  end.

(* the view of the document that the resolution for (platform, component) reads *)
Definition view (dflt : jv) (d : doc) (u : jv) (p : string) (stage : Z) (c : jv) : list jv * list alist :=
  let sk := zrepr stage in (opt_layers dflt d p sk c, var_layers d u p sk c).

(* FlowIRConcrete(doc, p).get_component_configuration((stage, name), raw=False, include_default=True)
   after _patch_in_variable_files(files); minus the "override" field *)
Definition resolve (dflt : jv) (d : doc) (files : list jv) (p : string) (stage : Z) (name : string) : res jv :=
  match find_comp d stage name with
  | None => Err ENoComponent
  | Some c =>
      match user_vars files with
      | None => Err EShape
      | Some u => let (ols, vls) := view dflt d u p stage c in resolve_layers dflt ols vls
      end
  end.

(* raw=True *)
Definition resolve_raw (dflt : jv) (d : doc) (files : list jv) (p : string) (stage : Z) (name : string) : res jv :=
  match find_comp d stage name with
  | None => Err ENoComponent
  | Some c =>
      match user_vars files with
      | None => Err EShape
      | Some u => let (ols, vls) := view dflt d u p stage c in
                  match merged_of ols vls with Some m => Ok m | None => Err EShape end
      end
  end.

(* ------------------------------------------------------------------ correspondence checker *)
Definition err_class (e : err) : string * string :=
  match e with
  | EShape => ("AttributeError", "")
  | EUnknown v => ("FlowIRVariableUnknown", v)
  | ECycle => ("RecursionError", "")
  | EIncomplete => ("FlowIRVariablesIncomplete", "")
  | EScope => ("NotImplementedError", "")
  | EInvalidVar v => ("FlowIRVariableInvalid", v)
  | EConvert => ("FlowIRFailedComponentConvertType", "")
  | ENoComponent => ("FlowIRComponentUnknown", "")
  end.

(* implementation outcome: inl tree | inr (exception class, detail) *)
Definition outcome := (jv + (string * string))%type.

Definition agrees (m : res jv) (o : outcome) : bool :=
  match m, o with
  | Ok a, inl b => jv_eqb a b
  | Err e, inr (c, d) => let (c', d') := err_class e in String.eqb c c' && String.eqb d d'
  | _, _ => false
  end.

(* case = ((dflt, (blueprint, variables, components), user files, platform, stage, name), (raw outcome, resolved outcome)) *)
Definition case_in := (jv * (jv * jv * list jv) * list jv * string * Z * string)%type.

(* The implementation reports the error of the first failing leaf in ITS traversal order (dictionary insertion
   order, which override_object makes depend on set iteration); the model's [interp_tree] reports the first in the
   model's key order.  For the comparison the checker therefore computes the error of EVERY failing leaf and accepts
   the implementation's error when it is one of them. *)
Fixpoint leaf_errors (ctx : alist) (v : jv) : list err :=
  match v with
  | JStr s => match interp_string ctx s with Err e => [e] | Ok _ => [] end
  | JList l => (fix go (l : list jv) : list err :=
                  match l with [] => [] | x :: r => (leaf_errors ctx x ++ go r)%list end) l
  | JDict m => (fix go (m : list (string * jv)) : list err :=
                  match m with [] => [] | (_, x) :: r => (leaf_errors ctx x ++ go r)%list end) m
  | _ => []
  end.

Definition resolve_errors (dflt : jv) (d : doc) (files : list jv) (p : string) (stage : Z) (name : string) : list err :=
  match resolve dflt d files p stage name with
  | Ok _ => []
  | Err e0 =>
      match find_comp d stage name, user_vars files with
      | Some c, Some u =>
          let (ols, vls) := view dflt d u p stage c in
          match merged_of ols vls with
          | Some m => match inject_all dflt m with
                      | Some full => match leaf_errors (layer_vars vls) full with [] => [e0] | es => es end
                      | None => [e0]
                      end
          | None => [e0]
          end
      | _, _ => [e0]
      end
  end.

Definition err_matches (c d : string) (e : err) : bool :=
  let (c', d') := err_class e in String.eqb c c' && String.eqb d d'.

Definition agrees_any (m : res jv) (errs : list err) (o : outcome) : bool :=
  match m, o with
  | Ok a, inl b => jv_eqb a b
  | Err _, inr (c, d) => existsb (err_matches c d) errs
  | _, _ => false
  end.

Definition run_case (i : case_in) : res jv * res jv :=
  let '(dflt, (b, v, cs), files, p, stage, name) := i in
  let d := {| d_blueprint := b; d_variables := v; d_components := cs |} in
  (resolve_raw dflt d files p stage name, resolve dflt d files p stage name).

Definition check_case (c : case_in * (outcome * outcome)) : bool :=
  let (i, o) := c in
  let (mr, mf) := run_case i in
  let '(dflt, (b, v, cs), files, p, stage, name) := i in
  let d := {| d_blueprint := b; d_variables := v; d_components := cs |} in
  agrees mr (fst o) && agrees_any mf (resolve_errors dflt d files p stage name) (snd o).
