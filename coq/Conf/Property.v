(* C04 — Resolved component configuration follows the documented layering order.  Property theorems only. *)
From Coq Require Import String Ascii List Bool ZArith Arith.
Import ListNotations.
Require Import V.Lib.PyStr V.Lib.JTree V.Conf.Model V.Conf.Proofs.
Require Import V.Conf.Rescan V.Conf.RescanProofs V.Conf.Acyclic V.Conf.Tree V.Conf.TreeInterp V.Conf.Types V.Conf.Instance V.Conf.Replicate.
Open Scope string_scope.

(* Precedence, for every list of layers (lowest priority first), every option path and every variable:
   - when the fold of FlowIR.override_object succeeds, the value found at a path at which no layer holds a
     dictionary is the value of the highest-priority layer that gives a non-null value there
     ([val] reads a path and counts null as absent; a null in an upper layer does not erase);
   - the value of a variable after the chain of dict.update is that of the highest-priority layer defining it. *)
Theorem C04_precedence : forall (layers : list jv) (r : jv) (k : string) (pi : list string)
                                (vlayers : list alist) (v : string),
  (fold_override (Some (JDict [])) layers = Some r ->
   Forall (fun l => nodict (get_path (k :: pi) l)) layers ->
   val (k :: pi) r = first_some (val (k :: pi)) (rev layers))
  /\ lookup v (layer_vars vlayers) = first_some (lookup v) (rev vlayers).
Proof.
  intros layers r k pi vlayers v. split.
  - intros H Hl. exact (fold_override_precedence layers r k pi H Hl).
  - exact (layer_vars_precedence v vlayers).
Qed.
Print Assumptions C04_precedence.

(* The same, stated about the layered configuration of a component on a platform (what
   get_component_configuration(raw=True, include_default=True) returns): options follow
   [builtin; default global; default stage; platform global; platform stage; component; override[platform]],
   variables follow [default global; default stage + user; platform global; platform stage + user; component;
   override[platform].variables]. *)
Theorem C04_precedence_resolved : forall dflt d files p stage name c u m,
  find_comp d stage name = Some c -> user_vars files = Some u ->
  resolve_raw dflt d files p stage name = Ok m ->
  (forall k pi, k <> "variables" ->
     Forall (fun l => nodict (get_path (k :: pi) l)) (opt_layers dflt d p (zrepr stage) c) ->
     val (k :: pi) m = first_some (val (k :: pi)) (rev (opt_layers dflt d p (zrepr stage) c)))
  /\ (forall v, get_path ["variables"; v] m = first_some (lookup v) (rev (var_layers d u p (zrepr stage) c))).
Proof. exact resolve_raw_precedence. Qed.
Print Assumptions C04_precedence_resolved.

(* No leak: two documents that agree on the default platform, on platform p (global and this stage), and on the
   component apart from its overrides for other platforms, resolve identically on p (raw and interpolated) —
   whatever the blueprints, variables and overrides of other platforms and other stages are. *)
Theorem C04_no_leak : forall dflt d d' files p stage name c c',
  find_comp d stage name = Some c -> find_comp d' stage name = Some c' ->
  same_for p (zrepr stage) d d' -> comp_same p c c' ->
  resolve dflt d files p stage name = resolve dflt d' files p stage name /\
  resolve_raw dflt d files p stage name = resolve_raw dflt d' files p stage name.
Proof. exact resolve_no_leak. Qed.
Print Assumptions C04_no_leak.

(* Interpolation of a string leaf against the variables ctx:
   (1) an unknown-variable error names a variable that is undefined and that the string or the value of some
       variable references;
   (2) success means every (undotted) reference of the string was to a defined variable — an undefined one is
       never passed over or replaced;
   (3) when literal text carries no '%', the result carries none: no reference at all remains;
   (4) when the variables can be ranked so that references go strictly down (acyclic; ranks bounded by the number
       of variables), the result is never the cycle error. *)
Theorem C04_interp : forall (ctx : alist) (s : string),
  (forall v, interp_string ctx s = Err (EUnknown v) ->
     lookup v ctx = None /\
     (In (TRef v) (scan 0 s) \/ exists w s', lookup w ctx = Some (JStr s') /\ In (TRef v) (scan 0 s')))
  /\ (forall t, interp_string ctx s = Ok t ->
        forall n, In (TRef n) (scan 0 s) -> dotted n = false -> lookup n ctx <> None)
  /\ (forall t, ctx_plain ctx -> lits_plain (scan 0 s) -> no_dotted (scan 0 s) ->
        interp_string ctx s = Ok t -> no_pct t /\ forall k n, ~ In (TRef n) (scan k t))
  /\ (forall rank : string -> nat,
        (forall w s' n', lookup w ctx = Some (JStr s') -> In (TRef n') (scan 0 s') -> rank n' < rank w) ->
        (forall n, rank n <= length ctx) ->
        interp_string ctx s <> Err ECycle).
Proof.
  intros ctx s. split; [|split; [|split]].
  - intros v. exact (interp_string_unknown ctx s v).
  - intros t. exact (interp_string_ok_defined ctx s t).
  - intros t Hc Hl Hd H. pose proof (interp_string_no_pct ctx s t Hc Hl Hd H) as P.
    split; [exact P|exact (no_pct_no_refs t P)].
  - intros rank. exact (interp_string_no_cycle ctx rank s).
Qed.
Print Assumptions C04_interp.

(* Typed leaves: a leaf converted by a row of the table has the row's type when it was a string, an integer or a
   boolean, and is left unchanged otherwise (null, float, list); after converting the row's path the converted
   leaf is what the configuration holds there. *)
Theorem C04_types : forall (k : conv) (pi : list string) (v v' x : jv),
  convert_at (pi, k) (Ok v) = Ok v' -> get_path pi v = Some x ->
  exists x', get_path pi v' = Some x' /\ (convertible x -> has_conv_type k x') /\ (~ convertible x -> x' = x).
Proof.
  intros k pi v v' x H Hx. destruct (convert_at_typed pi k v v' x H Hx) as (x' & Hc & Hg).
  exists x'. split; [exact Hg|exact (conv_leaf_typed k x x' Hc)].
Qed.
Print Assumptions C04_types.

(* ---------------------------------------------------------------------------------------------------------------
   "... followed by substituting variable references until none of a defined variable remains":
   the RE-SCANNING model of FlowIR.interpolate (Rescan.v: the loop of the code, which scans the text again after
   every substitution), for every loop fuel [extra], every context and every string, with no side condition:
   (1) when it succeeds, no position of the result matches the reference pattern with an undotted name — neither a
       defined nor an undefined variable is left in place ([live t] = the names matched at ANY position of t; the
       same in terms of the tokens of a left-to-right scan from any offset);
   (2) an unknown-variable error names an undefined variable;
   (3) when the left-most reference of the string is to an undefined variable, that is the outcome. *)
Theorem C04_rescan : forall (extra : nat) (ctx : alist) (s : string),
  (forall t, interp_string_rs extra ctx s = Ok t ->
     (forall n, In n (live t) -> dotted n = true) /\ (forall k n, In (TRef n) (scan k t) -> dotted n = true))
  /\ (forall v, interp_string_rs extra ctx s = Err (EUnknown v) -> lookup v ctx = None)
  /\ (forall b n a, first_ref s = Some (b, n, a) -> dotted n = false -> lookup n ctx = None ->
        interp_string_rs extra ctx s = Err (EUnknown n)).
Proof.
  intros extra ctx s. split; [|split].
  - intros t H. pose proof (interp_string_rs_ok_live extra ctx s t H) as G.
    split; [exact G|]. intros k n Hn. exact (G n (scan_live t k n Hn)).
  - intros v. exact (interp_string_rs_unknown extra ctx s v).
  - intros b n a. exact (interp_string_rs_first_undefined extra ctx s b n a).
Qed.
Print Assumptions C04_rescan.

(* The one-pass model of C04_interp IS the re-scanning model whenever neither the literal text of the string and of
   the variables' values nor a float representation carries a '%' (then no substitution can complete a new reference
   with the text around it) — for strings and for whole trees (FlowIR.fill_in).  So on such inputs everything
   C04_interp states holds of the loop the code runs: in particular an unknown-variable error names a variable that
   is undefined AND referenced (nothing else is ever substituted), and no reference at all remains. *)
Theorem C04_rescan_one_pass : forall (extra : nat) (ctx : alist),
  ctx_plain ctx ->
  (forall s, lits_plain (scan 0 s) -> interp_string_rs extra ctx s = interp_string ctx s)
  /\ (forall v, leaves_plain v -> interp_tree_rs extra ctx v = interp_tree ctx v).
Proof.
  intros extra ctx Hc. split.
  - intros s Hl. exact (interp_string_rs_eq extra ctx s Hc Hl).
  - intros v Hl. exact (interp_tree_rs_eq extra ctx v Hc Hl).
Qed.
Print Assumptions C04_rescan_one_pass.

(* Acyclicity.  [dep ctx w n]: the value of w is a string that references n; [acyclic ctx]: no variable reaches
   itself through references.  (1) The ranking that C04_interp assumes exists EXACTLY for the acyclic contexts
   (rank = length of the longest chain of references from the variable, at most the number of variables);
   (2) so under plain acyclicity the one-pass model never gives the cycle error, for strings and trees, and
   (3) on plain text neither does the re-scanning model. *)
Theorem C04_acyclic : forall (ctx : alist),
  (acyclic ctx <->
   exists rank : string -> nat,
     (forall w s n, lookup w ctx = Some (JStr s) -> In (TRef n) (scan 0 s) -> rank n < rank w) /\
     (forall n, rank n <= length ctx))
  /\ (acyclic ctx -> (forall s, interp_string ctx s <> Err ECycle) /\ (forall v, interp_tree ctx v <> Err ECycle))
  /\ (acyclic ctx -> ctx_plain ctx -> forall extra s, lits_plain (scan 0 s) ->
        interp_string_rs extra ctx s <> Err ECycle).
Proof.
  intros ctx. split; [exact (acyclic_iff_ranked ctx)|]. split.
  - intros Ha. split; [intros s; exact (acyclic_interp_no_cycle ctx s Ha)|intros v; exact (interp_tree_no_cycle ctx v Ha)].
  - intros Ha Hc extra s Hl. rewrite (interp_string_rs_eq extra ctx s Hc Hl). exact (acyclic_interp_no_cycle ctx s Ha).
Qed.
Print Assumptions C04_acyclic.

(* Trees (FlowIR.fill_in over the whole configuration; [leaves v] = the string leaves in the order they are visited,
   [first_err f l e] = e is the error of the first leaf of l on which f fails, all earlier leaves succeed).
   Re-scanning model: (1) every string leaf of a resolved tree is free of references to undotted variables;
   (2) an unknown-variable error names an undefined variable and is the error of the first failing leaf.
   One-pass model: (3) success means every undotted reference of every leaf was to a defined variable, and on plain
   text no leaf of the result holds a '%' or a reference; (4) an unknown-variable error names an undefined variable
   that some leaf references, directly or through the value of a variable, and is the error of the first failing leaf. *)
Theorem C04_interp_tree : forall (extra : nat) (ctx : alist) (v : jv),
  (forall v', interp_tree_rs extra ctx v = Ok v' ->
     forall t, In t (leaves v') ->
       (forall n, In n (live t) -> dotted n = true) /\ (forall k n, In (TRef n) (scan k t) -> dotted n = true))
  /\ (forall x, interp_tree_rs extra ctx v = Err (EUnknown x) ->
        lookup x ctx = None /\ first_err (interp_string_rs extra ctx) (leaves v) (EUnknown x))
  /\ (forall v', interp_tree ctx v = Ok v' ->
        (forall s, In s (leaves v) -> forall n, In (TRef n) (scan 0 s) -> dotted n = false -> lookup n ctx <> None) /\
        (ctx_plain ctx -> (forall s, In s (leaves v) -> lits_plain (scan 0 s) /\ no_dotted (scan 0 s)) ->
         forall t, In t (leaves v') -> no_pct t /\ forall k n, ~ In (TRef n) (scan k t)))
  /\ (forall x, interp_tree ctx v = Err (EUnknown x) ->
        lookup x ctx = None /\
        first_err (interp_string ctx) (leaves v) (EUnknown x) /\
        exists s, In s (leaves v) /\
          (In (TRef x) (scan 0 s) \/ exists w s', lookup w ctx = Some (JStr s') /\ In (TRef x) (scan 0 s'))).
Proof.
  intros extra ctx v. split; [|split; [|split]].
  - intros v'. exact (interp_tree_rs_ok extra ctx v v').
  - intros x. exact (interp_tree_rs_unknown extra ctx v x).
  - intros v'. exact (interp_tree_ok ctx v v').
  - intros x. exact (interp_tree_unknown ctx v x).
Qed.
Print Assumptions C04_interp_tree.

(* Typed leaves, the whole conversion table at once: in a configuration that convert_component_types accepted, and
   hence in every resolved configuration (one-pass or re-scanning model), the leaf at EVERY row's path has the row's
   declared type whenever it is a string, an integer or a boolean (null, floats, lists stay as they are: C04_types). *)
Theorem C04_types_table :
  (forall v v', convert conv_table v = Ok v' ->
     forall pi k, In (pi, k) conv_table -> forall x, get_path pi v' = Some x -> convertible x -> has_conv_type k x)
  /\ (forall dflt d files p stage name r,
        resolve dflt d files p stage name = Ok r \/ (exists extra, resolve_rs extra dflt d files p stage name = Ok r) ->
        forall pi k, In (pi, k) conv_table -> forall x, get_path pi r = Some x -> convertible x -> has_conv_type k x).
Proof.
  split; [exact conv_table_typed|].
  intros dflt d files p stage name r [H|[extra H]].
  - rewrite <- resolve_with_one_pass in H. exact (resolve_with_typed _ dflt d files p stage name r H).
  - exact (resolve_with_typed _ dflt d files p stage name r H).
Qed.
Print Assumptions C04_types_table.

(* The layering must also hold for the configuration obtained THROUGH FlowIRConcrete.instance(platform) /
   replicate(platform) (every non-primitive experiment): instance() folds the platform into the default platform of
   a new document (Instance.v: global = default global + platform global; stage = default stage WITHOUT the names
   the platform's global section defines + platform stage; component = own + override[platform]) which is then read
   as global < stage < component.  For every document, user variables, platform (default or not), stage, component
   and variable:
   (1) that three-layer reading picks the value of the SAME layer as the documented order
       default global < default stage (+user) < platform global < platform stage (+user) < component < override;
   (2) after the pre-resolution of the global and stage sections (FlowIR.interpolate of every value in its own
       scope, a value that meets an unknown variable kept as written), whenever instance() succeeds, the variable is
       defined in the instance exactly when some layer of the platform defines it, and
   (3) when the documented value is a number, a boolean or text without '%' the instance holds that very value. *)
Theorem C04_instance : forall (extra : nat) (d : doc) (u : jv) (p sk : string) (c : jv) (x : string),
  lookup x (layer_vars (inst_var_layers d u p sk c)) = first_some (lookup x) (rev (var_layers d u p sk c))
  /\ (forall G' S', inst_vars_pre extra d u p sk = Ok (G', S') ->
        (lookup x (layer_vars [G'; S'; inst_comp_vars p c]) = None <->
         first_some (lookup x) (rev (var_layers d u p sk c)) = None)
        /\ (forall v, first_some (lookup x) (rev (var_layers d u p sk c)) = Some v -> value_plain v ->
              lookup x (layer_vars [G'; S'; inst_comp_vars p c]) = Some v)).
Proof.
  intros extra d u p sk c x. rewrite <- (layer_vars_precedence x (var_layers d u p sk c)). split.
  - exact (inst_layers_lookup d u p sk c x).
  - intros G' S' H. split.
    + exact (inst_pre_defined extra d u p sk c G' S' x H).
    + intros v. exact (inst_pre_plain extra d u p sk c G' S' x v H).
Qed.
Print Assumptions C04_instance.

(* FlowIRConcrete.replicate() resolves the typed options workflowAttributes.replicate (int: the number of replicas
   that are generated) and workflowAttributes.aggregate (bool) in FlowIR.apply_replicate with a dictionary of visible
   variables that it builds on its own out of the sections of the instance (Replicate.v: override_object(
   override_object(global, stage), component variables)).  For every document, user variables, platform, stage,
   component and variable:
   (1) that dictionary holds the value of the SAME layer as the documented order
       default global < default stage (+user) < platform global < platform stage (+user) < component < override;
   (2) built from the sections as replicate() sees them (global and stage pre-resolved in their own scope, the
       component variables filled in against global < stage < component), the variable is visible exactly when a
       layer of the platform defines it, and
   (3) when the documented value is a number, a boolean or text without '%' it is that very value. *)
Theorem C04_replicate : forall (extra : nat) (d : doc) (u : jv) (p sk : string) (c : jv) (x : string),
  lookup x (repl_visible (inst_global d p) (inst_stage d u p sk) (inst_comp_vars p c))
    = first_some (lookup x) (rev (var_layers d u p sk c))
  /\ (forall G' S' C', repl_sections extra d u p sk c = Ok (G', S', C') ->
        (lookup x (repl_visible G' S' C') = None <-> first_some (lookup x) (rev (var_layers d u p sk c)) = None)
        /\ (forall v, first_some (lookup x) (rev (var_layers d u p sk c)) = Some v -> value_plain v ->
              lookup x (repl_visible G' S' C') = Some v)).
Proof.
  intros extra d u p sk c x. rewrite <- (layer_vars_precedence x (var_layers d u p sk c)). split.
  - exact (repl_visible_documented d u p sk c x).
  - intros G' S' C' H. split.
    + exact (repl_sections_defined extra d u p sk c G' S' C' x H).
    + intros v. exact (repl_sections_plain extra d u p sk c G' S' C' x v H).
Qed.
Print Assumptions C04_replicate.

(* non-vacuity: a two-platform document; on platform p the platform blueprint beats the default one, the
   component's override for p beats the component, the variable chain a -> b is followed, the override of the
   foreign platform q (which references an undefined variable) is ignored, and the typed leaf is converted *)
Definition ex_dflt : jv :=
  JDict [("command", JDict [("executable", JNull); ("arguments", JStr "")]);
         ("resourceRequest", JDict [("numberProcesses", JInt 1)]);
         ("workflowAttributes", JDict [("restartHookOn", JList [JStr "ResourceExhausted"]); ("repeatInterval", JNull)])].
Definition ex_doc : doc :=
  {| d_blueprint := JDict [("default", JDict [("global", JDict [("command", JDict [("arguments", JStr "dg %(a)s")])])]);
                           ("p", JDict [("global", JDict [("command", JDict [("arguments", JStr "pg %(a)s")])])]);
                           ("q", JDict [("global", JDict [("command", JDict [("arguments", JStr "qg")])])])];
     d_variables := JDict [("default", JDict [("global", JDict [("a", JStr "A"); ("b", JStr "B")])]);
                           ("p", JDict [("global", JDict [("a", JStr "<%(b)s>")])])];
     d_components := [JDict [("name", JStr "c"); ("stage", JInt 0);
                             ("command", JDict [("executable", JStr "echo")]);
                             ("resourceRequest", JDict [("numberProcesses", JStr "%(n)s")]);
                             ("variables", JDict [("n", JInt 2)]);
                             ("override", JDict [("p", JDict [("command", JDict [("executable", JStr "echo-p")]);
                                                              ("variables", JDict [("n", JStr "4")])]);
                                                 ("q", JDict [("command", JDict [("arguments", JStr "%(undefined)s")])])])]] |}.

(* platform p: x is defined by default global and default stage (the stage wins), z also by the global section of p
   (p wins: instance() drops z from the default stage section), w by default global and the stage section of p;
   r (default stage) references q, which only the global section of p defines: it is resolved in the instance *)
Definition ex_inst : doc :=
  {| d_blueprint := JDict [];
     d_variables := JDict [("default", JDict [("global", JDict [("x", JStr "dg-x"); ("z", JStr "dg-z"); ("w", JStr "dg-w")]);
                                              ("stages", JDict [("0", JDict [("x", JStr "ds-x"); ("z", JStr "ds-z");
                                                                             ("r", JStr "<%(q)s>")])])]);
                           ("p", JDict [("global", JDict [("z", JStr "pg-z"); ("q", JStr "Q")]);
                                        ("stages", JDict [("0", JDict [("w", JStr "ps-w")])])])];
     d_components := [JDict [("name", JStr "c"); ("stage", JInt 0); ("variables", JDict [("n", JInt 2)])]] |}.
Definition ex_inst_c : jv := JDict [("name", JStr "c"); ("stage", JInt 0); ("variables", JDict [("n", JInt 2)])].

Definition ex_repl_c : jv :=
  JDict [("name", JStr "c"); ("stage", JInt 0); ("variables", JDict [("rn", JInt 2); ("rk", JStr "%(rn)s")]);
         ("workflowAttributes", JDict [("replicate", JStr "%(rk)s")])].
Definition ex_repl_col : jv :=
  JDict [("name", JStr "col"); ("stage", JInt 0); ("references", JList [JStr "c:ref"]);
         ("variables", JDict [("ag", JStr "yes")]); ("workflowAttributes", JDict [("aggregate", JStr "%(ag)s")])].
Definition ex_repl : doc :=
  {| d_blueprint := JDict [];
     d_variables := JDict [("default", JDict [("global", JDict [("rn", JInt 6); ("ag", JBool false)]);
                                              ("stages", JDict [("0", JDict [("rn", JInt 3)])])]);
                           ("p", JDict [("global", JDict []);
                                        ("stages", JDict [("0", JDict [("rn", JInt 5); ("ag", JStr "no")])])])];
     d_components := [ex_repl_c; ex_repl_col] |}.

Definition ex_get (pi : list string) (r : res jv) : option jv := match r with Ok v => get_path pi v | Err _ => None end.

Example C04_nonvacuous :
  ex_get ["command"; "arguments"] (resolve ex_dflt ex_doc [] "p" 0 "c") = Some (JStr "pg <B>") /\
  ex_get ["command"; "executable"] (resolve ex_dflt ex_doc [] "p" 0 "c") = Some (JStr "echo-p") /\
  ex_get ["resourceRequest"; "numberProcesses"] (resolve ex_dflt ex_doc [] "p" 0 "c") = Some (JInt 4) /\
  ex_get ["command"; "arguments"] (resolve ex_dflt ex_doc [] "default" 0 "c") = Some (JStr "dg A") /\
  ex_get ["resourceRequest"; "numberProcesses"] (resolve ex_dflt ex_doc [] "default" 0 "c") = Some (JInt 2) /\
  resolve ex_dflt ex_doc [] "q" 0 "c" = Err (EUnknown "undefined") /\
  Forall (fun l => nodict (get_path ["command"; "arguments"] l)) (opt_layers ex_dflt ex_doc "p" "0" (JDict [])) /\
  ctx_plain [("a", JStr "<%(b)s>"); ("b", JStr "B")] /\
  interp_string [("a", JStr "%(a)s")] "%(a)s" = Err ECycle /\
  (* new hypotheses are satisfiable, and the re-scanning model differs from the one-pass model where it should:
     x = "%(" completes a reference to y with the text that follows it *)
  acyclic [("a", JStr "<%(b)s>"); ("b", JStr "B")] /\
  leaves_plain (JDict [("k", JList [JStr "pg %(a)s"; JInt 1])]) /\
  interp_string_rs 0 [("x", JStr "%("); ("y", JStr "Y")] "%(x)sy)s" = Ok "Y" /\
  interp_string [("x", JStr "%("); ("y", JStr "Y")] "%(x)sy)s" = Ok "%(y)s" /\
  interp_string_rs 0 [("y", JStr "Y")] "%(flow.z)s %(y)s %(u)s" = Err (EUnknown "u") /\
  resolve_rs 0 ex_dflt ex_doc [] "p" 0 "c" = resolve ex_dflt ex_doc [] "p" 0 "c" /\
  ex_get ["resourceRequest"; "numberProcesses"] (resolve_rs 0 ex_dflt ex_doc [] "p" 0 "c") = Some (JInt 4) /\
  (* the instance: the default stage beats the default global also on platform p, the platform's global beats the
     default stage, and the pre-resolution is not the identity *)
  map (fun x => lookup x (layer_vars (inst_var_layers ex_inst (JDict []) "p" "0" ex_inst_c))) ["x"; "z"; "w"; "n"; "y"] =
    [Some (JStr "ds-x"); Some (JStr "pg-z"); Some (JStr "ps-w"); Some (JInt 2); None] /\
  lookup "x" (layer_vars (inst_var_layers ex_inst (JDict []) "default" "0" ex_inst_c)) = Some (JStr "ds-x") /\
  has_key "z" (inst_stage ex_inst (JDict []) "p" "0") = false /\
  (exists G' S', inst_vars_pre 0 ex_inst (JDict []) "p" "0" = Ok (G', S') /\
                 lookup "r" S' = Some (JStr "<Q>") /\ lookup "x" S' = Some (JStr "ds-x")) /\
  value_plain (JStr "ds-x") /\
  (* replication: the component defines rn = 2 itself, the stage section of p says 5, the default one 3, the global
     one 6: two replicas on p (through the link rk), and the consumer aggregates because ITS variable says so *)
  repl_count 0 ex_dflt ex_repl (JDict []) "p" 0 ex_repl_c = Ok (Some 2%Z) /\
  repl_aggregate 0 ex_dflt ex_repl (JDict []) "p" 0 ex_repl_col = Ok true /\
  repl_count 0 ex_dflt ex_repl (JDict []) "p" 0 ex_repl_col = Ok None /\
  (exists G' S' C', repl_sections 0 ex_repl (JDict []) "p" "0" ex_repl_c = Ok (G', S', C') /\
                    lookup "rn" S' = Some (JInt 5) /\ lookup "rn" (repl_visible G' S' C') = Some (JInt 2)).
Proof.
  repeat split; try (vm_compute; reflexivity); try exact ex_ctx_acyclic;
    try (eexists; eexists; split; [vm_compute; reflexivity|split; vm_compute; reflexivity]);
    try (eexists; eexists; eexists; split; [vm_compute; reflexivity|split; vm_compute; reflexivity]).
  - vm_compute. repeat constructor.
  - intros w s H. cbn in H. destruct (String.eqb w "a"); [injection H as <-|destruct (String.eqb w "b"); [injection H as <-|discriminate]];
      vm_compute; intros c Hc; repeat (destruct Hc as [Hc|Hc]; [try discriminate; injection Hc as <-; reflexivity|]); destruct Hc.
  - intros w r H. cbn in H. destruct (String.eqb w "a"); [discriminate|destruct (String.eqb w "b"); discriminate].
  - intros s Hs. vm_compute in Hs. destruct Hs as [<-|[]]. vm_compute.
    intros c Hc; repeat (destruct Hc as [Hc|Hc]; [try discriminate; injection Hc as <-; reflexivity|]); destruct Hc.
Qed.
