(* C04 — the configuration obtained THROUGH FlowIRConcrete.instance(platform) / replicate(platform)
   (python/experiment/model/frontends/flowir.py), the route every non-primitive FlowIRExperimentConfiguration takes:
   the selected platform is FOLDED into the default platform of a new document, which is then loaded as
   FlowIRConcrete(instance, 'default') and resolved with get_component_configuration.

   What instance() does to the VARIABLES, read line by line:
     global   = (default global if platform != default else {}) .update(platform global)            -> inst_global
     stage i  = (default stage i  MINUS the names the PLATFORM's global section defines,
                 when platform != default) .update(platform stage i)                                 -> inst_stage
                (the stage sections already hold the user variables: _patch_in_variable_files)
     component= get_component_variables(component only) = own variables .update(override[platform]) -> inst_comp_vars
   and then it PRE-RESOLVES every global variable against the global ones and every stage variable against
   global+stage ones with FlowIR.interpolate; a value whose interpolation meets an unknown variable is kept exactly
   as written, any other interpolation error aborts instance()                                      -> pre_value / pre_layer.
   (The global section is afterwards passed once more through fill_in(ignore_errors=True), which resolves the known
   references of the values that were kept: that partial resolution is NOT modelled, the checker accepts any text
   there.  The component variables are filled in with ignore_errors=True as well: only their names and their
   reference-free values are compared.)

   Model.v is untouched (it is shared with C07/C08); everything here is new. *)
From Coq Require Import String Ascii List Bool ZArith Arith Lia.
Import ListNotations.
Require Import V.Lib.PyStr V.Lib.JTree V.Conf.Model V.Conf.Proofs V.Conf.Rescan V.Conf.RescanProofs.
Open Scope string_scope.

(* the stage section of a platform as get_*_stage_variables returns it after the user variables were patched in *)
Definition stage_layer (d : doc) (u : jv) (p sk : string) : alist := update (vars_stage d p sk) (user_patch u sk).

(* {key: a[key] for key in a if key not in ks} *)
Definition drop_keys (ks a : alist) : alist := filter (fun kv => negb (has_key (fst kv) ks)) a.

Definition is_default (p : string) : bool := String.eqb p "default".

Definition inst_global (d : doc) (p : string) : alist :=
  if is_default p then vars_global d "default" else update (vars_global d "default") (vars_global d p).

Definition inst_stage (d : doc) (u : jv) (p sk : string) : alist :=
  update (if is_default p then stage_layer d u "default" sk
          else drop_keys (vars_global d p) (stage_layer d u "default" sk))
         (stage_layer d u p sk).

Definition inst_comp_vars (p : string) (c : jv) : alist :=
  update (jdict_of (get_or (JDict []) ["variables"] c)) (jdict_of (get_or (JDict []) ["override"; p; "variables"] c)).

(* the variable layers that FlowIRConcrete(instance, 'default') applies to the component: global < stage < component
   (the override of the instance is keyed by the platform and is not applied again on 'default'; when the platform
   IS 'default' it is applied a second time, which changes nothing) *)
Definition inst_var_layers (d : doc) (u : jv) (p sk : string) (c : jv) : list alist :=
  [inst_global d p; inst_stage d u p sk; inst_comp_vars p c].

(* ------------------------------------------------------------------ pre-resolution *)
(* FlowIR.interpolate(value, ctx) as instance() calls it (use_symbol_table is left at its default: a dotted name is
   not implemented), wrapped in `except FlowIRVariableUnknown: keep the value` *)
Definition interp_value_rs (extra : nat) (ctx : alist) (s : string) : res string :=
  finish_str (rescan (loop_fuel extra s) (resolve_var_rs extra (fuel_of ctx) ctx) false s).

Definition pre_value (extra : nat) (ctx : alist) (k : string) (v : jv) : res jv :=
  match v with
  | JStr s => match interp_value_rs extra ctx s with
              | Ok t => Ok (JStr t)
              | Err (EUnknown _) => Ok v
              | Err e => Err e
              end
  | JInt _ | JBool _ | JFlt _ => Ok v
  | _ => Err (EInvalidVar k)
  end.

Fixpoint pre_layer (extra : nat) (ctx : alist) (l : alist) : res alist :=
  match l with
  | [] => Ok []
  | (k, v) :: r => rbind (pre_value extra ctx k v) (fun v' => rmap (cons (k, v')) (pre_layer extra ctx r))
  end.

(* variables.default.global and variables.default.stages[sk] of the instance *)
Definition inst_vars_pre (extra : nat) (d : doc) (u : jv) (p sk : string) : res (alist * alist) :=
  let G := inst_global d p in
  rbind (pre_layer extra G G) (fun G' =>
    let S := inst_stage d u p sk in
    rmap (fun S' => (G', S')) (pre_layer extra (update G' S) S)).

(* a value that no interpolation can change: a number, a boolean, or text without '%' *)
Definition value_plain (v : jv) : Prop :=
  match v with JStr s => no_pct s | JInt _ | JBool _ | JFlt _ => True | _ => False end.

Definition value_plainb (v : jv) : bool :=
  match v with JStr s => all_chars not_pct s | JInt _ | JBool _ | JFlt _ => true | _ => false end.

(* ================================================================== lemmas *)
(* A. the layering step: the instance keeps, for every variable and every platform, the value of the layer that the
   documented order default global < default stage < platform global < platform stage < component < override picks *)
Lemma lookup_drop_keys k ks a :
  lookup k (drop_keys ks a) = if has_key k ks then None else lookup k a.
Proof.
  unfold drop_keys. rewrite (lookup_filter_key (fun k0 => negb (has_key k0 ks)) k a).
  destruct (has_key k ks); reflexivity.
Qed.

Lemma inst_layers_lookup d u p sk c x :
  lookup x (layer_vars (inst_var_layers d u p sk c)) = lookup x (layer_vars (var_layers d u p sk c)).
Proof.
  rewrite !layer_vars_precedence. unfold inst_var_layers, var_layers, inst_comp_vars, inst_stage, inst_global,
    stage_layer, is_default.
  destruct (String.eqb p "default") eqn:Ep; cbn [app rev first_some].
  - rewrite !lookup_update.
    destruct (lookup x (jdict_of (get_or (JDict []) ["override"; p; "variables"] c))); [reflexivity|].
    destruct (lookup x (jdict_of (get_or (JDict []) ["variables"] c))); [reflexivity|].
    apply String.eqb_eq in Ep. subst p.
    destruct (lookup x (user_patch u sk)); [reflexivity|].
    destruct (lookup x (vars_stage d "default" sk)); reflexivity.
  - rewrite !lookup_update, lookup_drop_keys, !lookup_update. unfold has_key.
    destruct (lookup x (jdict_of (get_or (JDict []) ["override"; p; "variables"] c))); [reflexivity|].
    destruct (lookup x (jdict_of (get_or (JDict []) ["variables"] c))); [reflexivity|].
    destruct (lookup x (user_patch u sk)); [reflexivity|].
    destruct (lookup x (vars_stage d p sk)); [reflexivity|].
    destruct (lookup x (vars_global d p)); [reflexivity|].
    destruct (lookup x (vars_stage d "default" sk)); reflexivity.
Qed.

(* B. the pre-resolution keeps the names of a section, and leaves plain values alone *)
Lemma has_incomplete_no_pct : forall s, no_pct s -> has_incomplete s = false.
Proof.
  unfold no_pct. induction s as [|c s IH]; intros H; [reflexivity|].
  cbn [all_chars] in H. apply andb_true_iff in H as [H1 H2].
  cbn [has_incomplete]. rewrite (IH H2), orb_false_r.
  unfold match_incomplete. unfold not_pct in H1. apply negb_true_iff in H1.
  destruct c as [b0 b1 b2 b3 b4 b5 b6 b7].
  destruct b0, b1, b2, b3, b4, b5, b6, b7; try reflexivity; cbn in H1; discriminate.
Qed.

Lemma interp_value_rs_plain extra ctx s : no_pct s -> interp_value_rs extra ctx s = Ok s.
Proof.
  intros H. unfold interp_value_rs, loop_fuel.
  pose proof (rescan_nopct_prefix (resolve_var_rs extra (fuel_of ctx) ctx) false s H
                (S (String.length s) + extra) "") as R.
  assert (E : s ++ "" = s) by (clear; induction s as [|c s IH]; cbn; [reflexivity|rewrite IH; reflexivity]).
  rewrite E in R. rewrite R. cbn [plus rescan first_ref rmap]. rewrite E.
  unfold finish_str, rbind. rewrite (has_incomplete_no_pct s H). reflexivity.
Qed.

Lemma pre_value_plain extra ctx k v : value_plain v -> pre_value extra ctx k v = Ok v.
Proof.
  destruct v; cbn; intros H; try reflexivity; try contradiction.
  rewrite (interp_value_rs_plain extra ctx _ H). reflexivity.
Qed.

Lemma pre_layer_lookup extra ctx : forall l l', pre_layer extra ctx l = Ok l' ->
  forall x, match lookup x l with
            | None => lookup x l' = None
            | Some v => exists v', pre_value extra ctx x v = Ok v' /\ lookup x l' = Some v'
            end.
Proof.
  induction l as [|[k v] r IH]; intros l' H x.
  - cbn in H. injection H as <-. reflexivity.
  - cbn [pre_layer] in H. destruct (pre_value extra ctx k v) as [v1|e] eqn:Ev; [|discriminate].
    cbn [rbind] in H. destruct (pre_layer extra ctx r) as [r'|e] eqn:Er; [|discriminate].
    cbn [rmap] in H. injection H as <-. cbn [lookup].
    destruct (String.eqb x k) eqn:Ex.
    + apply String.eqb_eq in Ex. subst k. exists v1. split; [exact Ev|reflexivity].
    + exact (IH r' eq_refl x).
Qed.

Lemma pre_layer_none extra ctx l l' x : pre_layer extra ctx l = Ok l' -> (lookup x l' = None <-> lookup x l = None).
Proof.
  intros H. pose proof (pre_layer_lookup extra ctx l l' H x) as P.
  destruct (lookup x l) as [v|].
  - destruct P as (v' & _ & E). rewrite E. split; discriminate.
  - rewrite P. split; reflexivity.
Qed.

Lemma pre_layer_plain extra ctx l l' x v : pre_layer extra ctx l = Ok l' ->
  lookup x l = Some v -> value_plain v -> lookup x l' = Some v.
Proof.
  intros H Hx Hp. pose proof (pre_layer_lookup extra ctx l l' H x) as P. rewrite Hx in P.
  destruct P as (v' & Ev & E). rewrite (pre_value_plain extra ctx x v Hp) in Ev. injection Ev as <-. exact E.
Qed.

(* C. the variables of the instance against the documented layering *)
Lemma inst_pre_defined extra d u p sk c G' S' x :
  inst_vars_pre extra d u p sk = Ok (G', S') ->
  (lookup x (layer_vars [G'; S'; inst_comp_vars p c]) = None <->
   lookup x (layer_vars (var_layers d u p sk c)) = None).
Proof.
  intros H. rewrite <- inst_layers_lookup. rewrite !layer_vars_precedence.
  unfold inst_var_layers. cbn [rev app first_some].
  unfold inst_vars_pre in H.
  destruct (pre_layer extra (inst_global d p) (inst_global d p)) as [G1|e] eqn:EG; [|discriminate].
  cbn [rbind] in H.
  destruct (pre_layer extra (update G1 (inst_stage d u p sk)) (inst_stage d u p sk)) as [S1|e] eqn:ES; [|discriminate].
  cbn [rmap] in H. injection H as <- <-.
  destruct (lookup x (inst_comp_vars p c)); [split; discriminate|].
  pose proof (pre_layer_none extra _ _ _ x ES) as PS. pose proof (pre_layer_none extra _ _ _ x EG) as PG.
  destruct (lookup x S1) as [s1|] eqn:E1; destruct (lookup x (inst_stage d u p sk)) as [s0|] eqn:E0.
  - split; discriminate.
  - destruct PS as [_ PS]. specialize (PS eq_refl). discriminate.
  - destruct PS as [PS _]. specialize (PS eq_refl). discriminate.
  - destruct (lookup x G1); destruct (lookup x (inst_global d p)); try (split; discriminate); tauto.
Qed.

Lemma inst_pre_plain extra d u p sk c G' S' x v :
  inst_vars_pre extra d u p sk = Ok (G', S') ->
  lookup x (layer_vars (var_layers d u p sk c)) = Some v -> value_plain v ->
  lookup x (layer_vars [G'; S'; inst_comp_vars p c]) = Some v.
Proof.
  intros H. rewrite <- inst_layers_lookup. rewrite !layer_vars_precedence.
  unfold inst_var_layers. cbn [rev app first_some].
  unfold inst_vars_pre in H.
  destruct (pre_layer extra (inst_global d p) (inst_global d p)) as [G1|e] eqn:EG; [|discriminate].
  cbn [rbind] in H.
  destruct (pre_layer extra (update G1 (inst_stage d u p sk)) (inst_stage d u p sk)) as [S1|e] eqn:ES; [|discriminate].
  cbn [rmap] in H. injection H as <- <-.
  destruct (lookup x (inst_comp_vars p c)); [intros E _; exact E|].
  destruct (lookup x (inst_stage d u p sk)) as [s0|] eqn:E0.
  - intros E Hp. injection E as ->. rewrite (pre_layer_plain extra _ _ _ x v ES E0 Hp). reflexivity.
  - pose proof (pre_layer_none extra _ _ _ x ES) as PS. destruct PS as [_ PS]. rewrite (PS E0).
    intros E Hp. destruct (lookup x (inst_global d p)) as [g0|] eqn:EG0; [|discriminate].
    injection E as ->. rewrite (pre_layer_plain extra _ _ _ x v EG EG0 Hp). reflexivity.
Qed.

(* ================================================================== correspondence checker *)
(* observation: inl (variables.default.global, variables.default.stages[stage], variables of the component) of
   FlowIRConcrete.instance(platform, ignore_errors=True) | inr (exception class, detail) *)
Definition inst_outcome := ((jv * jv * jv) + (string * string))%type.

Definition same_keys (a b : alist) : bool :=
  forallb (fun kv => has_key (fst kv) b) a && forallb (fun kv => has_key (fst kv) a) b.

(* strict: the implementation's value is the model's; loose: a value the model keeps because of an unknown variable,
   or whose raw text holds a '%', may be any text in the implementation (partial resolution is not modelled) *)
Definition vals_agree (loose_kept loose_pct : bool) (raw model impl : alist) : bool :=
  forallb (fun kv =>
    match lookup (fst kv) impl, lookup (fst kv) raw with
    | Some w, Some r =>
        jv_eqb (snd kv) w
        || (match w with JStr _ => true | _ => false end
            && negb (value_plainb r)
            && (loose_pct || (loose_kept && jv_eqb (snd kv) r)))
    | _, _ => false
    end) model.

Definition stage_keys (cs : list jv) : list string :=
  fold_right (fun c acc => match get_path ["stage"] c with
                           | Some (JInt z) => if existsb (String.eqb (zrepr z)) acc then acc else zrepr z :: acc
                           | _ => acc
                           end) [] cs.

Definition is_err {A} (r : res A) : bool := match r with Ok _ => false | Err _ => true end.

(* instance() resolves EVERY stage and layers EVERY component: an error anywhere aborts it *)
Definition inst_must_fail (dflt : jv) (d : doc) (u : jv) (p : string) : bool :=
  existsb (fun sk => is_err (inst_vars_pre rs_extra d u p sk)) (stage_keys (d_components d))
  || is_err (pre_layer rs_extra (inst_global d p) (inst_global d p))
  || existsb (fun c => match get_path ["stage"] c with
                       | Some (JInt z) => let (ols, vls) := view dflt d u p z c in
                                          match merged_of ols vls with Some _ => false | None => true end
                       | _ => false
                       end) (d_components d).

(* the component variables are filled in with ignore_errors=True against global+stage+component variables: an error
   other than an unknown variable or an incomplete reference (a cycle, a null value, a dotted name) still aborts *)
Definition inst_may_fail (d : doc) (u : jv) (p : string) : bool :=
  existsb (fun c => match get_path ["stage"] c with
                    | Some (JInt z) =>
                        let C := inst_comp_vars p c in
                        is_err (pre_layer rs_extra
                                  (update (update (inst_global d p) (inst_stage d u p (zrepr z))) C) C)
                    | _ => false
                    end) (d_components d).

Definition check_instance (c : case_in * inst_outcome) : bool :=
  let '(dflt, (b, v, cs), files, p, stage, name) := fst c in
  let d := {| d_blueprint := b; d_variables := v; d_components := cs |} in
  match find_comp d stage name, user_vars files with
  | Some comp, Some u =>
      let sk := zrepr stage in
      match snd c with
      | inr _ => inst_must_fail dflt d u p || inst_may_fail d u p
      | inl (iG, iS, iC) =>
          negb (inst_must_fail dflt d u p) &&
          match inst_vars_pre rs_extra d u p sk with
          | Err _ => false
          | Ok (G', S') =>
              let C := inst_comp_vars p comp in
              same_keys G' (jdict_of iG) && vals_agree true false (inst_global d p) G' (jdict_of iG)
              && same_keys S' (jdict_of iS) && vals_agree false false (inst_stage d u p sk) S' (jdict_of iS)
              && same_keys C (jdict_of iC) && vals_agree false true C C (jdict_of iC)
          end
      end
  | _, _ => match snd c with inr _ => true | inl _ => false end
  end.

(* one term per case for the run: the direct question (both interpolation models, or the re-scanning one alone) and
   the instance, on the same input *)
Definition check_case_both_i (c : case_in * (outcome * outcome) * inst_outcome) : bool :=
  check_case_both (fst c) && check_instance (fst (fst c), snd c).

Definition check_case_rs_i (c : case_in * (outcome * outcome) * inst_outcome) : bool :=
  check_case_rs (fst c) && check_instance (fst (fst c), snd c).
