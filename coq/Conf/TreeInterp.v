(* C04 — the string-level interpolation statements lifted to trees (both models of interpolate) *)
From Coq Require Import String Ascii List Bool ZArith Arith Lia.
Import ListNotations.
Require Import V.Lib.PyStr V.Lib.JTree V.Conf.Model V.Conf.Proofs V.Conf.Rescan V.Conf.RescanProofs
               V.Conf.Acyclic V.Conf.Tree.
Open Scope string_scope.
Open Scope list_scope.

Lemma map_list_ext f g : forall l, Forall (fun x => map_tree f x = map_tree g x) l ->
  map_list (map_tree f) l = map_list (map_tree g) l.
Proof. induction 1 as [|x r Hx _ IH]; [reflexivity|]. cbn [map_list]. rewrite Hx. fold (map_list (map_tree f) r). fold (map_list (map_tree g) r). rewrite IH. reflexivity. Qed.

(* two interpolators that agree on every string leaf of a tree agree on the tree *)
Lemma map_tree_ext f g : forall v, (forall s, In s (leaves v) -> f s = g s) -> map_tree f v = map_tree g v.
Proof.
  apply (jv_rect' (fun v => (forall s, In s (leaves v) -> f s = g s) -> map_tree f v = map_tree g v)); try reflexivity.
  - intros s H. cbn [map_tree]. rewrite (H s (or_introl eq_refl)). reflexivity.
  - intros l Hl H. rewrite leaves_JList in H. rewrite !map_tree_JList. f_equal.
    induction Hl as [|x r Hx _ IH]; [reflexivity|]. cbn [map_list leaves_list flat_map] in *.
    rewrite Hx by (intros s Hs; apply H; apply in_or_app; left; exact Hs).
    fold (map_list (map_tree f) r). fold (map_list (map_tree g) r).
    rewrite IH by (intros s Hs; apply H; apply in_or_app; right; exact Hs). reflexivity.
  - intros m Hm H. rewrite leaves_JDict in H. rewrite !map_tree_JDict. f_equal.
    induction Hm as [|[k x] r Hx _ IH]; [reflexivity|]. cbn [map_dict leaves_dict flat_map snd] in *.
    rewrite Hx by (intros s Hs; apply H; apply in_or_app; left; exact Hs).
    fold (map_dict (map_tree f) r). fold (map_dict (map_tree g) r).
    rewrite IH by (intros s Hs; apply H; apply in_or_app; right; exact Hs). reflexivity.
Qed.

Definition leaves_plain (v : jv) : Prop := forall s, In s (leaves v) -> lits_plain (scan 0 s).

(* on plain text the re-scanning fill_in is the one-pass fill_in *)
Lemma interp_tree_rs_eq extra ctx v : ctx_plain ctx -> leaves_plain v ->
  interp_tree_rs extra ctx v = interp_tree ctx v.
Proof.
  intros Hc Hl. rewrite interp_tree_map_tree. unfold interp_tree_rs. apply map_tree_ext.
  intros s Hs. exact (interp_string_rs_eq extra ctx s Hc (Hl s Hs)).
Qed.

(* ---- the re-scanning model *)
Lemma interp_tree_rs_ok extra ctx v v' : interp_tree_rs extra ctx v = Ok v' ->
  forall t, In t (leaves v') ->
    (forall n, In n (live t) -> dotted n = true) /\ (forall k n, In (TRef n) (scan k t) -> dotted n = true).
Proof.
  intros H t Ht. destruct (map_tree_ok_leaf _ v v' H t Ht) as (s & _ & Hs).
  assert (G : forall n, In n (live t) -> dotted n = true) by exact (interp_string_rs_ok_live extra ctx s t Hs).
  split; [exact G|]. intros k n Hn. exact (G n (scan_live t k n Hn)).
Qed.

Lemma interp_tree_rs_unknown extra ctx v x : interp_tree_rs extra ctx v = Err (EUnknown x) ->
  lookup x ctx = None /\ first_err (interp_string_rs extra ctx) (leaves v) (EUnknown x).
Proof.
  intros H. pose proof (map_tree_err_leaf _ v _ H) as F. split; [|exact F].
  destruct F as (l1 & s & l2 & _ & _ & Hs). exact (interp_string_rs_unknown extra ctx s x Hs).
Qed.

(* ---- the one-pass model *)
Lemma interp_tree_ok ctx v v' : interp_tree ctx v = Ok v' ->
  (forall s, In s (leaves v) -> forall n, In (TRef n) (scan 0 s) -> dotted n = false -> lookup n ctx <> None) /\
  (ctx_plain ctx -> (forall s, In s (leaves v) -> lits_plain (scan 0 s) /\ no_dotted (scan 0 s)) ->
   forall t, In t (leaves v') -> no_pct t /\ forall k n, ~ In (TRef n) (scan k t)).
Proof.
  rewrite interp_tree_map_tree. intros H. split.
  - intros s Hs. destruct (map_tree_ok_all _ v v' H s Hs) as (t & Ht). exact (interp_string_ok_defined ctx s t Ht).
  - intros Hc Hl t Ht. destruct (map_tree_ok_leaf _ v v' H t Ht) as (s & Hs & Hst).
    destruct (Hl s Hs) as [L1 L2]. pose proof (interp_string_no_pct ctx s t Hc L1 L2 Hst) as P.
    split; [exact P|exact (no_pct_no_refs t P)].
Qed.

Lemma interp_tree_unknown ctx v x : interp_tree ctx v = Err (EUnknown x) ->
  lookup x ctx = None /\
  first_err (interp_string ctx) (leaves v) (EUnknown x) /\
  exists s, In s (leaves v) /\
    (In (TRef x) (scan 0 s) \/ exists w s', lookup w ctx = Some (JStr s') /\ In (TRef x) (scan 0 s')).
Proof.
  rewrite interp_tree_map_tree. intros H. pose proof (map_tree_err_leaf _ v _ H) as F.
  destruct F as (l1 & s & l2 & E & A & Hs). destruct (interp_string_unknown ctx s x Hs) as [U R].
  split; [exact U|]. split; [exists l1, s, l2; repeat split; assumption|].
  exists s. split; [rewrite E; apply in_or_app; right; left; reflexivity|exact R].
Qed.

Lemma interp_tree_no_cycle ctx v : acyclic ctx -> interp_tree ctx v <> Err ECycle.
Proof.
  rewrite interp_tree_map_tree. intros Ha H. destruct (map_tree_err_leaf _ v _ H) as (l1 & s & l2 & _ & _ & Hs).
  exact (acyclic_interp_no_cycle ctx s Ha Hs).
Qed.
