(* C04 — statements that are false of the model of the PINNED code (repaired by fix: commits), and the part of the
   unrestricted precedence statement that is false of any faithful model. *)
From Coq Require Import String Ascii List Bool ZArith.
Import ListNotations.
Require Import V.Lib.PyStr V.Lib.JTree V.Conf.Model V.Conf.Proofs.
Open Scope string_scope.

(* F4a (repaired): the pinned code interpolated the whole component, including its override sections for other
   platforms, with the variables of the selected platform: the layers with the foreign override left in fail on a
   reference that only the foreign platform's override makes, the resolution proper does not. *)
Definition w_comp : jv :=
  JDict [("name", JStr "c"); ("stage", JInt 0); ("command", JDict [("executable", JStr "echo")]);
         ("override", JDict [("q", JDict [("command", JDict [("arguments", JStr "%(only-on-q)s")])])])].

Theorem C04_foreign_override_refuted :
  exists c, resolve_layers (JDict []) [c] [] = Err (EUnknown "only-on-q") /\
            exists r, resolve_layers (JDict []) [comp_layer c] [] = Ok r.
Proof. exists w_comp. split; [vm_compute; reflexivity|eexists; vm_compute; reflexivity]. Qed.
Print Assumptions C04_foreign_override_refuted.

(* F4b (repaired): boolean options were converted with bool(): the text "False" (e.g. the value of a variable)
   became True although it reads false. *)
Theorem C04_bool_text_refuted :
  exists s, conv_scalar CBool (JStr s) = Some (JBool true) /\ conv_scalar CB2 (JStr s) = Some (JBool false).
Proof. exists "False". split; reflexivity. Qed.
Print Assumptions C04_bool_text_refuted.

(* The precedence statement needs its restriction to paths at which no layer holds a dictionary: at a dictionary
   the result is the merge, not the value of the highest-priority layer. *)
Theorem C04_precedence_at_dictionary_refuted :
  exists layers r pi, fold_override (Some (JDict [])) layers = Some r /\
                      val pi r <> first_some (val pi) (rev layers).
Proof.
  exists [JDict [("a", JDict [("b", JInt 1)])]; JDict [("a", JDict [("c", JInt 2)])]].
  eexists. exists ["a"]. split; [vm_compute; reflexivity|]. vm_compute. discriminate.
Qed.
Print Assumptions C04_precedence_at_dictionary_refuted.
