(* C04 — statements that are false of the model of the PINNED code (repaired by fix: commits), and the part of the
   unrestricted precedence statement that is false of any faithful model. *)
From Coq Require Import String Ascii List Bool ZArith.
Import ListNotations.
Require Import V.Lib.PyStr V.Lib.JTree V.Conf.Model V.Conf.Proofs V.Conf.Rescan V.Conf.RescanProofs V.Conf.Acyclic.
Open Scope string_scope.

(* F4a (repaired): the pinned code interpolated the whole component, including its override sections for other
   platforms, with the variables of the selected platform: the layers with the foreign override left in fail on a
   reference that only the foreign platform's override makes, the resolution proper does not. *)
Definition w_comp : jv :=
  JDict [("name", JStr "c"); ("stage", JInt 0); ("command", JDict [("executable", JStr "echo")]);
         ("override", JDict [("q", JDict [("command", JDict [("arguments", JStr "%(only-on-q)s")])])])].

Theorem C04_foreign_override_refuted :
  exists c, resolve_layers (JDict []) [c] [] = Err (EUnknown "only-on-q") /\
            exists r, resolve_layers (JDict []) [comp_layer c] [] = Ok r.
Proof. exists w_comp. split; [vm_compute; reflexivity|eexists; vm_compute; reflexivity]. Qed.
Print Assumptions C04_foreign_override_refuted.

(* F4b (repaired): boolean options were converted with bool(): the text "False" (e.g. the value of a variable)
   became True although it reads false. *)
Theorem C04_bool_text_refuted :
  exists s, conv_scalar CBool (JStr s) = Some (JBool true) /\ conv_scalar CB2 (JStr s) = Some (JBool false).
Proof. exists "False". split; reflexivity. Qed.
Print Assumptions C04_bool_text_refuted.

(* The precedence statement needs its restriction to paths at which no layer holds a dictionary: at a dictionary
   the result is the merge, not the value of the highest-priority layer. *)
Theorem C04_precedence_at_dictionary_refuted :
  exists layers r pi, fold_override (Some (JDict [])) layers = Some r /\
                      val pi r <> first_some (val pi) (rev layers).
Proof.
  exists [JDict [("a", JDict [("b", JInt 1)])]; JDict [("a", JDict [("c", JInt 2)])]].
  eexists. exists ["a"]. split; [vm_compute; reflexivity|]. vm_compute. discriminate.
Qed.
Print Assumptions C04_precedence_at_dictionary_refuted.

(* C04_acyclic needs acyclicity: a variable that references itself gives the cycle error (RecursionError of the
   code) in both models of interpolate. *)
Theorem C04_cyclic_refuted :
  exists ctx s, ~ acyclic ctx /\ interp_string ctx s = Err ECycle /\ interp_string_rs rs_extra ctx s = Err ECycle.
Proof.
  exists [("a", JStr "%(a)s")], "%(a)s". split; [exact self_ctx_cyclic|]. split; vm_compute; reflexivity.
Qed.
Print Assumptions C04_cyclic_refuted.

(* C04_rescan_one_pass and clause (3) of C04_acyclic need "no '%' in literal text": with a = "%(b)s(a)s" and b = "%"
   no variable reaches itself through the references its value shows (a -> b only), the one-pass model resolves
   "%(a)s" to the text "%(a)s", but the loop of the code re-scans that text, finds a reference to a again and never
   ends (RecursionError on the real FlowIR.interpolate: checked by the correspondence run, corpus rs_dynamic_cycle). *)
Theorem C04_rescan_percent_refuted :
  exists ctx s, acyclic ctx /\ lits_plain (scan 0 s) /\
                interp_string ctx s = Ok s /\ interp_string_rs rs_extra ctx s = Err ECycle.
Proof.
  exists np_ctx, "%(a)s". split; [exact np_ctx_acyclic|]. split; [intros c H; vm_compute in H; destruct H as [H|H]; [discriminate|destruct H]|].
  split; vm_compute; reflexivity.
Qed.
Print Assumptions C04_rescan_percent_refuted.
