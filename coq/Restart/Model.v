(* C12 — restart policy.  Model of Controller._restartComponent / _unstableSystemRestart /
   postMortemCheck (control.py), ComponentState.restart (workflow.py), Engine.restart,
   RepeatingEngine.restart and Engine._setExitReason (engine.py), composed as one pure decision
   function over the counters the code keeps.  External behaviour enters as oracle arguments:
   what the restart hook does, whether the system is judged stable, whether Engine.run() raises. *)
From Coq Require Import ZArith List Bool.
Import ListNotations.
Open Scope Z_scope.

Inductive reason := Success | KnownIssue | SystemIssue | SubmissionFailed | UnknownIssue
                  | Killed | Cancelled | ResourceExhausted.

Definition reason_eqb (a b : reason) : bool :=
  match a, b with
  | Success, Success | KnownIssue, KnownIssue | SystemIssue, SystemIssue
  | SubmissionFailed, SubmissionFailed | UnknownIssue, UnknownIssue | Killed, Killed
  | Cancelled, Cancelled | ResourceExhausted, ResourceExhausted => true
  | _, _ => false
  end.

Definition mem (r : reason) (l : list reason) : bool := existsb (reason_eqb r) l.

(* what calling a loaded restart hook does *)
Inductive hookout :=
  | HPossible | HNotAvailable | HNotRequired | HNotPossible | HFailed | HCondNotMet   (* returns that context *)
  | HTrue | HFalse          (* old interface: bool *)
  | HJunk                   (* returns something that is not a restart context *)
  | HRaiseIO | HRaiseOther. (* raises *)

Inductive context := CPossible | CNotAvailable | CNotRequired | CNotPossible | CFailed | CCondNotMet.

Definition context_of (h : hookout) : context :=
  match h with
  | HPossible => CPossible | HNotAvailable => CNotAvailable | HNotRequired => CNotRequired
  | HNotPossible => CNotPossible | HFailed => CFailed | HCondNotMet => CCondNotMet
  | HTrue => CPossible | HFalse => CNotRequired
  | HJunk => CNotAvailable | HRaiseIO => CNotAvailable | HRaiseOther => CFailed
  end.

Inductive hookfile := HFNone | HFEmpty | HFNamed.   (* restartHookFile: None / "" / a file name *)

Record cfg := {
  max_restarts : option Z;      (* workflowAttributes.maxRestarts *)
  hook_file : hookfile;
  hook_loadable : bool;         (* hooks/<module> can be imported and defines Restart *)
  hook_on : list reason;        (* workflowAttributes.restartHookOn *)
  is_sim : bool;                (* job.type == 'simulator' *)
  sim_restart : bool;           (* customAttributes sim_restart in yes/true *)
  is_rep : bool;                (* RepeatingEngine *)
  shutdown_on : list reason
}.

Record st := { restarts : Z; resub : Z; shut : bool (* engine.isShutdown *) }.

Inductive code := Initiated | NotRequired | CouldNotInitiate | MaxAttemptsExceeded.

Definition code_eqb (a b : code) : bool :=
  match a, b with
  | Initiated, Initiated | NotRequired, NotRequired | CouldNotInitiate, CouldNotInitiate
  | MaxAttemptsExceeded, MaxAttemptsExceeded => true
  | _, _ => false end.

Definition eff_max (c : cfg) : Z :=
  match max_restarts c with
  | Some n => n
  | None => match hook_file c with HFNamed => -1 | _ => 3 end
  end.

(* the hook DLMESORestart used when the package provides none, for a working directory without a
   DLMESO CONTROL file: False unless ResourceExhausted, where opening CONTROL raises IOError *)
Definition default_hook (r : reason) : hookout :=
  if reason_eqb r ResourceExhausted then HRaiseIO else HFalse.

Definition code_of_context (x : context) (run_ok : bool) : code :=
  match x with
  | CPossible | CNotAvailable => if run_ok then Initiated else CouldNotInitiate
  | CNotRequired => NotRequired
  | _ => CouldNotInitiate
  end.

(* Engine.restart *)
Definition engine_restart (c : cfg) (s : st) (r : reason) (h : hookout) (run_ok : bool) : st * code :=
  let mx := eff_max c in
  if negb (mx =? -1) && (mx <? restarts s + 1) then (s, MaxAttemptsExceeded)
  else
    let '(s1, x) :=
      if is_sim c && mem r (hook_on c) && sim_restart c then
        ((if reason_eqb r SubmissionFailed then s
          else {| restarts := restarts s + 1; resub := resub s; shut := shut s |}), CPossible)
      else if reason_eqb r SubmissionFailed then (s, CPossible)
      else if mem r (hook_on c) then
        let s' := {| restarts := restarts s + 1; resub := resub s; shut := shut s |} in
        let custom := match hook_file c with HFEmpty => false | _ => hook_loadable c end in
        (s', context_of (if custom then h else default_hook r))
      else (s, CCondNotMet) in
    let cd := code_of_context x run_ok in
    if code_eqb cd Initiated && reason_eqb r SubmissionFailed
    then ({| restarts := restarts s1; resub := resub s1 + 1; shut := shut s1 |}, cd)
    else (s1, cd).

(* RepeatingEngine.restart *)
Definition repeating_restart (s : st) (r : reason) : st * code :=
  if reason_eqb r ResourceExhausted && (restarts s =? 0)
  then ({| restarts := restarts s + 1; resub := resub s; shut := shut s |}, Initiated)
  else (s, NotRequired).

(* ComponentState.restart, with the exception caught by the controller *)
Definition comp_restart (c : cfg) (s : st) (r : reason) (h : hookout) (run_ok : bool) : st * code :=
  if shut s then (s, CouldNotInitiate)
  else if is_rep c then repeating_restart s r else engine_restart c s r h run_ok.

Definition max_resub : Z := 5.

(* Controller._restartComponent (after the fix: commit reordering the branches) *)
Definition ctl_restart (c : cfg) (s : st) (r : reason) (h : hookout) (stable run_ok : bool) : st * code :=
  if reason_eqb r SubmissionFailed then
    if resub s <? max_resub then comp_restart c s r h run_ok else (s, MaxAttemptsExceeded)
  else if mem r (hook_on c) then comp_restart c s r h run_ok
  else if negb (reason_eqb r Killed || reason_eqb r Cancelled || reason_eqb r Success) then
    if stable then (s, CouldNotInitiate) else comp_restart c s r h run_ok
  else (s, CouldNotInitiate).

(* the pinned code before the fix (restartHookOn tested first) *)
Definition ctl_restart_prefix (c : cfg) (s : st) (r : reason) (h : hookout) (stable run_ok : bool) : st * code :=
  if mem r (hook_on c) then comp_restart c s r h run_ok
  else if reason_eqb r SubmissionFailed then
    if resub s <? max_resub then comp_restart c s r h run_ok else (s, MaxAttemptsExceeded)
  else if negb (reason_eqb r Killed || reason_eqb r Cancelled || reason_eqb r Success) then
    if stable then (s, CouldNotInitiate) else comp_restart c s r h run_ok
  else (s, CouldNotInitiate).

(* Engine._setExitReason: a successful exit resets the resubmission counter *)
Definition on_exit (s : st) (r : reason) : st :=
  if reason_eqb r Success then {| restarts := restarts s; resub := 0; shut := shut s |} else s.

Inductive final := Finished | Shutdown | Failed.
Definition final_eqb (a b : final) : bool :=
  match a, b with Finished, Finished | Shutdown, Shutdown | Failed, Failed => true | _, _ => false end.

(* TransitionComponentToFinalState *)
Definition final_of (c : cfg) (r : reason) : final :=
  if reason_eqb r Success then Finished else if mem r (shutdown_on c) then Shutdown else Failed.

(* one task exit handled by postMortemCheck *)
Record exit_ev := { ev_reason : reason; ev_hook : hookout; ev_stable : bool; ev_run_ok : bool }.

Definition pm_step (c : cfg) (s : st) (e : exit_ev) : st * code :=
  ctl_restart c (on_exit s (ev_reason e)) (ev_reason e) (ev_hook e) (ev_stable e) (ev_run_ok e).

(* A history of exits of one component.  The component lives on only while restarts are initiated;
   the first refusal gives it its final state, after which the engine is shut down and no further
   exit is handled.  Returns the codes, the final state (None while still alive) and the counters. *)
Fixpoint run_hist (c : cfg) (s : st) (h : list exit_ev) : list code * option final * st :=
  match h with
  | [] => ([], None, s)
  | e :: h' =>
      let '(s1, cd) := pm_step c s e in
      if code_eqb cd Initiated then
        let '(cds, f, s2) := run_hist c s1 h' in (cd :: cds, f, s2)
      else ([cd], Some (final_of c (ev_reason e)), {| restarts := restarts s1; resub := resub s1; shut := true |})
  end.

Definition init_st : st := {| restarts := 0; resub := 0; shut := false |}.

(* number of initiated continuation restarts (i.e. not re-submissions) in a history *)
Fixpoint count_cont (c : cfg) (s : st) (h : list exit_ev) : Z :=
  match h with
  | [] => 0
  | e :: h' =>
      let '(s1, cd) := pm_step c s e in
      if code_eqb cd Initiated
      then (if reason_eqb (ev_reason e) SubmissionFailed then 0 else 1) + count_cont c s1 h'
      else 0
  end.

(* number of initiated re-submissions *)
Fixpoint count_resub (c : cfg) (s : st) (h : list exit_ev) : Z :=
  match h with
  | [] => 0
  | e :: h' =>
      let '(s1, cd) := pm_step c s e in
      if code_eqb cd Initiated
      then (if reason_eqb (ev_reason e) SubmissionFailed then 1 else 0) + count_resub c s1 h'
      else 0
  end.

(* ---- what the correspondence compares, step by step *)
Definition obs := (code * Z * Z)%type.   (* restart code, engine.restarts, resubmissionAttempts *)
Fixpoint trace (c : cfg) (s : st) (h : list exit_ev) : list obs * option final :=
  match h with
  | [] => ([], None)
  | e :: h' =>
      let '(s1, cd) := pm_step c s e in
      if code_eqb cd Initiated then
        let '(o, f) := trace c s1 h' in ((cd, restarts s1, resub s1) :: o, f)
      else ([(cd, restarts s1, resub s1)], Some (final_of c (ev_reason e)))
  end.

Definition obs_eqb (a b : obs) : bool :=
  let '(c1, r1, q1) := a in let '(c2, r2, q2) := b in code_eqb c1 c2 && (r1 =? r2) && (q1 =? q2).
Fixpoint list_eqb {A} (eqb : A -> A -> bool) (l r : list A) : bool :=
  match l, r with
  | [], [] => true
  | x :: l', y :: r' => eqb x y && list_eqb eqb l' r'
  | _, _ => false end.
Definition check_case (k : cfg * list exit_ev * (list obs * option final)) : bool :=
  let '(c, h, (o, f)) := k in
  let '(o', f') := trace c init_st h in
  list_eqb obs_eqb o o' &&
  match f, f' with None, None => true | Some a, Some b => final_eqb a b | _, _ => false end.
