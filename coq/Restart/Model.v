(* C12 — restart policy.  Model of Controller._restartComponent / _unstableSystemRestart /
   postMortemCheck (control.py), ComponentState.restart (workflow.py), Engine.restart,
   RepeatingEngine.restart and Engine._setExitReason (engine.py), composed as one pure decision
   function over the counters the code keeps.  External behaviour enters as oracle arguments:
   what the restart hook does, whether the system is judged stable, whether Engine.run() raises. *)
From Coq Require Import ZArith List Bool.
Import ListNotations.
Open Scope Z_scope.

Inductive reason := Success | KnownIssue | SystemIssue | SubmissionFailed | UnknownIssue
                  | Killed | Cancelled | ResourceExhausted.

Definition reason_eqb (a b : reason) : bool :=
  match a, b with
  | Success, Success | KnownIssue, KnownIssue | SystemIssue, SystemIssue
  | SubmissionFailed, SubmissionFailed | UnknownIssue, UnknownIssue | Killed, Killed
  | Cancelled, Cancelled | ResourceExhausted, ResourceExhausted => true
  | _, _ => false
  end.

Definition mem (r : reason) (l : list reason) : bool := existsb (reason_eqb r) l.

(* what calling a loaded restart hook does *)
Inductive hookout :=
  | HPossible | HNotAvailable | HNotRequired | HNotPossible | HFailed | HCondNotMet   (* returns that context *)
  | HTrue | HFalse          (* old interface: bool *)
  | HJunk                   (* returns something that is not a restart context *)
  | HRaiseIO | HRaiseOther. (* raises *)

Inductive context := CPossible | CNotAvailable | CNotRequired | CNotPossible | CFailed | CCondNotMet.

Definition context_of (h : hookout) : context :=
  match h with
  | HPossible => CPossible | HNotAvailable => CNotAvailable | HNotRequired => CNotRequired
  | HNotPossible => CNotPossible | HFailed => CFailed | HCondNotMet => CCondNotMet
  | HTrue => CPossible | HFalse => CNotRequired
  | HJunk => CNotAvailable | HRaiseIO => CNotAvailable | HRaiseOther => CFailed
  end.

Inductive hookfile := HFNone | HFEmpty | HFNamed.   (* restartHookFile: None / "" / a file name *)

Record cfg := {
  max_restarts : option Z;      (* workflowAttributes.maxRestarts *)
  hook_file : hookfile;
  hook_loadable : bool;         (* hooks/<module> can be imported and defines Restart *)
  hook_on : list reason;        (* workflowAttributes.restartHookOn *)
  is_sim : bool;                (* job.type == 'simulator' *)
  sim_restart : bool;           (* customAttributes sim_restart in yes/true *)
  is_rep : bool;                (* RepeatingEngine *)
  shutdown_on : list reason
}.

Record st := { restarts : Z; resub : Z; shut : bool (* engine.isShutdown *) }.

Inductive code := Initiated | NotRequired | CouldNotInitiate | MaxAttemptsExceeded.

Definition code_eqb (a b : code) : bool :=
  match a, b with
  | Initiated, Initiated | NotRequired, NotRequired | CouldNotInitiate, CouldNotInitiate
  | MaxAttemptsExceeded, MaxAttemptsExceeded => true
  | _, _ => false end.

Definition eff_max (c : cfg) : Z :=
  match max_restarts c with
  | Some n => n
  | None => match hook_file c with HFNamed => -1 | _ => 3 end
  end.

(* the hook DLMESORestart used when the package provides none, for a working directory without a
   DLMESO CONTROL file: False unless ResourceExhausted, where opening CONTROL raises IOError *)
Definition default_hook (r : reason) : hookout :=
  if reason_eqb r ResourceExhausted then HRaiseIO else HFalse.

Definition code_of_context (x : context) (run_ok : bool) : code :=
  match x with
  | CPossible | CNotAvailable => if run_ok then Initiated else CouldNotInitiate
  | CNotRequired => NotRequired
  | _ => CouldNotInitiate
  end.

(* Engine.restart *)
Definition engine_restart (c : cfg) (s : st) (r : reason) (h : hookout) (run_ok : bool) : st * code :=
  let mx := eff_max c in
  if negb (mx =? -1) && (mx <? restarts s + 1) then (s, MaxAttemptsExceeded)
  else
    let '(s1, x) :=
      if is_sim c && mem r (hook_on c) && sim_restart c then
        ((if reason_eqb r SubmissionFailed then s
          else {| restarts := restarts s + 1; resub := resub s; shut := shut s |}), CPossible)
      else if reason_eqb r SubmissionFailed then (s, CPossible)
      else if mem r (hook_on c) then
        let s' := {| restarts := restarts s + 1; resub := resub s; shut := shut s |} in
        let custom := match hook_file c with HFEmpty => false | _ => hook_loadable c end in
        (s', context_of (if custom then h else default_hook r))
      else (s, CCondNotMet) in
    let cd := code_of_context x run_ok in
    if code_eqb cd Initiated && reason_eqb r SubmissionFailed
    then ({| restarts := restarts s1; resub := resub s1 + 1; shut := shut s1 |}, cd)
    else (s1, cd).

(* RepeatingEngine.restart *)
Definition repeating_restart (s : st) (r : reason) : st * code :=
  if reason_eqb r ResourceExhausted && (restarts s =? 0)
  then ({| restarts := restarts s + 1; resub := resub s; shut := shut s |}, Initiated)
  else (s, NotRequired).

(* RepeatingEngine.restart after the F12b fix: like Engine.restart it restarts only for an exit
   reason the component lists in restartHookOn ([repeating_restart] alone is the pinned code) *)
Definition repeating_restart_listed (c : cfg) (s : st) (r : reason) : st * code :=
  if mem r (hook_on c) then repeating_restart s r else (s, NotRequired).

(* ComponentState.restart, with the exception caught by the controller *)
Definition comp_restart (c : cfg) (s : st) (r : reason) (h : hookout) (run_ok : bool) : st * code :=
  if shut s then (s, CouldNotInitiate)
  else if is_rep c then repeating_restart_listed c s r else engine_restart c s r h run_ok.

(* the pinned code before the F12b fix (RepeatingEngine.restart ignores restartHookOn) *)
Definition comp_restart_f12b (c : cfg) (s : st) (r : reason) (h : hookout) (run_ok : bool) : st * code :=
  if shut s then (s, CouldNotInitiate)
  else if is_rep c then repeating_restart s r else engine_restart c s r h run_ok.

Definition max_resub : Z := 5.

(* Controller._restartComponent (after the fix: commit reordering the branches) *)
Definition ctl_restart (c : cfg) (s : st) (r : reason) (h : hookout) (stable run_ok : bool) : st * code :=
  if reason_eqb r SubmissionFailed then
    if resub s <? max_resub then comp_restart c s r h run_ok else (s, MaxAttemptsExceeded)
  else if mem r (hook_on c) then comp_restart c s r h run_ok
  else if negb (reason_eqb r Killed || reason_eqb r Cancelled || reason_eqb r Success) then
    if stable then (s, CouldNotInitiate) else comp_restart c s r h run_ok
  else (s, CouldNotInitiate).

(* the pinned code before the fix (restartHookOn tested first) *)
Definition ctl_restart_prefix (c : cfg) (s : st) (r : reason) (h : hookout) (stable run_ok : bool) : st * code :=
  if mem r (hook_on c) then comp_restart c s r h run_ok
  else if reason_eqb r SubmissionFailed then
    if resub s <? max_resub then comp_restart c s r h run_ok else (s, MaxAttemptsExceeded)
  else if negb (reason_eqb r Killed || reason_eqb r Cancelled || reason_eqb r Success) then
    if stable then (s, CouldNotInitiate) else comp_restart c s r h run_ok
  else (s, CouldNotInitiate).

(* the pinned code before the F12b fix: the unstable-system path reaches a RepeatingEngine.restart
   that does not look at restartHookOn *)
Definition ctl_restart_f12b (c : cfg) (s : st) (r : reason) (h : hookout) (stable run_ok : bool) : st * code :=
  if reason_eqb r SubmissionFailed then
    if resub s <? max_resub then comp_restart_f12b c s r h run_ok else (s, MaxAttemptsExceeded)
  else if mem r (hook_on c) then comp_restart_f12b c s r h run_ok
  else if negb (reason_eqb r Killed || reason_eqb r Cancelled || reason_eqb r Success) then
    if stable then (s, CouldNotInitiate) else comp_restart_f12b c s r h run_ok
  else (s, CouldNotInitiate).

(* Engine._setExitReason: a successful exit resets the resubmission counter *)
Definition on_exit (s : st) (r : reason) : st :=
  if reason_eqb r Success then {| restarts := restarts s; resub := 0; shut := shut s |} else s.

Inductive final := Finished | Shutdown | Failed.
Definition final_eqb (a b : final) : bool :=
  match a, b with Finished, Finished | Shutdown, Shutdown | Failed, Failed => true | _, _ => false end.

(* TransitionComponentToFinalState *)
Definition final_of (c : cfg) (r : reason) : final :=
  if reason_eqb r Success then Finished else if mem r (shutdown_on c) then Shutdown else Failed.

(* one task exit handled by postMortemCheck *)
Record exit_ev := { ev_reason : reason; ev_hook : hookout; ev_stable : bool; ev_run_ok : bool }.

Definition pm_step (c : cfg) (s : st) (e : exit_ev) : st * code :=
  ctl_restart c (on_exit s (ev_reason e)) (ev_reason e) (ev_hook e) (ev_stable e) (ev_run_ok e).

(* A history of exits of one component.  The component lives on only while restarts are initiated;
   the first refusal gives it its final state, after which the engine is shut down and no further
   exit is handled.  Returns the codes, the final state (None while still alive) and the counters. *)
Fixpoint run_hist (c : cfg) (s : st) (h : list exit_ev) : list code * option final * st :=
  match h with
  | [] => ([], None, s)
  | e :: h' =>
      let '(s1, cd) := pm_step c s e in
      if code_eqb cd Initiated then
        let '(cds, f, s2) := run_hist c s1 h' in (cd :: cds, f, s2)
      else ([cd], Some (final_of c (ev_reason e)), {| restarts := restarts s1; resub := resub s1; shut := true |})
  end.

Definition init_st : st := {| restarts := 0; resub := 0; shut := false |}.

(* number of initiated continuation restarts (i.e. not re-submissions) in a history *)
Fixpoint count_cont (c : cfg) (s : st) (h : list exit_ev) : Z :=
  match h with
  | [] => 0
  | e :: h' =>
      let '(s1, cd) := pm_step c s e in
      if code_eqb cd Initiated
      then (if reason_eqb (ev_reason e) SubmissionFailed then 0 else 1) + count_cont c s1 h'
      else 0
  end.

(* number of initiated re-submissions *)
Fixpoint count_resub (c : cfg) (s : st) (h : list exit_ev) : Z :=
  match h with
  | [] => 0
  | e :: h' =>
      let '(s1, cd) := pm_step c s e in
      if code_eqb cd Initiated
      then (if reason_eqb (ev_reason e) SubmissionFailed then 1 else 0) + count_resub c s1 h'
      else 0
  end.

(* ---- what the correspondence compares, step by step *)
Definition obs := (code * Z * Z)%type.   (* restart code, engine.restarts, resubmissionAttempts *)
Fixpoint trace (c : cfg) (s : st) (h : list exit_ev) : list obs * option final :=
  match h with
  | [] => ([], None)
  | e :: h' =>
      let '(s1, cd) := pm_step c s e in
      if code_eqb cd Initiated then
        let '(o, f) := trace c s1 h' in ((cd, restarts s1, resub s1) :: o, f)
      else ([(cd, restarts s1, resub s1)], Some (final_of c (ev_reason e)))
  end.

Definition obs_eqb (a b : obs) : bool :=
  let '(c1, r1, q1) := a in let '(c2, r2, q2) := b in code_eqb c1 c2 && (r1 =? r2) && (q1 =? q2).
Fixpoint list_eqb {A} (eqb : A -> A -> bool) (l r : list A) : bool :=
  match l, r with
  | [], [] => true
  | x :: l', y :: r' => eqb x y && list_eqb eqb l' r'
  | _, _ => false end.
Definition check_case (k : cfg * list exit_ev * (list obs * option final)) : bool :=
  let '(c, h, (o, f)) := k in
  let '(o', f') := trace c init_st h in
  list_eqb obs_eqb o o' &&
  match f, f' with None, None => true | Some a, Some b => final_eqb a b | _, _ => false end.

(* ================================================================================================
   Additions (proof strengthening): what a restart hook can cause, the DLMESO CONTROL-file hook
   shipped in engine.py, the engine attributes Engine.restart resets.
   ================================================================================================ *)

(* does the hook's answer permit the restart? (RestartPossible / HookNotAvailable = vanilla restart) *)
Definition hook_allows (h : hookout) : bool :=
  match context_of h with CPossible | CNotAvailable => true | _ => false end.

(* the hook Engine.restart ends up calling: the package's one when loadable, else the fallback *)
Definition eff_hook (c : cfg) (r : reason) (h : hookout) : hookout :=
  if match hook_file c with HFEmpty => false | _ => hook_loadable c end then h else default_hook r.

(* is a restart hook (custom or fallback) called at all while this exit is handled?  Only on the
   path: engine alive-able (not shut down), ordinary engine, listed reason other than
   SubmissionFailed, not the simulator short-cut, budget not yet used up. *)
Definition hook_called (c : cfg) (s : st) (r : reason) : bool :=
  negb (shut s) && negb (is_rep c) && negb (reason_eqb r SubmissionFailed) && mem r (hook_on c)
  && negb (is_sim c && sim_restart c)
  && negb (negb (eff_max c =? -1) && (eff_max c <? restarts s + 1)).

(* ---- DLMESORestart (engine.py:82): the fallback hook, now with the CONTROL file.
   A CONTROL file is the list of its lines as readlines() returns them (bodies; only the last line
   may lack its newline, recorded by the flag); None = the file cannot be opened (IOError). *)
Require Import Coq.Strings.String.
Record control_file := { cf_lines : list string; cf_last_nl : bool }.

Definition str_eqb (a b : string) : bool := if string_dec a b then true else false.

(* lines.insert(-1, x): before the last element; on an empty list: append *)
Definition insert_before_last {A} (x : A) (l : list A) : list A :=
  match rev l with
  | [] => [x]
  | z :: r => rev r ++ [x; z]
  end.

(* second-last line, lines[-2] *)
Definition second_last {A} (l : list A) : option A :=
  match rev l with _ :: y :: _ => Some y | _ => None end.

Definition dlmeso_hook (r : reason) (f : option control_file) : hookout * option control_file :=
  if negb (reason_eqb r ResourceExhausted) then (HFalse, f)
  else match f with
       | None => (HRaiseIO, None)                                   (* open() raises IOError *)
       | Some cf =>
           match second_last (cf_lines cf) with
           | None => (HRaiseOther, f)                                (* lines[-2]: IndexError *)
           | Some l2 =>
               if str_eqb l2 "restart" then (HTrue, f)
               else (HTrue, Some {| cf_lines := insert_before_last "restart"%string (cf_lines cf);
                                    cf_last_nl := cf_last_nl cf |})
           end
       end.

(* a configuration whose hook is the fallback, re-expressed as one with a loadable custom hook
   (same effective maximum: '' and None give the same default of 3) *)
Definition as_custom (c : cfg) : cfg :=
  {| max_restarts := max_restarts c;
     hook_file := match hook_file c with HFEmpty => HFNone | x => x end;
     hook_loadable := true; hook_on := hook_on c; is_sim := is_sim c; sim_restart := sim_restart c;
     is_rep := is_rep c; shutdown_on := shutdown_on c |}.

Definition uses_fallback (c : cfg) : bool :=
  match hook_file c with HFEmpty => true | _ => negb (hook_loadable c) end.

(* a history of exits in a working directory with a CONTROL file: the fallback hook's answer is
   computed from the file, and the file is rewritten exactly when the hook is called *)
Record dl_ev := { dl_reason : reason; dl_stable : bool; dl_run_ok : bool }.

Fixpoint trace_dl (c : cfg) (s : st) (f : option control_file) (h : list dl_ev)
  : list obs * option final * option control_file :=
  match h with
  | [] => ([], None, f)
  | e :: h' =>
      let r := dl_reason e in
      let s0 := on_exit s r in
      let '(ho, f1) := if hook_called c s0 r then dlmeso_hook r f else (HJunk, f) in
      let '(s1, cd) := ctl_restart (as_custom c) s0 r ho (dl_stable e) (dl_run_ok e) in
      if code_eqb cd Initiated then
        let '(o, fin, f2) := trace_dl c s1 f1 h' in ((cd, restarts s1, resub s1) :: o, fin, f2)
      else ([(cd, restarts s1, resub s1)], Some (final_of c r), f1)
  end.

Definition cf_eqb (a b : option control_file) : bool :=
  match a, b with
  | None, None => true
  | Some x, Some y => list_eqb str_eqb (cf_lines x) (cf_lines y) && Bool.eqb (cf_last_nl x) (cf_last_nl y)
  | _, _ => false
  end.

(* the hook function alone: (reason, file) -> (answer, file afterwards) *)
Definition hookout_eqb (a b : hookout) : bool :=
  match a, b with
  | HPossible, HPossible | HNotAvailable, HNotAvailable | HNotRequired, HNotRequired
  | HNotPossible, HNotPossible | HFailed, HFailed | HCondNotMet, HCondNotMet | HTrue, HTrue
  | HFalse, HFalse | HJunk, HJunk | HRaiseIO, HRaiseIO | HRaiseOther, HRaiseOther => true
  | _, _ => false
  end.
Definition check_dlmeso_hook (k : reason * option control_file * (hookout * option control_file)) : bool :=
  let '(r, f, (ho, f')) := k in
  let '(mo, mf) := dlmeso_hook r f in hookout_eqb ho mo && cf_eqb f' mf.

(* the whole chain with the fallback hook and a CONTROL file *)
Definition check_dlmeso_case
  (k : cfg * option control_file * list dl_ev * (list obs * option final * option control_file)) : bool :=
  let '(c, f, h, (o, fin, f')) := k in
  uses_fallback c &&
  let '(o', fin', mf) := trace_dl c init_st f h in
  list_eqb obs_eqb o o' &&
  match fin, fin' with None, None => true | Some a, Some b => final_eqb a b | _, _ => false end &&
  cf_eqb f' mf.

(* ---- what Engine.restart resets on the engine before it calls run() (engine.py:993-1000):
   process, _taskFinished, _taskLaunched, _exitReason; the controller reads the engine through
   exitReason(), returncode(), isAlive() which are all functions of _exitReason. *)
Record engine_view := { v_exit : option reason; v_process : bool; v_launched : bool; v_finished : bool }.

Definition fresh_view : engine_view :=      (* Engine.__init__ *)
  {| v_exit := None; v_process := false; v_launched := false; v_finished := false |}.
Definition exited_view (r : reason) : engine_view :=   (* a task ran and exited with r *)
  {| v_exit := Some r; v_process := true; v_launched := true; v_finished := true |}.
Definition restart_reset (v : engine_view) : engine_view :=
  {| v_exit := None; v_process := false; v_launched := false; v_finished := false |}.

Definition v_alive (v : engine_view) : bool := match v_exit v with None => true | Some _ => false end.
Definition v_returncode (v : engine_view) : option Z :=
  match v_exit v with None => None | Some Success => Some 0 | Some _ => Some 1 end.

(* the engine as the controller sees it right after an exit has been handled: reset only on the
   branch of Engine.restart that goes on to run() (context Possible/NotAvailable), whether or not
   run() then succeeds; untouched on every refusal before that point.  Ordinary engines only. *)
Definition reaches_run (c : cfg) (s : st) (r : reason) (h : hookout) (stable : bool) : bool :=
  code_eqb (snd (ctl_restart c s r h stable true)) Initiated.

Definition view_after (c : cfg) (s : st) (e : exit_ev) : engine_view :=
  let r := ev_reason e in
  if reaches_run c (on_exit s r) r (ev_hook e) (ev_stable e) then restart_reset (exited_view r) else exited_view r.

Definition view_obs := (option reason * option Z * bool * bool * bool * bool)%type.
Definition observe (v : engine_view) : view_obs :=
  (v_exit v, v_returncode v, v_alive v, v_process v, v_launched v, v_finished v).

Fixpoint views (c : cfg) (s : st) (h : list exit_ev) : list view_obs :=
  match h with
  | [] => []
  | e :: h' =>
      let '(s1, cd) := pm_step c s e in
      observe (view_after c s e) :: (if code_eqb cd Initiated then views c s1 h' else [])
  end.

Definition oreason_eqb (a b : option reason) : bool :=
  match a, b with None, None => true | Some x, Some y => reason_eqb x y | _, _ => false end.
Definition oZ_eqb (a b : option Z) : bool :=
  match a, b with None, None => true | Some x, Some y => x =? y | _, _ => false end.
Definition view_obs_eqb (a b : view_obs) : bool :=
  let '(e1, rc1, al1, p1, l1, f1) := a in let '(e2, rc2, al2, p2, l2, f2) := b in
  oreason_eqb e1 e2 && oZ_eqb rc1 rc2 && Bool.eqb al1 al2 && Bool.eqb p1 p2 && Bool.eqb l1 l2 && Bool.eqb f1 f2.

(* check_case + the engine views step by step (ordinary engines) + a freshly built engine's view *)
Definition check_case_views (k : cfg * list exit_ev * (list obs * option final) * (list view_obs * view_obs)) : bool :=
  let '(c, h, of, (vs, fresh)) := k in
  check_case (c, h, of) &&
  (is_rep c || list_eqb view_obs_eqb vs (views c init_st h)) &&
  view_obs_eqb fresh (observe fresh_view).

(* ================================================================================================
   Additions (round 4): where an exit reason comes from.  Engine.run() (engine.py:431) launches the
   task asynchronously: LaunchTask calls the back-end's task generator; if that raises, no process
   exists and the engine itself names the reason (OSError / JobLaunchError -> SubmissionFailed, any
   other exception -> UnknownIssue); otherwise Wait/HandleTaskExit record the reason the task
   reports (Engine._setExitReason: process.exitReason wins).  A failed launch leaves process,
   _taskLaunched and _taskFinished unset.  The re-submission counter is touched by neither path
   except for the Success reset in _setExitReason ([on_exit]).
   ================================================================================================ *)
Inductive launch :=
  | TaskExits (r : reason)      (* the generator returned a task, which later exited with r *)
  | GenOSError | GenLaunchError (* the generator raised OSError / JobLaunchError *)
  | GenOtherError.              (* the generator raised something else *)

Definition launch_reason (l : launch) : reason :=
  match l with TaskExits r => r | GenOSError | GenLaunchError => SubmissionFailed | GenOtherError => UnknownIssue end.
Definition launched (l : launch) : bool := match l with TaskExits _ => true | _ => false end.

Record l_ev := { lv_launch : launch; lv_hook : hookout; lv_stable : bool; lv_run_ok : bool }.
Definition to_exit_ev (e : l_ev) : exit_ev :=
  {| ev_reason := launch_reason (lv_launch e); ev_hook := lv_hook e; ev_stable := lv_stable e; ev_run_ok := lv_run_ok e |}.

Definition failed_launch_view (r : reason) : engine_view :=
  {| v_exit := Some r; v_process := false; v_launched := false; v_finished := false |}.
Definition exited_view_l (l : launch) : engine_view :=
  if launched l then exited_view (launch_reason l) else failed_launch_view (launch_reason l).

Definition view_after_l (c : cfg) (s : st) (e : l_ev) : engine_view :=
  let r := launch_reason (lv_launch e) in
  if reaches_run c (on_exit s r) r (lv_hook e) (lv_stable e)
  then restart_reset (exited_view_l (lv_launch e)) else exited_view_l (lv_launch e).

Fixpoint views_l (c : cfg) (s : st) (h : list l_ev) : list view_obs :=
  match h with
  | [] => []
  | e :: h' =>
      let '(s1, cd) := pm_step c s (to_exit_ev e) in
      observe (view_after_l c s e) :: (if code_eqb cd Initiated then views_l c s1 h' else [])
  end.

(* the correspondence on launch histories: codes, counters and final state are those of the exit
   history the launches produce; the engine views tell launched tasks from failed launches *)
Definition check_case_launch (k : cfg * list l_ev * (list obs * option final) * (list view_obs * view_obs)) : bool :=
  let '(c, h, of, (vs, fresh)) := k in
  check_case (c, map to_exit_ev h, of) &&
  (is_rep c || list_eqb view_obs_eqb vs (views_l c init_st h)) &&
  view_obs_eqb fresh (observe fresh_view).
