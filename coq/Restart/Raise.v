(* C12 — a restart hook that RAISES, one level below [hookout]: which exception it raises.

   Engine.restart (engine.py, the try around the call of RestartHook) has two handlers, tried in
   this order:
       except IOError      -> RestartContextHookNotAvailable   ("not a DLMESO job": vanilla restart)
       except Exception    -> RestartContextHookFailed         (no restart, the component fails)
   Python selects a handler by isinstance, i.e. by membership of the handler's class in the method
   resolution order of the exception's class.  An exception is therefore modelled by its MRO, the
   list of class names from its own class up to `object` (IOError, EnvironmentError, socket.error
   are aliases of OSError in Python 3 and show as "OSError").  [mro] ranges over exceptions that
   `except Exception` catches (BaseException-only ones - KeyboardInterrupt, SystemExit - leave
   Engine.restart and are not a hook outcome of the property).

   [handlers] is the handler chain as data and [raise_out] the hook outcome of the model it
   selects; the harness prints `raise_out [<the MRO of the exception the real hook raised>]` as the
   hook behaviour of an exit, so the classification is made here, not in the harness. *)
From Coq Require Import ZArith List Bool String.
Import ListNotations.
Require Import V.Restart.Model V.Restart.Proofs V.Restart.More.
Open Scope Z_scope.

Definition mro := list string.

Definition isinstance (m : mro) (cls : string) : bool := existsb (String.eqb cls) m.

(* the handler chain: class caught, hook outcome it amounts to *)
Definition handlers : list (string * hookout) := [("OSError"%string, HRaiseIO); ("Exception"%string, HRaiseOther)].

Fixpoint select (hs : list (string * hookout)) (m : mro) : option hookout :=
  match hs with
  | [] => None
  | (cls, o) :: hs' => if isinstance m cls then Some o else select hs' m
  end.

(* a caught exception that no handler names cannot occur (Exception is the last handler); for
   totality it is the failed hook, which is also what a bare `except:` would have to mean *)
Definition raise_out (m : mro) : hookout :=
  match select handlers m with Some o => o | None => HRaiseOther end.

Definition is_io (m : mro) : bool := isinstance m "OSError".

Lemma raise_out_spec m : raise_out m = if is_io m then HRaiseIO else HRaiseOther.
Proof.
  unfold raise_out, is_io, handlers, select.
  destruct (isinstance m "OSError"); [reflexivity|].
  destruct (isinstance m "Exception"); reflexivity.
Qed.

(* the package's own hook is the one that is called *)
Definition custom_hook (c : cfg) : bool := match hook_file c with HFEmpty => false | _ => hook_loadable c end.

Lemma eff_hook_custom c r h : custom_hook c = true -> eff_hook c r h = h.
Proof. unfold custom_hook, eff_hook. intros ->. reflexivity. Qed.

(* A consulted hook of the package that raises:
   - anything that is not an IOError (ImportError and ModuleNotFoundError included): the restart is
     refused with RestartCouldNotInitiate whatever run() would do, the attempt is counted, the
     component is given its final state by the exit reason;
   - an IOError (any subclass of OSError): exactly the answer "hook not available". *)
Lemma raising_hook_refused c s r m stable ok :
  hook_called c s r = true -> custom_hook c = true -> is_io m = false ->
  ctl_restart c s r (raise_out m) stable ok = (bump s, CouldNotInitiate).
Proof.
  intros Hc Hu Hi. rewrite (hook_called_outcome _ _ _ _ _ _ Hc), (eff_hook_custom _ _ _ Hu), raise_out_spec, Hi.
  reflexivity.
Qed.

Lemma raising_hook_io c s r m stable ok :
  is_io m = true ->
  ctl_restart c s r (raise_out m) stable ok = ctl_restart c s r HNotAvailable stable ok.
Proof.
  intros Hi. rewrite raise_out_spec, Hi.
  destruct (hook_called c s r) eqn:Hc.
  - rewrite !(hook_called_outcome _ _ _ _ _ _ Hc). unfold eff_hook.
    destruct (match hook_file c with HFEmpty => false | _ => hook_loadable c end); reflexivity.
  - apply hook_not_called_irrelevant. exact Hc.
Qed.

(* whole histories: if every exit's hook raises something that is not an IOError, the first exit
   at which the hook is consulted is the last one handled: the component has its final state *)
Lemma raising_hook_final c s e m :
  hook_called c (on_exit s (ev_reason e)) (ev_reason e) = true -> custom_hook c = true ->
  is_io m = false -> ev_hook e = raise_out m ->
  forall h, exists s',
    run_hist c s (e :: h) = ([CouldNotInitiate], Some (final_of c (ev_reason e)), s').
Proof.
  intros Hc Hu Hi He h. cbn [run_hist]. unfold pm_step. rewrite He.
  rewrite (raising_hook_refused _ _ _ _ _ _ Hc Hu Hi). cbn. eexists. reflexivity.
Qed.

(* the import-error family named: these MROs are not IOErrors *)
Definition mro_ImportError : mro := ["ImportError"; "Exception"; "BaseException"; "object"]%string.
Definition mro_ModuleNotFoundError : mro := ("ModuleNotFoundError"%string :: mro_ImportError).
Definition mro_FileNotFoundError : mro := ["FileNotFoundError"; "OSError"; "Exception"; "BaseException"; "object"]%string.

(* ================================================================================================
   The other try block of Engine.restart: IMPORTING the hook module (hooks/restart.py or the named
   file; it is executed again at every restart attempt) and reading its Restart attribute:
       except (ImportError, IOError)  -> no hook of the package: the DLMESORestart fallback is called
   Anything else the module raises while it is executed (SyntaxError, ValueError ...) and the
   AttributeError of a module without Restart are not handled there: they leave Engine.restart
   after the attempt has been counted, Controller._restartComponent catches them and keeps its
   initial verdict RestartCouldNotInitiate - the outcome of a failed hook.
   [hook_after_load l r h] is the outcome, in terms of [hookout], of an exit with reason r whose
   module load goes as l and whose Restart (if it gets called) behaves as h, for a configuration
   whose hook file exists ([custom_hook]). *)
Inductive load :=
  | LoadOk
  | LoadRaises (m : mro)      (* executing the module raises *)
  | LoadNoRestart.            (* the module defines no Restart *)

Definition import_handled (m : mro) : bool := isinstance m "ImportError" || isinstance m "OSError".

Definition hook_after_load (l : load) (r : reason) (h : hookout) : hookout :=
  match l with
  | LoadOk => h
  | LoadRaises m => if import_handled m then default_hook r else HRaiseOther
  | LoadNoRestart => HRaiseOther
  end.

(* a module that cannot be imported (ImportError / IOError) is a missing module, whatever the
   configuration and state: the exit is handled as with hook_loadable = false *)
Definition unloadable (c : cfg) : cfg :=
  {| max_restarts := max_restarts c; hook_file := hook_file c; hook_loadable := false; hook_on := hook_on c;
     is_sim := is_sim c; sim_restart := sim_restart c; is_rep := is_rep c; shutdown_on := shutdown_on c |}.

Lemma hook_called_unloadable c s r : hook_called (unloadable c) s r = hook_called c s r.
Proof. reflexivity. Qed.

Lemma eff_hook_unloadable c r h : eff_hook (unloadable c) r h = default_hook r.
Proof. unfold eff_hook, unloadable; cbn. destruct (hook_file c); reflexivity. Qed.

Lemma load_import_error_is_missing c s r m h stable ok :
  import_handled m = true ->
  ctl_restart c s r (hook_after_load (LoadRaises m) r h) stable ok = ctl_restart (unloadable c) s r h stable ok.
Proof.
  intros Hm. unfold hook_after_load. rewrite Hm.
  unfold ctl_restart, comp_restart, repeating_restart_listed, engine_restart.
  change (eff_max (unloadable c)) with (eff_max c).
  cbn [unloadable max_restarts hook_file hook_loadable hook_on is_sim sim_restart is_rep shutdown_on].
  destruct (hook_file c), (hook_loadable c); reflexivity.
Qed.

(* a broken module (anything else raised at import, or no Restart) is a failed hook *)
Lemma load_broken_refused c s r l h stable ok :
  hook_called c s r = true -> custom_hook c = true ->
  (l = LoadNoRestart \/ exists m, l = LoadRaises m /\ import_handled m = false) ->
  ctl_restart c s r (hook_after_load l r h) stable ok = (bump s, CouldNotInitiate).
Proof.
  intros Hc Hu Hl. rewrite (hook_called_outcome _ _ _ _ _ _ Hc), (eff_hook_custom _ _ _ Hu).
  destruct Hl as [->|[m [-> Hm]]]; cbn [hook_after_load]; [|rewrite Hm]; reflexivity.
Qed.
