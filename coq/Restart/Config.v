(* C12 — the CONFIGURATION side of "never after a killed or cancelled task".
   Controller._restartComponent, Engine.restart and RepeatingEngine.restart only test
   `exitReason in restartHookOn` (Model.ctl_restart: mem r (hook_on c)); that Killed / Cancelled are
   never in that list is enforced when the configuration is loaded, by the FlowIR schema
   (flowir.py, FlowIR.type_flowir_component -> generate_blueprint):
       dont_restart_on = (exitReasons['Killed'], exitReasons['Cancelled'])
       restartHookOn : ValidateMany(ValidateOr(is_var_reference, *[x in exitReasons if x not in dont_restart_on]))
   applied (a) to every raw list written in a platform override or a global / stage blueprint of any
   platform, active or not, and (b) to the effective list of the active platform after layering and
   variable resolution (FlowIRConcrete.validate); the list in the component's own body is judged
   through (b) only: it is the effective list unless an override of the active platform shadows it.  shutdownOn is any list
   of strings.  Modelled here: the names of the exit reasons (experiment.model.codes.exitReasons),
   the schema's verdict on a name / a raw entry / a document, and the theorems that tie a verdict
   "accepted" to the hypothesis of C12_never_after_kill.  Layering and variable resolution are not
   modelled (C07): the effective list is an input. *)
From Coq Require Import ZArith List Bool String.
Import ListNotations.
Require Import V.Restart.Model V.Restart.Proofs.
Open Scope Z_scope.
Local Open Scope string_scope.

Definition all_reasons : list reason :=
  [Success; KnownIssue; SystemIssue; SubmissionFailed; UnknownIssue; Killed; Cancelled; ResourceExhausted].

(* experiment.model.codes.exitReasons: the spelling the code base uses *)
Definition name_of_reason (r : reason) : string :=
  match r with
  | Success => "Success" | KnownIssue => "KnownIssue" | SystemIssue => "SystemIssue"
  | SubmissionFailed => "SubmissionFailed" | UnknownIssue => "UnknownIssue" | Killed => "Killed"
  | Cancelled => "Cancelled" | ResourceExhausted => "ResourceExhausted"
  end.

Definition reason_of_name (s : string) : option reason :=
  find (fun r => str_eqb s (name_of_reason r)) all_reasons.

(* the reasons a component may list as restartable: all but Killed and Cancelled *)
Definition restartable (r : reason) : bool := negb (reason_eqb r Killed || reason_eqb r Cancelled).

(* the schema's verdict on one (resolved) string of restartHookOn *)
Definition name_ok (s : string) : bool :=
  match reason_of_name s with Some r => restartable r | None => false end.

(* an entry as written in the document: a literal string, a string holding a variable reference
   (accepted as written; judged after resolution), anything that is not a string *)
Inductive raw_entry := RLit (s : string) | RVar | RJunk.
Definition raw_ok (e : raw_entry) : bool :=
  match e with RLit s => name_ok s | RVar => true | RJunk => false end.

(* a document: the raw restartHookOn lists of its overrides and blueprints (any list the schema is
   applied to as written) + the effective (layered, resolved) list of the component for the active platform *)
Definition schema_accepts (raws : list (list raw_entry)) (eff : list string) : bool :=
  forallb (forallb raw_ok) raws && forallb name_ok eff.

(* the list Engine.restart / the controller test membership in *)
Definition reasons_of (eff : list string) : list reason :=
  flat_map (fun s => match reason_of_name s with Some r => [r] | None => [] end) eff.

(* a configuration the schema lets through *)
Definition valid_hook_on (c : cfg) : bool := forallb restartable (hook_on c).

(* over a history: was a task started again after it had been killed or cancelled? *)
Fixpoint restarted_after_kill (c : cfg) (s : st) (h : list exit_ev) : bool :=
  match h with
  | [] => false
  | e :: h' =>
      let '(s1, cd) := pm_step c s e in
      if code_eqb cd Initiated then negb (restartable (ev_reason e)) || restarted_after_kill c s1 h'
      else false
  end.

(* correspondence: the real validation's verdict on a document *)
Definition check_config (k : list (list raw_entry) * list string * bool) : bool :=
  let '(raws, eff, accepted) := k in Bool.eqb (schema_accepts raws eff) accepted.

(* ------------------------------------------------------------------------------------------ proofs *)
Lemma str_eqb_eq a b : str_eqb a b = true <-> a = b.
Proof. unfold str_eqb. destruct (string_dec a b); split; intros H; try reflexivity; try assumption; try discriminate; contradiction. Qed.

Lemma reason_of_name_sound s r : reason_of_name s = Some r -> s = name_of_reason r.
Proof.
  unfold reason_of_name. intros H. apply find_some in H as [_ H]. apply str_eqb_eq in H. exact H.
Qed.

Lemma reason_of_name_complete r : reason_of_name (name_of_reason r) = Some r.
Proof. destruct r; vm_compute; reflexivity. Qed.

Lemma name_of_reason_inj a b : name_of_reason a = name_of_reason b -> a = b.
Proof.
  intros H. pose proof (reason_of_name_complete a) as Ha. rewrite H, reason_of_name_complete in Ha.
  inversion Ha. reflexivity.
Qed.

Lemma restartable_spec r : restartable r = true <-> r <> Killed /\ r <> Cancelled.
Proof. destruct r; cbn; split; intros H; try reflexivity; try discriminate; try (split; discriminate); destruct H as [A B]; contradiction. Qed.

(* a name is accepted exactly when it is, letter for letter, the name of an exit reason other than
   Killed / Cancelled: no other spelling passes, no legal reason is turned away *)
Lemma name_ok_spec s :
  name_ok s = true <-> exists r, s = name_of_reason r /\ r <> Killed /\ r <> Cancelled.
Proof.
  unfold name_ok. split.
  - destruct (reason_of_name s) as [r|] eqn:E; [|discriminate]. intros H.
    exists r. split; [exact (reason_of_name_sound s r E)|apply restartable_spec; exact H].
  - intros [r [Hs Hr]]. subst s. rewrite reason_of_name_complete. apply restartable_spec. exact Hr.
Qed.

Lemma name_ok_reason r : name_ok (name_of_reason r) = restartable r.
Proof. unfold name_ok. rewrite reason_of_name_complete. reflexivity. Qed.

Lemma reasons_of_restartable eff :
  forallb name_ok eff = true -> forallb restartable (reasons_of eff) = true /\
  map name_of_reason (reasons_of eff) = eff.
Proof.
  induction eff as [|s eff IH]; [intros _; split; reflexivity|].
  cbn [forallb reasons_of flat_map]. intros H. apply andb_true_iff in H as [H1 H2].
  destruct (IH H2) as [IH1 IH2]. unfold name_ok in H1.
  destruct (reason_of_name s) as [r|] eqn:E; [|discriminate].
  cbn [app forallb map]. rewrite H1. split; [exact IH1|].
  f_equal; [symmetry; exact (reason_of_name_sound s r E)|exact IH2].
Qed.

Lemma forallb_restartable_no_kill l :
  forallb restartable l = true -> ~ In Killed l /\ ~ In Cancelled l.
Proof.
  intros H. rewrite forallb_forall in H. split; intros Hi; apply H in Hi; discriminate.
Qed.

Lemma accepted_no_kill raws eff :
  schema_accepts raws eff = true ->
  ~ In Killed (reasons_of eff) /\ ~ In Cancelled (reasons_of eff) /\
  map name_of_reason (reasons_of eff) = eff /\
  (forall l s, In l raws -> In (RLit s) l -> s <> "Killed" /\ s <> "Cancelled").
Proof.
  unfold schema_accepts. intros H. apply andb_true_iff in H as [Hr He].
  destruct (reasons_of_restartable eff He) as [A B].
  destruct (forallb_restartable_no_kill _ A) as [C D].
  split; [exact C|]. split; [exact D|]. split; [exact B|].
  intros l s Hl Hs. rewrite forallb_forall in Hr. specialize (Hr l Hl).
  rewrite forallb_forall in Hr. specialize (Hr _ Hs). cbn in Hr.
  split; intros E; subst s; vm_compute in Hr; discriminate.
Qed.

Lemma valid_never_after_kill c s r h stable ok :
  valid_hook_on c = true -> (r = Killed \/ r = Cancelled) ->
  snd (ctl_restart c s r h stable ok) <> Initiated.
Proof.
  intros Hv Hk. apply never_after_kill; [exact Hk|].
  destruct (forallb_restartable_no_kill _ Hv) as [A B]. destruct Hk; subst r; assumption.
Qed.

Lemma accepted_never_after_kill raws eff c s r h stable ok :
  schema_accepts raws eff = true -> hook_on c = reasons_of eff ->
  (r = Killed \/ r = Cancelled) -> snd (ctl_restart c s r h stable ok) <> Initiated.
Proof.
  intros Ha Hc Hk. apply valid_never_after_kill; [|exact Hk].
  unfold valid_hook_on. rewrite Hc. unfold schema_accepts in Ha. apply andb_true_iff in Ha as [_ He].
  exact (proj1 (reasons_of_restartable eff He)).
Qed.

Lemma valid_history_no_restart_after_kill c h : forall s,
  valid_hook_on c = true -> restarted_after_kill c s h = false.
Proof.
  induction h as [|e h IH]; intros s Hv; [reflexivity|].
  cbn [restarted_after_kill]. destruct (pm_step c s e) as [s1 cd] eqn:E.
  destruct (code_eqb cd Initiated) eqn:Ec; [|reflexivity].
  apply code_eqb_eq in Ec. subst cd. rewrite (IH s1 Hv), orb_false_r.
  destruct (restartable (ev_reason e)) eqn:Er; [reflexivity|exfalso].
  assert (Hk : ev_reason e = Killed \/ ev_reason e = Cancelled).
  { destruct (ev_reason e); cbn in Er; try discriminate; auto. }
  unfold pm_step in E.
  apply (valid_never_after_kill c (on_exit s (ev_reason e)) (ev_reason e) (ev_hook e) (ev_stable e) (ev_run_ok e) Hv Hk).
  rewrite E. reflexivity.
Qed.

(* the schema is needed, and needed for exactly these two names: for each forbidden reason there is
   a configuration listing it that the restart chain would restart *)
Definition listing (r : reason) : cfg :=
  {| max_restarts := None; hook_file := HFNone; hook_loadable := true; hook_on := [r]; is_sim := false;
     sim_restart := false; is_rep := false; shutdown_on := [] |}.

Lemma unvalidated_restarts r :
  snd (ctl_restart (listing r) init_st r HPossible true true) = Initiated.
Proof. destruct r; reflexivity. Qed.
