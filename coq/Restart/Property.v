(* C12 — Task restarts stay within the configured policy.  Property theorems only. *)
From Coq Require Import ZArith List Bool.
Import ListNotations.
Require Import V.Restart.Model V.Restart.Proofs.
Open Scope Z_scope.

(* A task is started again only for a listed reason or a failed submission (ordinary engines),
   for every configuration, counter state, hook behaviour, stability verdict. *)
Theorem C12_only_restartable : forall c s r h stable ok,
  is_rep c = false -> snd (ctl_restart c s r h stable ok) = Initiated ->
  r = SubmissionFailed \/ In r (hook_on c).
Proof. exact only_restartable. Qed.
Print Assumptions C12_only_restartable.

(* A repeating engine is restarted at most once, only after ResourceExhausted. *)
Theorem C12_repeating : forall c s r h stable ok,
  is_rep c = true -> snd (ctl_restart c s r h stable ok) = Initiated ->
  r = ResourceExhausted /\ restarts s = 0 /\ (In r (hook_on c) \/ stable = false).
Proof. exact repeating_only_once. Qed.
Print Assumptions C12_repeating.

(* Never after a killed or cancelled task (the schema forbids listing them as restartable). *)
Theorem C12_never_after_kill : forall c s r h stable ok,
  (r = Killed \/ r = Cancelled) -> ~ In r (hook_on c) ->
  snd (ctl_restart c s r h stable ok) <> Initiated.
Proof. exact never_after_kill. Qed.
Print Assumptions C12_never_after_kill.

(* Budget: over any history of exits, hook answers and stability verdicts, the number of initiated
   continuation restarts is at most the maximum (3 by default; unlimited only for maxRestarts = -1
   or a named hook file without a maximum); a repeating engine: at most one. *)
Theorem C12_budget : forall c h,
  (is_rep c = false -> eff_max c <> -1 -> count_cont c init_st h <= Z.max 0 (eff_max c)) /\
  (is_rep c = true -> count_cont c init_st h <= 1).
Proof.
  intros c h. split.
  - intros Hr Hm. exact (budget_engine c Hr Hm h init_st).
  - intros Hr. exact (budget_repeating c Hr h init_st (Z.le_refl 0)).
Qed.
Print Assumptions C12_budget.

Theorem C12_default_max : forall c,
  eff_max c = match max_restarts c with Some n => n
              | None => match hook_file c with HFNamed => -1 | _ => 3 end end.
Proof. reflexivity. Qed.
Print Assumptions C12_default_max.

(* At most five consecutive re-submissions (no successful exit in between). *)
Theorem C12_resub_cap : forall c h,
  Forall (fun e => ev_reason e <> Success) h -> count_resub c init_st h <= 5.
Proof. intros c h Hn. exact (resub_cap c h init_st Hn ltac:(discriminate)). Qed.
Print Assumptions C12_resub_cap.

(* Once a restart is refused the component receives its final state (by the shutdownOn rule),
   and a shut-down engine is never restarted. *)
Theorem C12_refusal_is_final : forall c h s cds f s',
  run_hist c s h = (cds, f, s') ->
  match f with
  | None => Forall (fun cd => cd = Initiated) cds /\ length cds = length h
  | Some x => exists h1 e h2, h = h1 ++ e :: h2 /\ length cds = S (length h1) /\
                Forall (fun cd => cd = Initiated) (firstn (length h1) cds) /\
                nth (length h1) cds Initiated <> Initiated /\
                x = final_of c (ev_reason e) /\ shut s' = true
  end.
Proof. exact refusal_is_final. Qed.
Print Assumptions C12_refusal_is_final.

Theorem C12_shutdown_never_restarts : forall c s r h stable ok,
  shut s = true -> snd (ctl_restart c s r h stable ok) <> Initiated.
Proof. exact shutdown_never_restarts. Qed.
Print Assumptions C12_shutdown_never_restarts.

(* non-vacuity: default policy (max 3, default hook), exits RE, RE, SubmissionFailed, RE, RE:
   three continuation restarts and one re-submission are initiated, the fourth RE is refused and
   the component fails *)
Definition ex_cfg : cfg := {| max_restarts := None; hook_file := HFNone; hook_loadable := false;
  hook_on := [ResourceExhausted]; is_sim := false; sim_restart := false; is_rep := false; shutdown_on := [] |}.
Definition ex_ev r := {| ev_reason := r; ev_hook := HJunk; ev_stable := true; ev_run_ok := true |}.
Example C12_nonvacuous :
  run_hist ex_cfg init_st (map ex_ev [ResourceExhausted; ResourceExhausted; SubmissionFailed; ResourceExhausted; ResourceExhausted; Success])
  = ([Initiated; Initiated; Initiated; Initiated; MaxAttemptsExceeded], Some Failed,
     {| restarts := 3; resub := 1; shut := true |})
  /\ count_cont ex_cfg init_st (map ex_ev [ResourceExhausted; ResourceExhausted; SubmissionFailed; ResourceExhausted; ResourceExhausted]) = 3.
Proof. split; reflexivity. Qed.
