(* C12 — Task restarts stay within the configured policy.  Property theorems only. *)
From Coq Require Import ZArith List Bool String.
Import ListNotations.
Require Import V.Restart.Model V.Restart.Proofs V.Restart.More V.Restart.Config V.Restart.Raise.
Open Scope Z_scope.

(* A task is started again only for a listed reason or a failed submission (ordinary engines),
   for every configuration, counter state, hook behaviour, stability verdict. *)
Theorem C12_only_restartable : forall c s r h stable ok,
  is_rep c = false -> snd (ctl_restart c s r h stable ok) = Initiated ->
  r = SubmissionFailed \/ In r (hook_on c).
Proof. exact only_restartable. Qed.
Print Assumptions C12_only_restartable.

(* A repeating engine is restarted at most once, only after ResourceExhausted, and (since the
   F12b fix) only when the component lists that reason: the stability verdict opens no way round. *)
Theorem C12_repeating : forall c s r h stable ok,
  is_rep c = true -> snd (ctl_restart c s r h stable ok) = Initiated ->
  r = ResourceExhausted /\ restarts s = 0 /\ In r (hook_on c).
Proof. exact repeating_only_once. Qed.
Print Assumptions C12_repeating.

(* Hence for both engine kinds, and every clause of the policy at once: whatever the hook answers,
   whatever the stability verdict, an initiated restart was for a listed reason or a failed
   submission, on an engine not shut down, inside the re-submission cap and the restart budget. *)
Theorem C12_initiated_policy : forall c s r h stable ok,
  snd (ctl_restart c s r h stable ok) = Initiated ->
  shut s = false /\
  (r = SubmissionFailed \/ In r (hook_on c)) /\
  (r = SubmissionFailed -> resub s < max_resub) /\
  (is_rep c = false -> eff_max c = -1 \/ restarts s + 1 <= eff_max c) /\
  (is_rep c = true -> r = ResourceExhausted /\ restarts s = 0).
Proof. exact initiated_policy. Qed.
Print Assumptions C12_initiated_policy.

(* Never after a killed or cancelled task (the schema forbids listing them as restartable). *)
Theorem C12_never_after_kill : forall c s r h stable ok,
  (r = Killed \/ r = Cancelled) -> ~ In r (hook_on c) ->
  snd (ctl_restart c s r h stable ok) <> Initiated.
Proof. exact never_after_kill. Qed.
Print Assumptions C12_never_after_kill.

(* Budget: over any history of exits, hook answers and stability verdicts, the number of initiated
   continuation restarts is at most the maximum (3 by default; unlimited only for maxRestarts = -1
   or a named hook file without a maximum); a repeating engine: at most one. *)
Theorem C12_budget : forall c h,
  (is_rep c = false -> eff_max c <> -1 -> count_cont c init_st h <= Z.max 0 (eff_max c)) /\
  (is_rep c = true -> count_cont c init_st h <= 1).
Proof.
  intros c h. split.
  - intros Hr Hm. exact (budget_engine c Hr Hm h init_st).
  - intros Hr. exact (budget_repeating c Hr h init_st (Z.le_refl 0)).
Qed.
Print Assumptions C12_budget.

Theorem C12_default_max : forall c,
  eff_max c = match max_restarts c with Some n => n
              | None => match hook_file c with HFNamed => -1 | _ => 3 end end.
Proof. reflexivity. Qed.
Print Assumptions C12_default_max.

(* At most five consecutive re-submissions (no successful exit in between). *)
Theorem C12_resub_cap : forall c h,
  Forall (fun e => ev_reason e <> Success) h -> count_resub c init_st h <= 5.
Proof. intros c h Hn. exact (resub_cap c h init_st Hn ltac:(discriminate)). Qed.
Print Assumptions C12_resub_cap.

(* Once a restart is refused the component receives its final state (by the shutdownOn rule),
   and a shut-down engine is never restarted. *)
Theorem C12_refusal_is_final : forall c h s cds f s',
  run_hist c s h = (cds, f, s') ->
  match f with
  | None => Forall (fun cd => cd = Initiated) cds /\ List.length cds = List.length h
  | Some x => exists h1 e h2, h = h1 ++ e :: h2 /\ List.length cds = S (List.length h1) /\
                Forall (fun cd => cd = Initiated) (firstn (List.length h1) cds) /\
                nth (List.length h1) cds Initiated <> Initiated /\
                x = final_of c (ev_reason e) /\ shut s' = true
  end.
Proof. exact refusal_is_final. Qed.
Print Assumptions C12_refusal_is_final.

Theorem C12_shutdown_never_restarts : forall c s r h stable ok,
  shut s = true -> snd (ctl_restart c s r h stable ok) <> Initiated.
Proof. exact shutdown_never_restarts. Qed.
Print Assumptions C12_shutdown_never_restarts.

(* ---- what a restart hook can and cannot cause.  [hook_called] says when a hook (the package's
   or the fallback) is consulted at all.  Not consulted: its behaviour is irrelevant.  Consulted: the
   counter goes up by one whatever it answers and the code is its answer mapped by code_of_context,
   so it can refuse, or allow - and allowing is worth exactly the answer "restart possible".  The
   counters after an exit never depend on the hook. *)
Theorem C12_hook_power : forall c s r h stable ok,
  (hook_called c s r = false -> forall h', ctl_restart c s r h' stable ok = ctl_restart c s r h stable ok) /\
  (hook_called c s r = true ->
     ctl_restart c s r h stable ok = (bump s, code_of_context (context_of (eff_hook c r h)) ok) /\
     (hook_allows (eff_hook c r h) = false -> snd (ctl_restart c s r h stable ok) <> Initiated)) /\
  (hook_allows (eff_hook c r h) = true ->
     ctl_restart c s r h stable ok =
     ctl_restart c s r (if match hook_file c with HFEmpty => false | _ => hook_loadable c end then HPossible else h) stable ok) /\
  (forall h', fst (ctl_restart c s r h stable ok) = fst (ctl_restart c s r h' stable ok)).
Proof.
  intros c s r h stable ok. split; [intros Hc h'; exact (hook_not_called_irrelevant c s r h h' stable ok Hc)|].
  split; [intros Hc; split; [exact (hook_called_outcome c s r h stable ok Hc)|exact (hook_can_refuse c s r h stable ok Hc)]|].
  split; [exact (hook_can_allow c s r h stable ok)|intros h'; exact (hook_counters_same c s r h h' stable ok)].
Qed.
Print Assumptions C12_hook_power.

(* ---- a hook that raises, by the exception it raises (its MRO; Raise.v models the two handlers
   `except IOError` / `except Exception` around the call of the hook as data).  A consulted hook of
   the package raising anything that is not an IOError - ImportError / ModuleNotFoundError of a lazy
   import included - is a FAILED hook: RestartCouldNotInitiate whatever run() would do, the attempt is
   counted, and over any history that exit is the last one handled (the component receives the final
   state its exit reason dictates).  Raising an IOError (any class with OSError in its MRO) is the
   answer "hook not available", for every configuration and state.  The outcome depends on the MRO
   only through the membership of "OSError". *)
Theorem C12_raising_hook : forall c s r m stable ok,
  (raise_out m = if isinstance m "OSError" then HRaiseIO else HRaiseOther) /\
  (isinstance m "OSError" = true ->
     ctl_restart c s r (raise_out m) stable ok = ctl_restart c s r HNotAvailable stable ok) /\
  (hook_called c s r = true -> custom_hook c = true -> isinstance m "OSError" = false ->
     ctl_restart c s r (raise_out m) stable ok = (bump s, CouldNotInitiate)) /\
  (forall e h, hook_called c (on_exit s (ev_reason e)) (ev_reason e) = true -> custom_hook c = true ->
     isinstance m "OSError" = false -> ev_hook e = raise_out m ->
     exists s', run_hist c s (e :: h) = ([CouldNotInitiate], Some (final_of c (ev_reason e)), s')).
Proof.
  intros c s r m stable ok. split; [exact (raise_out_spec m)|].
  split; [exact (raising_hook_io c s r m stable ok)|].
  split; [exact (raising_hook_refused c s r m stable ok)|].
  intros e h Hc Hu Hi He. exact (raising_hook_final c s e m Hc Hu Hi He h).
Qed.
Print Assumptions C12_raising_hook.

(* ---- the hook MODULE failing while it is imported (it is executed again at every restart attempt).
   `except (ImportError, IOError)` around the import: such a module is a missing module - for every
   configuration, state and exit the outcome is that of the same component without loadable hook
   (the DLMESORestart fallback is consulted).  Anything else raised by the module, and a module
   without Restart, is a broken hook: the exception leaves Engine.restart after the attempt has been
   counted, the controller keeps RestartCouldNotInitiate - the restart is refused whatever run()
   would do. *)
Theorem C12_hook_import : forall c s r l h stable ok,
  (forall m, l = LoadRaises m -> (isinstance m "ImportError" || isinstance m "OSError") = true ->
     ctl_restart c s r (hook_after_load l r h) stable ok = ctl_restart (unloadable c) s r h stable ok) /\
  (hook_called c s r = true -> custom_hook c = true ->
   (l = LoadNoRestart \/ exists m, l = LoadRaises m /\ (isinstance m "ImportError" || isinstance m "OSError") = false) ->
     ctl_restart c s r (hook_after_load l r h) stable ok = (bump s, CouldNotInitiate)) /\
  hook_after_load LoadOk r h = h.
Proof.
  intros c s r l h stable ok. split; [intros m -> Hm; exact (load_import_error_is_missing c s r m h stable ok Hm)|].
  split; [exact (load_broken_refused c s r l h stable ok)|reflexivity].
Qed.
Print Assumptions C12_hook_import.

(* ---- the DLMESO CONTROL-file hook shipped in engine.py as a concrete hook instance: four possible
   answers, silent on every reason but ResourceExhausted, rewrites the file only when it allows the
   restart, afterwards "restart" is the second-last line, idempotent (the keyword is inserted at
   most once over any number of restarts); it allows iff the file is missing (vanilla restart) or
   has at least two lines; the model's default hook is this hook without a CONTROL file. *)
Theorem C12_dlmeso_hook : forall r r' f,
  (let '(ho, f') := dlmeso_hook r f in
   (r <> ResourceExhausted -> ho = HFalse /\ f' = f) /\
   (ho = HFalse \/ ho = HRaiseIO \/ ho = HRaiseOther \/ ho = HTrue) /\
   (ho <> HTrue -> f' = f) /\
   (ho = HTrue -> exists cf, f' = Some cf /\ second_last (cf_lines cf) = Some "restart"%string)) /\
  (fst (dlmeso_hook r f) = HTrue -> snd (dlmeso_hook r' (snd (dlmeso_hook r f))) = snd (dlmeso_hook r f)) /\
  hook_allows (fst (dlmeso_hook ResourceExhausted f)) =
    match f with None => true | Some cf => match second_last (cf_lines cf) with Some _ => true | None => false end end /\
  default_hook r = fst (dlmeso_hook r None).
Proof.
  intros r r' f. split; [exact (dlmeso_answers r f)|]. split; [exact (dlmeso_idempotent r r' f)|].
  split; [exact (dlmeso_allows f)|exact (default_hook_is_dlmeso r)].
Qed.
Print Assumptions C12_dlmeso_hook.

(* ---- whole histories: the counter the engine keeps (Engine.restarts) and the restarts actually
   performed.  Over any history from any state: the counter is monotone, never reset, equals the
   number of performed continuation restarts while the component is alive and exceeds it by at most
   one (the refused attempt) at the end; it never passes the maximum (1 for a repeating engine), so
   performed restarts <= counter <= maximum; the compared trace's restarts column is non-decreasing. *)
Theorem C12_counters_whole_history : forall c h s cds f s',
  run_hist c s h = (cds, f, s') ->
  (restarts s + count_cont c s h <= restarts s' <= restarts s + count_cont c s h + 1 /\
   (f = None -> restarts s' = restarts s + count_cont c s h) /\ 0 <= count_cont c s h) /\
  (is_rep c = false -> eff_max c <> -1 -> restarts s' <= Z.max (restarts s) (eff_max c)) /\
  (is_rep c = true -> 0 <= restarts s -> restarts s' <= Z.max (restarts s) 1) /\
  nondecreasing_from (restarts s) (map (fun o : obs => snd (fst o)) (fst (trace c s h))) /\
  (Forall (fun e => ev_reason e <> Success) h -> resub s' = resub s + count_resub c s h).
Proof.
  intros c h s cds f s' H. split; [exact (hist_counters c h s cds f s' H)|].
  split; [intros Hr Hm; exact (counter_bounded_engine c Hr Hm h s cds f s' H)|].
  split; [intros Hr H0; exact (counter_bounded_repeating c Hr h s cds f s' H0 H)|].
  split; [exact (trace_restarts_monotone c h s)|].
  intros Hn. exact (proj1 (hist_resub c h s cds f s' Hn H)).
Qed.
Print Assumptions C12_counters_whole_history.

(* When Success is not listed as restartable a successful exit ends the history, so the cap of five
   needs no side condition; then an ordinary component with a finite maximum is started again at
   most max + 5 times over ANY history and has its final state after at most max + 6 exits; a
   repeating one after at most 2. *)
Theorem C12_total_bound : forall c h cds f s',
  run_hist c init_st h = (cds, f, s') ->
  (~ In Success (hook_on c) -> count_resub c init_st h <= 5) /\
  (is_rep c = false -> eff_max c <> -1 -> ~ In Success (hook_on c) ->
     count_cont c init_st h + count_resub c init_st h <= Z.max 0 (eff_max c) + 5 /\
     Z.of_nat (List.length cds) <= Z.max 0 (eff_max c) + 6 /\
     (Z.max 0 (eff_max c) + 5 < Z.of_nat (List.length h) -> f <> None)) /\
  (is_rep c = true ->
     count_resub c init_st h = 0 /\ Z.of_nat (List.length cds) <= 2 /\ (2 <= List.length h -> f <> None)%nat).
Proof.
  intros c h cds f s' H. split.
  - intros Hs. exact (proj1 (resub_cap_whole c Hs h init_st ltac:(discriminate))).
  - split; [intros Hr Hm Hs; exact (total_bound c h cds f s' Hr Hm Hs H)|intros Hr; exact (total_bound_repeating c h cds f s' Hr H)].
Qed.
Print Assumptions C12_total_bound.

(* the final state a refusal delivers (C12_refusal_is_final: final_of of the refused exit's reason)
   is the one the exit reason dictates *)
Theorem C12_final_dictated : forall c r,
  (final_of c r = Finished <-> r = Success) /\
  (final_of c r = Shutdown <-> r <> Success /\ In r (shutdown_on c)) /\
  (final_of c r = Failed <-> r <> Success /\ ~ In r (shutdown_on c)).
Proof. exact final_of_cases. Qed.
Print Assumptions C12_final_dictated.

(* ---- Engine.restart (ordinary engine): what it resets.  After any exit has been handled the
   controller sees either an engine indistinguishable from a freshly built one (exitReason() None,
   returncode() None, isAlive() True, no process, no launch/finish dates) - always so when the
   restart was initiated - or, when the restart was refused before the reset, the exited engine
   with the exit reason that dictates the final state still in place. *)
Theorem C12_restart_is_fresh : forall c s e v,
  (restart_reset v = fresh_view /\ observe (restart_reset v) = observe fresh_view /\
   v_alive (restart_reset v) = true /\ v_returncode (restart_reset v) = None) /\
  (snd (pm_step c s e) = Initiated -> view_after c s e = fresh_view) /\
  (reaches_run c (on_exit s (ev_reason e)) (ev_reason e) (ev_hook e) (ev_stable e) = false ->
     view_after c s e = exited_view (ev_reason e) /\ snd (pm_step c s e) <> Initiated).
Proof. intros c s e v. split; [exact (restart_reset_fresh v)|exact (view_after_cases c s e)]. Qed.
Print Assumptions C12_restart_is_fresh.

(* ---- where an exit comes from (Engine.run: LaunchTask / Wait / HandleTaskExit / _setExitReason).  An exit is
   either reported by a launched task or produced by the launch itself failing (the back-end's task
   generator raises): the latter is a SubmissionFailed (OSError, JobLaunchError) or an UnknownIssue,
   never resets the re-submission counter, leaves no process / launch date / finish date on the
   engine, and is handled by the same policy: after an initiated restart the engine is fresh again,
   after a refusal the failed launch is still visible.  On histories of launched tasks the refined
   engine views are those of C12_restart_is_fresh. *)
Theorem C12_failed_launch : forall c s e,
  (launched (lv_launch e) = false ->
     (launch_reason (lv_launch e) = SubmissionFailed \/ launch_reason (lv_launch e) = UnknownIssue) /\
     (forall s0, on_exit s0 (launch_reason (lv_launch e)) = s0) /\
     exited_view_l (lv_launch e) = failed_launch_view (launch_reason (lv_launch e))) /\
  (snd (pm_step c s (to_exit_ev e)) = Initiated -> view_after_l c s e = fresh_view) /\
  (reaches_run c (on_exit s (launch_reason (lv_launch e))) (launch_reason (lv_launch e)) (lv_hook e) (lv_stable e) = false ->
     view_after_l c s e = exited_view_l (lv_launch e) /\ snd (pm_step c s (to_exit_ev e)) <> Initiated) /\
  (forall h s0, views_l c s0 (map task_ev h) = views c s0 h).
Proof.
  intros c s e. split; [|split; [exact (proj1 (view_after_l_cases c s e))|split; [exact (proj2 (view_after_l_cases c s e))|exact (views_l_task c)]]].
  intros Hl. destruct (failed_launch_reason _ Hl) as [A B]. split; [exact A|split; [exact B|]].
  unfold exited_view_l. rewrite Hl. reflexivity.
Qed.
Print Assumptions C12_failed_launch.

(* The cap of five consecutive re-submissions, over launch histories: it does not matter whether a
   failed submission is reported by the launched task (LSF, Kubernetes) or by the launch raising, and
   failed launches of any kind do not start a new stretch - only a task exiting with Success does. *)
Theorem C12_resub_cap_launches : forall c h,
  Forall (fun e => lv_launch e <> TaskExits Success) h -> count_resub c init_st (map to_exit_ev h) <= 5.
Proof. exact resub_cap_launches. Qed.
Print Assumptions C12_resub_cap_launches.

(* ---- the configuration side of "never after a killed or cancelled task".  The restart chain only
   tests membership in restartHookOn; that Killed / Cancelled are never listed is enforced by the
   FlowIR schema when the configuration is loaded ([schema_accepts]: every restartHookOn list of an
   override / blueprint as written, and the effective list of the active platform).  (1) the schema's verdict on a name:
   accepted iff it is, letter for letter, the name of an exit reason of codes.exitReasons other than
   Killed / Cancelled - no other spelling passes and no legal reason is turned away; (2) an accepted
   document: the effective list consists of names of exit reasons, none of them Killed / Cancelled,
   and no override or blueprint spells them either; (3) hence for a component built from an accepted
   document no exit with Killed / Cancelled is ever followed by a restart - whatever the hook answers
   (also "restart possible"), the stability verdict, the counters - at one exit and over whole
   histories from any state. *)
Theorem C12_config_schema : forall s raws eff,
  (name_ok s = true <-> exists r, s = name_of_reason r /\ r <> Killed /\ r <> Cancelled) /\
  (forall r, name_ok (name_of_reason r) = restartable r) /\
  (schema_accepts raws eff = true ->
     ~ In Killed (reasons_of eff) /\ ~ In Cancelled (reasons_of eff) /\
     map name_of_reason (reasons_of eff) = eff /\
     (forall l x, In l raws -> In (RLit x) l -> x <> "Killed"%string /\ x <> "Cancelled"%string)).
Proof.
  intros s raws eff. split; [exact (name_ok_spec s)|]. split; [exact name_ok_reason|exact (accepted_no_kill raws eff)].
Qed.
Print Assumptions C12_config_schema.

Theorem C12_accepted_config_never_after_kill : forall raws eff c,
  schema_accepts raws eff = true -> hook_on c = reasons_of eff ->
  (forall s r h stable ok, (r = Killed \/ r = Cancelled) -> snd (ctl_restart c s r h stable ok) <> Initiated) /\
  (forall s h, restarted_after_kill c s h = false).
Proof.
  intros raws eff c Ha Hc. split.
  - intros s r h stable ok Hk. exact (accepted_never_after_kill raws eff c s r h stable ok Ha Hc Hk).
  - intros s h. apply valid_history_no_restart_after_kill. unfold valid_hook_on. rewrite Hc.
    unfold schema_accepts in Ha. apply andb_true_iff in Ha as [_ He]. exact (proj1 (reasons_of_restartable eff He)).
Qed.
Print Assumptions C12_accepted_config_never_after_kill.

(* non-vacuity: default policy (max 3, default hook), exits RE, RE, SubmissionFailed, RE, RE:
   three continuation restarts and one re-submission are initiated, the fourth RE is refused and
   the component fails *)
Definition ex_cfg : cfg := {| max_restarts := None; hook_file := HFNone; hook_loadable := false;
  hook_on := [ResourceExhausted]; is_sim := false; sim_restart := false; is_rep := false; shutdown_on := [] |}.
Definition ex_ev r := {| ev_reason := r; ev_hook := HJunk; ev_stable := true; ev_run_ok := true |}.
Example C12_nonvacuous :
  run_hist ex_cfg init_st (map ex_ev [ResourceExhausted; ResourceExhausted; SubmissionFailed; ResourceExhausted; ResourceExhausted; Success])
  = ([Initiated; Initiated; Initiated; Initiated; MaxAttemptsExceeded], Some Failed,
     {| restarts := 3; resub := 1; shut := true |})
  /\ count_cont ex_cfg init_st (map ex_ev [ResourceExhausted; ResourceExhausted; SubmissionFailed; ResourceExhausted; ResourceExhausted]) = 3.
Proof. split; reflexivity. Qed.

(* the hypotheses of the added theorems are satisfiable: a consulted hook that refuses / allows;
   a whole history within max + 5; the CONTROL file gets its keyword once *)
Definition ex_custom : cfg := {| max_restarts := Some 2; hook_file := HFNamed; hook_loadable := true;
  hook_on := [ResourceExhausted; KnownIssue]; is_sim := false; sim_restart := false; is_rep := false; shutdown_on := [KnownIssue] |}.
Example C12_nonvacuous_more :
  hook_called ex_custom init_st KnownIssue = true /\
  ctl_restart ex_custom init_st KnownIssue HNotPossible true true = ({| restarts := 1; resub := 0; shut := false |}, CouldNotInitiate) /\
  ctl_restart ex_custom init_st KnownIssue HJunk true true = ({| restarts := 1; resub := 0; shut := false |}, Initiated) /\
  hook_called ex_custom init_st UnknownIssue = false /\
  ~ In Success (hook_on ex_custom) /\ eff_max ex_custom = 2 /\
  run_hist ex_custom init_st (map ex_ev [ResourceExhausted; SubmissionFailed; KnownIssue; KnownIssue])
    = ([Initiated; Initiated; Initiated; MaxAttemptsExceeded], Some Shutdown, {| restarts := 2; resub := 1; shut := true |}) /\
  dlmeso_hook ResourceExhausted (Some {| cf_lines := ["steps 100"%string; "finish"%string]; cf_last_nl := true |})
    = (HTrue, Some {| cf_lines := ["steps 100"%string; "restart"%string; "finish"%string]; cf_last_nl := true |}) /\
  view_after ex_custom init_st (ex_ev KnownIssue) = fresh_view /\
  (* seven failed submissions, shown in three different ways: five re-submissions, then refused; the last
     exit was a failed launch, which stays visible on the engine *)
  (let lv l := {| lv_launch := l; lv_hook := HJunk; lv_stable := true; lv_run_ok := true |} in
   let h := map lv [TaskExits SubmissionFailed; GenOSError; TaskExits SubmissionFailed; GenLaunchError;
                    TaskExits SubmissionFailed; GenOSError; TaskExits SubmissionFailed] in
   Forall (fun e => lv_launch e <> TaskExits Success) h /\
   count_resub ex_custom init_st (map to_exit_ev h) = 5 /\
   fst (trace ex_custom init_st (map to_exit_ev h)) =
     [(Initiated, 0, 1); (Initiated, 0, 2); (Initiated, 0, 3); (Initiated, 0, 4); (Initiated, 0, 5); (MaxAttemptsExceeded, 0, 5)] /\
   nth 5 (views_l ex_custom init_st h) (observe fresh_view) = observe (failed_launch_view SubmissionFailed)).
Proof.
  repeat split; try reflexivity.
  - cbn. intros [H|[H|[]]]; discriminate.
  - repeat constructor; discriminate.
Qed.

(* the raising-hook theorem is not vacuous: a named hook file without maximum (unlimited budget), the
   hook raises ModuleNotFoundError / ImportError when called: consulted, refused at the first exit, the
   component fails after ONE launch although four more ResourceExhausted exits would follow; the same
   hook raising FileNotFoundError (an IOError) is "not available": every exit is followed by a restart *)
Definition ex_named : cfg := {| max_restarts := None; hook_file := HFNamed; hook_loadable := true;
  hook_on := [ResourceExhausted]; is_sim := false; sim_restart := false; is_rep := false; shutdown_on := [] |}.
Example C12_nonvacuous_raise :
  raise_out mro_ModuleNotFoundError = HRaiseOther /\ raise_out mro_ImportError = HRaiseOther /\
  raise_out mro_FileNotFoundError = HRaiseIO /\
  raise_out ["UnsupportedOperation"; "OSError"; "ValueError"; "Exception"; "BaseException"; "object"]%string = HRaiseIO /\
  hook_called ex_named init_st ResourceExhausted = true /\ custom_hook ex_named = true /\ eff_max ex_named = -1 /\
  (let ev m := {| ev_reason := ResourceExhausted; ev_hook := raise_out m; ev_stable := true; ev_run_ok := true |} in
   run_hist ex_named init_st (map ev [mro_ModuleNotFoundError; mro_ModuleNotFoundError; mro_ModuleNotFoundError])
     = ([CouldNotInitiate], Some Failed, {| restarts := 1; resub := 0; shut := true |}) /\
   fst (fst (run_hist ex_named init_st (map ev [mro_FileNotFoundError; mro_FileNotFoundError; mro_FileNotFoundError])))
     = [Initiated; Initiated; Initiated]) /\
  (* the module itself fails at import: ModuleNotFoundError -> missing module, the fallback's IOError on
     ResourceExhausted starts the task again; SyntaxError / no Restart -> refused *)
  ctl_restart ex_named init_st ResourceExhausted (hook_after_load (LoadRaises mro_ModuleNotFoundError) ResourceExhausted HPossible) true true
    = ({| restarts := 1; resub := 0; shut := false |}, Initiated) /\
  ctl_restart ex_named init_st ResourceExhausted
    (hook_after_load (LoadRaises ["SyntaxError"; "Exception"; "BaseException"; "object"]%string) ResourceExhausted HPossible) true true
    = ({| restarts := 1; resub := 0; shut := false |}, CouldNotInitiate) /\
  ctl_restart ex_named init_st ResourceExhausted (hook_after_load LoadNoRestart ResourceExhausted HPossible) true true
    = ({| restarts := 1; resub := 0; shut := false |}, CouldNotInitiate).
Proof. repeat split; reflexivity. Qed.

(* the configuration theorems are not vacuous: a document with a literal list in a platform override, a
   variable reference in the component and the effective list [KnownIssue; ResourceExhausted] is
   accepted; one spelling Cancelled is rejected, as are the other spellings; a history in which the
   accepted component is cancelled after two restarts the hook allowed: the cancelled task is not started again *)
Definition ex_accepted : cfg := {| max_restarts := None; hook_file := HFNone; hook_loadable := true;
  hook_on := reasons_of ["KnownIssue"%string; "ResourceExhausted"%string]; is_sim := false; sim_restart := false;
  is_rep := false; shutdown_on := [] |}.
Example C12_nonvacuous_config :
  schema_accepts [[RLit "SystemIssue"%string; RLit "Success"%string]; [RVar]] ["KnownIssue"%string; "ResourceExhausted"%string] = true /\
  schema_accepts [[RVar]] ["Cancelled"%string] = false /\ schema_accepts [[RLit "Killed"%string]] [] = false /\
  name_ok "Canceled"%string = false /\ name_ok "cancelled"%string = false /\ name_ok "UnknownIssue"%string = true /\
  hook_on ex_accepted = [KnownIssue; ResourceExhausted] /\
  (let ev r := {| ev_reason := r; ev_hook := HPossible; ev_stable := true; ev_run_ok := true |} in
   run_hist ex_accepted init_st (map ev [KnownIssue; ResourceExhausted; Cancelled; KnownIssue])
   = ([Initiated; Initiated; CouldNotInitiate], Some Failed, {| restarts := 2; resub := 0; shut := true |})).
Proof. repeat split; reflexivity. Qed.
