From Coq Require Import ZArith List Bool Lia ZifyBool.
Import ListNotations.
Require Import V.Restart.Model.
Open Scope Z_scope.

Lemma reason_eqb_eq a b : reason_eqb a b = true <-> a = b.
Proof. destruct a, b; cbn; split; intros H; try reflexivity; try discriminate. Qed.

Lemma reason_eqb_refl a : reason_eqb a a = true.
Proof. destruct a; reflexivity. Qed.

Lemma reason_eqb_neq a b : reason_eqb a b = false <-> a <> b.
Proof.
  split.
  - intros H E. subst. rewrite reason_eqb_refl in H. discriminate.
  - intros H. destruct (reason_eqb a b) eqn:E; [|reflexivity]. apply reason_eqb_eq in E. contradiction.
Qed.

Lemma code_eqb_eq a b : code_eqb a b = true <-> a = b.
Proof. destruct a, b; cbn; split; intros H; try reflexivity; try discriminate. Qed.

Lemma mem_In r l : mem r l = true <-> In r l.
Proof.
  unfold mem. rewrite existsb_exists. split.
  - intros [x [Hx E]]. apply reason_eqb_eq in E. subst. assumption.
  - intros H. exists r. split; [assumption|apply reason_eqb_refl].
Qed.

Lemma code_of_context_initiated x ok :
  code_of_context x ok = Initiated -> (x = CPossible \/ x = CNotAvailable) /\ ok = true.
Proof. destruct x, ok; cbn; intros H; try discriminate; auto. Qed.

(* ---- Engine.restart *)
Definition bump (s : st) : st := {| restarts := restarts s + 1; resub := resub s; shut := shut s |}.
Definition bump_resub (s : st) : st := {| restarts := restarts s; resub := resub s + 1; shut := shut s |}.

Lemma engine_restart_spec c s r h ok s1 cd :
  engine_restart c s r h ok = (s1, cd) ->
  shut s1 = shut s /\
  (cd <> Initiated -> resub s1 = resub s /\ restarts s <= restarts s1 <= restarts s + 1) /\
  (cd = Initiated ->
     (eff_max c = -1 \/ restarts s + 1 <= eff_max c) /\
     (r = SubmissionFailed -> s1 = bump_resub s) /\
     (r <> SubmissionFailed -> s1 = bump s /\ mem r (hook_on c) = true)).
Proof.
  unfold engine_restart. intros H.
  destruct (negb (eff_max c =? -1) && (eff_max c <? restarts s + 1)) eqn:G.
  { inversion H; subst. split; [reflexivity|]. split; [intros _; lia|discriminate]. }
  assert (Gm : eff_max c = -1 \/ restarts s + 1 <= eff_max c) by lia.
  destruct (reason_eqb r SubmissionFailed) eqn:Esf.
  - apply reason_eqb_eq in Esf. subst r.
    destruct (is_sim c && mem SubmissionFailed (hook_on c) && sim_restart c);
      cbn [reason_eqb code_of_context] in H; destruct ok; cbn in H; inversion H; subst; cbn;
      (split; [reflexivity|]); (split; [intros; try contradiction; lia|]);
      intros Hc; try discriminate; (split; [assumption|]); (split; [reflexivity|contradiction]).
  - apply reason_eqb_neq in Esf.
    destruct (is_sim c && mem r (hook_on c) && sim_restart c) eqn:Es.
    + apply andb_true_iff in Es as [Es _]. apply andb_true_iff in Es as [_ Em].
      rewrite andb_false_r in H. destruct ok; cbn in H; inversion H; subst; cbn;
      (split; [reflexivity|]); (split; [intros; try contradiction; lia|]);
      intros Hc; try discriminate. split; [assumption|]. split; [contradiction|]. intros _. split; [reflexivity|assumption].
    + destruct (mem r (hook_on c)) eqn:Em.
      * rewrite andb_false_r in H.
        set (x := context_of _) in H.
        destruct (code_of_context x ok) eqn:Ec; inversion H; subst; cbn;
        (split; [reflexivity|]); (split; [intros; try contradiction; lia|]);
        intros Hc; try discriminate. split; [assumption|]. split; [contradiction|]. intros _. split; reflexivity.
      * cbn in H. inversion H; subst. split; [reflexivity|]. split; [intros; lia|discriminate].
Qed.

Lemma repeating_restart_spec s r s1 cd :
  repeating_restart s r = (s1, cd) ->
  shut s1 = shut s /\
  (cd <> Initiated -> s1 = s) /\
  (cd = Initiated -> r = ResourceExhausted /\ restarts s = 0 /\ s1 = bump s).
Proof.
  unfold repeating_restart. intros H.
  destruct (reason_eqb r ResourceExhausted && (restarts s =? 0)) eqn:G; inversion H; subst; cbn.
  - apply andb_true_iff in G as [G1 G2]. apply reason_eqb_eq in G1. split; [reflexivity|].
    split; [intros; contradiction|]. intros _. split; [assumption|]. split; [lia|reflexivity].
  - split; [reflexivity|]. split; [reflexivity|discriminate].
Qed.

Lemma repeating_restart_listed_spec c s r s1 cd :
  repeating_restart_listed c s r = (s1, cd) ->
  shut s1 = shut s /\
  (cd <> Initiated -> s1 = s) /\
  (cd = Initiated -> r = ResourceExhausted /\ restarts s = 0 /\ s1 = bump s /\ mem r (hook_on c) = true).
Proof.
  unfold repeating_restart_listed. intros H. destruct (mem r (hook_on c)) eqn:Em.
  - apply repeating_restart_spec in H as [A [B C]]. split; [exact A|]. split; [exact B|].
    intros Hi. destruct (C Hi) as [X [Y Z]]. auto.
  - inversion H; subst. split; [reflexivity|]. split; [reflexivity|discriminate].
Qed.

(* ComponentState.restart *)
Lemma comp_restart_spec c s r h ok s' cd' :
  comp_restart c s r h ok = (s', cd') ->
  shut s' = shut s /\
  (cd' <> Initiated -> resub s' = resub s /\ restarts s <= restarts s' <= restarts s + 1) /\
  (cd' = Initiated -> shut s = false /\
     (is_rep c = false -> (eff_max c = -1 \/ restarts s + 1 <= eff_max c) /\
         (r = SubmissionFailed -> s' = bump_resub s) /\
         (r <> SubmissionFailed -> s' = bump s /\ mem r (hook_on c) = true)) /\
     (is_rep c = true -> r = ResourceExhausted /\ restarts s = 0 /\ s' = bump s /\ mem r (hook_on c) = true)).
Proof.
  intros Hc. unfold comp_restart in Hc. destruct (shut s) eqn:Hs.
  - inversion Hc; subst. split; [assumption|]. split; [intros; lia|discriminate].
  - destruct (is_rep c) eqn:Hr.
    + apply repeating_restart_listed_spec in Hc as [A [B C]]. split; [congruence|]. split.
      * intros Hn. rewrite (B Hn). lia.
      * intros Hi. split; [reflexivity|]. split; [discriminate|]. intros _. exact (C Hi).
    + apply engine_restart_spec in Hc as [A [B C]]. split; [congruence|]. split; [exact B|].
      intros Hi. split; [reflexivity|]. split; [intros _; exact (C Hi)|discriminate].
Qed.

(* ---- the whole decision: one lemma describing every way an exit can be answered *)
Lemma ctl_restart_spec c s r h stable ok s1 cd :
  ctl_restart c s r h stable ok = (s1, cd) ->
  shut s1 = shut s /\
  (cd <> Initiated -> resub s1 = resub s /\ restarts s <= restarts s1 <= restarts s + 1) /\
  (cd = Initiated ->
     shut s = false /\
     (r = SubmissionFailed -> is_rep c = false /\ resub s < max_resub /\ s1 = bump_resub s) /\
     (r <> SubmissionFailed -> s1 = bump s) /\
     (is_rep c = false -> (eff_max c = -1 \/ restarts s + 1 <= eff_max c) /\
                          (r = SubmissionFailed \/ mem r (hook_on c) = true)) /\
     (is_rep c = true -> r = ResourceExhausted /\ restarts s = 0 /\ mem r (hook_on c) = true)).
Proof.
  intros H.
  assert (Fin : comp_restart c s r h ok = (s1, cd) -> r <> SubmissionFailed ->
     shut s1 = shut s /\
     (cd <> Initiated -> resub s1 = resub s /\ restarts s <= restarts s1 <= restarts s + 1) /\
     (cd = Initiated ->
        shut s = false /\
        (r = SubmissionFailed -> is_rep c = false /\ resub s < max_resub /\ s1 = bump_resub s) /\
        (r <> SubmissionFailed -> s1 = bump s) /\
        (is_rep c = false -> (eff_max c = -1 \/ restarts s + 1 <= eff_max c) /\
                             (r = SubmissionFailed \/ mem r (hook_on c) = true)) /\
        (is_rep c = true -> r = ResourceExhausted /\ restarts s = 0 /\ mem r (hook_on c) = true))).
  { intros Hc Esf. destruct (comp_restart_spec _ _ _ _ _ _ _ Hc) as [A [B C]]. split; [exact A|]. split; [exact B|].
    intros Hi. destruct (C Hi) as [C0 [C1 C2]]. split; [exact C0|]. split; [intros X; contradiction|].
    split.
    - intros _. destruct (is_rep c) eqn:Hr.
      + destruct (C2 eq_refl) as [_ [_ [X _]]]. exact X.
      + destruct (C1 eq_refl) as [_ [_ D3]]. exact (proj1 (D3 Esf)).
    - split.
      + intros Hr. destruct (C1 Hr) as [D1 [_ D3]]. split; [exact D1|right; exact (proj2 (D3 Esf))].
      + intros Hr. destruct (C2 Hr) as [X [Y [_ Z]]]. auto. }
  unfold ctl_restart in H.
  destruct (reason_eqb r SubmissionFailed) eqn:Esf.
  - apply reason_eqb_eq in Esf. subst r.
    destruct (resub s <? max_resub) eqn:Hq.
    + destruct (comp_restart_spec _ _ _ _ _ _ _ H) as [A [B C]]. split; [exact A|]. split; [exact B|].
      intros Hi. destruct (C Hi) as [C0 [C1 C2]]. split; [exact C0|].
      destruct (is_rep c) eqn:Hr.
      * destruct (C2 eq_refl) as [X _]. discriminate X.
      * destruct (C1 eq_refl) as [D1 [D2 D3]].
        split; [intros _; split; [reflexivity|split; [lia|exact (D2 eq_refl)]]|].
        split; [intros X; contradiction|]. split; [intros _; split; [exact D1|left; reflexivity]|discriminate].
    + inversion H; subst. split; [reflexivity|]. split; [intros; lia|discriminate].
  - apply reason_eqb_neq in Esf.
    destruct (mem r (hook_on c)) eqn:Em.
    + apply Fin; assumption.
    + destruct (negb (reason_eqb r Killed || reason_eqb r Cancelled || reason_eqb r Success)) eqn:Ek.
      * destruct stable.
        -- inversion H; subst. split; [reflexivity|]. split; [intros; lia|discriminate].
        -- apply Fin; assumption.
      * inversion H; subst. split; [reflexivity|]. split; [intros; lia|discriminate].
Qed.

(* ---- property lemmas *)
Lemma only_restartable c s r h stable ok :
  is_rep c = false -> snd (ctl_restart c s r h stable ok) = Initiated ->
  r = SubmissionFailed \/ In r (hook_on c).
Proof.
  intros Hr Hi. destruct (ctl_restart c s r h stable ok) as [s1 cd] eqn:E. cbn in Hi.
  destruct (ctl_restart_spec _ _ _ _ _ _ _ _ E) as [_ [_ C]]. destruct (C Hi) as [_ [_ [_ [D _]]]].
  destruct (D Hr) as [_ [X|X]]; [left; exact X|right; apply mem_In; exact X].
Qed.

(* after the F12b fix the stability verdict no longer opens a way round restartHookOn *)
Lemma repeating_only_once c s r h stable ok :
  is_rep c = true -> snd (ctl_restart c s r h stable ok) = Initiated ->
  r = ResourceExhausted /\ restarts s = 0 /\ In r (hook_on c).
Proof.
  intros Hr Hi. destruct (ctl_restart c s r h stable ok) as [s1 cd] eqn:E. cbn in Hi.
  destruct (ctl_restart_spec _ _ _ _ _ _ _ _ E) as [_ [_ C]]. destruct (C Hi) as [_ [_ [_ [_ D]]]].
  destruct (D Hr) as [X [Y Z]]. split; [exact X|split; [exact Y|apply mem_In; exact Z]].
Qed.

(* both engine kinds: a restart is initiated only for a listed reason or a failed submission *)
Lemma only_restartable_any c s r h stable ok :
  snd (ctl_restart c s r h stable ok) = Initiated -> r = SubmissionFailed \/ In r (hook_on c).
Proof.
  intros Hi. destruct (is_rep c) eqn:Hr.
  - right. exact (proj2 (proj2 (repeating_only_once c s r h stable ok Hr Hi))).
  - exact (only_restartable c s r h stable ok Hr Hi).
Qed.

Lemma never_after_kill c s r h stable ok :
  (r = Killed \/ r = Cancelled) -> ~ In r (hook_on c) ->
  snd (ctl_restart c s r h stable ok) <> Initiated.
Proof.
  intros Hk Hn Hi. destruct (ctl_restart c s r h stable ok) as [s1 cd] eqn:E. cbn in Hi.
  assert (Em : mem r (hook_on c) = false).
  { destruct (mem r (hook_on c)) eqn:X; [|reflexivity]. apply mem_In in X. contradiction. }
  unfold ctl_restart in E. rewrite Em in E.
  destruct Hk; subst r; cbn in E; inversion E; subst; discriminate.
Qed.

Lemma on_exit_restarts s r : restarts (on_exit s r) = restarts s /\ shut (on_exit s r) = shut s.
Proof. unfold on_exit. destruct (reason_eqb r Success); cbn; auto. Qed.

Lemma on_exit_resub s r : r <> Success -> on_exit s r = s.
Proof. intros H. unfold on_exit. apply reason_eqb_neq in H. rewrite H. reflexivity. Qed.

(* restart budget: continuation restarts of an ordinary engine *)
Lemma budget_engine c : is_rep c = false -> eff_max c <> -1 ->
  forall h s, restarts s + count_cont c s h <= Z.max (restarts s) (eff_max c).
Proof.
  intros Hr Hm. induction h as [|e h IH]; intros s; cbn [count_cont]; [lia|].
  destruct (pm_step c s e) as [s1 cd] eqn:E. unfold pm_step in E.
  destruct (on_exit_restarts s (ev_reason e)) as [R0 _].
  destruct (ctl_restart_spec _ _ _ _ _ _ _ _ E) as [_ [_ C]].
  destruct (code_eqb cd Initiated) eqn:Ec; [|lia].
  apply code_eqb_eq in Ec. destruct (C Ec) as [_ [C1 [C2 [C3 _]]]]. destruct (C3 Hr) as [[X|X] _]; [contradiction|].
  specialize (IH s1).
  destruct (reason_eqb (ev_reason e) SubmissionFailed) eqn:Es.
  - apply reason_eqb_eq in Es. destruct (C1 Es) as [_ [_ Y]]. rewrite Y in IH |- *. unfold bump, bump_resub in *; cbn [restarts resub] in *; lia.
  - apply reason_eqb_neq in Es. rewrite (C2 Es) in IH |- *. unfold bump, bump_resub in *; cbn [restarts resub] in *; lia.
Qed.

Lemma budget_repeating c : is_rep c = true ->
  forall h s, 0 <= restarts s -> restarts s + count_cont c s h <= Z.max (restarts s) 1.
Proof.
  intros Hr. induction h as [|e h IH]; intros s H0; cbn [count_cont]; [lia|].
  destruct (pm_step c s e) as [s1 cd] eqn:E. unfold pm_step in E.
  destruct (on_exit_restarts s (ev_reason e)) as [R0 _].
  destruct (ctl_restart_spec _ _ _ _ _ _ _ _ E) as [_ [_ C]].
  destruct (code_eqb cd Initiated) eqn:Ec; [|lia].
  apply code_eqb_eq in Ec. destruct (C Ec) as [_ [C1 [C2 [_ C4]]]]. destruct (C4 Hr) as [X [Y _]].
  assert (Es : ev_reason e <> SubmissionFailed) by (rewrite X; discriminate).
  apply reason_eqb_neq in Es as Es'. rewrite Es'. specialize (IH s1). rewrite (C2 Es) in IH |- *.
  unfold bump, bump_resub in *; cbn [restarts resub] in *; lia.
Qed.

(* re-submission cap: in a stretch of exits without a Success *)
Lemma resub_cap c : forall h s,
  Forall (fun e => ev_reason e <> Success) h -> resub s <= max_resub ->
  resub s + count_resub c s h <= max_resub.
Proof.
  induction h as [|e h IH]; intros s Hn Hq; cbn [count_resub]; [lia|].
  inversion Hn as [|? ? Hne Hn']; subst.
  destruct (pm_step c s e) as [s1 cd] eqn:E. unfold pm_step in E. rewrite (on_exit_resub _ _ Hne) in E.
  destruct (ctl_restart_spec _ _ _ _ _ _ _ _ E) as [_ [_ C]].
  destruct (code_eqb cd Initiated) eqn:Ec; [|lia].
  apply code_eqb_eq in Ec. destruct (C Ec) as [_ [C1 [C2 _]]]. specialize (IH s1 Hn').
  destruct (reason_eqb (ev_reason e) SubmissionFailed) eqn:Es.
  - apply reason_eqb_eq in Es. destruct (C1 Es) as [_ [Q Y]]. rewrite Y in IH |- *. unfold bump, bump_resub in *; cbn [restarts resub] in *; lia.
  - apply reason_eqb_neq in Es. rewrite (C2 Es) in IH |- *. unfold bump, bump_resub in *; cbn [restarts resub] in *; lia.
Qed.

(* once a restart is refused the component gets its final state, the engine is shut down, and
   nothing restarts it afterwards *)
Lemma refusal_is_final c : forall h s cds f s',
  run_hist c s h = (cds, f, s') ->
  match f with
  | None => Forall (fun cd => cd = Initiated) cds /\ length cds = length h
  | Some x => exists h1 e h2, h = h1 ++ e :: h2 /\ length cds = S (length h1) /\
                Forall (fun cd => cd = Initiated) (firstn (length h1) cds) /\
                nth (length h1) cds Initiated <> Initiated /\
                x = final_of c (ev_reason e) /\ shut s' = true
  end.
Proof.
  induction h as [|e h IH]; intros s cds f s' H; cbn [run_hist] in H.
  - inversion H; subst. split; [constructor|reflexivity].
  - destruct (pm_step c s e) as [s1 cd] eqn:E.
    destruct (code_eqb cd Initiated) eqn:Ec.
    + apply code_eqb_eq in Ec. subst cd.
      destruct (run_hist c s1 h) as [[cds1 f1] s2] eqn:R. inversion H; subst.
      specialize (IH _ _ _ _ R). destruct f.
      * destruct IH as [h1 [e' [h2 [A [B [C0 [D [F G]]]]]]]].
        exists (e :: h1), e', h2. subst h. split; [reflexivity|]. cbn [length]. split; [lia|].
        cbn [firstn nth]. split; [constructor; [reflexivity|exact C0]|]. split; [exact D|]. split; [exact F|exact G].
      * destruct IH as [A B]. split; [constructor; [reflexivity|exact A]|cbn; lia].
    + inversion H; subst. exists [], e, h. split; [reflexivity|]. split; [reflexivity|].
      split; [constructor|]. cbn. split.
      * intros X. subst cd. discriminate Ec.
      * split; reflexivity.
Qed.

Lemma shutdown_never_restarts c s r h stable ok :
  shut s = true -> snd (ctl_restart c s r h stable ok) <> Initiated.
Proof.
  intros Hs Hi. destruct (ctl_restart c s r h stable ok) as [s1 cd] eqn:E. cbn in Hi.
  destruct (ctl_restart_spec _ _ _ _ _ _ _ _ E) as [_ [_ C]]. destruct (C Hi) as [X _]. congruence.
Qed.
