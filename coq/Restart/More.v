(* C12 — further lemmas: what a restart hook can and cannot cause, whole-history links between
   the counters the engine keeps and the restarts actually performed, the DLMESO CONTROL-file hook,
   the attributes Engine.restart resets. *)
From Coq Require Import ZArith List Bool Lia ZifyBool String.
Import ListNotations.
Require Import V.Restart.Model V.Restart.Proofs.
Open Scope Z_scope.

(* ------------------------------------------------------------------------------------------
   1. the hook
   ------------------------------------------------------------------------------------------ *)

(* when the hook is not called its behaviour is irrelevant: same counters, same code *)
Lemma hook_not_called_irrelevant c s r h h' stable ok :
  hook_called c s r = false ->
  ctl_restart c s r h' stable ok = ctl_restart c s r h stable ok.
Proof.
  unfold hook_called, ctl_restart, comp_restart, repeating_restart_listed, engine_restart.
  intros H.
  destruct (shut s); [destruct (reason_eqb r SubmissionFailed), (resub s <? max_resub), (mem r (hook_on c)),
     (negb (reason_eqb r Killed || reason_eqb r Cancelled || reason_eqb r Success)), stable; reflexivity|].
  destruct (is_rep c); [reflexivity|].
  destruct (negb (eff_max c =? -1) && (eff_max c <? restarts s + 1)) eqn:B; [reflexivity|].
  destruct (reason_eqb r SubmissionFailed) eqn:Esf.
  { destruct (is_sim c && mem r (hook_on c) && sim_restart c); reflexivity. }
  destruct (mem r (hook_on c)) eqn:Em.
  - destruct (is_sim c), (sim_restart c); cbn in H; try discriminate; cbn; reflexivity.
  - rewrite andb_false_r. cbn [andb]. reflexivity.
Qed.

(* when it is called, the outcome is exactly: counter + 1 whatever the hook says; the code is the
   hook's context mapped through code_of_context *)
Lemma hook_called_outcome c s r h stable ok :
  hook_called c s r = true ->
  ctl_restart c s r h stable ok = (bump s, code_of_context (context_of (eff_hook c r h)) ok).
Proof.
  unfold hook_called. intros H.
  repeat (apply andb_true_iff in H; destruct H as [H ?]).
  apply negb_true_iff in H. rename H into Hs.
  match goal with X : negb (is_rep c) = true |- _ => apply negb_true_iff in X; rename X into Hr end.
  match goal with X : negb (reason_eqb r SubmissionFailed) = true |- _ => apply negb_true_iff in X; rename X into Esf end.
  match goal with X : mem r (hook_on c) = true |- _ => rename X into Em end.
  match goal with X : negb (is_sim c && sim_restart c) = true |- _ => apply negb_true_iff in X; rename X into Es end.
  match goal with X : negb (negb (eff_max c =? -1) && _) = true |- _ => apply negb_true_iff in X; rename X into B end.
  unfold ctl_restart, comp_restart, engine_restart. rewrite Esf, Em, Hs, Hr, B.
  assert (Es' : is_sim c && true && sim_restart c = false) by (rewrite andb_true_r; exact Es).
  rewrite Es'. rewrite andb_false_r. unfold eff_hook, bump. rewrite ?Hs. reflexivity.
Qed.

Lemma hook_allows_code h ok : code_of_context (context_of h) ok = Initiated <-> hook_allows h = true /\ ok = true.
Proof. unfold hook_allows. destruct (context_of h), ok; cbn; split; intros H; try discriminate; try tauto; destruct H; discriminate. Qed.

(* a hook can refuse ... *)
Lemma hook_can_refuse c s r h stable ok :
  hook_called c s r = true -> hook_allows (eff_hook c r h) = false ->
  snd (ctl_restart c s r h stable ok) <> Initiated.
Proof.
  intros Hc Ha. rewrite (hook_called_outcome _ _ _ _ _ _ Hc). cbn [snd]. intros X.
  apply hook_allows_code in X. destruct X as [X _]. congruence.
Qed.

(* ... or allow, and then it is as good as the answer "restart possible" and no better *)
Lemma hook_can_allow c s r h stable ok :
  hook_allows (eff_hook c r h) = true ->
  ctl_restart c s r h stable ok =
  ctl_restart c s r (if match hook_file c with HFEmpty => false | _ => hook_loadable c end then HPossible else h) stable ok.
Proof.
  intros Ha. destruct (hook_called c s r) eqn:Hc.
  - rewrite !(hook_called_outcome _ _ _ _ _ _ Hc). f_equal. unfold hook_allows, eff_hook in *.
    destruct (match hook_file c with HFEmpty => false | _ => hook_loadable c end); [|reflexivity].
    destruct (context_of h), ok; cbn in *; try reflexivity; discriminate.
  - apply hook_not_called_irrelevant. exact Hc.
Qed.

(* the counters after an exit never depend on what the hook did *)
Lemma hook_counters_independent c s r h h' stable ok :
  fst (ctl_restart c s r h stable ok) = fst (ctl_restart c s r h' stable ok) \/
  (hook_called c s r = true /\ fst (ctl_restart c s r h stable ok) = bump s /\ fst (ctl_restart c s r h' stable ok) = bump s).
Proof.
  destruct (hook_called c s r) eqn:Hc.
  - right. rewrite !(hook_called_outcome _ _ _ _ _ _ Hc). auto.
  - left. rewrite (hook_not_called_irrelevant c s r h h' stable ok Hc). reflexivity.
Qed.

Lemma hook_counters_same c s r h h' stable ok :
  fst (ctl_restart c s r h stable ok) = fst (ctl_restart c s r h' stable ok).
Proof. destruct (hook_counters_independent c s r h h' stable ok) as [E|[_ [A B]]]; congruence. Qed.

(* whatever a hook answers, an initiated restart satisfies every clause of the policy *)
Lemma initiated_policy c s r h stable ok :
  snd (ctl_restart c s r h stable ok) = Initiated ->
  shut s = false /\
  (r = SubmissionFailed \/ In r (hook_on c)) /\
  (r = SubmissionFailed -> resub s < max_resub) /\
  (is_rep c = false -> eff_max c = -1 \/ restarts s + 1 <= eff_max c) /\
  (is_rep c = true -> r = ResourceExhausted /\ restarts s = 0).
Proof.
  intros Hi. pose proof (only_restartable_any c s r h stable ok Hi) as L.
  destruct (ctl_restart c s r h stable ok) as [s1 cd] eqn:E. cbn in Hi.
  destruct (ctl_restart_spec _ _ _ _ _ _ _ _ E) as [_ [_ C]].
  destruct (C Hi) as [C0 [C1 [_ [C3 C4]]]].
  split; [exact C0|]. split; [exact L|]. split; [intros X; exact (proj1 (proj2 (C1 X)))|].
  split; [intros X; exact (proj1 (C3 X))|]. intros X. destruct (C4 X) as [A [B _]]. auto.
Qed.

(* ------------------------------------------------------------------------------------------
   2. whole histories: the engine's counters and the restarts actually performed
   ------------------------------------------------------------------------------------------ *)

(* every single step: the continuation counter moves by 0 or 1, and by 1 only inside the budget *)
Lemma engine_restart_counter c s r h ok s1 cd :
  engine_restart c s r h ok = (s1, cd) ->
  restarts s1 = restarts s \/
  (restarts s1 = restarts s + 1 /\ (eff_max c = -1 \/ restarts s + 1 <= eff_max c)).
Proof.
  unfold engine_restart. intros H.
  destruct (negb (eff_max c =? -1) && (eff_max c <? restarts s + 1)) eqn:G.
  { inversion H; subst. left; reflexivity. }
  assert (Gm : eff_max c = -1 \/ restarts s + 1 <= eff_max c) by lia.
  destruct (is_sim c && mem r (hook_on c) && sim_restart c).
  - destruct (reason_eqb r SubmissionFailed); cbn in H; destruct ok; cbn in H; inversion H; subst; cbn; auto.
  - destruct (reason_eqb r SubmissionFailed).
    + destruct ok; cbn in H; inversion H; subst; cbn; auto.
    + destruct (mem r (hook_on c)).
      * rewrite andb_false_r in H. inversion H; subst. cbn. right. auto.
      * cbn in H. inversion H; subst. auto.
Qed.

Lemma ctl_restart_counter c s r h stable ok s1 cd :
  ctl_restart c s r h stable ok = (s1, cd) ->
  restarts s1 = restarts s \/
  (restarts s1 = restarts s + 1 /\
   (is_rep c = false -> eff_max c = -1 \/ restarts s + 1 <= eff_max c) /\
   (is_rep c = true -> restarts s = 0)).
Proof.
  assert (K : forall s' cd', comp_restart c s r h ok = (s', cd') ->
    restarts s' = restarts s \/
    (restarts s' = restarts s + 1 /\
     (is_rep c = false -> eff_max c = -1 \/ restarts s + 1 <= eff_max c) /\
     (is_rep c = true -> restarts s = 0))).
  { intros s' cd' Hc. unfold comp_restart in Hc. destruct (shut s).
    - inversion Hc; subst; auto.
    - destruct (is_rep c) eqn:Hr.
      + unfold repeating_restart_listed, repeating_restart in Hc.
        destruct (mem r (hook_on c)); [|inversion Hc; subst; auto].
        destruct (reason_eqb r ResourceExhausted && (restarts s =? 0)) eqn:G; inversion Hc; subst; cbn; [|auto].
        right. split; [reflexivity|]. split; [discriminate|]. intros _. lia.
      + apply engine_restart_counter in Hc. destruct Hc as [A|[A B]]; [auto|].
        right. split; [exact A|]. split; [intros _; exact B|discriminate]. }
  unfold ctl_restart. intros H.
  destruct (reason_eqb r SubmissionFailed).
  - destruct (resub s <? max_resub); [exact (K _ _ H)|inversion H; subst; auto].
  - destruct (mem r (hook_on c)); [exact (K _ _ H)|].
    destruct (negb (reason_eqb r Killed || reason_eqb r Cancelled || reason_eqb r Success));
      [destruct stable; [inversion H; subst; auto|exact (K _ _ H)]|inversion H; subst; auto].
Qed.

(* the continuation counter is monotone along a history, never reset, and counts the performed
   continuation restarts up to the single refused attempt that ends the history *)
Lemma hist_counters c : forall h s cds f s',
  run_hist c s h = (cds, f, s') ->
  restarts s + count_cont c s h <= restarts s' <= restarts s + count_cont c s h + 1 /\
  (f = None -> restarts s' = restarts s + count_cont c s h) /\
  0 <= count_cont c s h.
Proof.
  induction h as [|e h IH]; intros s cds f s' H; cbn [run_hist count_cont] in *.
  - inversion H; subst. lia.
  - destruct (pm_step c s e) as [s1 cd] eqn:E. unfold pm_step in E.
    destruct (on_exit_restarts s (ev_reason e)) as [R0 _].
    destruct (ctl_restart_spec _ _ _ _ _ _ _ _ E) as [_ [B C]].
    destruct (code_eqb cd Initiated) eqn:Ec.
    + apply code_eqb_eq in Ec. destruct (C Ec) as [_ [C1 [C2 _]]].
      destruct (run_hist c s1 h) as [[cds1 f1] s2] eqn:R. inversion H; subst.
      destruct (IH _ _ _ _ R) as [I1 [I2 I3]].
      destruct (reason_eqb (ev_reason e) SubmissionFailed) eqn:Es.
      * apply reason_eqb_eq in Es. destruct (C1 Es) as [_ [_ Y]]. rewrite Y in *. unfold bump_resub in *; cbn [restarts] in *.
        split; [lia|]. split; [intros X; specialize (I2 X); lia|lia].
      * apply reason_eqb_neq in Es. rewrite (C2 Es) in *. unfold bump in *; cbn [restarts] in *.
        split; [lia|]. split; [intros X; specialize (I2 X); lia|lia].
    + inversion H; subst. cbn [restarts].
      assert (Hn : cd <> Initiated) by (intros X; subst cd; discriminate Ec).
      destruct (B Hn) as [_ B2]. split; [lia|]. split; [discriminate|lia].
Qed.

(* the counter itself never passes the maximum: restarts are refused before it could *)
Lemma counter_bounded_engine c : is_rep c = false -> eff_max c <> -1 ->
  forall h s cds f s', run_hist c s h = (cds, f, s') -> restarts s' <= Z.max (restarts s) (eff_max c).
Proof.
  intros Hr Hm. induction h as [|e h IH]; intros s cds f s' H; cbn [run_hist] in H.
  - inversion H; subst. lia.
  - destruct (pm_step c s e) as [s1 cd] eqn:E. unfold pm_step in E.
    destruct (on_exit_restarts s (ev_reason e)) as [R0 _].
    pose proof (ctl_restart_counter _ _ _ _ _ _ _ _ E) as K. rewrite R0 in K.
    assert (K1 : restarts s1 <= Z.max (restarts s) (eff_max c)).
    { destruct K as [K|[K [K2 _]]]; [lia|]. destruct (K2 Hr); [contradiction|lia]. }
    destruct (code_eqb cd Initiated).
    + destruct (run_hist c s1 h) as [[cds1 f1] s2] eqn:R. inversion H; subst.
      specialize (IH _ _ _ _ R). lia.
    + inversion H; subst. cbn [restarts]. exact K1.
Qed.

Lemma counter_bounded_repeating c : is_rep c = true ->
  forall h s cds f s', 0 <= restarts s -> run_hist c s h = (cds, f, s') -> restarts s' <= Z.max (restarts s) 1.
Proof.
  intros Hr. induction h as [|e h IH]; intros s cds f s' H0 H; cbn [run_hist] in H.
  - inversion H; subst. lia.
  - destruct (pm_step c s e) as [s1 cd] eqn:E. unfold pm_step in E.
    destruct (on_exit_restarts s (ev_reason e)) as [R0 _].
    pose proof (ctl_restart_counter _ _ _ _ _ _ _ _ E) as K. rewrite R0 in K.
    assert (K1 : restarts s <= restarts s1 <= Z.max (restarts s) 1).
    { destruct K as [K|[K [_ K3]]]; [lia|]. specialize (K3 Hr). lia. }
    destruct (code_eqb cd Initiated).
    + destruct (run_hist c s1 h) as [[cds1 f1] s2] eqn:R. inversion H; subst.
      assert (H1 : 0 <= restarts s1) by lia. specialize (IH _ _ _ _ H1 R). lia.
    + inversion H; subst. cbn [restarts]. lia.
Qed.

(* the restarts column of the compared trace is non-decreasing and starts at or above the
   initial counter *)
Fixpoint nondecreasing_from (lo : Z) (l : list Z) : Prop :=
  match l with [] => True | x :: l' => lo <= x /\ nondecreasing_from x l' end.

Lemma trace_restarts_monotone c : forall h s,
  nondecreasing_from (restarts s) (map (fun o : obs => snd (fst o)) (fst (trace c s h))).
Proof.
  induction h as [|e h IH]; intros s; cbn [trace].
  - exact I.
  - destruct (pm_step c s e) as [s1 cd] eqn:E. unfold pm_step in E.
    destruct (on_exit_restarts s (ev_reason e)) as [R0 _].
    pose proof (ctl_restart_counter _ _ _ _ _ _ _ _ E) as K. rewrite R0 in K.
    assert (K1 : restarts s <= restarts s1) by (destruct K as [K|[K _]]; lia).
    destruct (code_eqb cd Initiated).
    + specialize (IH s1). destruct (trace c s1 h) as [o f]. cbn. split; [exact K1|exact IH].
    + cbn. split; [exact K1|exact I].
Qed.

(* re-submissions: without a successful exit in between the counter is exactly the number of
   re-submissions performed *)
Lemma hist_resub c : forall h s cds f s',
  Forall (fun e => ev_reason e <> Success) h ->
  run_hist c s h = (cds, f, s') -> resub s' = resub s + count_resub c s h /\ 0 <= count_resub c s h.
Proof.
  induction h as [|e h IH]; intros s cds f s' Hn H; cbn [run_hist count_resub] in *.
  - inversion H; subst. lia.
  - inversion Hn as [|? ? Hne Hn']; subst.
    destruct (pm_step c s e) as [s1 cd] eqn:E. unfold pm_step in E. rewrite (on_exit_resub _ _ Hne) in E.
    destruct (ctl_restart_spec _ _ _ _ _ _ _ _ E) as [_ [B C]].
    destruct (code_eqb cd Initiated) eqn:Ec.
    + apply code_eqb_eq in Ec. destruct (C Ec) as [_ [C1 [C2 _]]].
      destruct (run_hist c s1 h) as [[cds1 f1] s2] eqn:R. inversion H; subst.
      destruct (IH _ _ _ _ Hn' R) as [I1 I2].
      destruct (reason_eqb (ev_reason e) SubmissionFailed) eqn:Es.
      * apply reason_eqb_eq in Es. destruct (C1 Es) as [_ [_ Y]]. rewrite Y in *. unfold bump_resub in *; cbn [resub] in *. lia.
      * apply reason_eqb_neq in Es. rewrite (C2 Es) in *. unfold bump in *; cbn [resub] in *. lia.
    + inversion H; subst. cbn [resub].
      assert (Hn2 : cd <> Initiated) by (intros X; subst cd; discriminate Ec).
      destruct (B Hn2) as [B1 _]. lia.
Qed.

(* when Success is not listed as restartable (the schema default) a successful exit ends the
   history, so the cap of five holds for the whole history without any side condition *)
Lemma resub_cap_whole c : ~ In Success (hook_on c) -> forall h s,
  resub s <= max_resub -> resub s + count_resub c s h <= max_resub /\ 0 <= count_resub c s h.
Proof.
  intros Hs. induction h as [|e h IH]; intros s Hq; cbn [count_resub]; [lia|].
  destruct (pm_step c s e) as [s1 cd] eqn:E. unfold pm_step in E.
  destruct (code_eqb cd Initiated) eqn:Ec; [|lia].
  apply code_eqb_eq in Ec.
  assert (Hne : ev_reason e <> Success).
  { intros X. assert (Hi : snd (ctl_restart c (on_exit s (ev_reason e)) (ev_reason e) (ev_hook e) (ev_stable e) (ev_run_ok e)) = Initiated)
      by (rewrite E; exact Ec).
    apply only_restartable_any in Hi. rewrite X in Hi. destruct Hi as [Y|Y]; [discriminate|contradiction]. }
  rewrite (on_exit_resub _ _ Hne) in E.
  destruct (ctl_restart_spec _ _ _ _ _ _ _ _ E) as [_ [_ C]].
  destruct (C Ec) as [_ [C1 [C2 _]]].
  destruct (reason_eqb (ev_reason e) SubmissionFailed) eqn:Es.
  - apply reason_eqb_eq in Es. destruct (C1 Es) as [_ [Q Y]].
    assert (R1 : resub s1 = resub s + 1) by (rewrite Y; reflexivity).
    destruct (IH s1 ltac:(lia)) as [I1 I2]. lia.
  - apply reason_eqb_neq in Es.
    assert (R1 : resub s1 = resub s) by (rewrite (C2 Es); reflexivity).
    destruct (IH s1 ltac:(lia)) as [I1 I2]. lia.
Qed.

(* the number of exits handled = restarts performed (+1 for the refusal that ends the history) *)
Lemma hist_length c : forall h s cds f s',
  run_hist c s h = (cds, f, s') ->
  Z.of_nat (List.length cds) = count_cont c s h + count_resub c s h + (match f with Some _ => 1 | None => 0 end) /\
  (f = None -> List.length cds = List.length h).
Proof.
  induction h as [|e h IH]; intros s cds f s' H; cbn [run_hist count_cont count_resub] in *.
  - inversion H; subst. cbn. split; [lia|reflexivity].
  - destruct (pm_step c s e) as [s1 cd] eqn:E.
    destruct (code_eqb cd Initiated) eqn:Ec.
    + destruct (run_hist c s1 h) as [[cds1 f1] s2] eqn:R. inversion H; subst.
      destruct (IH _ _ _ _ R) as [I1 I2]. cbn [List.length]. rewrite Nat2Z.inj_succ.
      split; [destruct (reason_eqb (ev_reason e) SubmissionFailed); lia|intros X; rewrite (I2 X); reflexivity].
    + inversion H; subst. cbn. split; [lia|discriminate].
Qed.

(* total bound: an ordinary component with a finite maximum whose restartHookOn does not list
   Success is started again at most max + 5 times over ANY history, and any history longer than
   that has delivered the final state *)
Lemma total_bound c h cds f s' :
  is_rep c = false -> eff_max c <> -1 -> ~ In Success (hook_on c) ->
  run_hist c init_st h = (cds, f, s') ->
  count_cont c init_st h + count_resub c init_st h <= Z.max 0 (eff_max c) + 5 /\
  Z.of_nat (List.length cds) <= Z.max 0 (eff_max c) + 6 /\
  (Z.max 0 (eff_max c) + 5 < Z.of_nat (List.length h) -> f <> None).
Proof.
  intros Hr Hm Hs H.
  pose proof (budget_engine c Hr Hm h init_st) as B. cbn [restarts init_st] in B.
  destruct (resub_cap_whole c Hs h init_st ltac:(cbn; unfold max_resub; lia)) as [Q _].
  cbn [resub init_st] in Q. unfold max_resub in Q.
  destruct (hist_length c h _ _ _ _ H) as [L1 L2].
  split; [lia|]. split; [destruct f; lia|].
  intros Hl Hf. subst f. rewrite <- (L2 eq_refl) in Hl. lia.
Qed.

Lemma total_bound_repeating c h cds f s' :
  is_rep c = true -> run_hist c init_st h = (cds, f, s') ->
  count_resub c init_st h = 0 /\ Z.of_nat (List.length cds) <= 2 /\ (2 <= List.length h -> f <> None)%nat.
Proof.
  intros Hr H.
  assert (Z0 : forall h s, count_resub c s h = 0).
  { induction h0 as [|e h0 IH]; intros s; cbn [count_resub]; [reflexivity|].
    destruct (pm_step c s e) as [s1 cd] eqn:E. unfold pm_step in E.
    destruct (code_eqb cd Initiated) eqn:Ec; [|reflexivity]. apply code_eqb_eq in Ec.
    destruct (ctl_restart_spec _ _ _ _ _ _ _ _ E) as [_ [_ C]]. destruct (C Ec) as [_ [C1 _]].
    destruct (reason_eqb (ev_reason e) SubmissionFailed) eqn:Es.
    - apply reason_eqb_eq in Es. destruct (C1 Es) as [X _]. congruence.
    - rewrite IH. reflexivity. }
  pose proof (budget_repeating c Hr h init_st (Z.le_refl 0)) as B. cbn [restarts init_st] in B.
  destruct (hist_length c h _ _ _ _ H) as [L1 L2]. rewrite Z0 in L1.
  split; [apply Z0|]. split; [destruct f; lia|].
  intros Hl Hf. subst f. rewrite <- (L2 eq_refl) in Hl. lia.
Qed.

(* the final state is the one the exit reason dictates *)
Lemma final_of_cases c r :
  (final_of c r = Finished <-> r = Success) /\
  (final_of c r = Shutdown <-> r <> Success /\ In r (shutdown_on c)) /\
  (final_of c r = Failed <-> r <> Success /\ ~ In r (shutdown_on c)).
Proof.
  unfold final_of. destruct (reason_eqb r Success) eqn:E.
  - apply reason_eqb_eq in E. repeat split; try (intros; assumption || reflexivity || discriminate);
      try (intros [X _]; contradiction).
  - apply reason_eqb_neq in E. destruct (mem r (shutdown_on c)) eqn:M.
    + apply mem_In in M. repeat split; try discriminate; try assumption; try (intros; contradiction);
        try (intros [_ X]; contradiction).
    + assert (N : ~ In r (shutdown_on c)) by (intros X; apply mem_In in X; congruence).
      repeat split; try discriminate; try assumption; try (intros; contradiction);
        try (intros [_ X]; contradiction).
Qed.

(* ------------------------------------------------------------------------------------------
   3. the DLMESO CONTROL-file hook
   ------------------------------------------------------------------------------------------ *)
Lemma second_last_insert {A} (x : A) l : l <> [] -> second_last (insert_before_last x l) = Some x.
Proof.
  intros Hl. unfold insert_before_last, second_last.
  destruct (rev l) as [|z r] eqn:E.
  - destruct l; [contradiction|]. apply (f_equal (@List.length A)) in E. rewrite rev_length in E. discriminate.
  - rewrite rev_app_distr. cbn. reflexivity.
Qed.

Lemma second_last_some_nonempty {A} (l : list A) y : second_last l = Some y -> l <> [].
Proof. intros H E. subst l. discriminate. Qed.

Lemma str_eqb_refl s : str_eqb s s = true.
Proof. unfold str_eqb. destruct (string_dec s s); [reflexivity|contradiction]. Qed.

(* only four answers; never on any reason but ResourceExhausted; the file is left as it is unless
   the answer is "restart possible" *)
Lemma dlmeso_answers r f :
  let '(ho, f') := dlmeso_hook r f in
  (r <> ResourceExhausted -> ho = HFalse /\ f' = f) /\
  (ho = HFalse \/ ho = HRaiseIO \/ ho = HRaiseOther \/ ho = HTrue) /\
  (ho <> HTrue -> f' = f) /\
  (ho = HTrue -> exists cf, f' = Some cf /\ second_last (cf_lines cf) = Some "restart"%string).
Proof.
  unfold dlmeso_hook. destruct (reason_eqb r ResourceExhausted) eqn:E; cbn [negb].
  - apply reason_eqb_eq in E. destruct f as [cf|].
    + destruct (second_last (cf_lines cf)) as [l2|] eqn:S2.
      * destruct (str_eqb l2 "restart") eqn:Q.
        -- unfold str_eqb in Q. destruct (string_dec l2 "restart"); [|discriminate]. subst l2.
           repeat split; auto; try contradiction. intros _. exists cf. auto.
        -- repeat split; auto; try contradiction. intros _. eexists. split; [reflexivity|]. cbn.
           apply second_last_insert. exact (second_last_some_nonempty _ _ S2).
      * repeat split; auto; try contradiction; discriminate.
    + repeat split; auto; try contradiction; discriminate.
  - apply reason_eqb_neq in E. repeat split; auto; discriminate.
Qed.

(* idempotent: the keyword is inserted at most once however often the job is restarted *)
Lemma dlmeso_idempotent r r' f :
  fst (dlmeso_hook r f) = HTrue ->
  snd (dlmeso_hook r' (snd (dlmeso_hook r f))) = snd (dlmeso_hook r f).
Proof.
  intros H. pose proof (dlmeso_answers r f) as A. destruct (dlmeso_hook r f) as [ho f1]. cbn in *.
  destruct A as [_ [_ [_ A]]]. destruct (A H) as [cf [E S2]]. subst f1.
  unfold dlmeso_hook. destruct (negb (reason_eqb r' ResourceExhausted)); [reflexivity|].
  rewrite S2, str_eqb_refl. reflexivity.
Qed.

(* as a hook instance: on a well-formed CONTROL file (at least two lines) it allows the restart;
   on a missing file it falls back to a vanilla restart; on a file shorter than two lines it
   refuses (the hook fails with IndexError) *)
Lemma dlmeso_allows f :
  hook_allows (fst (dlmeso_hook ResourceExhausted f)) =
  match f with None => true | Some cf => match second_last (cf_lines cf) with Some _ => true | None => false end end.
Proof.
  unfold dlmeso_hook. cbn. destruct f as [cf|]; [|reflexivity].
  destruct (second_last (cf_lines cf)); [destruct (str_eqb _ _); reflexivity|reflexivity].
Qed.

(* the model's default hook is this hook in a directory without CONTROL file *)
Lemma default_hook_is_dlmeso r : default_hook r = fst (dlmeso_hook r None).
Proof. unfold default_hook, dlmeso_hook. destruct (reason_eqb r ResourceExhausted); reflexivity. Qed.

(* ------------------------------------------------------------------------------------------
   4. what Engine.restart resets
   ------------------------------------------------------------------------------------------ *)
Lemma restart_reset_fresh v :
  restart_reset v = fresh_view /\ observe (restart_reset v) = observe fresh_view /\
  v_alive (restart_reset v) = true /\ v_returncode (restart_reset v) = None.
Proof. repeat split. Qed.

Lemma engine_restart_run_fails c s r h : snd (engine_restart c s r h false) <> Initiated.
Proof.
  unfold engine_restart.
  destruct (negb (eff_max c =? -1) && (eff_max c <? restarts s + 1)); [cbn; discriminate|].
  match goal with |- context [let '(s1, x) := ?E in _] => destruct E as [s1 x] end.
  destruct (code_of_context x false) eqn:Ec.
  - apply code_of_context_initiated in Ec. destruct Ec as [_ X]. discriminate X.
  - cbn. discriminate.
  - cbn. discriminate.
  - cbn. discriminate.
Qed.

(* a restart that is initiated has gone through the reset; failure of run() does not matter for
   reaching the reset *)
Lemma reaches_run_of_initiated c s r h stable ok :
  snd (ctl_restart c s r h stable ok) = Initiated -> reaches_run c s r h stable = true.
Proof.
  intros Hi. unfold reaches_run. destruct ok; [rewrite Hi; reflexivity|].
  destruct (is_rep c) eqn:Hr.
  - assert (E : ctl_restart c s r h stable true = ctl_restart c s r h stable false).
    { unfold ctl_restart, comp_restart. rewrite Hr. reflexivity. }
    rewrite E, Hi. reflexivity.
  - exfalso. revert Hi. unfold ctl_restart, comp_restart. rewrite Hr.
    pose proof (engine_restart_run_fails c s r h) as F.
    destruct (shut s); [destruct (reason_eqb r SubmissionFailed), (resub s <? max_resub), (mem r (hook_on c)),
       (negb (reason_eqb r Killed || reason_eqb r Cancelled || reason_eqb r Success)), stable; cbn; discriminate|].
    destruct (reason_eqb r SubmissionFailed), (resub s <? max_resub), (mem r (hook_on c)),
       (negb (reason_eqb r Killed || reason_eqb r Cancelled || reason_eqb r Success)), stable;
      cbn; try discriminate; exact F.
Qed.

(* after an exit has been handled the controller sees either a fresh engine (restart initiated)
   or the exited one with the exit reason that dictates the final state still in place *)
Lemma view_after_cases c s e :
  (snd (pm_step c s e) = Initiated -> view_after c s e = fresh_view) /\
  (reaches_run c (on_exit s (ev_reason e)) (ev_reason e) (ev_hook e) (ev_stable e) = false ->
     view_after c s e = exited_view (ev_reason e) /\ snd (pm_step c s e) <> Initiated).
Proof.
  unfold view_after, pm_step. split.
  - intros Hi. rewrite (reaches_run_of_initiated _ _ _ _ _ _ Hi). reflexivity.
  - intros Hn. rewrite Hn. split; [reflexivity|]. intros Hi.
    rewrite (reaches_run_of_initiated _ _ _ _ _ _ Hi) in Hn. discriminate.
Qed.

(* ------------------------------------------------------------------------------------------
   5. launches: exits reported by a launched task and exits produced by a failed launch
   ------------------------------------------------------------------------------------------ *)
Definition task_ev (e : exit_ev) : l_ev :=
  {| lv_launch := TaskExits (ev_reason e); lv_hook := ev_hook e; lv_stable := ev_stable e; lv_run_ok := ev_run_ok e |}.

Lemma to_exit_task_ev e : to_exit_ev (task_ev e) = e.
Proof. destruct e; reflexivity. Qed.

Lemma view_after_l_task c s e : view_after_l c s (task_ev e) = view_after c s e.
Proof. reflexivity. Qed.

(* on histories in which every exit is reported by a launched task the refined views are the old ones *)
Lemma views_l_task c : forall h s, views_l c s (map task_ev h) = views c s h.
Proof.
  induction h as [|e h IH]; intros s; [reflexivity|].
  cbn [map views_l views]. rewrite to_exit_task_ev.
  destruct (pm_step c s e) as [s1 cd]. rewrite view_after_l_task.
  destruct (code_eqb cd Initiated); [rewrite IH|]; reflexivity.
Qed.

(* a failed launch is a failed submission or an unknown issue, never a success: it cannot reset the
   re-submission counter, and it is subject to the same policy as any other exit *)
Lemma failed_launch_reason l :
  launched l = false -> (launch_reason l = SubmissionFailed \/ launch_reason l = UnknownIssue) /\
                        forall s, on_exit s (launch_reason l) = s.
Proof.
  destruct l; cbn; try discriminate; intros _; (split; [auto|]); intros s; reflexivity.
Qed.

Lemma view_after_l_cases c s e :
  (snd (pm_step c s (to_exit_ev e)) = Initiated -> view_after_l c s e = fresh_view) /\
  (reaches_run c (on_exit s (launch_reason (lv_launch e))) (launch_reason (lv_launch e)) (lv_hook e) (lv_stable e) = false ->
     view_after_l c s e = exited_view_l (lv_launch e) /\ snd (pm_step c s (to_exit_ev e)) <> Initiated).
Proof.
  unfold view_after_l, pm_step, to_exit_ev; cbn [ev_reason ev_hook ev_stable ev_run_ok]. split.
  - intros Hi. rewrite (reaches_run_of_initiated _ _ _ _ _ _ Hi). reflexivity.
  - intros Hn. rewrite Hn. split; [reflexivity|]. intros Hi.
    rewrite (reaches_run_of_initiated _ _ _ _ _ _ Hi) in Hn. discriminate.
Qed.

(* the cap of five consecutive re-submissions over launch histories: however each failed submission
   shows (reported by the launched task, or the launch itself raising), and with failed launches of
   any kind in between - only a task that exits with Success starts a new stretch *)
Lemma launch_reason_not_success l : l <> TaskExits Success -> launch_reason l <> Success.
Proof. destruct l as [r| | |]; cbn; try discriminate. intros H E. apply H. rewrite E. reflexivity. Qed.

Lemma resub_cap_launches c h :
  Forall (fun e => lv_launch e <> TaskExits Success) h -> count_resub c init_st (map to_exit_ev h) <= 5.
Proof.
  intros Hn. apply (resub_cap c (map to_exit_ev h) init_st); [|discriminate].
  apply Forall_forall. intros x Hx. apply in_map_iff in Hx. destruct Hx as [e [<- He]].
  cbn. apply launch_reason_not_success. exact (proj1 (Forall_forall _ _) Hn e He).
Qed.
