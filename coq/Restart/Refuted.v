(* C12 — refuted parts of the full statement. *)
From Coq Require Import ZArith List Bool String.
Import ListNotations.
Require Import V.Restart.Model V.Restart.Config.
Open Scope Z_scope.

Definition sf_cfg : cfg := {| max_restarts := Some (-1); hook_file := HFNone; hook_loadable := false;
  hook_on := [SubmissionFailed]; is_sim := false; sim_restart := false; is_rep := false; shutdown_on := [] |}.

Fixpoint iter_prefix (n : nat) (s : st) : list code * st :=
  match n with
  | O => ([], s)
  | S k => let '(s1, cd) := ctl_restart_prefix sf_cfg s SubmissionFailed HJunk true true in
           let '(l, s2) := iter_prefix k s1 in (cd :: l, s2)
  end.

(* F12 (repaired by a fix: commit): with SubmissionFailed listed in restartHookOn the pinned code
   never consulted the re-submission cap: 12 consecutive failed submissions, 12 re-submissions. *)
Theorem C12_resub_prefix_refuted :
  iter_prefix 12 init_st = (repeat Initiated 12, {| restarts := 0; resub := 12; shut := false |}).
Proof. vm_compute. reflexivity. Qed.
Print Assumptions C12_resub_prefix_refuted.

(* F12b (repaired by a fix: commit): in the pinned code a repeating engine was restarted after
   ResourceExhausted even when the component did not list that reason, if the system was judged
   unstable (RepeatingEngine.restart ignored restartHookOn and the unstable-system path of the
   controller reaches it).  [ctl_restart_f12b] is the pinned code; the repaired [ctl_restart]
   refuses on the same input. *)
Definition rep_cfg : cfg := {| max_restarts := None; hook_file := HFNone; hook_loadable := false;
  hook_on := [KnownIssue]; is_sim := false; sim_restart := false; is_rep := true; shutdown_on := [] |}.
Theorem C12_repeating_unlisted_refuted :
  ~ In ResourceExhausted (hook_on rep_cfg) /\
  snd (ctl_restart_f12b rep_cfg init_st ResourceExhausted HJunk false true) = Initiated /\
  ctl_restart rep_cfg init_st ResourceExhausted HJunk false true = (init_st, NotRequired).
Proof. split; [cbn; intros [H|[]]; discriminate|split; reflexivity]. Qed.
Print Assumptions C12_repeating_unlisted_refuted.

(* C12_total_bound needs "Success is not listed as restartable": with Success listed a successful
   exit is itself restarted and resets the re-submission counter, so with a maximum of 2 eleven (> 2 + 5)
   restarts are performed (5 re-submissions, 1 continuation, 5 re-submissions).  Not a defect: the
   property caps CONSECUTIVE re-submissions. *)
Definition succ_cfg : cfg := {| max_restarts := Some 2; hook_file := HFEmpty; hook_loadable := false;
  hook_on := [Success]; is_sim := true; sim_restart := true; is_rep := false; shutdown_on := [] |}.
Definition succ_ev r := {| ev_reason := r; ev_hook := HJunk; ev_stable := true; ev_run_ok := true |}.
Definition succ_hist := map succ_ev (repeat SubmissionFailed 5 ++ [Success] ++ repeat SubmissionFailed 5).
Theorem C12_total_bound_success_listed_refuted :
  is_rep succ_cfg = false /\ eff_max succ_cfg = 2 /\ In Success (hook_on succ_cfg) /\
  count_cont succ_cfg init_st succ_hist + count_resub succ_cfg init_st succ_hist = 11.
Proof. vm_compute. repeat split; auto. Qed.
Print Assumptions C12_total_bound_success_listed_refuted.

(* C12_never_after_kill needs its hypothesis "Killed / Cancelled are not listed": the restart chain itself
   (Controller._restartComponent, ComponentState.restart, Engine.restart) only tests membership, so for EVERY
   exit reason - Killed and Cancelled included - a component listing it whose hook answers "restart possible"
   is restarted.  Not a defect of the unchanged tree: the FlowIR schema rejects such a list
   (C12_config_schema / C12_accepted_config_never_after_kill; the correspondence compares the real
   validation with schema_accepts on every run) - but it is the ONLY safeguard. *)
Theorem C12_never_after_kill_unvalidated_refuted :
  (forall r, snd (ctl_restart (listing r) init_st r HPossible true true) = Initiated) /\
  schema_accepts [] ["Cancelled"%string] = false /\ schema_accepts [] ["Killed"%string] = false.
Proof. split; [exact unvalidated_restarts|split; reflexivity]. Qed.
Print Assumptions C12_never_after_kill_unvalidated_refuted.
