(* C12 — refuted parts of the full statement. *)
From Coq Require Import ZArith List Bool.
Import ListNotations.
Require Import V.Restart.Model.
Open Scope Z_scope.

Definition sf_cfg : cfg := {| max_restarts := Some (-1); hook_file := HFNone; hook_loadable := false;
  hook_on := [SubmissionFailed]; is_sim := false; sim_restart := false; is_rep := false; shutdown_on := [] |}.

Fixpoint iter_prefix (n : nat) (s : st) : list code * st :=
  match n with
  | O => ([], s)
  | S k => let '(s1, cd) := ctl_restart_prefix sf_cfg s SubmissionFailed HJunk true true in
           let '(l, s2) := iter_prefix k s1 in (cd :: l, s2)
  end.

(* F12 (repaired by a fix: commit): with SubmissionFailed listed in restartHookOn the pinned code
   never consulted the re-submission cap: 12 consecutive failed submissions, 12 re-submissions. *)
Theorem C12_resub_prefix_refuted :
  iter_prefix 12 init_st = (repeat Initiated 12, {| restarts := 0; resub := 12; shut := false |}).
Proof. vm_compute. reflexivity. Qed.
Print Assumptions C12_resub_prefix_refuted.

(* F12b: a repeating engine is restarted after ResourceExhausted even when the component does not
   list that reason, if the system is judged unstable (RepeatingEngine.restart ignores
   restartHookOn and the unstable-system path of the controller reaches it). *)
Definition rep_cfg : cfg := {| max_restarts := None; hook_file := HFNone; hook_loadable := false;
  hook_on := [KnownIssue]; is_sim := false; sim_restart := false; is_rep := true; shutdown_on := [] |}.
Theorem C12_repeating_unlisted_refuted :
  ~ In ResourceExhausted (hook_on rep_cfg) /\
  snd (ctl_restart rep_cfg init_st ResourceExhausted HJunk false true) = Initiated.
Proof. split; [cbn; intros [H|[]]; discriminate|reflexivity]. Qed.
Print Assumptions C12_repeating_unlisted_refuted.
