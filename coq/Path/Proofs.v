(* C18 — lemmas about the path model. *)
From Coq Require Import String Ascii List Bool Arith Lia.
Import ListNotations.
Require Import V.Lib.PyStr V.Path.Model.
Open Scope string_scope.
Local Arguments Ascii.eqb : simpl never.

(* ---------------------------------------------------------------- segment prefixes *)
Lemma lprefixb_within d p : lprefixb d p = true <-> within d p.
Proof.
  revert p; induction d as [|x d IH]; intros p; cbn.
  - split; [intros _; exists p; reflexivity | reflexivity].
  - destruct p as [|y p].
    + split; [discriminate | intros [r H]; discriminate].
    + rewrite andb_true_iff, String.eqb_eq, IH. split.
      * intros [-> [r ->]]. exists r; reflexivity.
      * intros [r H]. cbn in H. inversion H; subst. split; [reflexivity | exists r; reflexivity].
Qed.

Lemma lstrip_some a b r : lstrip a b = Some r -> b = (a ++ r)%list.
Proof.
  revert b; induction a as [|x a IH]; intros b H; cbn in *.
  - inversion H; reflexivity.
  - destruct b as [|y b]; [discriminate|].
    destruct (String.eqb x y) eqn:E; [|discriminate].
    apply String.eqb_eq in E; subst. f_equal. apply IH; assumption.
Qed.

Lemma lstrip_app a r : lstrip a (a ++ r)%list = Some r.
Proof. induction a as [|x a IH]; cbn; [reflexivity|]. rewrite String.eqb_refl. exact IH. Qed.

Lemma lstrip_none a b : lstrip a b = None -> ~ within a b.
Proof. intros H [r ->]. rewrite lstrip_app in H. discriminate. Qed.

Lemma within_refl d : within d d.
Proof. exists []. symmetry; apply app_nil_r. Qed.

Lemma within_app d p r : within d p -> within d (p ++ r)%list.
Proof. intros [q ->]. exists (q ++ r)%list. symmetry; apply app_assoc. Qed.

Lemma withinb_within d np : withinb d np = true -> within d (snd np).
Proof. unfold withinb. rewrite andb_true_iff. intros [_ H]. apply lprefixb_within; assumption. Qed.

(* ---------------------------------------------------------------- following links stays inside *)
Lemma find_link_within strict links d p q :
  (forall lp lt, In (lp, lt) links -> within d lt) ->
  find_link strict links p = Some q -> within d q.
Proof.
  intros Hl. induction links as [|[lp lt] r IH]; cbn; [discriminate|].
  assert (Hr : forall lp0 lt0, In (lp0, lt0) r -> within d lt0) by (intros; eapply Hl; right; eassumption).
  destruct (lstrip lp p) as [rest|]; [|auto].
  destruct (strict && is_nil rest); [auto|].
  intros H; inversion H; subst. apply within_app. eapply Hl; left; reflexivity.
Qed.

Lemma resolve_within strict links d fuel p :
  (forall lp lt, In (lp, lt) links -> within d lt) ->
  within d p -> within d (resolve strict links fuel p).
Proof.
  intros Hl. revert p; induction fuel as [|k IH]; intros p Hp; cbn; [assumption|].
  destruct (find_link strict links p) as [q|] eqn:E; [|assumption].
  apply IH. eapply find_link_within; eassumption.
Qed.

Lemma resolve_no_link strict links fuel p :
  find_link strict links p = None -> resolve strict links fuel p = p.
Proof. intros H. destruct fuel; cbn; [reflexivity|]. rewrite H; reflexivity. Qed.

Lemma spec_member_path d m : spec_member d m = true -> within d (snd (mpath d m)).
Proof. unfold spec_member. rewrite andb_true_iff. intros [H _]. apply withinb_within; assumption. Qed.

Lemma spec_member_target d m tp : spec_member d m = true -> mtarget d m = Some tp -> within d (snd tp).
Proof.
  unfold spec_member. rewrite andb_true_iff. intros [_ H] E. rewrite E in H. apply withinb_within; assumption.
Qed.

Lemma linkmap_within d ms :
  spec_check d ms = true -> forall lp lt, In (lp, lt) (linkmap d ms) -> within d lt.
Proof.
  intros Hs lp lt Hin. unfold linkmap in Hin. apply in_flat_map in Hin. destruct Hin as [m [Hm Hin]].
  unfold spec_check in Hs. rewrite forallb_forall in Hs. specialize (Hs m Hm).
  destruct (snd m) eqn:Ek; try (destruct Hin; fail).
  destruct (mtarget d m) as [tp|] eqn:Et; [|destruct Hin].
  destruct Hin as [H|[]]. inversion H; subst. eapply spec_member_target; eassumption.
Qed.

Lemma extract_safe d ms :
  spec_check d ms = true -> forall p, In p (extract d ms) -> within d p.
Proof.
  intros Hs p Hin. pose proof (linkmap_within d ms Hs) as Hl.
  unfold spec_check in Hs. rewrite forallb_forall in Hs.
  unfold extract in Hin. apply in_app_or in Hin. destruct Hin as [Hin|Hin].
  - apply in_map_iff in Hin. destruct Hin as [m [<- Hm]]. unfold created.
    apply resolve_within; [exact Hl|]. apply spec_member_path. apply Hs; assumption.
  - unfold hard_targets in Hin. apply in_flat_map in Hin. destruct Hin as [m [Hm Hin]].
    destruct (snd m) eqn:Ek; try (destruct Hin; fail).
    destruct (mtarget d m) as [tp|] eqn:Et; [|destruct Hin].
    destruct Hin as [<-|[]]. apply resolve_within; [exact Hl|].
    eapply spec_member_target; [apply Hs; eassumption|eassumption].
Qed.

(* ---------------------------------------------------------------- characters vs segments *)
Lemma prefixb_app_same s X Y : prefixb (s ++ X) (s ++ Y) = prefixb X Y.
Proof. induction s as [|c s IH]; cbn; [reflexivity|]. rewrite Ascii.eqb_refl. exact IH. Qed.

Lemma seg_prefix a b X Y :
  noslashb a = true -> noslashb b = true ->
  prefixb (a ++ String slash X) (b ++ String slash Y) = true -> a = b /\ prefixb X Y = true.
Proof.
  revert b; induction a as [|c a IH]; intros b Ha Hb H.
  - destruct b as [|c' b]; cbn in *.
    + rewrite Ascii.eqb_refl in H. split; [reflexivity|exact H].
    + apply andb_true_iff in H. destruct H as [H _]. apply Ascii.eqb_eq in H. subst c'.
      rewrite Ascii.eqb_refl in Hb. discriminate.
  - destruct b as [|c' b]; cbn in *.
    + apply andb_true_iff in H. destruct H as [H _]. apply Ascii.eqb_eq in H. subst c.
      rewrite Ascii.eqb_refl in Ha. discriminate.
    + apply andb_true_iff in H. destruct H as [Hc H]. apply Ascii.eqb_eq in Hc. subst c'.
      apply andb_true_iff in Ha. apply andb_true_iff in Hb.
      destruct (IH b (proj2 Ha) (proj2 Hb) H) as [-> HX]. split; [reflexivity|exact HX].
Qed.

Lemma prefixb_app_nonempty a c X : prefixb (a ++ String c X) "" = false.
Proof. destruct a; reflexivity. Qed.

Lemma rtail_prefix d p :
  forallb noslashb d = true -> forallb noslashb p = true ->
  prefixb (rtail d) (rtail p) = true -> lprefixb d p = true.
Proof.
  revert p; induction d as [|a d IH]; intros p Hd Hp H; [reflexivity|].
  cbn in Hd. apply andb_true_iff in Hd. destruct Hd as [Ha Hd].
  destruct p as [|b p]; cbn in H.
  - rewrite prefixb_app_nonempty in H. discriminate.
  - cbn in Hp. apply andb_true_iff in Hp. destruct Hp as [Hb Hp].
    destruct (seg_prefix a b _ _ Ha Hb H) as [-> HX]. cbn. rewrite String.eqb_refl. cbn.
    apply IH; assumption.
Qed.

(* conversely a segment prefix is a character prefix *)
Lemma rtail_app a r : rtail (a ++ r)%list = rtail a ++ rtail r.
Proof.
  induction a as [|s a IH]; cbn; [reflexivity|]. rewrite IH.
  generalize (rtail a) (rtail r). intros X Y. induction s as [|c s IHs]; cbn; [reflexivity|].
  rewrite IHs. reflexivity.
Qed.

Lemma prefixb_append a r : prefixb a (a ++ r) = true.
Proof. apply PyStr.prefixb_refl. Qed.

Lemma within_rtail_prefix a p : within a p -> prefixb (rtail a) (rtail p) = true.
Proof. intros [r ->]. rewrite rtail_app. apply prefixb_append. Qed.

(* ---------------------------------------------------------------- segments never contain "/" *)
Lemma noslashb_app a b : noslashb (a ++ b) = noslashb a && noslashb b.
Proof. induction a as [|c a IH]; cbn; [reflexivity|]. rewrite IH. apply andb_assoc. Qed.

Lemma split_aux_noslash acc s :
  noslashb acc = true -> forallb noslashb (split_on_aux slash acc s) = true.
Proof.
  revert acc; induction s as [|c s IH]; intros acc Ha; cbn.
  - rewrite Ha; reflexivity.
  - destruct (Ascii.eqb c slash) eqn:E; cbn.
    + rewrite Ha. cbn. apply IH. reflexivity.
    + apply IH. rewrite noslashb_app, Ha. cbn. rewrite E. reflexivity.
Qed.

Lemma segs_noslash s : forallb noslashb (segs s) = true.
Proof. apply split_aux_noslash. reflexivity. Qed.

Lemma forallb_removelast {A} (f : A -> bool) l : forallb f l = true -> forallb f (removelast l) = true.
Proof.
  induction l as [|x l IH]; [reflexivity|]. intros H. cbn in H. apply andb_true_iff in H. destruct H as [Hx Hl].
  destruct l as [|y l]; [reflexivity|]. change (removelast (x :: y :: l)) with (x :: removelast (y :: l)).
  cbn [forallb]. rewrite Hx. cbn. apply IH. exact Hl.
Qed.

Lemma norm_onto_noslash base raw :
  forallb noslashb base = true -> forallb noslashb raw = true -> forallb noslashb (norm_onto base raw) = true.
Proof.
  revert base; induction raw as [|s r IH]; intros base Hb Hr; cbn; [assumption|].
  cbn in Hr. apply andb_true_iff in Hr. destruct Hr as [Hs Hr].
  destruct (skipseg s); [auto|]. destruct (dotdot s).
  - apply IH; [apply forallb_removelast; assumption|assumption].
  - apply IH; [|assumption]. rewrite forallb_app, Hb. cbn. rewrite Hs. reflexivity.
Qed.

Lemma join_norm_noslash d name :
  forallb noslashb d = true -> forallb noslashb (snd (join_norm d name)) = true.
Proof.
  intros Hd. unfold join_norm. destruct (is_abs name); cbn.
  - apply norm_onto_noslash; [reflexivity|apply segs_noslash].
  - apply norm_onto_noslash; [assumption|apply segs_noslash].
Qed.

Lemma gooddir_noslash d : gooddir d = true -> forallb noslashb d = true.
Proof.
  unfold gooddir. rewrite andb_true_iff. intros [_ H].
  rewrite forallb_forall in *. intros x Hx. specialize (H x Hx). unfold goodsegb in H.
  apply andb_true_iff in H. destruct H as [H _]. apply andb_true_iff in H. destruct H as [H _]. exact H.
Qed.

(* the repaired code's character-wise test implies the specified containment *)
Lemma inside_withinb d np :
  gooddir d = true -> forallb noslashb (snd np) = true ->
  inside_str (false, d) np = true -> withinb d np = true.
Proof.
  intros Hg Hp H. pose proof (gooddir_noslash d Hg) as Hd.
  destruct np as [b p]. unfold inside_str, rs, withinb in *. cbn [fst snd] in *.
  destruct b; cbn in H.
  - (* "//..." never begins with "/seg" *)
    exfalso. unfold gooddir in Hg. apply andb_true_iff in Hg. destruct Hg as [Hn Hg].
    destruct d as [|a d]; [discriminate|]. cbn in Hg. apply andb_true_iff in Hg. destruct Hg as [Ha _].
    unfold goodsegb in Ha. apply andb_true_iff in Ha. destruct Ha as [Ha _]. apply andb_true_iff in Ha.
    destruct Ha as [Hns Hsk]. destruct a as [|c a]; [discriminate|].
    cbn in H. cbn in Hns. apply andb_true_iff in Hns. destruct Hns as [Hc _].
    destruct (Ascii.eqb c slash) eqn:E; [discriminate|]. rewrite andb_false_r in H. discriminate.
  - cbn. apply rtail_prefix; assumption.
Qed.

Lemma member_ok_spec d links i m :
  gooddir d = true -> member_ok d links i m = true -> spec_member d m = true.
Proof.
  intros Hg H. pose proof (gooddir_noslash d Hg) as Hd.
  unfold member_ok in H. repeat (apply andb_true_iff in H; destruct H as [H ?]).
  rename H0 into Hk. rename H1 into Hthrough. rename H2 into Hin.
  unfold spec_member.
  assert (Hw : withinb d (mpath d m) = true).
  { apply inside_withinb; [assumption| apply join_norm_noslash; assumption | assumption]. }
  rewrite Hw. cbn.
  unfold mtarget in *. destruct (snd m) as [| |t|t]; try reflexivity.
  - apply inside_withinb; [assumption| |assumption].
    apply join_norm_noslash. apply forallb_removelast. apply join_norm_noslash; assumption.
  - repeat (apply andb_true_iff in Hk; destruct Hk as [Hk ?]).
    apply inside_withinb; [assumption| apply join_norm_noslash; assumption |assumption].
Qed.

Lemma check_from_spec d links i ms :
  gooddir d = true -> check_from d links i ms = true -> forallb (spec_member d) ms = true.
Proof.
  intros Hg. revert i; induction ms as [|m r IH]; intros i H; [reflexivity|].
  cbn in *. apply andb_true_iff in H. destruct H as [Hm Hr].
  rewrite (member_ok_spec d links i m Hg Hm). cbn. eapply IH; eassumption.
Qed.

Lemma coded_implies_spec d ms : gooddir d = true -> tar_check d ms = true -> spec_check d ms = true.
Proof. intros Hg H. eapply check_from_spec; eassumption. Qed.

Lemma stage_extract_safe d ms :
  gooddir d = true -> forall p, In p (stage_extract d ms) -> within d p.
Proof.
  intros Hg p Hin. unfold stage_extract in Hin. destruct (tar_check d ms) eqn:E; [|destruct Hin].
  eapply extract_safe; [apply coded_implies_spec; eassumption|eassumption].
Qed.

(* ---------------------------------------------------------------- copy / link *)
Lemma last_noslash l : forallb noslashb l = true -> noslashb (last l "") = true.
Proof.
  induction l as [|x l IH]; [reflexivity|]. intros H. cbn in H. apply andb_true_iff in H. destruct H as [Hx Hl].
  destruct l as [|y l]; [exact Hx|]. change (last (x :: y :: l) "") with (last (y :: l) ""). apply IH; exact Hl.
Qed.

Lemma basename_noslash s : noslashb (basename s) = true.
Proof. unfold basename. apply last_noslash. apply segs_noslash. Qed.

Lemma copy_link work src p :
  stage_entry work src = Some p ->
  p = (work ++ [basename src])%list /\ noslashb (basename src) = true /\
  skipseg (basename src) = false /\ dotdot (basename src) = false /\
  within work p /\ length p = S (length work).
Proof.
  unfold stage_entry, stage_name. intros H.
  destruct (skipseg (basename src) || dotdot (basename src)) eqn:E; [discriminate|].
  apply orb_false_iff in E. destruct E as [E1 E2]. inversion H; subst.
  repeat split; try assumption.
  - apply basename_noslash.
  - exists [basename src]; reflexivity.
  - rewrite app_length. cbn. lia.
Qed.

(* ---------------------------------------------------------------- manifests *)
Lemma norm_onto_clean base raw :
  existsb dotdot raw = false ->
  norm_onto base raw = (base ++ filter (fun s => negb (skipseg s)) raw)%list.
Proof.
  revert base; induction raw as [|s r IH]; intros base H; cbn.
  - symmetry; apply app_nil_r.
  - cbn in H. apply orb_false_iff in H. destruct H as [Hs Hr]. rewrite Hs.
    destruct (skipseg s); cbn; [apply IH; assumption|].
    rewrite IH by assumption. rewrite <- app_assoc. reflexivity.
Qed.

Lemma key_ok_kpath tgt k : key_ok k = true -> kpath tgt k = (tgt ++ clean k)%list.
Proof.
  unfold key_ok, kpath, join_norm, has_dotdot, clean. rewrite andb_true_iff. intros [Ha Hd].
  apply negb_true_iff in Ha. apply negb_true_iff in Hd. rewrite Ha. cbn. apply norm_onto_clean; assumption.
Qed.

Lemma validate_keys man : validate man = true -> forall e, In e man -> key_ok (fst e) = true.
Proof.
  unfold validate. rewrite andb_true_iff. intros [H _] e He. rewrite forallb_forall in H.
  specialize (H e He). apply andb_true_iff in H. tauto.
Qed.

Lemma manifest_safe tgt man :
  validate man = true -> forall e, In e man ->
  kpath tgt (fst e) = (tgt ++ clean (fst e))%list /\ within tgt (kpath tgt (fst e)).
Proof.
  intros Hv e He. pose proof (key_ok_kpath tgt _ (validate_keys man Hv e He)) as Hk.
  split; [exact Hk|]. rewrite Hk. exists (clean (fst e)); reflexivity.
Qed.

Lemma find_link_none links p :
  (forall lp lt rest, In (lp, lt) links -> lstrip lp p = Some rest -> rest = []) ->
  find_link true links p = None.
Proof.
  induction links as [|[lp lt] r IH]; intros H; cbn; [reflexivity|].
  assert (Hr : find_link true r p = None).
  { apply IH. intros lp0 lt0 rest Hin. apply (H lp0 lt0 rest). right; assumption. }
  destruct (lstrip lp p) as [rest|] eqn:E; [|exact Hr].
  rewrite (H lp lt rest (or_introl eq_refl) E). cbn. exact Hr.
Qed.

Lemma nrel_nonempty k : clean k <> [] -> nrel_slash k = rtail (clean k).
Proof. unfold nrel_slash. destruct (clean k); [intros H; contradiction|reflexivity]. Qed.

Lemma manifest_no_redirect tgt man :
  validate man = true -> deploy tgt man = map (fun e => (tgt ++ clean (fst e))%list) man.
Proof.
  intros Hv. unfold deploy. apply map_ext_in. intros e He.
  pose proof (validate_keys man Hv) as Hk.
  rewrite (key_ok_kpath tgt _ (Hk e He)).
  apply resolve_no_link. apply find_link_none. intros lp lt rest Hin Hs.
  unfold mlinks in Hin. apply in_flat_map in Hin. destruct Hin as [l [Hl Hin]].
  destruct (is_link l && negb (is_nil (clean (fst l)))) eqn:El; [|destruct Hin].
  destruct Hin as [Heq|[]]. inversion Heq; subst lp lt. clear Heq.
  apply andb_true_iff in El. destruct El as [Hlink Hne].
  rewrite (key_ok_kpath tgt _ (Hk l Hl)) in Hs.
  apply lstrip_some in Hs. rewrite <- app_assoc in Hs. apply app_inv_head in Hs.
  destruct (String.eqb (fst e) (fst l)) eqn:Ek.
  - apply String.eqb_eq in Ek. rewrite Ek in Hs.
    rewrite <- (app_nil_r (clean (fst l))) in Hs at 1. apply app_inv_head in Hs. symmetry; exact Hs.
  - exfalso. unfold validate in Hv. apply andb_true_iff in Hv. destruct Hv as [_ Hr].
    unfold link_rule in Hr. rewrite forallb_forall in Hr. specialize (Hr l Hl).
    rewrite Hlink in Hr. cbn in Hr. rewrite forallb_forall in Hr. specialize (Hr e He).
    rewrite Ek in Hr. cbn in Hr. apply negb_true_iff in Hr.
    assert (Hcl : clean (fst l) <> []).
    { intros C. rewrite C in Hne. discriminate. }
    assert (Hce : clean (fst e) <> []).
    { rewrite Hs. intros C. apply app_eq_nil in C. destruct C as [C _]. contradiction. }
    rewrite (nrel_nonempty _ Hcl), (nrel_nonempty _ Hce) in Hr.
    rewrite (within_rtail_prefix (clean (fst l)) (clean (fst e))) in Hr; [discriminate|].
    exists rest. exact Hs.
Qed.
