(* C18 — archives staged into a working directory that already contains symbolic links: for every archive
   accepted by the repaired check nothing is created through (or on top of) a pre-existing link or a link of
   the archive; the extraction creates exactly the lexical paths, which are inside the destination. *)
From Coq Require Import String Ascii List Bool Arith Lia.
Import ListNotations.
Require Import V.Lib.PyStr V.Path.Model V.Path.Proofs V.Path.Archive.
Open Scope string_scope.

Lemma list_eqb_eq a : forall b, list_eqb a b = true -> a = b.
Proof.
  induction a as [|x a IH]; intros [|y b] H; cbn in H; try discriminate; [reflexivity|].
  apply andb_true_iff in H. destruct H as [Hx Hr]. apply String.eqb_eq in Hx. subst. f_equal. apply IH; exact Hr.
Qed.

Lemma lprefixb_refl a : lprefixb a a = true.
Proof. apply lprefixb_within. apply within_refl. Qed.

(* two prefixes of the same path are comparable *)
Lemma prefix_comparable a : forall b p,
  lprefixb a p = true -> lprefixb b p = true -> lprefixb a b = true \/ lprefixb b a = true.
Proof.
  induction a as [|x a IH]; intros b p Ha Hb; [left; reflexivity|].
  destruct b as [|y b]; [right; reflexivity|].
  destruct p as [|z p]; [discriminate|]. cbn in Ha, Hb.
  apply andb_true_iff in Ha. destruct Ha as [Hx Ha]. apply andb_true_iff in Hb. destruct Hb as [Hy Hb].
  apply String.eqb_eq in Hx. apply String.eqb_eq in Hy. subst. cbn. rewrite String.eqb_refl. cbn.
  eapply IH; eassumption.
Qed.

Lemma find_link_app strict a b p :
  find_link strict (a ++ b)%list p =
  match find_link strict a p with Some q => Some q | None => find_link strict b p end.
Proof.
  induction a as [|[lp lt] a IH]; cbn; [reflexivity|].
  destruct (lstrip lp p) as [rest|]; [|exact IH].
  destruct (strict && is_nil rest); [exact IH|reflexivity].
Qed.

(* a path inside a real directory that passes through no link located below that directory passes through
   no link at all *)
Lemma no_pre_link strict pre d p :
  real_dir pre d = true -> within d p -> through_pre d pre p = false -> find_link strict pre p = None.
Proof.
  intros Hreal Hw Hthr. apply find_link_none_gen. intros lp lt rest Hin Hs. exfalso.
  assert (Hlp : lprefixb lp p = true).
  { apply lprefixb_within. exists rest. apply lstrip_some. exact Hs. }
  assert (Hd : lprefixb d p = true) by (apply lprefixb_within; exact Hw).
  unfold real_dir in Hreal. rewrite forallb_forall in Hreal. specialize (Hreal _ Hin). cbn in Hreal.
  apply negb_true_iff in Hreal.
  pose proof (existsb_false_in _ _ (lp, lt) Hthr Hin) as Hf. cbn [fst] in Hf. rewrite Hlp, andb_true_r in Hf.
  destruct (prefix_comparable d lp p Hd Hlp) as [Hc|Hc]; [|congruence].
  rewrite Hc in Hf. cbn in Hf. apply negb_false_iff in Hf. apply list_eqb_eq in Hf. subst lp.
  rewrite lprefixb_refl in Hreal. discriminate.
Qed.

Lemma lexical_within d ms : spec_check d ms = true -> forall p, In p (extract_lexical d ms) -> within d p.
Proof.
  intros Hs p Hin. unfold spec_check in Hs. rewrite forallb_forall in Hs.
  unfold extract_lexical in Hin. apply in_app_or in Hin. destruct Hin as [Hin|Hin].
  - apply in_map_iff in Hin. destruct Hin as [m [<- Hm]]. apply spec_member_path. apply Hs; exact Hm.
  - unfold hard_lexical in Hin. apply in_flat_map in Hin. destruct Hin as [m [Hm Hin]].
    destruct (snd m) eqn:Ek; try (destruct Hin; fail).
    destruct (mtarget d m) as [tp|] eqn:Et; [|destruct Hin]. destruct Hin as [<-|[]].
    eapply spec_member_target; [apply Hs; eassumption|eassumption].
Qed.

Section Accepted.
  Variables (pre : links) (d : list string) (ms : list member).
  Hypothesis Hg : gooddir d = true.
  Hypothesis Hreal : real_dir pre d = true.
  Hypothesis Hc : tar_check_pre pre d ms = true.

  Lemma pre_tar_check : tar_check d ms = true.
  Proof. unfold tar_check_pre in Hc. apply andb_true_iff in Hc. tauto. Qed.
  Lemma pre_member m : In m ms -> pre_member_ok d pre m = true.
  Proof.
    unfold tar_check_pre in Hc. apply andb_true_iff in Hc. destruct Hc as [_ H].
    rewrite forallb_forall in H. apply H.
  Qed.
  Lemma pre_spec : spec_check d ms = true.
  Proof. apply coded_implies_spec; [exact Hg|exact pre_tar_check]. Qed.

  Lemma pre_created m : In m ms -> created_pre pre d ms m = snd (mpath d m).
  Proof.
    intros Hm. unfold created_pre. apply resolve_no_link. rewrite find_link_app.
    pose proof (pre_member m Hm) as Hp. unfold pre_member_ok in Hp. apply andb_true_iff in Hp.
    destruct Hp as [Hp _]. apply negb_true_iff in Hp.
    rewrite (no_pre_link (is_sym m) pre d _ Hreal) ; [| |exact Hp].
    - apply (accepted_no_link d ms Hg pre_tar_check m Hm).
    - apply spec_member_path. pose proof pre_spec as Hs. unfold spec_check in Hs.
      rewrite forallb_forall in Hs. apply Hs; exact Hm.
  Qed.

  Lemma pre_hard m t tp :
    In m ms -> snd m = KHard t -> mtarget d m = Some tp ->
    resolve false (pre ++ linkmap d ms)%list link_fuel (snd tp) = snd tp.
  Proof.
    intros Hm Ek Et. apply resolve_no_link. rewrite find_link_app.
    pose proof (pre_member m Hm) as Hp. unfold pre_member_ok in Hp. apply andb_true_iff in Hp.
    destruct Hp as [_ Hp]. rewrite Ek, Et in Hp. apply negb_true_iff in Hp.
    rewrite (no_pre_link false pre d _ Hreal); [| |exact Hp].
    - apply (accepted_hard_no_link d ms Hg pre_tar_check m t tp Hm Ek Et).
    - pose proof pre_spec as Hs. unfold spec_check in Hs. rewrite forallb_forall in Hs.
      eapply spec_member_target; [apply Hs; exact Hm|exact Et].
  Qed.

  Lemma pre_extract : extract_pre pre d ms = extract_lexical d ms.
  Proof.
    unfold extract_pre, extract_lexical. f_equal.
    - apply map_ext_in. intros m Hm. apply pre_created. exact Hm.
    - unfold hard_targets_pre, hard_lexical.
      assert (G : forall l, incl l ms ->
        flat_map (fun m => match snd m with
                           | KHard _ => match mtarget d m with
                                        | Some tp => [resolve false (pre ++ linkmap d ms)%list link_fuel (snd tp)]
                                        | None => []
                                        end
                           | _ => []
                           end) l =
        flat_map (fun m => match snd m with
                           | KHard _ => match mtarget d m with Some tp => [snd tp] | None => [] end
                           | _ => []
                           end) l).
      { induction l as [|m l IH]; intros Hi; [reflexivity|]. cbn [flat_map].
        rewrite IH by (intros x Hx; apply Hi; right; exact Hx). f_equal.
        destruct (snd m) eqn:Ek; try reflexivity.
        destruct (mtarget d m) as [tp|] eqn:Et; [|reflexivity].
        rewrite (pre_hard m target tp); [reflexivity| apply Hi; left; reflexivity | exact Ek | exact Et]. }
      apply G. apply incl_refl.
  Qed.
End Accepted.

Lemma prelinks_no_redirect pre d ms :
  gooddir d = true -> real_dir pre d = true -> tar_check_pre pre d ms = true ->
  extract_pre pre d ms = extract_lexical d ms.
Proof. intros. apply pre_extract; assumption. Qed.

Lemma prelinks_confined pre d ms :
  gooddir d = true -> real_dir pre d = true -> forall p, In p (stage_extract_pre pre d ms) -> within d p.
Proof.
  intros Hg Hreal p Hin. unfold stage_extract_pre in Hin.
  destruct (tar_check_pre pre d ms) eqn:E; [|destruct Hin].
  rewrite (prelinks_no_redirect pre d ms Hg Hreal E) in Hin.
  eapply lexical_within; [|exact Hin]. apply (pre_spec pre d ms Hg E).
Qed.
