(* C18 — the files the deployment writes itself (conf/, conf/flowir_package.yaml or conf/dsl.yaml) are not
   written through a manifest target that is a link (repair of F18d). *)
From Coq Require Import String Ascii List Bool Arith Lia.
Import ListNotations.
Require Import V.Lib.PyStr V.Path.Model V.Path.Proofs V.Path.Archive.
Open Scope string_scope.

Lemma list_eqb_refl a : list_eqb a a = true.
Proof. induction a as [|x a IH]; cbn; [reflexivity|]. rewrite String.eqb_refl. exact IH. Qed.

Lemma conf_rule_link dsl man l :
  conf_rule dsl man = true -> In l man -> is_link l = true ->
  clean (fst l) <> ["conf"] /\ clean (fst l) <> ["conf"; conf_file dsl].
Proof.
  unfold conf_rule. intros H Hl Hk. rewrite forallb_forall in H. specialize (H l Hl).
  rewrite Hk in H. cbn in H. apply negb_true_iff in H. apply orb_false_iff in H. destruct H as [H1 H2].
  split; intros E; rewrite E, list_eqb_refl in *; discriminate.
Qed.

Section Accepted.
  Variables (dsl : bool) (tgt : list string) (man : list entry).
  Hypothesis Hok : deploy_ok dsl man = true.

  Lemma ok_validate : validate man = true.
  Proof. unfold deploy_ok in Hok. apply andb_true_iff in Hok. tauto. Qed.
  Lemma ok_conf : conf_rule dsl man = true.
  Proof. unfold deploy_ok in Hok. apply andb_true_iff in Hok. tauto. Qed.

  (* a link of the manifest is neither conf, nor the package file, nor anything they pass through *)
  Lemma no_link_on_conf strict (q : list string) :
    (q = ["conf"] \/ q = ["conf"; conf_file dsl]) ->
    find_link strict (mlinks tgt man) (tgt ++ q)%list = None.
  Proof.
    intros Hq. apply find_link_none_gen. intros lp lt rest Hin Hs. exfalso.
    unfold mlinks in Hin. apply in_flat_map in Hin. destruct Hin as [l [Hl Hin]].
    destruct (is_link l && negb (is_nil (clean (fst l)))) eqn:El; [|destruct Hin].
    destruct Hin as [Heq|[]]. inversion Heq; subst lp lt. clear Heq.
    apply andb_true_iff in El. destruct El as [Hlink Hne].
    rewrite (key_ok_kpath tgt _ (validate_keys man ok_validate l Hl)) in Hs.
    apply lstrip_some in Hs. rewrite <- app_assoc in Hs. apply app_inv_head in Hs.
    destruct (conf_rule_link dsl man l ok_conf Hl Hlink) as [N1 N2].
    destruct (clean (fst l)) as [|a [|b [|c r]]] eqn:Ec; [discriminate| | |].
    - (* one segment *)
      destruct Hq as [-> | ->]; cbn in Hs; inversion Hs; subst; apply N1; reflexivity.
    - (* two segments *)
      destruct Hq as [-> | ->]; cbn in Hs; inversion Hs; subst. apply N2; reflexivity.
    - destruct Hq as [-> | ->]; cbn in Hs; inversion Hs.
  Qed.

  Lemma deploy_self_lexical :
    deploy_self dsl tgt man =
    ((if has_conf_key man then [] else [tgt ++ ["conf"]]) ++ [tgt ++ ["conf"; conf_file dsl]])%list.
  Proof.
    unfold deploy_self.
    rewrite (resolve_no_link true _ _ _ (no_link_on_conf true ["conf"] (or_introl eq_refl))).
    rewrite (resolve_no_link false _ _ _ (no_link_on_conf false ["conf"; conf_file dsl] (or_intror eq_refl))).
    reflexivity.
  Qed.

  Lemma deploy_all_lexical :
    deploy_all dsl tgt man =
    (map (fun e => (tgt ++ clean (fst e))%list) man ++
     (if has_conf_key man then [] else [tgt ++ ["conf"]]) ++ [tgt ++ ["conf"; conf_file dsl]])%list.
  Proof.
    unfold deploy_all. rewrite Hok. rewrite deploy_self_lexical.
    rewrite (manifest_no_redirect tgt man ok_validate). reflexivity.
  Qed.
End Accepted.

Lemma deploy_all_safe dsl tgt man : forall p, In p (deploy_all dsl tgt man) -> within tgt p.
Proof.
  intros p Hin. destruct (deploy_ok dsl man) eqn:Hok.
  - rewrite (deploy_all_lexical dsl tgt man Hok) in Hin.
    apply in_app_or in Hin. destruct Hin as [Hin|Hin].
    + apply in_map_iff in Hin. destruct Hin as [e [<- _]]. exists (clean (fst e)); reflexivity.
    + apply in_app_or in Hin. destruct Hin as [Hin|Hin].
      * destruct (has_conf_key man); [destruct Hin|]. destruct Hin as [<-|[]]. exists ["conf"]; reflexivity.
      * destruct Hin as [<-|[]]. exists ["conf"; conf_file dsl]; reflexivity.
  - unfold deploy_all in Hin. rewrite Hok in Hin. destruct Hin.
Qed.

(* ---------------------------------------------------------------- migrated components *)
Lemma migrated work src p :
  migrate_entry work src = Some p ->
  p = (removelast work ++ [basename src])%list /\ noslashb (basename src) = true /\
  skipseg (basename src) = false /\ dotdot (basename src) = false /\
  within (removelast work) p /\ length p = S (length (removelast work)) /\
  (work <> [] -> (p = work <-> basename src = last work "")).
Proof.
  unfold migrate_entry. intros H. destruct (copy_link _ _ _ H) as [Hp [Hn [Hs [Hd [Hw Hl]]]]].
  repeat split; try assumption.
  - intros E. rewrite Hp in E. rewrite (app_removelast_last "" H0) in E at 2.
    apply app_inv_head in E. inversion E. reflexivity.
  - intros E. rewrite Hp, E. symmetry. apply app_removelast_last. exact H0.
Qed.
