(* C18 — SEQUENCES of references staged into one working directory: whatever the earlier references (or an earlier
   run) left in the directory — links of :link references, links re-created by copytree, link members of archives —
   no later :copy, :link or :extract creates or writes anything through one of them; everything stays inside. *)
From Coq Require Import String Ascii List Bool Arith Lia.
Import ListNotations.
Require Import V.Lib.PyStr V.Path.Model V.Path.Proofs V.Path.Archive V.Path.Deploy V.Path.PreLinks V.Path.CopyTree.
Open Scope string_scope.

Lemma list_eqb_neq a b : list_eqb a b = false -> a <> b.
Proof. intros H E. subst. rewrite list_eqb_refl in H. discriminate. Qed.

(* a prefix of d/b is a prefix of d, or d/b itself *)
Lemma prefix_of_snoc b : forall d lp,
  lprefixb lp (d ++ [b])%list = true -> lprefixb lp d = true \/ lp = (d ++ [b])%list.
Proof.
  induction d as [|z d IH]; intros [|x lp] H; try (left; reflexivity).
  - cbn in H. apply andb_true_iff in H. destruct H as [Hx Hl]. apply String.eqb_eq in Hx. subst.
    destruct lp; [right; reflexivity|discriminate].
  - cbn in H. apply andb_true_iff in H. destruct H as [Hx Hl]. apply String.eqb_eq in Hx. subst.
    destruct (IH lp Hl) as [Hp|Hp].
    + left. cbn. rewrite String.eqb_refl. exact Hp.
    + right. cbn. rewrite Hp. reflexivity.
Qed.

(* something strictly inside d is not d or a directory on the way to d *)
Lemma inside_not_above d p : within d p -> p <> d -> lprefixb p d = false.
Proof.
  intros [r ->] Hne. destruct (lprefixb (d ++ r)%list d) eqn:E; [|reflexivity]. exfalso.
  apply lprefixb_within in E. destruct E as [r' E]. rewrite <- app_assoc in E.
  rewrite <- (app_nil_r d) in E at 1. apply app_inv_head in E. symmetry in E. apply app_eq_nil in E.
  destruct E as [-> _]. apply Hne. apply app_nil_r.
Qed.

Lemma real_dir_app a b d : real_dir (a ++ b)%list d = real_dir a d && real_dir b d.
Proof. unfold real_dir. apply forallb_app. Qed.

Lemma links_of_app a b : links_of (a ++ b)%list = (links_of a ++ links_of b)%list.
Proof. unfold links_of. apply flat_map_app. Qed.

Lemma in_links_of st p t : In (p, ELink t) st -> In (p, t) (links_of st).
Proof.
  intros H. unfold links_of. apply in_flat_map. exists (p, ELink t). split; [exact H|left; reflexivity].
Qed.

(* the links a step adds are strictly inside d: the directory stays real *)
Definition LinksInside (d : list string) (new : list fsent) : Prop :=
  forall p t, In (p, ELink t) new -> within d p /\ p <> d.

Lemma real_dir_new d new : LinksInside d new -> real_dir (links_of new) d = true.
Proof.
  intros H. unfold real_dir. apply forallb_forall. intros [lp lt] Hin. cbn.
  apply links_of_in in Hin. destruct (H lp lt Hin) as [Hw Hne]. rewrite (inside_not_above d lp Hw Hne). reflexivity.
Qed.

(* ---------------------------------------------------------------- d/name is reached through no link *)
Lemma child_no_link strict st d b :
  real_dir (links_of st) d = true -> (strict = true \/ link_at st (d ++ [b])%list = false) ->
  find_link strict (links_of st) (d ++ [b])%list = None.
Proof.
  intros Hreal Hs. apply find_link_none_gen. intros lp lt rest Hin Hstrip.
  assert (Hp : lprefixb lp (d ++ [b])%list = true).
  { apply lprefixb_within. exists rest. apply lstrip_some. exact Hstrip. }
  unfold real_dir in Hreal. rewrite forallb_forall in Hreal. specialize (Hreal _ Hin). cbn in Hreal.
  apply negb_true_iff in Hreal.
  destruct (prefix_of_snoc b d lp Hp) as [Hd|He]; [congruence|]. subst lp.
  apply lstrip_self_rest in Hstrip. subst rest.
  destruct Hs as [Hs|Hs]; [split; [exact Hs|reflexivity]|]. exfalso.
  unfold link_at in Hs. pose proof (existsb_false_in _ _ _ Hs Hin) as Hf. cbn in Hf.
  rewrite list_eqb_refl in Hf. discriminate.
Qed.

Lemma fs_res_child strict st d b :
  real_dir (links_of st) d = true -> (strict = true \/ link_at st (d ++ [b])%list = false) ->
  fs_res true strict (links_of st) (d ++ [b])%list = fs_res false strict (links_of st) (d ++ [b])%list.
Proof. intros Hr Hs. unfold fs_res. apply resolve_no_link. apply child_no_link; assumption. Qed.

(* ---------------------------------------------------------------- one step: following links changes nothing *)
Lemma step_no_redirect d st r :
  gooddir d = true -> real_dir (links_of st) d = true -> sstep true true d st r = sstep false true d st r.
Proof.
  intros Hg Hreal. destruct r as [src|src tr|src|ms]; cbn [sstep].
  - unfold copy_file_step. destruct (stage_entry d src) as [p|] eqn:E; [|reflexivity].
    apply copy_link in E. destruct E as [-> _]. cbn [andb].
    destruct (link_at st (d ++ [basename src])%list) eqn:El; [reflexivity|].
    rewrite (fs_res_child false st d (basename src) Hreal (or_intror El)). reflexivity.
  - unfold copy_dir_step. destruct (stage_entry d src) as [p|] eqn:E; [|reflexivity].
    apply copy_link in E. destruct E as [-> _].
    rewrite (fs_res_child true st d (basename src) Hreal (or_introl eq_refl)). reflexivity.
  - unfold link_step. destruct (stage_entry d src) as [p|] eqn:E; [|reflexivity].
    apply copy_link in E. destruct E as [-> _].
    rewrite (fs_res_child true st d (basename src) Hreal (or_introl eq_refl)). reflexivity.
  - unfold extract_step. destruct (tar_check_pre (links_of st) d ms) eqn:Ec; [|reflexivity].
    rewrite (prelinks_no_redirect (links_of st) d ms Hg Hreal Ec). reflexivity.
Qed.

(* ---------------------------------------------------------------- the entries a step adds *)
Lemma mkdirs_edir tgt st x p k : In (p, k) (mkdirs tgt st x) -> k = EDir.
Proof.
  unfold mkdirs. destruct (lstrip tgt x) as [rest|]; intros H.
  - apply in_map_iff in H. destruct H as [q [E _]]. inversion E; reflexivity.
  - destruct H as [E|[]]. inversion E; reflexivity.
Qed.

Lemma ext_add_links d st ms : forall new ex,
  spec_check d ms = true -> LinksInside d new -> LinksInside d (fst (fold_left (ext_add d st) ms (new, ex))).
Proof.
  induction ms as [|m ms IH]; intros new ex Hs Hn; [exact Hn|].
  cbn [fold_left]. unfold spec_check in Hs. cbn [forallb] in Hs. apply andb_true_iff in Hs. destruct Hs as [Hm Hs].
  unfold ext_add at 2.
  destruct (list_eqb (snd (mpath d m)) d) eqn:Ed; [apply IH; assumption|].
  apply IH; [exact Hs|]. intros p t Hin.
  apply in_app_or in Hin. destruct Hin as [Hin|Hin]; [apply Hn with t; exact Hin|].
  apply in_app_or in Hin. destruct Hin as [Hin|Hin]; [apply mkdirs_edir in Hin; discriminate|].
  destruct (known d _ (snd (mpath d m))); [destruct Hin|]. destruct Hin as [E|[]]. inversion E; subst.
  split; [apply spec_member_path; exact Hm|apply list_eqb_neq; exact Ed].
Qed.

Lemma child_inside d b : within d (d ++ [b])%list /\ (d ++ [b])%list <> d.
Proof.
  split; [exists [b]; reflexivity|]. intros E. apply (f_equal (@length string)) in E. rewrite app_length in E. cbn in E. lia.
Qed.

Lemma step_links d st r :
  gooddir d = true -> LinksInside d (fst (fst (fst (sstep false true d st r)))).
Proof.
  intros Hg. destruct r as [src|src tr|src|ms]; cbn [sstep].
  - unfold copy_file_step. destruct (stage_entry d src) as [p|]; [|intros p t []].
    destruct (true && link_at st p); [intros q t []|]. cbn [fs_res].
    destruct (list_eqb p d || dir_at st p || blocked st p); [intros q t []|]. cbn.
    destruct (known d st p); intros q t Hin; [destruct Hin|]. destruct Hin as [E|[]]. inversion E.
  - unfold copy_dir_step. destruct (stage_entry d src) as [p|] eqn:E; [|intros p t []].
    apply copy_link in E. destruct E as [-> _]. cbn [fs_res].
    destruct (known d st (d ++ [basename src])%list); [intros q t []|]. cbn. intros q t Hin.
    destruct Hin as [E|Hin]; [inversion E|].
    apply copy_entries_path in Hin. destruct Hin as [rel ->]. split.
    + exists ([basename src] ++ rel)%list. rewrite app_assoc. reflexivity.
    + intros E. apply (f_equal (@length string)) in E. rewrite !app_length in E. cbn in E. lia.
  - unfold link_step. destruct (stage_entry d src) as [p|] eqn:E; [|intros p t []].
    apply copy_link in E. destruct E as [-> _]. cbn [fs_res].
    destruct (known d st (d ++ [basename src])%list); [intros q t []|]. cbn. intros q t Hin.
    destruct Hin as [E|[]]. inversion E; subst. apply child_inside.
  - unfold extract_step. destruct (tar_check_pre (links_of st) d ms) eqn:Ec; [|intros p t []].
    pose proof (ext_add_links d st ms [] true (pre_spec (links_of st) d ms Hg Ec)) as H.
    destruct (fold_left (ext_add d st) ms ([], true)) as [new exact]. cbn in *. apply H. intros p t [].
Qed.

(* ---------------------------------------------------------------- what one (lexical) step writes *)
Lemma step_writes d st r :
  gooddir d = true -> forall p, In p (snd (fst (fst (sstep false true d st r)))) -> within d p.
Proof.
  intros Hg. destruct r as [src|src tr|src|ms]; cbn [sstep].
  - unfold copy_file_step. destruct (stage_entry d src) as [p|] eqn:E; [|intros p []].
    apply copy_link in E. destruct E as [-> _].
    destruct (true && link_at st _); [intros q []|]. cbn [fs_res].
    destruct (list_eqb _ d || dir_at st _ || blocked st _); [intros q []|]. cbn.
    intros q [<-|[]]. apply child_inside.
  - unfold copy_dir_step. destruct (stage_entry d src) as [p|] eqn:E; [|intros p []].
    apply copy_link in E. destruct E as [-> _]. cbn [fs_res].
    destruct (known d st _); [intros q []|]. cbn. intros q [<-|Hin]; [apply child_inside|].
    apply in_map_iff in Hin. destruct Hin as [[q' k] [<- Hin]]. cbn.
    apply copy_entries_path in Hin. destruct Hin as [rel ->]. apply within_app. apply child_inside.
  - unfold link_step. destruct (stage_entry d src) as [p|] eqn:E; [|intros p []].
    apply copy_link in E. destruct E as [-> _]. cbn [fs_res].
    destruct (known d st _); [intros q []|]. cbn. intros q [<-|[]]. apply child_inside.
  - unfold extract_step. destruct (tar_check_pre (links_of st) d ms) eqn:Ec; [|intros p []].
    destruct (fold_left (ext_add d st) ms ([], true)) as [new exact]. cbn.
    apply lexical_within. apply (pre_spec (links_of st) d ms Hg Ec).
Qed.

(* ---------------------------------------------------------------- sequences *)
Lemma seq_no_redirect d stop refs : forall st ex,
  gooddir d = true -> real_dir (links_of st) d = true ->
  run_refs true true stop d st ex refs = run_refs false true stop d st ex refs.
Proof.
  induction refs as [|r refs IH]; intros st ex Hg Hreal; [reflexivity|].
  cbn [run_refs]. rewrite (step_no_redirect d st r Hg Hreal).
  pose proof (step_links d st r Hg) as Hl.
  destruct (sstep false true d st r) as [[[new w] c] e]. cbn in Hl.
  rewrite IH; [reflexivity|exact Hg|].
  rewrite links_of_app, real_dir_app, Hreal. apply real_dir_new. exact Hl.
Qed.

Lemma seq_lexical_confined d stop refs : forall st ex,
  gooddir d = true -> forall p, In p (seq_writes (run_refs false true stop d st ex refs)) -> within d p.
Proof.
  induction refs as [|r refs IH]; intros st ex Hg p Hin; [destruct Hin|].
  cbn [run_refs] in Hin. pose proof (step_writes d st r Hg) as Hw.
  destruct (sstep false true d st r) as [[[new w] c] e]. cbn in Hw.
  destruct (stop && negb (Nat.eqb c 0)); [apply Hw; exact Hin|].
  specialize (IH (st ++ new)%list (ex && e) Hg).
  destruct (run_refs false true stop d (st ++ new)%list (ex && e) refs) as [[st' w'] cs].
  unfold seq_writes in *. cbn in *. apply in_app_or in Hin. destruct Hin as [Hin|Hin]; [apply Hw; exact Hin|apply IH; exact Hin].
Qed.

Lemma seq_confined d st stop refs :
  gooddir d = true -> real_dir (links_of st) d = true ->
  forall p, In p (seq_writes (stage_seq d st stop refs)) -> within d p.
Proof.
  intros Hg Hreal p Hin. unfold stage_seq in Hin. rewrite (seq_no_redirect d stop refs st true Hg Hreal) in Hin.
  eapply seq_lexical_confined; eassumption.
Qed.

(* the working directory stays real: after the sequence no link is d or a directory on the way to d *)
Lemma seq_stays_real d stop refs : forall st ex,
  gooddir d = true -> real_dir (links_of st) d = true ->
  real_dir (links_of (seq_state (run_refs false true stop d st ex refs))) d = true.
Proof.
  induction refs as [|r refs IH]; intros st ex Hg Hreal; [exact Hreal|].
  cbn [run_refs]. pose proof (step_links d st r Hg) as Hl.
  destruct (sstep false true d st r) as [[[new w] c] e]. cbn in Hl.
  assert (Hr : real_dir (links_of (st ++ new)%list) d = true).
  { rewrite links_of_app, real_dir_app, Hreal. apply real_dir_new. exact Hl. }
  destruct (stop && negb (Nat.eqb c 0)); [exact Hr|].
  specialize (IH (st ++ new)%list (ex && e) Hg Hr).
  destruct (run_refs false true stop d (st ++ new)%list (ex && e) refs) as [[st' w'] cs]. exact IH.
Qed.
