(* C18 — the CONTENT of copied source folders: a :copy of a folder that holds symbolic links (at any depth, to
   directories, files or nothing, absolute or relative, leading inside or outside the folder) brings real
   directories and files into the instance, so no later manifest entry — in particular one whose key is a nested
   path below such an entry — is populated through a link, and the whole deployment stays beneath the instance. *)
From Coq Require Import String Ascii List Bool Arith Lia.
Import ListNotations.
Require Import V.Lib.PyStr V.Path.Model V.Path.Proofs V.Path.Archive V.Path.Deploy.
Open Scope string_scope.

(* every link of the state is the target of a :link entry of [done], at its lexical place, and is not the instance *)
Definition Inv (tgt : list string) (done : list entry) (st : list fsent) : Prop :=
  forall p t, In (p, ELink t) st ->
  exists l, In l done /\ is_link l = true /\ clean (fst l) <> [] /\ p = (tgt ++ clean (fst l))%list.
Definition Within (tgt : list string) (st : list fsent) : Prop := forall p k, In (p, k) st -> within tgt p.

Lemma inv_mono tgt done done' st : incl done done' -> Inv tgt done st -> Inv tgt done' st.
Proof.
  intros Hi H p t Hin. destruct (H p t Hin) as [l [Hl R]]. exists l. split; [apply Hi; exact Hl|exact R].
Qed.

Lemma links_of_in st lp lt : In (lp, lt) (links_of st) -> In (lp, ELink lt) st.
Proof.
  unfold links_of. intros H. apply in_flat_map in H. destruct H as [[p k] [Hx Hin]].
  destruct k as [| |t]; cbn in Hin; try contradiction. destruct Hin as [E|[]]. inversion E; subst. exact Hx.
Qed.

Lemma nodup_keys_cons e r :
  nodup_keys (e :: r) = negb (existsb (fun x : entry => String.eqb (fst x) (fst e)) r) && nodup_keys r.
Proof. reflexivity. Qed.

Lemma nodup_keys_mid done e rest :
  nodup_keys (done ++ e :: rest)%list = true -> forall l, In l done -> String.eqb (fst e) (fst l) = false.
Proof.
  induction done as [|d done IH]; intros H l Hl; [destruct Hl|].
  rewrite <- app_comm_cons, nodup_keys_cons in H. apply andb_true_iff in H. destruct H as [Hd Hr].
  destruct Hl as [E0|Hl]; [subst d|apply IH; assumption].
  apply negb_true_iff in Hd.
  destruct (String.eqb (fst e) (fst l)) eqn:E; [|reflexivity].
  exfalso. assert (X : existsb (fun x : entry => String.eqb (fst x) (fst l)) (done ++ e :: rest)%list = true).
  { apply existsb_exists. exists e. split; [apply in_or_app; right; left; reflexivity|exact E]. }
  rewrite X in Hd. discriminate.
Qed.

(* the link rule of Manifest.validate, segment-wise: no other key is, or lies below, a key that is a link *)
Lemma link_no_prefix man l e rest :
  validate man = true -> In l man -> In e man -> is_link l = true -> clean (fst l) <> [] ->
  String.eqb (fst e) (fst l) = false -> clean (fst e) = (clean (fst l) ++ rest)%list -> False.
Proof.
  intros Hv Hl He Hlink Hcl Ek Hs.
  unfold validate in Hv. apply andb_true_iff in Hv. destruct Hv as [_ Hr].
  unfold link_rule in Hr. rewrite forallb_forall in Hr. specialize (Hr l Hl).
  rewrite Hlink in Hr. cbn in Hr. rewrite forallb_forall in Hr. specialize (Hr e He).
  rewrite Ek in Hr. cbn in Hr. apply negb_true_iff in Hr.
  assert (Hce : clean (fst e) <> []).
  { rewrite Hs. intros C. apply app_eq_nil in C. destruct C as [C _]. contradiction. }
  rewrite (nrel_nonempty _ Hcl), (nrel_nonempty _ Hce) in Hr.
  rewrite (within_rtail_prefix (clean (fst l)) (clean (fst e))) in Hr; [discriminate|].
  exists rest. exact Hs.
Qed.

Lemma copy_follow_nolink at_ t p k : In (p, k) (copy_entries false at_ t) -> exists rel, p = (at_ ++ rel)%list /\ (k = EDir \/ k = EFile).
Proof.
  unfold copy_entries. intros H. apply in_flat_map in H. destruct H as [[rel sk] [_ Hin]]. cbn in Hin.
  exists rel. destruct sk as [| |text [[|]|]]; cbn in Hin; try contradiction;
    destruct Hin as [E|[]]; inversion E; subst; auto.
Qed.

Lemma copy_entries_path preserve at_ t p k : In (p, k) (copy_entries preserve at_ t) -> exists rel, p = (at_ ++ rel)%list.
Proof.
  unfold copy_entries. intros H. apply in_flat_map in H. destruct H as [[rel sk] [_ Hin]]. cbn in Hin.
  exists rel. destruct (preserve && below_slnk t rel); [destruct Hin|].
  destruct sk as [| |text sees]; [| |destruct preserve; [|destruct sees as [[|]|]]]; cbn in Hin; try contradiction;
    destruct Hin as [E|[]]; inversion E; subst; reflexivity.
Qed.

Lemma mkdirs_within tgt st c p k : In (p, k) (mkdirs tgt st (tgt ++ c)%list) -> within tgt p /\ k = EDir.
Proof.
  unfold mkdirs. rewrite lstrip_app. intros H. apply in_map_iff in H. destruct H as [q [E _]].
  inversion E; subst. split; [exists q; reflexivity|reflexivity].
Qed.

Section Manifest.
  Variables (dsl : bool) (srcs : sources) (tgt : list string) (man : list entry).
  Hypothesis Hok : deploy_ok dsl man = true.
  Hypothesis Hnd : nodup_keys man = true.

  Let Hv : validate man = true := ok_validate dsl man Hok.

  (* the place of an entry is not reached through a link made so far *)
  Lemma inv_no_link strict done e rest st :
    man = (done ++ e :: rest)%list -> Inv tgt done st ->
    find_link strict (links_of st) (tgt ++ clean (fst e))%list = None.
  Proof.
    intros Hm Hinv. apply find_link_none_gen. intros lp lt r Hin Hs. exfalso.
    apply links_of_in in Hin. destruct (Hinv lp lt Hin) as [l [Hl [Hlink [Hcl ->]]]].
    apply lstrip_some in Hs. rewrite <- app_assoc in Hs. apply app_inv_head in Hs.
    assert (Hlm : In l man) by (rewrite Hm; apply in_or_app; left; exact Hl).
    assert (Hem : In e man) by (rewrite Hm; apply in_or_app; right; left; reflexivity).
    rewrite Hm in Hnd.
    exact (link_no_prefix man l e r Hv Hlm Hem Hlink Hcl (nodup_keys_mid done e rest Hnd l Hl) Hs).
  Qed.

  Lemma step_lex_eq preserve done e rest st :
    man = (done ++ e :: rest)%list -> Inv tgt done st ->
    step res_fs preserve srcs tgt st e = step res_lex preserve srcs tgt st e.
  Proof.
    intros Hm Hinv.
    assert (Hem : In e man) by (rewrite Hm; apply in_or_app; right; left; reflexivity).
    unfold step, res_fs, res_lex. rewrite (key_ok_kpath tgt _ (validate_keys man Hv e Hem)).
    rewrite (resolve_no_link true _ link_fuel _ (inv_no_link true done e rest st Hm Hinv)).
    rewrite (resolve_no_link false _ link_fuel _ (inv_no_link false done e rest st Hm Hinv)).
    reflexivity.
  Qed.

  Lemma step_inv done e st :
    In e man -> Inv tgt done st -> Inv tgt (done ++ [e])%list (fst (step res_lex false srcs tgt st e)).
  Proof.
    intros Hem Hinv.
    assert (Hold : Inv tgt (done ++ [e])%list st) by (eapply inv_mono; [apply incl_appl, incl_refl|exact Hinv]).
    unfold step, res_lex. rewrite (key_ok_kpath tgt _ (validate_keys man Hv e Hem)).
    destruct (is_link e) eqn:El.
    - destruct (known tgt st (tgt ++ clean (fst e))%list || negb (parent_ok tgt st (tgt ++ clean (fst e))%list)
                || skipseg (basename (fst e))) eqn:Ek; [exact Hold|]. cbn [fst].
      apply orb_false_iff in Ek. destruct Ek as [Ek _]. apply orb_false_iff in Ek. destruct Ek as [Ek _].
      unfold known in Ek. apply orb_false_iff in Ek. destruct Ek as [Ek _].
      intros p t Hin. apply in_app_or in Hin. destruct Hin as [Hin|Hin]; [exact (Hold p t Hin)|].
      destruct Hin as [E|[]]. inversion E; subst. exists e.
      split; [apply in_or_app; right; left; reflexivity|]. split; [exact El|]. split; [|reflexivity].
      intros C. rewrite C, app_nil_r, list_eqb_refl in Ek. discriminate.
    - destruct (lookup_src srcs (source_of (snd e))) as [t|]; [|exact Hold].
      destruct (known tgt st (tgt ++ clean (fst e))%list || blocked st (tgt ++ clean (fst e))%list); [exact Hold|]. cbn [fst].
      intros p t0 Hin. apply in_app_or in Hin. destruct Hin as [Hin|Hin]; [exact (Hold p t0 Hin)|].
      apply in_app_or in Hin. destruct Hin as [Hin|Hin]; exfalso.
      + apply mkdirs_within in Hin. destruct Hin as [_ Hin]. discriminate.
      + apply copy_follow_nolink in Hin. destruct Hin as [_ [_ [Hin|Hin]]]; discriminate.
  Qed.

  Lemma step_within preserve e st :
    In e man -> Within tgt st -> Within tgt (fst (step res_lex preserve srcs tgt st e)).
  Proof.
    intros Hem Hw. unfold step, res_lex. rewrite (key_ok_kpath tgt _ (validate_keys man Hv e Hem)).
    destruct (is_link e).
    - destruct (known tgt st _ || negb (parent_ok tgt st _) || skipseg _); [exact Hw|]. cbn [fst].
      intros p k Hin. apply in_app_or in Hin. destruct Hin as [Hin|[E|[]]]; [exact (Hw p k Hin)|].
      inversion E; subst. exists (clean (fst e)); reflexivity.
    - destruct (lookup_src srcs (source_of (snd e))) as [t|]; [|exact Hw].
      destruct (known tgt st _ || blocked st _); [exact Hw|]. cbn [fst].
      intros p k Hin. apply in_app_or in Hin. destruct Hin as [Hin|Hin]; [exact (Hw p k Hin)|].
      apply in_app_or in Hin. destruct Hin as [Hin|Hin].
      + apply mkdirs_within in Hin. tauto.
      + apply copy_entries_path in Hin. destruct Hin as [rel ->]. apply within_app. exists (clean (fst e)); reflexivity.
  Qed.

  Lemma run_lex rest : forall done st,
    man = (done ++ rest)%list -> Inv tgt done st -> Within tgt st ->
    run_entries res_fs false srcs tgt st rest = run_entries res_lex false srcs tgt st rest /\
    Inv tgt man (fst (run_entries res_lex false srcs tgt st rest)) /\
    Within tgt (fst (run_entries res_lex false srcs tgt st rest)).
  Proof.
    induction rest as [|e r IH]; intros done st Hm Hinv Hw.
    - cbn. rewrite app_nil_r in Hm. subst done. auto.
    - assert (Hem : In e man) by (rewrite Hm; apply in_or_app; right; left; reflexivity).
      cbn [run_entries]. rewrite (step_lex_eq false done e r st Hm Hinv).
      pose proof (step_inv done e st Hem Hinv) as Hi. pose proof (step_within false e st Hem Hw) as Hw'.
      assert (Hm' : man = ((done ++ [e]) ++ r)%list) by (rewrite <- app_assoc; exact Hm).
      destruct (step res_lex false srcs tgt st e) as [st' ok]. cbn [fst] in Hi, Hw'.
      destruct ok.
      + apply IH with (done := (done ++ [e])%list); assumption.
      + cbn [fst]. split; [reflexivity|]. split; [|exact Hw'].
        eapply inv_mono; [|exact Hi]. rewrite Hm'. apply incl_appl, incl_refl.
  Qed.

  (* conf and the package file are not reached through a link of the state *)
  Lemma inv_no_link_conf strict st (q : list string) :
    Inv tgt man st -> (q = ["conf"] \/ q = ["conf"; conf_file dsl]) ->
    find_link strict (links_of st) (tgt ++ q)%list = None.
  Proof.
    intros Hinv Hq. apply find_link_none_gen. intros lp lt rest Hin Hs. exfalso.
    apply links_of_in in Hin. destruct (Hinv lp lt Hin) as [l [Hl [Hlink [Hcl ->]]]].
    apply lstrip_some in Hs. rewrite <- app_assoc in Hs. apply app_inv_head in Hs.
    destruct (conf_rule_link dsl man l (ok_conf dsl man Hok) Hl Hlink) as [N1 N2].
    destruct (clean (fst l)) as [|a [|b [|c r]]] eqn:Ec; [apply Hcl; reflexivity| | |].
    - destruct Hq as [-> | ->]; cbn in Hs; inversion Hs; subst; apply N1; reflexivity.
    - destruct Hq as [-> | ->]; cbn in Hs; inversion Hs; subst. apply N2; reflexivity.
    - destruct Hq as [-> | ->]; cbn in Hs; inversion Hs.
  Qed.

  Lemma inv_add st p k : Inv tgt man st -> (forall t, k <> ELink t) -> Inv tgt man (st ++ [(p, k)])%list.
  Proof.
    intros Hinv Hk q t Hin. apply in_app_or in Hin. destruct Hin as [Hin|[E|[]]]; [exact (Hinv q t Hin)|].
    inversion E; subst. exfalso. exact (Hk t eq_refl).
  Qed.

  Lemma within_add st p k : Within tgt st -> within tgt p -> Within tgt (st ++ [(p, k)])%list.
  Proof.
    intros Hw Hp q k' Hin. apply in_app_or in Hin. destruct Hin as [Hin|[E|[]]]; [exact (Hw q k' Hin)|].
    inversion E; subst. exact Hp.
  Qed.

  Lemma self_lex st :
    Inv tgt man st -> Within tgt st ->
    self_step res_fs dsl tgt man st = self_step res_lex dsl tgt man st /\
    Inv tgt man (fst (self_step res_lex dsl tgt man st)) /\ Within tgt (fst (self_step res_lex dsl tgt man st)).
  Proof.
    intros Hinv Hw.
    assert (Hst1 : Inv tgt man (if has_conf_key man then st else (st ++ [((tgt ++ ["conf"])%list, EDir)])%list)).
    { destruct (has_conf_key man); [exact Hinv|]. apply inv_add; [exact Hinv|discriminate]. }
    assert (Hw1 : Within tgt (if has_conf_key man then st else (st ++ [((tgt ++ ["conf"])%list, EDir)])%list)).
    { destruct (has_conf_key man); [exact Hw|]. apply within_add; [exact Hw|exists ["conf"]; reflexivity]. }
    unfold self_step, res_fs, res_lex.
    rewrite (resolve_no_link false _ link_fuel _ (inv_no_link_conf false st ["conf"] Hinv (or_introl eq_refl))).
    destruct (negb (has_conf_key man) && known tgt st (tgt ++ ["conf"])%list); [auto|].
    rewrite (resolve_no_link false _ link_fuel _
               (inv_no_link_conf false _ ["conf"; conf_file dsl] Hst1 (or_intror eq_refl))).
    split; [reflexivity|].
    destruct (existsb _ _); cbn [fst]; [auto|].
    split; [apply inv_add; [exact Hst1|discriminate] | apply within_add; [exact Hw1|exists ["conf"; conf_file dsl]; reflexivity]].
  Qed.

  Lemma deploy_fs_lex_all :
    deploy_fs res_fs false dsl srcs tgt man = deploy_fs res_lex false dsl srcs tgt man /\
    Inv tgt man (fst (deploy_fs res_lex false dsl srcs tgt man)) /\
    Within tgt (fst (deploy_fs res_lex false dsl srcs tgt man)).
  Proof.
    unfold deploy_fs. rewrite Hok.
    assert (I0 : Inv tgt [] []) by (intros p t []).
    assert (W0 : Within tgt []) by (intros p k []).
    destruct (run_lex man [] [] eq_refl I0 W0) as [E [Hi Hw]]. rewrite E.
    destruct (run_entries res_lex false srcs tgt [] man) as [st ok]. cbn [fst] in Hi, Hw.
    destruct ok; [|auto]. apply self_lex; assumption.
  Qed.
End Manifest.

(* -- the statements used by Property.v *)
Lemma deploy_tree_no_redirect dsl srcs tgt man :
  nodup_keys man = true ->
  deploy_fs res_fs false dsl srcs tgt man = deploy_fs res_lex false dsl srcs tgt man.
Proof.
  intros Hnd. destruct (deploy_ok dsl man) eqn:Hok.
  - apply (deploy_fs_lex_all dsl srcs tgt man Hok Hnd).
  - unfold deploy_fs. rewrite Hok. reflexivity.
Qed.

Lemma deploy_tree_confined dsl srcs tgt man :
  nodup_keys man = true ->
  forall p k, In (p, k) (fst (deploy_fs res_fs false dsl srcs tgt man)) -> within tgt p.
Proof.
  intros Hnd p k Hin. destruct (deploy_ok dsl man) eqn:Hok.
  - destruct (deploy_fs_lex_all dsl srcs tgt man Hok Hnd) as [E [_ Hw]]. rewrite E in Hin. exact (Hw p k Hin).
  - unfold deploy_fs in Hin. rewrite Hok in Hin. destruct Hin.
Qed.

Lemma copy_makes_no_link dsl srcs tgt man :
  nodup_keys man = true ->
  forall p t, In (p, ELink t) (fst (deploy_fs res_fs false dsl srcs tgt man)) ->
  exists l, In l man /\ is_link l = true /\ p = (tgt ++ clean (fst l))%list.
Proof.
  intros Hnd p t Hin. destruct (deploy_ok dsl man) eqn:Hok.
  - destruct (deploy_fs_lex_all dsl srcs tgt man Hok Hnd) as [E [Hi _]]. rewrite E in Hin.
    destruct (Hi p t Hin) as [l [Hl [Hk [_ Hp]]]]. exists l. auto.
  - unfold deploy_fs in Hin. rewrite Hok in Hin. destruct Hin.
Qed.
