(* C18 — Staging and deployment never write outside their target directory.
   Executable model of
     - StageReference, extract branch (python/experiment/model/data.py): the check done before
       tarfile.extractall — the pinned one ([tar_check_old]) and the repaired one ([tar_check]) — and of
       where extraction creates things ([extract]);
     - StageReference, copy / link branches ([stage_entry]);
     - Manifest.validate (python/experiment/model/frontends/flowir.py), pinned ([validate_old]) and
       repaired ([validate]), and the manifest-driven population of the instance directory in
       ExperimentPackage.expandPackageToDirectory ([deploy]).
   Paths are lists of segments; os.path.normpath is [norm_onto]; the character-wise tests of the code
   are kept character-wise ([prefixb] of V.Lib.PyStr over the rendered strings). *)
From Coq Require Import String Ascii List Bool Arith.
Import ListNotations.
Require Import V.Lib.PyStr.
Open Scope string_scope.

Definition slash : ascii := "/"%char.
Definition colon : ascii := ":"%char.

(* ---------------------------------------------------------------- segments and normalisation *)
Definition segs (s : string) : list string := split_on slash s.

Definition skipseg (s : string) : bool := String.eqb s "" || String.eqb s ".".
Definition dotdot (s : string) : bool := String.eqb s "..".

(* os.path.normpath of an absolute path: [base] is the (already normalised) part walked so far.
   ".." at the root stays at the root (removelast [] = []). *)
Fixpoint norm_onto (base raw : list string) : list string :=
  match raw with
  | [] => base
  | s :: r => if skipseg s then norm_onto base r
              else if dotdot s then norm_onto (removelast base) r
              else norm_onto (base ++ [s])%list r
  end.

Definition is_abs (s : string) : bool := prefixb "/" s.
(* POSIX: exactly two leading slashes are kept by normpath *)
Definition dbl_slash (s : string) : bool := prefixb "//" s && negb (prefixb "///" s).

(* a normalised absolute path: (begins with "//", segments) *)
Definition npath := (bool * list string)%type.

(* os.path.normpath(os.path.join(d, name)) for a normalised absolute directory d (not ending in "/") *)
Definition join_norm (d : list string) (name : string) : npath :=
  if is_abs name then (dbl_slash name, norm_onto [] (segs name))
  else (false, norm_onto d (segs name)).

Fixpoint lprefixb (a b : list string) : bool :=
  match a with
  | [] => true
  | x :: a' => match b with [] => false | y :: b' => String.eqb x y && lprefixb a' b' end
  end.

(* [lstrip a b] = Some r  iff  b = a ++ r *)
Fixpoint lstrip (a b : list string) : option (list string) :=
  match a with
  | [] => Some b
  | x :: a' => match b with
               | [] => None
               | y :: b' => if String.eqb x y then lstrip a' b' else None
               end
  end.

(* THE SPECIFIED containment: segment prefix after normalisation *)
Definition within (d p : list string) : Prop := exists r, p = (d ++ r)%list.
Definition withinb (d : list string) (p : npath) : bool := negb (fst p) && lprefixb d (snd p).

(* ---------------------------------------------------------------- rendering (for the character-wise tests) *)
(* os.path.join(path, '') of a normalised absolute path: "/a/b/" ; "/" for the root *)
Fixpoint rtail (p : list string) : string :=
  match p with [] => "" | s :: r => s ++ String slash (rtail r) end.
Definition rslash (p : list string) : string := String slash (rtail p).
Definition rs (p : npath) : string := if fst p then String slash (rslash (snd p)) else rslash (snd p).

(* the path itself: "/a/b" *)
Definition render (p : list string) : string :=
  match p with [] => "/" | _ => fold_right (fun s acc => String slash (s ++ acc)) "" p end.

(* os.path.join(a, b) for a not ending in "/" *)
Definition pyjoin (a b : string) : string := if is_abs b then b else a ++ String slash b.

(* isInside(path, directory) of the repaired code: os.path.join(path, '').startswith(directory) *)
Definition inside_str (dir p : npath) : bool := prefixb (rs dir) (rs p).

(* ---------------------------------------------------------------- archives *)
Inductive kind := KFile | KDir | KSym (target : string) | KHard (target : string).
Definition member := (string * kind)%type.       (* TarInfo.name, type + linkname *)

Definition is_sym (m : member) : bool := match snd m with KSym _ => true | _ => false end.

(* where the member is created, lexically *)
Definition mpath (d : list string) (m : member) : npath := join_norm d (fst m).

(* what a link member points at: symbolic links relative to the directory holding the link, hard
   links relative to the extraction directory *)
Definition mtarget (d : list string) (m : member) : option npath :=
  match snd m with
  | KSym t => Some (join_norm (removelast (snd (mpath d m))) t)
  | KHard t => Some (join_norm d t)
  | _ => None
  end.

(* -- the SPECIFIED check: every member and every link target stays in d after normalisation *)
Definition spec_member (d : list string) (m : member) : bool :=
  withinb d (mpath d m) && match mtarget d m with Some t => withinb d t | None => true end.
Definition spec_check (d : list string) (ms : list member) : bool := forallb (spec_member d) ms.

(* -- the PINNED coded check: commonprefix([realpath(dest)+"/", join(dest, name)]) == realpath(dest)+"/",
      character-wise, name not normalised, link targets not looked at *)
Definition tar_check_old (d : list string) (ms : list member) : bool :=
  forallb (fun m => prefixb (rslash d) (pyjoin (render d) (fst m))) ms.

(* -- the REPAIRED coded check *)
Definition has_dotdot (s : string) : bool := existsb dotdot (segs s).

Fixpoint sym_paths_from (d : list string) (i : nat) (ms : list member) : list (nat * npath) :=
  match ms with
  | [] => []
  | m :: r => if is_sym m then (i, mpath d m) :: sym_paths_from d (S i) r else sym_paths_from d (S i) r
  end.

Definition member_ok (d : list string) (links : list (nat * npath)) (i : nat) (m : member) : bool :=
  let np := mpath d m in
  negb (has_dotdot (fst m)) && inside_str (false, d) np &&
  negb (existsb (fun jl => negb (Nat.eqb (fst jl) i) && inside_str (snd jl) np) links) &&
  match snd m with
  | KSym t => match mtarget d m with Some tp => inside_str (false, d) tp | None => true end
  | KHard t => match mtarget d m with
               | Some tp => negb (has_dotdot t) && inside_str (false, d) tp &&
                            negb (existsb (fun jl => inside_str (snd jl) tp) links)
               | None => true
               end
  | _ => true
  end.

Fixpoint check_from (d : list string) (links : list (nat * npath)) (i : nat) (ms : list member) : bool :=
  match ms with
  | [] => true
  | m :: r => member_ok d links i m && check_from d links (S i) r
  end.

Definition tar_check (d : list string) (ms : list member) : bool :=
  check_from d (sym_paths_from d 0 ms) 0 ms.

(* -- extraction: where things are created / modified.  Symbolic-link members redirect whatever is
      extracted through them (or, for a non-link member, on top of them). *)
Definition linkmap (d : list string) (ms : list member) : list (list string * list string) :=
  flat_map (fun m => match snd m with
                     | KSym _ => match mtarget d m with
                                 | Some tp => [(snd (mpath d m), snd tp)]
                                 | None => []
                                 end
                     | _ => []
                     end) ms.

Definition is_nil {A} (l : list A) : bool := match l with [] => true | _ => false end.

(* first link that p passes through; [strict]: the final component is not followed (creating a link) *)
Fixpoint find_link (strict : bool) (links : list (list string * list string)) (p : list string)
  : option (list string) :=
  match links with
  | [] => None
  | (lp, lt) :: r =>
      match lstrip lp p with
      | Some rest => if strict && is_nil rest then find_link strict r p else Some (lt ++ rest)%list
      | None => find_link strict r p
      end
  end.

Fixpoint resolve (strict : bool) (links : list (list string * list string)) (fuel : nat) (p : list string)
  : list string :=
  match fuel with
  | O => p
  | S k => match find_link strict links p with
           | Some q => resolve strict links k q
           | None => p
           end
  end.

Definition created (d : list string) (ms : list member) (m : member) : list string :=
  resolve (is_sym m) (linkmap d ms) (S (length ms)) (snd (mpath d m)).

(* hard-link members additionally touch the file they are linked to *)
Definition hard_targets (d : list string) (ms : list member) : list (list string) :=
  flat_map (fun m => match snd m with
                     | KHard _ => match mtarget d m with
                                  | Some tp => [resolve false (linkmap d ms) (S (length ms)) (snd tp)]
                                  | None => []
                                  end
                     | _ => []
                     end) ms.

Definition extract (d : list string) (ms : list member) : list (list string) :=
  (map (created d ms) ms ++ hard_targets d ms)%list.

(* what StageReference does with an archive: nothing when the check refuses it *)
Definition stage_extract (d : list string) (ms : list member) : list (list string) :=
  if tar_check d ms then extract d ms else [].
Definition stage_extract_old (d : list string) (ms : list member) : list (list string) :=
  if tar_check_old d ms then extract d ms else [].

(* ---------------------------------------------------------------- copy / link staging *)
(* os.path.split(reference)[1] *)
Definition basename (s : string) : string := last (segs s) "".

(* the single entry created in the working directory ("" "." ".." always exist: nothing is created) *)
Definition stage_name (src : string) : option string :=
  let b := basename src in
  if skipseg b || dotdot b then None else Some b.
Definition stage_entry (work : list string) (src : string) : option (list string) :=
  match stage_name src with Some b => Some (work ++ [b])%list | None => None end.

(* ---------------------------------------------------------------- manifests *)
Definition entry := (string * string)%type.      (* targetFolder key, "source[:method]" *)

(* source.rsplit(':', 1): method after the last colon, 'copy' when there is none *)
Definition method_of (src : string) : string :=
  match split_on colon src with
  | [] | [_] => "copy"
  | l => last l ""
  end.
Definition source_of (src : string) : string :=
  match split_on colon src with
  | [] | [_] => src
  | l => PyStr.join ":" (removelast l)
  end.
Definition method_ok (e : entry) : bool :=
  String.eqb (method_of (snd e)) "copy" || String.eqb (method_of (snd e)) "link".
Definition is_link (e : entry) : bool := String.eqb (method_of (snd e)) "link".

(* pinned Manifest.validate: absolute keys and unknown methods only *)
Definition validate_old (man : list entry) : bool :=
  forallb (fun e => negb (is_abs (fst e)) && method_ok e) man.

(* os.path.join(os.path.normpath(key), '') of a relative key without ".." *)
Definition clean (k : string) : list string := filter (fun s => negb (skipseg s)) (segs k).
Definition nrel_slash (k : string) : string := match clean k with [] => "./" | l => rtail l end.

Definition link_rule (man : list entry) : bool :=
  forallb (fun l => negb (is_link l) ||
                    forallb (fun t => String.eqb (fst t) (fst l) ||
                                      negb (prefixb (nrel_slash (fst l)) (nrel_slash (fst t)))) man) man.

(* repaired Manifest.validate (also run by expandPackageToDirectory before it creates anything) *)
Definition key_ok (k : string) : bool := negb (is_abs k) && negb (has_dotdot k).
Definition validate (man : list entry) : bool :=
  forallb (fun e => key_ok (fst e) && method_ok e) man && link_rule man.

(* os.path.join(targetPath, key) as the file system resolves it *)
Definition kpath (tgt : list string) (k : string) : list string := snd (join_norm tgt k).

(* link entries redirect what is populated through them to their source folder *)
Definition mlinks (tgt : list string) (man : list entry) : list (list string * list string) :=
  flat_map (fun e => if is_link e && negb (is_nil (clean (fst e)))   (* <instance>/. exists: that link is never made *)
                     then [(kpath tgt (fst e), norm_onto [] (segs (source_of (snd e))))] else []) man.

Definition deploy (tgt : list string) (man : list entry) : list (list string) :=
  map (fun e => resolve true (mlinks tgt man) (S (length man)) (kpath tgt (fst e))) man.

Definition deploy_checked (tgt : list string) (man : list entry) : list (list string) :=
  if validate man then deploy tgt man else [].

(* ---------------------------------------------------------------- well-formed directories *)
Fixpoint noslashb (s : string) : bool :=
  match s with EmptyString => true | String c r => negb (Ascii.eqb c slash) && noslashb r end.
Definition goodsegb (s : string) : bool :=
  noslashb s && negb (skipseg s) && negb (dotdot s).
(* a real, normalised, absolute directory other than the root *)
Definition gooddir (d : list string) : bool := negb (is_nil d) && forallb goodsegb d.

(* ---------------------------------------------------------------- correspondence checkers *)
Fixpoint list_eqb (a b : list string) : bool :=
  match a, b with
  | [], [] => true
  | x :: a', y :: b' => String.eqb x y && list_eqb a' b'
  | _, _ => false
  end.
Definition subsetb (a b : list (list string)) : bool :=
  forallb (fun x => existsb (list_eqb x) b) a.
Definition seteqb (a b : list (list string)) : bool := subsetb a b && subsetb b a.

Fixpoint prefixes_from (acc p : list string) : list (list string) :=
  match p with
  | [] => []
  | s :: r => (acc ++ [s])%list :: prefixes_from (acc ++ [s])%list r
  end.

(* everything that exists below d after extracting into an empty d: the created paths and their
   parent directories, relative to d *)
Definition entries_below (d : list string) (ps : list (list string)) : list (list string) :=
  flat_map (fun p => match lstrip d p with Some r => prefixes_from [] r | None => [[".."]] end) ps.

(* case = (dest, members, accepted by the implementation's check, regular, Some listing when extraction
   completed).  Everything found in the working directory must be predicted by the model; for a regular
   archive (no member below or on top of a non-directory member, hard links to file members: tarfile skips
   members it cannot create without reporting an error) the listing is exactly the prediction. *)
Definition check_tar (c : list string * list member * bool * bool * option (list (list string))) : bool :=
  let '(d, ms, acc, regular, lst) := c in
  Bool.eqb (tar_check d ms) acc &&
  match lst with
  | Some l => let model := entries_below d (map (created d ms) ms) in
              acc && subsetb l model && (negb regular || subsetb model l)
  | None => true
  end.

(* case = (manifest, accepted by Manifest.validate, accepted by the deployment's own validation) *)
Definition check_man (c : list entry * bool * bool) : bool :=
  let '(man, v, dpl) := c in Bool.eqb (validate man) v && Bool.eqb (validate man) dpl.

(* case = (source path, name of the entry that appeared in the working directory) *)
Definition check_stage (c : string * option string) : bool :=
  let '(src, o) := c in
  match stage_name src, o with
  | Some a, Some b => String.eqb a b
  | None, None => true
  | _, _ => false
  end.

(* ---------------------------------------------------------------- the lexical reading of an archive *)
(* where the members (and the files hard-link members are linked to) are created when no link is followed:
   the normalised join of destination and name.  Proofs.v / Archive.v: for every archive the repaired check
   accepts, [extract] (which does follow the links the archive brings) creates exactly these paths. *)
Definition hard_lexical (d : list string) (ms : list member) : list (list string) :=
  flat_map (fun m => match snd m with
                     | KHard _ => match mtarget d m with Some tp => [snd tp] | None => [] end
                     | _ => []
                     end) ms.
Definition extract_lexical (d : list string) (ms : list member) : list (list string) :=
  (map (fun m => snd (mpath d m)) ms ++ hard_lexical d ms)%list.

(* ---------------------------------------------------------------- what the deployment writes itself *)
(* expandPackageToDirectory, after the manifest has been applied: os.makedirs(<instance>/conf) unless the
   manifest has the key "conf", then shutil.copyfile(package file, <instance>/conf/<conf_file>) — a file
   write, which follows a link also in the last component. *)
Definition conf_file (dsl : bool) : string := if dsl then "dsl.yaml" else "flowir_package.yaml".

(* the check added by the repair of F18d (in expandPackageToDirectory, after Manifest.validate): no link
   target may be conf or the package file inside it:  os.path.normpath(target) in ("conf", "conf/<conf_file>") *)
Definition conf_rule (dsl : bool) (man : list entry) : bool :=
  forallb (fun e => negb (is_link e) ||
                    negb (list_eqb (clean (fst e)) ["conf"] || list_eqb (clean (fst e)) ["conf"; conf_file dsl])) man.

(* everything the deployment checks before it creates anything *)
Definition deploy_ok (dsl : bool) (man : list entry) : bool := validate man && conf_rule dsl man.

Definition has_conf_key (man : list entry) : bool := existsb (fun e => String.eqb (fst e) "conf") man.

Definition deploy_self (dsl : bool) (tgt : list string) (man : list entry) : list (list string) :=
  ((if has_conf_key man then [] else [resolve true (mlinks tgt man) (S (length man)) (tgt ++ ["conf"])]) ++
   [resolve false (mlinks tgt man) (S (length man)) (tgt ++ ["conf"; conf_file dsl])])%list.

(* the whole deployment: nothing when the manifest is refused *)
Definition deploy_all (dsl : bool) (tgt : list string) (man : list entry) : list (list string) :=
  if deploy_ok dsl man then (deploy tgt man ++ deploy_self dsl tgt man)%list else [].

(* case = (manifest, package file is DSL, accepted by Manifest.validate, accepted by the deployment's checks) *)
Definition check_man2 (c : list entry * bool * bool * bool) : bool :=
  let '(man, dsl, v, dpl) := c in Bool.eqb (validate man) v && Bool.eqb (deploy_ok dsl man) dpl.

(* ---------------------------------------------------------------- working directories that already hold links *)
(* [pre]: the symbolic links that exist before the archive is staged, (path of the link, what it points at), both
   normalised absolute paths.  d is os.path.realpath(destination): no link is d or a directory on the way to d
   ([real_dir]). *)
Definition links := list (list string * list string).
Definition real_dir (pre : links) (d : list string) : bool := forallb (fun l => negb (lprefixb (fst l) d)) pre.

(* throughExistingLink(path) of the repaired code: path, or a directory between the destination (excluded) and
   path, is a symbolic link *)
Definition through_pre (d : list string) (pre : links) (p : list string) : bool :=
  existsb (fun l => lprefixb d (fst l) && negb (list_eqb d (fst l)) && lprefixb (fst l) p) pre.

Definition pre_member_ok (d : list string) (pre : links) (m : member) : bool :=
  negb (through_pre d pre (snd (mpath d m))) &&
  match snd m with
  | KHard _ => match mtarget d m with Some tp => negb (through_pre d pre (snd tp)) | None => true end
  | _ => true
  end.

(* the whole repaired check of StageReference *)
Definition tar_check_pre (pre : links) (d : list string) (ms : list member) : bool :=
  tar_check d ms && forallb (pre_member_ok d pre) ms.

(* the check before the repair of F18e: os.path.realpath(path), computed before the extraction, is inside d *)
Definition link_fuel : nat := 40.               (* links followed in one resolution (Linux: ELOOP beyond 40) *)
Definition realpath (pre : links) (p : list string) : list string := resolve false pre link_fuel p.
Definition pre_member_ok_old (d : list string) (pre : links) (m : member) : bool :=
  inside_str (false, d) (false, realpath pre (snd (mpath d m))) &&
  match snd m with
  | KHard _ => match mtarget d m with Some tp => inside_str (false, d) (false, realpath pre (snd tp)) | None => true end
  | _ => true
  end.
Definition tar_check_pre_old (pre : links) (d : list string) (ms : list member) : bool :=
  tar_check d ms && forallb (pre_member_ok_old d pre) ms.

(* extraction in a file system that has the links [pre] and gets those of the archive (a link member put on
   top of an existing link would replace it; the repaired check refuses such archives) *)
Definition created_pre (pre : links) (d : list string) (ms : list member) (m : member) : list string :=
  resolve (is_sym m) (pre ++ linkmap d ms)%list link_fuel (snd (mpath d m)).
Definition hard_targets_pre (pre : links) (d : list string) (ms : list member) : list (list string) :=
  flat_map (fun m => match snd m with
                     | KHard _ => match mtarget d m with
                                  | Some tp => [resolve false (pre ++ linkmap d ms)%list link_fuel (snd tp)]
                                  | None => []
                                  end
                     | _ => []
                     end) ms.
Definition extract_pre (pre : links) (d : list string) (ms : list member) : list (list string) :=
  (map (created_pre pre d ms) ms ++ hard_targets_pre pre d ms)%list.
Definition stage_extract_pre (pre : links) (d : list string) (ms : list member) : list (list string) :=
  if tar_check_pre pre d ms then extract_pre pre d ms else [].

(* case = (dest, links present before, members, accepted by the implementation's check) *)
Definition check_tar_pre (c : list string * links * list member * bool) : bool :=
  let '(d, pre, ms, acc) := c in Bool.eqb (tar_check_pre pre d ms) acc.

(* ---------------------------------------------------------------- migrated components *)
(* Job.stageIn of a migrated component: the working directory <stage>/<component> is removed and ONE link,
   named by the last segment of the reference, is made in the stage directory (the parent of the working
   directory); that link is the component's working directory from then on. *)
Definition migrate_entry (work : list string) (src : string) : option (list string) :=
  stage_entry (removelast work) src.

(* ---------------------------------------------------------------- the CONTENT of copied source folders *)
(* What a :copy entry brings into the instance depends on what the source folder holds — in particular on the
   symbolic links inside it.  A source folder is given as the list of its entries in walk order (parents before
   children), each with its path relative to the folder.  A link carries the text os.readlink returns and what it
   leads to (Some true: a directory, Some false: a file, None: nothing — dangling); what lies below a link to a
   directory is listed too, as seen through the link. *)
Inductive skind := SFile | SDir | SLnk (text : string) (sees : option bool).
Definition stree := list (list string * skind).
(* the source folders, keyed by the text before the method in the manifest value; None: not a directory *)
Definition sources := list (string * option stree).

(* what exists in (or is reached from) the instance: physical path, kind *)
Inductive ekind := EDir | EFile | ELink (target : list string).
Definition fsent := (list string * ekind)%type.

Definition is_slnk (k : skind) : bool := match k with SLnk _ _ => true | _ => false end.
Definition is_edir (k : ekind) : bool := match k with EDir => true | _ => false end.
Definition is_efile (k : ekind) : bool := match k with EFile => true | _ => false end.

(* rel lies strictly below an entry of the tree that is a link *)
Definition below_slnk (t : stree) (rel : list string) : bool :=
  existsb (fun x => is_slnk (snd x) && lprefixb (fst x) rel && negb (list_eqb (fst x) rel)) t.

(* shutil.copytree(source, at, symlinks=preserve).  symlinks=False (THE CODE): a link is followed, what it leads
   to is copied as a real directory / file, a dangling link is skipped and reported when the copy is over.
   symlinks=True: a link is re-created with the same text (so a relative text is read from the new place) and
   nothing below it is visited. *)
Definition copy_entries (preserve : bool) (at_ : list string) (t : stree) : list fsent :=
  flat_map (fun x =>
    let p := (at_ ++ fst x)%list in
    if preserve && below_slnk t (fst x) then [] else
    match snd x with
    | SFile => [(p, EFile)]
    | SDir => [(p, EDir)]
    | SLnk text sees =>
        if preserve then [(p, ELink (snd (join_norm (removelast p) text)))]
        else match sees with Some true => [(p, EDir)] | Some false => [(p, EFile)] | None => [] end
    end) t.
Definition copy_fails (preserve : bool) (t : stree) : bool :=
  negb preserve && existsb (fun x => match snd x with SLnk _ None => true | _ => false end) t.

Definition links_of (st : list fsent) : links :=
  flat_map (fun x => match snd x with ELink t => [(fst x, t)] | _ => [] end) st.

(* the instance directory itself and what the deployment created so far (of the world outside the instance the
   model knows nothing: a path there is taken not to exist, its parent to exist — the worst case) *)
Definition known (tgt : list string) (st : list fsent) (p : list string) : bool :=
  list_eqb p tgt || existsb (fun x => list_eqb (fst x) p) st.
Definition parent_ok (tgt : list string) (st : list fsent) (p : list string) : bool :=
  let par := removelast p in
  negb (lprefixb tgt par) || list_eqb par tgt || existsb (fun x => list_eqb (fst x) par && is_edir (snd x)) st.
(* a directory on the way to p is a file *)
Definition blocked (st : list fsent) (p : list string) : bool :=
  existsb (fun x => is_efile (snd x) && lprefixb (fst x) p && negb (list_eqb (fst x) p)) st.

(* os.makedirs(p): the missing directories from the instance directory down to p, p included *)
Definition mkdirs (tgt : list string) (st : list fsent) (p : list string) : list fsent :=
  match lstrip tgt p with
  | Some rest => map (fun q => ((tgt ++ q)%list, EDir))
                     (filter (fun q => negb (known tgt st (tgt ++ q)%list)) (prefixes_from [] rest))
  | None => [(p, EDir)]
  end.

Definition lookup_src (srcs : sources) (s : string) : option stree :=
  match List.find (fun x => String.eqb (fst x) s) srcs with Some (_, Some t) => Some t | _ => None end.

(* how a lexical path is turned into the physical one: [res strict links p] *)
Definition resolver := bool -> links -> list string -> list string.
Definition res_fs : resolver := fun strict lk p => resolve strict lk link_fuel p.    (* the file system *)
Definition res_lex : resolver := fun _ _ p => p.                                    (* no link is followed *)

(* one manifest entry (in the order of the manifest); false: OSError, the deployment stops
   (PackageCreateError) and leaves what it made.
     link: os.symlink(source, <instance>/key) — the last component is not followed; fails when the name exists or
           its directory does not, and for a key written with a trailing "/" or "/." (ENOENT / EEXIST);
     copy: shutil.copytree(source, <instance>/key) — the source is listed first (fails when it is not a
           directory), os.makedirs(<instance>/key) fails when it exists. *)
Definition step (res : resolver) (preserve : bool) (srcs : sources) (tgt : list string) (st : list fsent) (e : entry)
  : list fsent * bool :=
  let p := kpath tgt (fst e) in
  if is_link e then
    let rp := res true (links_of st) p in
    if known tgt st rp || negb (parent_ok tgt st rp) || skipseg (basename (fst e)) then (st, false)
    else ((st ++ [(rp, ELink (norm_onto [] (segs (source_of (snd e)))))])%list, true)
  else
    match lookup_src srcs (source_of (snd e)) with
    | None => (st, false)
    | Some t =>
        let rp := res false (links_of st) p in
        if known tgt st rp || blocked st rp then (st, false)
        else ((st ++ mkdirs tgt st rp ++ copy_entries preserve rp t)%list, negb (copy_fails preserve t))
    end.

Fixpoint run_entries (res : resolver) (preserve : bool) (srcs : sources) (tgt : list string) (st : list fsent)
  (man : list entry) : list fsent * bool :=
  match man with
  | [] => (st, true)
  | e :: r => let '(st', ok) := step res preserve srcs tgt st e in
              if ok then run_entries res preserve srcs tgt st' r else (st', false)
  end.

(* after the manifest: os.makedirs(<instance>/conf) unless "conf" is a key, then
   shutil.copyfile(package file, <instance>/conf/<conf_file>) (a write: follows links, replaces a file) *)
Definition self_step (res : resolver) (dsl : bool) (tgt : list string) (man : list entry) (st : list fsent)
  : list fsent * bool :=
  let cd := res false (links_of st) (tgt ++ ["conf"])%list in
  if negb (has_conf_key man) && known tgt st cd then (st, false) else
  let st1 := if has_conf_key man then st else (st ++ [(cd, EDir)])%list in
  let pf := res false (links_of st1) (tgt ++ ["conf"; conf_file dsl])%list in
  if existsb (fun x => list_eqb (fst x) pf && is_edir (snd x)) st1 then (st1, false)
  else ((st1 ++ [(pf, EFile)])%list, true).

(* the whole deployment of a package file + manifest: everything it creates or writes, and whether it completed *)
Definition deploy_fs (res : resolver) (preserve : bool) (dsl : bool) (srcs : sources) (tgt : list string)
  (man : list entry) : list fsent * bool :=
  if deploy_ok dsl man then
    let '(st, ok) := run_entries res preserve srcs tgt [] man in
    if ok then self_step res dsl tgt man st else (st, false)
  else ([], false).

(* the manifest is a Python dict: no key twice *)
Fixpoint nodup_keys (man : list entry) : bool :=
  match man with
  | [] => true
  | e :: r => negb (existsb (fun x => String.eqb (fst x) (fst e)) r) && nodup_keys r
  end.

(* case = (source folders, manifest, DSL, accepted by Manifest.validate, accepted by the deployment's checks,
   deployment completed, what is in the instance directory afterwards: relative path + kind 0 dir 1 file 2 link) *)
Definition kind_code (k : ekind) : nat := match k with EDir => 0 | EFile => 1 | ELink _ => 2 end.
Definition ent_eqb (a b : list string * nat) : bool := list_eqb (fst a) (fst b) && Nat.eqb (snd a) (snd b).
Definition ents_sub (a b : list (list string * nat)) : bool := forallb (fun x => existsb (ent_eqb x) b) a.
Definition inst_view (tgt : list string) (st : list fsent) : list (list string * nat) :=
  flat_map (fun x => match lstrip tgt (fst x) with
                     | Some [] => []
                     | Some r => [(r, kind_code (snd x))]
                     | None => [([".."], kind_code (snd x))]      (* outside the instance: never in a listing of it *)
                     end) st.
Definition model_tgt : list string := ["loc"; "x.instance"].
Definition check_man3 (c : sources * list entry * bool * bool * bool * bool * list (list string * nat)) : bool :=
  let '(srcs, man, dsl, v, dpl, completed, lst) := c in
  Bool.eqb (validate man) v && Bool.eqb (deploy_ok dsl man) dpl &&
  (let '(st, ok) := deploy_fs res_fs false dsl srcs model_tgt man in
   let view := inst_view model_tgt st in
   Bool.eqb ok completed && ents_sub view lst && ents_sub lst view).

(* ---------------------------------------------------------------- SEQUENCES of references staged into ONE working directory *)
(* A component has several references; Job.stageIn stages them one after the other into the same working directory, so
   each staging step finds what the earlier ones (or an earlier run) left there — in particular symbolic links (:link
   references, links re-created by shutil.copytree(symlinks=True), link members of archives).  [st]: what exists in the
   working directory d (physical path, kind), as in the model of the deployment.  One step returns the entries the
   directory gains, every path it creates or writes (AFTER the links of the file system have been followed), a code
   (0 staged, 1 archive refused by the check, 2 OSError) and whether the model of the step is exact.
     [follow]: the file system follows links (true: what happens; false: the lexical reading);
     [guard] : the repair of F18f — shutil.copy is not called when <working directory>/<name> is a symbolic link
               (false: the code before the repair, which wrote THROUGH the link). *)
Inductive sref :=
| RCopyFile (src : string)                   (* :copy / :copyout of a file: shutil.copy(reference, directory) *)
| RCopyDir (src : string) (t : stree)        (* :copy / :copyout of a directory: shutil.copytree(reference, directory/name, symlinks=True) *)
| RLink (src : string)                       (* :link: os.symlink(reference, directory/name) *)
| RExtract (ms : list member).               (* :extract *)

Definition sres := (list fsent * list (list string) * nat * bool)%type.
Definition s_fail : sres := ([], [], 2, true).

Definition fs_res (follow strict : bool) (lk : links) (p : list string) : list string :=
  if follow then resolve strict lk link_fuel p else p.

Definition kind_at (st : list fsent) (p : list string) : option ekind :=
  match List.find (fun x => list_eqb (fst x) p) st with Some x => Some (snd x) | None => None end.
Definition link_at (st : list fsent) (p : list string) : bool := existsb (fun l => list_eqb (fst l) p) (links_of st).
Definition dir_at (st : list fsent) (p : list string) : bool := match kind_at st p with Some EDir => true | _ => false end.
Definition file_at (st : list fsent) (p : list string) : bool := match kind_at st p with Some EFile => true | _ => false end.

(* shutil.copy(reference, d): the file is opened for writing at d/name — which follows a link found there (the defect);
   a directory there, or d/name led by a link to a directory: IsADirectoryError *)
Definition copy_file_step (follow guard : bool) (d : list string) (st : list fsent) (src : string) : sres :=
  match stage_entry d src with
  | None => s_fail
  | Some p =>
      if guard && link_at st p then s_fail else
      let q := fs_res follow false (links_of st) p in
      if list_eqb q d || dir_at st q || blocked st q then s_fail
      else ((if known d st q then [] else [(q, EFile)]), [q], 0, true)
  end.

(* os.symlink(reference, d/name): the last component is not followed, fails when the name exists *)
Definition link_step (follow : bool) (d : list string) (st : list fsent) (src : string) : sres :=
  match stage_entry d src with
  | None => s_fail
  | Some p =>
      let q := fs_res follow true (links_of st) p in
      if known d st q then s_fail else ([(q, ELink (norm_onto [] (segs src)))], [q], 0, true)
  end.

(* shutil.copytree(reference, d/name, symlinks=True): os.makedirs(d/name) fails when the name exists (also as a link);
   the links of the source are re-created *)
Definition copy_dir_step (follow : bool) (d : list string) (st : list fsent) (src : string) (t : stree) : sres :=
  match stage_entry d src with
  | None => s_fail
  | Some p =>
      let q := fs_res follow true (links_of st) p in
      if known d st q then s_fail
      else (((q, EDir) :: copy_entries true q t)%list, (q :: map fst (copy_entries true q t))%list, 0, true)
  end.

(* an accepted archive, member by member: tarfile makes the missing directories on the way, a file member replaces a
   file, a directory member accepts a directory; every other meeting of a member with something that exists (and hard
   links to what is not a file yet) is left to tarfile: the step is then not exact *)
Definition is_kdir (m : member) : bool := match snd m with KDir => true | _ => false end.
Definition member_kind (d : list string) (m : member) : ekind :=
  match snd m with
  | KDir => EDir
  | KSym _ => match mtarget d m with Some tp => ELink (snd tp) | None => EFile end
  | _ => EFile
  end.
Definition ext_add (d : list string) (st : list fsent) (acc : list fsent * bool) (m : member) : list fsent * bool :=
  let '(new, exact) := acc in
  let cur := (st ++ new)%list in
  let p := snd (mpath d m) in
  if list_eqb p d then (new, exact && is_kdir m) else
  let dirs := mkdirs d cur (removelast p) in
  let cur1 := (cur ++ dirs)%list in
  let clash := blocked cur p || negb (lprefixb d p) ||
               match kind_at cur p, snd m with
               | None, KHard _ => negb (match mtarget d m with Some tp => file_at cur1 (snd tp) | None => false end)
               | None, _ => false
               | Some EDir, KDir => false
               | Some EFile, KFile => false
               | _, _ => true
               end in
  ((new ++ dirs ++ (if known d cur1 p then [] else [(p, member_kind d m)]))%list, exact && negb clash).

Definition extract_step (follow : bool) (d : list string) (st : list fsent) (ms : list member) : sres :=
  if tar_check_pre (links_of st) d ms then
    let '(new, exact) := fold_left (ext_add d st) ms ([], true) in
    (new, (if follow then extract_pre (links_of st) d ms else extract_lexical d ms), 0, exact)
  else ([], [], 1, true).

Definition sstep (follow guard : bool) (d : list string) (st : list fsent) (r : sref) : sres :=
  match r with
  | RCopyFile src => copy_file_step follow guard d st src
  | RCopyDir src t => copy_dir_step follow d st src t
  | RLink src => link_step follow d st src
  | RExtract ms => extract_step follow d st ms
  end.

(* the references in the order they are staged; [stop]: Job.stageIn ends with the first reference that fails, a caller
   of StageReference may go on.  Result: the working directory afterwards, every path created or written, and per step
   the code with whether the model was exact up to and including that step *)
Fixpoint run_refs (follow guard stop : bool) (d : list string) (st : list fsent) (exact : bool) (refs : list sref)
  : list fsent * list (list string) * list (nat * bool) :=
  match refs with
  | [] => (st, [], [])
  | r :: rest =>
      let '(new, w, c, ex) := sstep follow guard d st r in
      let st1 := (st ++ new)%list in
      if stop && negb (Nat.eqb c 0) then (st1, w, [(c, exact && ex)])
      else let '(st', w', cs) := run_refs follow guard stop d st1 (exact && ex) rest in
           (st', (w ++ w')%list, (c, exact && ex) :: cs)
  end.

Definition stage_seq (d : list string) (st : list fsent) (stop : bool) (refs : list sref) :=
  run_refs true true stop d st true refs.
Definition seq_writes (r : list fsent * list (list string) * list (nat * bool)) : list (list string) := snd (fst r).
Definition seq_state (r : list fsent * list (list string) * list (nat * bool)) : list fsent := fst (fst r).
Definition seq_codes (r : list fsent * list (list string) * list (nat * bool)) : list (nat * bool) := snd r.

(* -- correspondence: case = (d, what the working directory held before, references in staging order, stop,
      code of every reference the implementation staged, every entry of the working directory afterwards:
      relative path, kind 0 dir 1 file 2 link, lexically normalised target of a link) *)
Fixpoint codes_agree (model : list (nat * bool)) (impl : list nat) : bool :=
  match model, impl with
  | [], [] => true
  | (c, ex) :: m', i :: i' => if ex then Nat.eqb c i && codes_agree m' i' else true
  | (_, ex) :: _, [] => negb ex
  | [], _ :: _ => false
  end.
Definition all_exact (cs : list (nat * bool)) : bool := forallb (fun c => snd c) cs.
Definition sview := (list string * nat * list string)%type.
Definition seq_view (d : list string) (st : list fsent) : list sview :=
  flat_map (fun x => let tg := match snd x with ELink t => t | _ => [] end in
                     match lstrip d (fst x) with
                     | Some [] => []
                     | Some r => [(r, kind_code (snd x), tg)]
                     | None => [([".."], kind_code (snd x), tg)]     (* outside the working directory: never in a listing of it *)
                     end) st.
Definition sview_eqb (a b : sview) : bool :=
  list_eqb (fst (fst a)) (fst (fst b)) && Nat.eqb (snd (fst a)) (snd (fst b)) && list_eqb (snd a) (snd b).
Definition sviews_sub (a b : list sview) : bool := forallb (fun x => existsb (sview_eqb x) b) a.
Definition check_seq (c : list string * list fsent * list sref * bool * list nat * list sview) : bool :=
  let '(d, st0, refs, stop, codes, lst) := c in
  let r := stage_seq d st0 stop refs in
  codes_agree (seq_codes r) codes &&
  forallb (lprefixb d) (seq_writes r) &&
  (negb (all_exact (seq_codes r)) ||
   (let v := seq_view d (seq_state r) in sviews_sub v lst && sviews_sub lst v)).

(* ------------------------------------------------------------------ several components staged by ONE process
   The components of a workflow are staged one after the other by the same process, each into its own working
   directory, and they reference the same input files — the same archive is extracted into several directories.  The
   code keeps nothing between two calls: every reference of every component is examined against the directory it is
   staged INTO (the links that directory holds, the absolute names that are inside it), so a component is
   (directory, what it holds, stop at the first failure?, references) and the run of a list of components is the run
   of each over its own directory.  [extract_once] is the design that is NOT the code (round-7 seed C18_m11): an
   archive that was accepted for some directory is not examined again. *)
Definition component := (list string * list fsent * bool * list sref)%type.
Definition comp_dir (c : component) : list string := fst (fst (fst c)).
Definition stage_component (c : component) := let '(d, st, stop, refs) := c in stage_seq d st stop refs.
Definition stage_components (cs : list component) := map stage_component cs.
Definition comp_ok (c : component) : bool := let '(d, st, _, _) := c in gooddir d && real_dir (links_of st) d.
(* two working directories, neither inside the other *)
Definition apart (d1 d2 : list string) : bool := negb (lprefixb d1 d2) && negb (lprefixb d2 d1).

(* what the extraction of [ms] into [d] writes when the check is skipped because [ms] passed it for the directory
   [d0] that held [st0] (otherwise: the checked extraction) *)
Definition extract_once (d0 : list string) (st0 : list fsent) (d : list string) (st : list fsent) (ms : list member)
  : list (list string) :=
  if tar_check_pre (links_of st0) d0 ms then extract_pre (links_of st) d ms else stage_extract_pre (links_of st) d ms.
