(* C18 — parts of the statement that are FALSE of the pinned code (findings F18a, F18b, F18c). *)
From Coq Require Import String List Bool.
Import ListNotations.
Require Import V.Path.Model V.Path.Proofs.
Open Scope string_scope.

Lemma not_within d p : lprefixb d p = false -> ~ within d p.
Proof. intros H W. apply lprefixb_within in W. rewrite W in H. discriminate. Qed.

(* F18b: the pinned character-wise check (no normalisation of the member name, link targets not
   examined) accepts a member "../../x", which is created outside the destination, and accepts a
   symbolic link pointing outside followed by a member extracted through it. *)
Theorem C18_tar_refuted :
  (exists d ms p, gooddir d = true /\ tar_check_old d ms = true /\ In p (extract d ms) /\ ~ within d p /\
                  ms = [("../../x", KFile)]) /\
  (exists d ms p, gooddir d = true /\ tar_check_old d ms = true /\ In p (extract d ms) /\ ~ within d p /\
                  ms = [("lnk", KSym "../../out"); ("lnk/f.txt", KFile)]).
Proof.
  split.
  - exists ["t"; "work"], [("../../x", KFile)], ["x"].
    repeat split; [left; reflexivity | apply not_within; reflexivity].
  - exists ["t"; "work"], [("lnk", KSym "../../out"); ("lnk/f.txt", KFile)], ["out"; "f.txt"].
    repeat split; [right; left; reflexivity | apply not_within; reflexivity].
Qed.
Print Assumptions C18_tar_refuted.

(* F18a / F18c: the pinned Manifest.validate accepts the key "../x", which the deployment creates at
   <instance>/../x, and accepts a key below a key that is a link, which is populated inside the
   link's source folder. *)
Theorem C18_manifest_refuted :
  (exists tgt man p, validate_old man = true /\ In p (deploy tgt man) /\ ~ within tgt p /\
                     man = [("../x", "src")]) /\
  (exists tgt man p, validate_old man = true /\ In p (deploy tgt man) /\ ~ within tgt p /\
                     man = [("a", "/p/src:link"); ("a/b", "/p/other:copy")]).
Proof.
  split.
  - exists ["loc"; "inst"], [("../x", "src")], ["loc"; "x"].
    repeat split; [left; reflexivity | apply not_within; reflexivity].
  - exists ["loc"; "inst"], [("a", "/p/src:link"); ("a/b", "/p/other:copy")], ["p"; "src"; "b"].
    repeat split; [right; left; reflexivity | apply not_within; reflexivity].
Qed.
Print Assumptions C18_manifest_refuted.

(* F18d: before its repair the deployment checked the manifest with Manifest.validate only; a manifest that
   makes conf a link, or the package file inside a copied conf a link, passes it, and the deployment's own
   write of the package file lands in the folder (on the file) the link points to. *)
Theorem C18_conf_refuted :
  (exists tgt man p, validate man = true /\ In p (deploy_self false tgt man) /\ ~ within tgt p /\
                     man = [("conf", "/p/myconf:link")]) /\
  (exists tgt man p, validate man = true /\ In p (deploy_self false tgt man) /\ ~ within tgt p /\
                     man = [("conf", "/p/myconf:copy"); ("conf/flowir_package.yaml", "/p/src/f.txt:link")]).
Proof.
  split.
  - exists ["loc"; "inst"], [("conf", "/p/myconf:link")], ["p"; "myconf"; "flowir_package.yaml"].
    repeat split; [left; reflexivity | apply not_within; reflexivity].
  - exists ["loc"; "inst"], [("conf", "/p/myconf:copy"); ("conf/flowir_package.yaml", "/p/src/f.txt:link")],
           ["p"; "src"; "f.txt"].
    repeat split; [left; reflexivity | apply not_within; reflexivity].
Qed.
Print Assumptions C18_conf_refuted.

(* F18e: before its repair the check resolved the pre-existing links with os.path.realpath BEFORE the extraction
   and accepted what resolved to a path inside the destination.  With the links a -> l (l not existing yet) and
   sub -> /out in the working directory, the archive {l -> sub, a/x.txt} passes, and a/x.txt is created at
   /out/x.txt: the archive itself changes where the existing link leads. *)
Theorem C18_prelinks_refuted :
  exists pre d ms p, gooddir d = true /\ real_dir pre d = true /\ tar_check_pre_old pre d ms = true /\
                     In p (extract_pre pre d ms) /\ ~ within d p /\
                     pre = [(["t"; "work"; "a"], ["t"; "work"; "l"]); (["t"; "work"; "sub"], ["out"])] /\
                     ms = [("l", KSym "sub"); ("a/x.txt", KFile)].
Proof.
  exists [(["t"; "work"; "a"], ["t"; "work"; "l"]); (["t"; "work"; "sub"], ["out"])], ["t"; "work"],
         [("l", KSym "sub"); ("a/x.txt", KFile)], ["out"; "x.txt"].
  repeat split; [right; left; reflexivity | apply not_within; reflexivity].
Qed.
Print Assumptions C18_prelinks_refuted.

(* the hypothesis [real_dir] of C18_prelinks_confined is necessary: when the destination itself is reached
   through a link (d is not what os.path.realpath returns) everything is created elsewhere *)
Theorem C18_real_dir_needed_refuted :
  exists pre d ms p, gooddir d = true /\ tar_check_pre pre d ms = true /\ In p (stage_extract_pre pre d ms) /\
                     ~ within d p /\ pre = [(["t"], ["out"])] /\ ms = [("x", KFile)].
Proof.
  exists [(["t"], ["out"])], ["t"; "work"], [("x", KFile)], ["out"; "work"; "x"].
  repeat split; [left; reflexivity | apply not_within; reflexivity].
Qed.
Print Assumptions C18_real_dir_needed_refuted.

(* F18f: before its repair StageReference handed a :copy of a file to shutil.copy whatever <working directory>/<name>
   was; shutil.copy opens that name for writing, which follows a symbolic link: with p1/out.txt:link staged first,
   p2/out.txt:copy overwrote p1/out.txt — the producer's file — and a dangling link found in the working directory
   made the copy create the file the link names.  ([run_refs] with guard = false is the code before the repair.) *)
Theorem C18_copy_over_link_refuted :
  (exists d refs p, gooddir d = true /\ In p (seq_writes (run_refs true false true d [] true refs)) /\ ~ within d p /\
                    seq_codes (run_refs true false true d [] true refs) = [(0, true); (0, true)] /\
                    refs = [RLink "/p1/out.txt"; RCopyFile "/p2/out.txt"]) /\
  (exists d st refs p, gooddir d = true /\ real_dir (links_of st) d = true /\
                    In p (seq_writes (run_refs true false true d st true refs)) /\ ~ within d p /\
                    st = [(["t"; "work"; "out.txt"], ELink ["p1"; "new.txt"])] /\ refs = [RCopyFile "/p2/out.txt"]).
Proof.
  split.
  - exists ["t"; "work"], [RLink "/p1/out.txt"; RCopyFile "/p2/out.txt"], ["p1"; "out.txt"].
    repeat split; [right; left; reflexivity | apply not_within; reflexivity].
  - exists ["t"; "work"], [(["t"; "work"; "out.txt"], ELink ["p1"; "new.txt"])], [RCopyFile "/p2/out.txt"], ["p1"; "new.txt"].
    repeat split; [left; reflexivity | apply not_within; reflexivity].
Qed.
Print Assumptions C18_copy_over_link_refuted.

(* The hypothesis built into the model of the deployment — shutil.copytree is called with symlinks=False, so a link
   inside a copied source folder becomes a real directory of the instance — is necessary for C18_deploy_tree_confined /
   C18_copy_makes_no_link: were the links of the source folder re-created in the instance ([deploy_fs] with
   preserve = true), a manifest that Manifest.validate and the deployment accept (two :copy entries, the second key a
   nested path below the first) would be populated THROUGH the re-created link, outside the instance.  (No finding:
   the code follows links; kept so that the theorem's dependence on it is explicit.) *)
Theorem C18_copy_follow_needed_refuted :
  exists srcs tgt man p k,
    nodup_keys man = true /\ deploy_ok false man = true /\
    In (p, k) (fst (deploy_fs res_fs true false srcs tgt man)) /\ ~ within tgt p /\
    In (["loc"; "i"; "data"; "shared"], ELink ["store"]) (fst (deploy_fs res_fs true false srcs tgt man)) /\
    srcs = [("ds", Some [(["readme.txt"], SFile); (["shared"], SLnk "/store" (Some true)); (["shared"; "big.dat"], SFile)]);
            ("extra", Some [(["notes.txt"], SFile)])] /\
    man = [("data", "ds:copy"); ("data/shared/extra", "extra:copy")].
Proof.
  exists [("ds", Some [(["readme.txt"], SFile); (["shared"], SLnk "/store" (Some true)); (["shared"; "big.dat"], SFile)]);
          ("extra", Some [(["notes.txt"], SFile)])],
         ["loc"; "i"], [("data", "ds:copy"); ("data/shared/extra", "extra:copy")], ["store"; "extra"; "notes.txt"], EFile.
  repeat split.
  - vm_compute. do 4 right. left. reflexivity.
  - apply not_within; reflexivity.
  - vm_compute. do 2 right. left. reflexivity.
Qed.
Print Assumptions C18_copy_follow_needed_refuted.

(* Round-7 seed C18_m11 — "the replicas extract the same archive, examine it once per process" is NOT safe: whether an
   archive may be extracted depends on the directory it is extracted INTO.  An archive that the repaired check accepts
   for one working directory (and that is refused for the other one) is, when extracted there without being examined
   again ([extract_once]), created outside that other directory: through the link an earlier :link reference left
   there, or at an absolute name that lies in the first component's directory.  (No finding: the code examines every
   extraction; kept so that the dependence of C18_components_confined on it is explicit.) *)
Theorem C18_checked_once_refuted :
  (exists d0 d st ms p, gooddir d0 = true /\ comp_ok (d, st, true, [RExtract ms]) = true /\ apart d0 d = true /\
                        tar_check_pre [] d0 ms = true /\ tar_check_pre (links_of st) d ms = false /\
                        In p (extract_once d0 [] d st ms) /\ ~ within d p /\
                        st = [(["t"; "wb"; "shared"], ELink ["input"; "shared"])] /\
                        ms = [("summary.txt", KFile); ("shared/cache.dat", KFile)]) /\
  (exists d0 d ms p, gooddir d0 = true /\ comp_ok (d, [], true, [RExtract ms]) = true /\ apart d0 d = true /\
                     tar_check_pre [] d0 ms = true /\ tar_check_pre [] d ms = false /\
                     In p (extract_once d0 [] d [] ms) /\ ~ within d p /\ within d0 p /\
                     ms = [("notes.txt", KFile); ("/t/work/state.txt", KFile)]).
Proof.
  split.
  - exists ["t"; "work"], ["t"; "wb"], [(["t"; "wb"; "shared"], ELink ["input"; "shared"])],
           [("summary.txt", KFile); ("shared/cache.dat", KFile)], ["input"; "shared"; "cache.dat"].
    repeat split; [right; left; reflexivity | apply not_within; reflexivity].
  - exists ["t"; "work"], ["t"; "wb"], [("notes.txt", KFile); ("/t/work/state.txt", KFile)], ["t"; "work"; "state.txt"].
    repeat split; [right; left; reflexivity | apply not_within; reflexivity | exists ["state.txt"]; reflexivity].
Qed.
Print Assumptions C18_checked_once_refuted.
