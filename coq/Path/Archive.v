(* C18 — archives: nothing is created through (or on top of) a symbolic link brought by the same archive.
   For every archive accepted by the repaired check of StageReference the link-following [extract] of the
   model coincides with the lexical reading [extract_lexical]. *)
From Coq Require Import String Ascii List Bool Arith Lia.
Import ListNotations.
Require Import V.Lib.PyStr V.Path.Model V.Path.Proofs.
Open Scope string_scope.
Local Arguments Ascii.eqb : simpl never.

Lemma existsb_false_in {A} (f : A -> bool) l x : existsb f l = false -> In x l -> f x = false.
Proof.
  intros H Hin. destruct (f x) eqn:E; [|reflexivity].
  assert (existsb f l = true) by (apply existsb_exists; exists x; split; assumption). congruence.
Qed.

(* a path inside a real directory (character-wise) does not begin with "//" *)
Lemma inside_flag d np : gooddir d = true -> inside_str (false, d) np = true -> fst np = false.
Proof.
  intros Hg H. destruct np as [b p]. cbn. destruct b; [|reflexivity]. exfalso.
  unfold inside_str, rs in H. cbn [fst snd] in H.
  unfold gooddir in Hg. apply andb_true_iff in Hg. destruct Hg as [Hn Hg].
  destruct d as [|a d]; [discriminate|]. cbn in Hg. apply andb_true_iff in Hg. destruct Hg as [Ha _].
  unfold goodsegb in Ha. apply andb_true_iff in Ha. destruct Ha as [Ha _]. apply andb_true_iff in Ha.
  destruct Ha as [Hns Hsk]. destruct a as [|c a]; [discriminate|].
  cbn in H. cbn in Hns. apply andb_true_iff in Hns. destruct Hns as [Hc _].
  destruct (Ascii.eqb c slash) eqn:E; [discriminate|]. rewrite andb_false_r in H. discriminate.
Qed.

(* a segment prefix is a character prefix of the rendered strings *)
Lemma within_inside a b : fst a = false -> fst b = false -> within (snd a) (snd b) -> inside_str a b = true.
Proof.
  destruct a as [fa pa], b as [fb pb]. cbn. intros -> -> W. unfold inside_str, rs, rslash. cbn.
  rewrite Ascii.eqb_refl. cbn. apply within_rtail_prefix. exact W.
Qed.

Lemma find_link_none_gen strict links p :
  (forall lp lt rest, In (lp, lt) links -> lstrip lp p = Some rest -> strict = true /\ rest = []) ->
  find_link strict links p = None.
Proof.
  induction links as [|[lp lt] r IH]; intros H; cbn; [reflexivity|].
  assert (Hr : find_link strict r p = None).
  { apply IH. intros lp0 lt0 rest Hin. apply (H lp0 lt0 rest). right; assumption. }
  destruct (lstrip lp p) as [rest|] eqn:E; [|exact Hr].
  destruct (H lp lt rest (or_introl eq_refl) E) as [-> ->]. cbn. exact Hr.
Qed.

Lemma member_ok_parts d links i m :
  member_ok d links i m = true ->
  inside_str (false, d) (mpath d m) = true /\
  existsb (fun jl => negb (Nat.eqb (fst jl) i) && inside_str (snd jl) (mpath d m)) links = false /\
  (forall t tp, snd m = KHard t -> mtarget d m = Some tp ->
     inside_str (false, d) tp = true /\ existsb (fun jl => inside_str (snd jl) tp) links = false).
Proof.
  unfold member_ok. intros H.
  apply andb_true_iff in H. destruct H as [H Hkind].
  apply andb_true_iff in H. destruct H as [H Hthrough].
  apply andb_true_iff in H. destruct H as [_ Hin].
  apply negb_true_iff in Hthrough. repeat split; try assumption.
  - rewrite H in Hkind. rewrite H0 in Hkind.
    apply andb_true_iff in Hkind. destruct Hkind as [Hk _].
    apply andb_true_iff in Hk. destruct Hk as [_ Hk]. exact Hk.
  - rewrite H in Hkind. rewrite H0 in Hkind.
    apply andb_true_iff in Hkind. destruct Hkind as [_ Hk]. apply negb_true_iff in Hk. exact Hk.
Qed.

(* ---------------------------------------------------------------- positions *)
Lemma check_from_nth d links ms : forall i k m,
  check_from d links i ms = true -> nth_error ms k = Some m -> member_ok d links (i + k) m = true.
Proof.
  induction ms as [|x r IH]; intros i k m H Hn; [destruct k; discriminate|].
  cbn in H. apply andb_true_iff in H. destruct H as [Hx Hr].
  destruct k as [|k]; cbn in Hn.
  - inversion Hn; subst. rewrite Nat.add_0_r. exact Hx.
  - replace (i + S k) with (S i + k) by lia. eapply IH; eassumption.
Qed.

Lemma sym_paths_nth d ms : forall i k m,
  nth_error ms k = Some m -> is_sym m = true -> In (i + k, mpath d m) (sym_paths_from d i ms).
Proof.
  induction ms as [|x r IH]; intros i k m Hn Hs; [destruct k; discriminate|].
  destruct k as [|k]; cbn in Hn.
  - inversion Hn; subst. cbn. rewrite Hs. left. rewrite Nat.add_0_r. reflexivity.
  - replace (i + S k) with (S i + k) by lia. cbn [sym_paths_from].
    destruct (is_sym x); [right|]; apply IH; assumption.
Qed.

Lemma lstrip_self_rest p rest : lstrip p p = Some rest -> rest = [].
Proof.
  intros H. apply lstrip_some in H. rewrite <- (app_nil_r p) in H at 1. apply app_inv_head in H. symmetry; exact H.
Qed.

(* every entry of the link map comes from a symbolic-link member at some position *)
Lemma linkmap_origin d ms lp lt :
  In (lp, lt) (linkmap d ms) ->
  exists k m, nth_error ms k = Some m /\ is_sym m = true /\ lp = snd (mpath d m).
Proof.
  intros Hin. unfold linkmap in Hin. apply in_flat_map in Hin. destruct Hin as [m [Hm Hin]].
  destruct (In_nth_error _ _ Hm) as [k Hk]. exists k, m.
  destruct (snd m) eqn:Ek; try (destruct Hin; fail).
  destruct (mtarget d m) as [tp|]; [|destruct Hin]. destruct Hin as [H|[]]. inversion H; subst.
  repeat split; [exact Hk|]. unfold is_sym. rewrite Ek. reflexivity.
Qed.

Section Accepted.
  Variables (d : list string) (ms : list member).
  Hypothesis Hg : gooddir d = true.
  Hypothesis Hc : tar_check d ms = true.

  Let links := sym_paths_from d 0 ms.

  Lemma accepted_member_ok k m : nth_error ms k = Some m -> member_ok d links k m = true.
  Proof. intros Hn. apply (check_from_nth d links ms 0 k m Hc Hn). Qed.

  Lemma accepted_flag k m : nth_error ms k = Some m -> fst (mpath d m) = false.
  Proof.
    intros Hn. destruct (member_ok_parts _ _ _ _ (accepted_member_ok k m Hn)) as [H _].
    apply (inside_flag d _ Hg). exact H.
  Qed.

  (* no member is created through, or (unless it is that link itself) on top of, a link of the archive *)
  Lemma accepted_no_link m : In m ms -> find_link (is_sym m) (linkmap d ms) (snd (mpath d m)) = None.
  Proof.
    intros Hm. destruct (In_nth_error _ _ Hm) as [k Hk].
    apply find_link_none_gen. intros lp lt rest Hin Hs.
    destruct (linkmap_origin d ms lp lt Hin) as [k' [m' [Hk' [Hsym ->]]]].
    destruct (Nat.eq_dec k' k) as [->|Hne].
    - rewrite Hk in Hk'. inversion Hk'; subst m'. split; [exact Hsym|]. eapply lstrip_self_rest; eassumption.
    - exfalso. destruct (member_ok_parts _ _ _ _ (accepted_member_ok k m Hk)) as [_ [Hthrough _]].
      pose proof (existsb_false_in _ _ (k', mpath d m') Hthrough (sym_paths_nth d ms 0 k' m' Hk' Hsym)) as Hf.
      cbn [fst snd] in Hf. apply Nat.eqb_neq in Hne. rewrite Hne in Hf. cbn in Hf.
      rewrite (within_inside (mpath d m') (mpath d m)) in Hf; [discriminate| | |].
      + eapply accepted_flag; eassumption.
      + eapply accepted_flag; eassumption.
      + exists rest. apply lstrip_some. exact Hs.
  Qed.

  Lemma accepted_created m : In m ms -> created d ms m = snd (mpath d m).
  Proof. intros Hm. unfold created. apply resolve_no_link. apply accepted_no_link. exact Hm. Qed.

  (* the file a hard-link member is linked to is not reached through a link of the archive either *)
  Lemma accepted_hard_no_link m t tp :
    In m ms -> snd m = KHard t -> mtarget d m = Some tp ->
    find_link false (linkmap d ms) (snd tp) = None.
  Proof.
    intros Hm Ek Et. destruct (In_nth_error _ _ Hm) as [k Hk].
    apply find_link_none_gen. intros lp lt rest Hin Hs. exfalso.
    destruct (linkmap_origin d ms lp lt Hin) as [k' [m' [Hk' [Hsym ->]]]].
    destruct (member_ok_parts _ _ _ _ (accepted_member_ok k m Hk)) as [_ [_ Hh]].
    destruct (Hh t tp Ek Et) as [Hinside Hthrough].
    pose proof (existsb_false_in _ _ (k', mpath d m') Hthrough (sym_paths_nth d ms 0 k' m' Hk' Hsym)) as Hf.
    cbn [fst snd] in Hf.
    rewrite (within_inside (mpath d m') tp) in Hf; [discriminate| | |].
    - eapply accepted_flag; eassumption.
    - apply (inside_flag d _ Hg). exact Hinside.
    - exists rest. apply lstrip_some. exact Hs.
  Qed.

  Lemma accepted_hard m t tp :
    In m ms -> snd m = KHard t -> mtarget d m = Some tp ->
    resolve false (linkmap d ms) (S (length ms)) (snd tp) = snd tp.
  Proof. intros Hm Ek Et. apply resolve_no_link. eapply accepted_hard_no_link; eassumption. Qed.

  Lemma accepted_hard_targets : hard_targets d ms = hard_lexical d ms.
  Proof.
    unfold hard_targets, hard_lexical.
    assert (G : forall l, incl l ms ->
      flat_map (fun m => match snd m with
                         | KHard _ => match mtarget d m with
                                      | Some tp => [resolve false (linkmap d ms) (S (length ms)) (snd tp)]
                                      | None => []
                                      end
                         | _ => []
                         end) l =
      flat_map (fun m => match snd m with
                         | KHard _ => match mtarget d m with Some tp => [snd tp] | None => [] end
                         | _ => []
                         end) l).
    { induction l as [|m l IH]; intros Hi; [reflexivity|]. cbn [flat_map].
      rewrite IH by (intros x Hx; apply Hi; right; exact Hx). f_equal.
      destruct (snd m) eqn:Ek; try reflexivity.
      destruct (mtarget d m) as [tp|] eqn:Et; [|reflexivity].
      rewrite (accepted_hard m target tp); [reflexivity| apply Hi; left; reflexivity | exact Ek | exact Et]. }
    apply G. apply incl_refl.
  Qed.

  Lemma accepted_extract : extract d ms = extract_lexical d ms.
  Proof.
    unfold extract, extract_lexical. rewrite accepted_hard_targets. f_equal.
    apply map_ext_in. intros m Hm. apply accepted_created. exact Hm.
  Qed.
End Accepted.

Lemma archive_no_redirect d ms :
  gooddir d = true -> tar_check d ms = true -> extract d ms = extract_lexical d ms.
Proof. intros Hg Hc. apply accepted_extract; assumption. Qed.

Lemma stage_extract_lexical d ms :
  gooddir d = true -> stage_extract d ms = if tar_check d ms then extract_lexical d ms else [].
Proof.
  intros Hg. unfold stage_extract. destruct (tar_check d ms) eqn:E; [|reflexivity].
  apply archive_no_redirect; assumption.
Qed.
