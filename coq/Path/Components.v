(* C18 — several COMPONENTS staged by one process, each into its own working directory, referencing the same files
   (the same archive extracted into several directories): every component stays inside its own directory, whatever
   the others — earlier or later — staged, and nothing of it lands in the directory of another component. *)
From Coq Require Import String List Bool.
Import ListNotations.
Require Import V.Path.Model V.Path.Proofs V.Path.Sequence.
Open Scope string_scope.

Lemma comp_ok_parts d st stop refs : comp_ok (d, st, stop, refs) = true -> gooddir d = true /\ real_dir (links_of st) d = true.
Proof. cbn. rewrite andb_true_iff. trivial. Qed.

Lemma component_confined (c : component) :
  comp_ok c = true -> forall p, In p (seq_writes (stage_component c)) -> within (comp_dir c) p.
Proof.
  destruct c as [[[d st] stop] refs]. intros H p Hin. apply comp_ok_parts in H. destruct H as [Hg Hr].
  cbn in *. eapply seq_confined; eassumption.
Qed.

Lemma components_confined (cs : list component) :
  forallb comp_ok cs = true ->
  forall c, In c cs -> forall p, In p (seq_writes (stage_component c)) -> within (comp_dir c) p.
Proof. intros H c Hc. apply component_confined. rewrite forallb_forall in H. apply H; exact Hc. Qed.

(* a path below two directories: one of them is below the other *)
Lemma common_below : forall d1 d2 p, within d1 p -> within d2 p -> lprefixb d1 d2 = true \/ lprefixb d2 d1 = true.
Proof.
  induction d1 as [|x d1 IH]; intros d2 p H1 H2; [left; reflexivity|].
  destruct d2 as [|y d2]; [right; reflexivity|].
  destruct H1 as [r1 E1], H2 as [r2 E2]. subst p. cbn in E2. inversion E2; subst.
  destruct (IH d2 (d1 ++ r1)%list) as [H|H].
  - exists r1; reflexivity.
  - exists r2; assumption.
  - left. cbn. rewrite String.eqb_refl. exact H.
  - right. cbn. rewrite String.eqb_refl. exact H.
Qed.

Lemma apart_disjoint d1 d2 p : apart d1 d2 = true -> within d1 p -> ~ within d2 p.
Proof.
  unfold apart. rewrite andb_true_iff, !negb_true_iff. intros [Ha Hb] H1 H2.
  destruct (common_below d1 d2 p H1 H2) as [H|H]; congruence.
Qed.

Lemma components_apart (cs : list component) :
  forallb comp_ok cs = true ->
  forall c c', In c cs -> In c' cs -> apart (comp_dir c) (comp_dir c') = true ->
  forall p, In p (seq_writes (stage_component c)) -> ~ within (comp_dir c') p.
Proof.
  intros H c c' Hc _ Ha p Hin. eapply apart_disjoint; [exact Ha|]. eapply components_confined; eassumption.
Qed.
