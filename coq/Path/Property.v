(* C18 — Staging and deployment never write outside their target directory.  Property theorems only. *)
From Coq Require Import String List Bool.
Import ListNotations.
Require Import V.Path.Model V.Path.Proofs V.Path.Archive V.Path.Deploy V.Path.PreLinks V.Path.CopyTree V.Path.Sequence V.Path.Components.
Open Scope string_scope.

(* For the SPECIFIED check (every member, and every link target, stays in the destination after
   normalisation) everything extraction creates or touches — also through the symbolic links the
   archive itself brings — is inside the destination.  All destinations, all archives. *)
Theorem C18_safe_spec : forall (d : list string) (ms : list member),
  spec_check d ms = true -> forall p, In p (extract d ms) -> within d p.
Proof. exact extract_safe. Qed.
Print Assumptions C18_safe_spec.

(* The check coded in StageReference after the repair (character-wise comparison of the normalised
   strings) implies the specified one, for every real destination directory. *)
Theorem C18_coded_implies_spec : forall (d : list string) (ms : list member),
  gooddir d = true -> tar_check d ms = true -> spec_check d ms = true.
Proof. exact coded_implies_spec. Qed.
Print Assumptions C18_coded_implies_spec.

(* Hence: whatever the archive, staging it (check, then extraction; nothing when refused) only
   creates paths inside the working directory. *)
Theorem C18_staging_confined : forall (d : list string) (ms : list member),
  gooddir d = true -> forall p, In p (stage_extract d ms) -> within d p.
Proof. exact stage_extract_safe. Qed.
Print Assumptions C18_staging_confined.

(* No traversal through links: for every archive the repaired check accepts, no member (and no file a
   hard-link member is linked to) is created through, or on top of, a symbolic link brought by the same
   archive — the link-following [extract] creates exactly the lexically computed paths
   normpath(join(destination, name)).  (The archive-side mirror of C18_manifest_no_redirect.) *)
Theorem C18_archive_no_redirect : forall (d : list string) (ms : list member),
  gooddir d = true -> tar_check d ms = true -> extract d ms = extract_lexical d ms.
Proof. exact archive_no_redirect. Qed.
Print Assumptions C18_archive_no_redirect.

(* Working directories that ALREADY contain symbolic links (e.g. link references staged earlier), [pre] being
   any set of links of the file system: for every archive the repaired check (which refuses a member whose
   path is, or passes through, an existing link below the destination) accepts, the extraction — following the
   pre-existing links and the links of the archive — creates exactly the lexical paths ... *)
Theorem C18_prelinks_no_redirect : forall (pre : links) (d : list string) (ms : list member),
  gooddir d = true -> real_dir pre d = true -> tar_check_pre pre d ms = true ->
  extract_pre pre d ms = extract_lexical d ms.
Proof. exact prelinks_no_redirect. Qed.
Print Assumptions C18_prelinks_no_redirect.

(* ... hence every path created, after resolving the pre-existing links, lies inside the real destination
   (d real: no link is d or an ancestor of d, which is what os.path.realpath(destination) returns; the
   hypothesis is necessary: C18_real_dir_needed_refuted). *)
Theorem C18_prelinks_confined : forall (pre : links) (d : list string) (ms : list member),
  gooddir d = true -> real_dir pre d = true ->
  forall p, In p (stage_extract_pre pre d ms) -> within d p.
Proof. exact prelinks_confined. Qed.
Print Assumptions C18_prelinks_confined.

(* copy / link staging: at most one entry, named by the last segment of the source (which contains
   no separator and is not "", "." or ".."), directly under the working directory. *)
Theorem C18_copy_link : forall (work : list string) (src : string) (p : list string),
  stage_entry work src = Some p ->
  p = (work ++ [basename src])%list /\ noslashb (basename src) = true /\
  skipseg (basename src) = false /\ dotdot (basename src) = false /\
  within work p /\ length p = S (length work).
Proof. exact copy_link. Qed.
Print Assumptions C18_copy_link.

(* Migrated components (Job.stageIn removes the working directory and makes a link in the stage directory): the
   single entry created is named by the separator-free last segment of the reference and lies directly in the
   stage directory, i.e. the PARENT of the working directory; it takes the place of the removed working
   directory exactly when that segment is the component's directory name.  (By design this is outside the
   letter of the property: nothing is created inside the old working directory, it is replaced.) *)
Theorem C18_migrated : forall (work : list string) (src : string) (p : list string),
  migrate_entry work src = Some p ->
  p = (removelast work ++ [basename src])%list /\ noslashb (basename src) = true /\
  skipseg (basename src) = false /\ dotdot (basename src) = false /\
  within (removelast work) p /\ length p = S (length (removelast work)) /\
  (work <> [] -> (p = work <-> basename src = last work "")).
Proof. exact migrated. Qed.
Print Assumptions C18_migrated.

(* A manifest accepted by the repaired Manifest.validate: every key is populated at
   <instance>/<key without "." and empty segments>, beneath the instance directory. *)
Theorem C18_manifest_safe : forall (tgt : list string) (man : list entry),
  validate man = true -> forall e, In e man ->
  kpath tgt (fst e) = (tgt ++ clean (fst e))%list /\ within tgt (kpath tgt (fst e)).
Proof. exact manifest_safe. Qed.
Print Assumptions C18_manifest_safe.

(* ... and nothing is populated through a target that is a link: the deployment creates exactly those paths. *)
Theorem C18_manifest_no_redirect : forall (tgt : list string) (man : list entry),
  validate man = true -> deploy tgt man = map (fun e => (tgt ++ clean (fst e))%list) man.
Proof. exact manifest_no_redirect. Qed.
Print Assumptions C18_manifest_no_redirect.

(* The files the deployment writes itself — <instance>/conf (made unless the manifest has that key) and the
   package file conf/flowir_package.yaml or conf/dsl.yaml — are not reached through a manifest target that
   is a link: for a manifest accepted by the deployment's checks (Manifest.validate + the conf rule of the
   repair of F18d) they are created exactly at these names. *)
Theorem C18_deploy_self_no_redirect : forall (dsl : bool) (tgt : list string) (man : list entry),
  deploy_ok dsl man = true ->
  deploy_self dsl tgt man =
  ((if has_conf_key man then [] else [tgt ++ ["conf"]]) ++ [tgt ++ ["conf"; conf_file dsl]])%list.
Proof. exact deploy_self_lexical. Qed.
Print Assumptions C18_deploy_self_no_redirect.

(* Hence, whatever the manifest: everything a deployment creates or writes (the manifest's targets and its own
   files; nothing when the manifest is refused) is beneath the new instance directory. *)
Theorem C18_deploy_confined : forall (dsl : bool) (tgt : list string) (man : list entry) (p : list string),
  In p (deploy_all dsl tgt man) -> within tgt p.
Proof. exact deploy_all_safe. Qed.
Print Assumptions C18_deploy_confined.

(* The CONTENT of copied source folders.  [deploy_fs] runs the manifest entry by entry over a file-system state
   (what exists in the instance, which entries are links), each :copy bringing the whole tree of its source folder
   [srcs] — which may hold symbolic links at any depth: to directories, to files, dangling, absolute or relative,
   leading inside or outside the folder — as shutil.copytree(symlinks=False) does: a link is followed and what it
   leads to becomes a real directory / file of the instance.  For every manifest (a dict: no key twice), all source
   trees and all instance directories:
   no path is reached through a link — the deployment that follows the links of the instance ([res_fs]) does exactly
   what the one that follows none ([res_lex]) does, entry by entry, also for keys that are nested paths below what an
   earlier :copy brought, and for conf/ and the package file; ... *)
Theorem C18_deploy_tree_no_redirect : forall (dsl : bool) (srcs : sources) (tgt : list string) (man : list entry),
  nodup_keys man = true ->
  deploy_fs res_fs false dsl srcs tgt man = deploy_fs res_lex false dsl srcs tgt man.
Proof. exact deploy_tree_no_redirect. Qed.
Print Assumptions C18_deploy_tree_no_redirect.

(* ... everything created or written (directories made on the way, every file and directory of every copied tree,
   the links of :link entries, conf/ and the package file; also by a deployment that stops half-way on an OSError)
   is beneath the instance directory; ... *)
Theorem C18_deploy_tree_confined : forall (dsl : bool) (srcs : sources) (tgt : list string) (man : list entry),
  nodup_keys man = true ->
  forall p k, In (p, k) (fst (deploy_fs res_fs false dsl srcs tgt man)) -> within tgt p.
Proof. exact deploy_tree_confined. Qed.
Print Assumptions C18_deploy_tree_confined.

(* ... and a :copy never leaves a link in the instance: the only links are those of the :link entries, at their
   lexical places (below which Manifest.validate allows no key).  That shutil.copytree follows links is needed:
   C18_copy_follow_needed_refuted. *)
Theorem C18_copy_makes_no_link : forall (dsl : bool) (srcs : sources) (tgt : list string) (man : list entry),
  nodup_keys man = true ->
  forall p t, In (p, ELink t) (fst (deploy_fs res_fs false dsl srcs tgt man)) ->
  exists l, In l man /\ is_link l = true /\ p = (tgt ++ clean (fst l))%list.
Proof. exact copy_makes_no_link. Qed.
Print Assumptions C18_copy_makes_no_link.

(* SEQUENCES of references staged into ONE working directory (Job.stageIn stages a component's references one after
   the other; each step finds what the earlier ones, or an earlier run, left there).  [stage_seq] runs the references
   over a state of the working directory — what exists, which entries are symbolic links and where they lead — every
   step FOLLOWING the links of that state as the file system does: :copy of a file (shutil.copy, a write that follows a
   link at <directory>/<name>; the repaired code refuses to copy on top of a link, F18f), :copy of a directory
   (copytree, symlinks re-created), :link (os.symlink), :extract (the repaired check against the links present, then
   extraction).  For every working directory d that is real (what Job/StageReference use: no link is d or above d),
   every state of it — any links, dangling, looping, leading anywhere — every sequence, colliding or nested names
   included, and both ways of going on after a failure:
   no step is redirected by a link — the link-following run is the run that follows none, step by step (entries
   gained, paths written, codes); ... *)
Theorem C18_sequence_no_redirect : forall (d : list string) (st : list fsent) (stop : bool) (refs : list sref),
  gooddir d = true -> real_dir (links_of st) d = true ->
  stage_seq d st stop refs = run_refs false true stop d st true refs.
Proof. intros. apply seq_no_redirect; assumption. Qed.
Print Assumptions C18_sequence_no_redirect.

(* ... every path the whole sequence creates or writes is inside the working directory (C18_staging_confined for
   sequences; false before the repair: C18_copy_over_link_refuted); ... *)
Theorem C18_sequence_confined : forall (d : list string) (st : list fsent) (stop : bool) (refs : list sref),
  gooddir d = true -> real_dir (links_of st) d = true ->
  forall p, In p (seq_writes (stage_seq d st stop refs)) -> within d p.
Proof. exact seq_confined. Qed.
Print Assumptions C18_sequence_confined.

(* ... and the directory is still real afterwards, so the statement holds again for whatever is staged next. *)
Theorem C18_sequence_stays_real : forall (d : list string) (st : list fsent) (stop : bool) (refs : list sref),
  gooddir d = true -> real_dir (links_of st) d = true ->
  real_dir (links_of (seq_state (stage_seq d st stop refs))) d = true.
Proof.
  intros d st stop refs Hg Hr. unfold stage_seq. rewrite (seq_no_redirect d stop refs st true Hg Hr).
  apply seq_stays_real; assumption.
Qed.
Print Assumptions C18_sequence_stays_real.

(* SEVERAL COMPONENTS staged by one process (round-7 seed C18_m11).  The components of a workflow are staged one after
   the other by the same process, each into its own working directory, and they reference the same files — one archive
   is extracted into many directories.  Every reference of every component is examined against the directory it is
   staged into, nothing is carried over from an earlier call: for every list of components with real working
   directories (any states, any references, the same archives in any of them, any order), every path a component
   creates or writes is inside ITS directory ... *)
Theorem C18_components_confined : forall (cs : list component),
  forallb comp_ok cs = true ->
  forall c, In c cs -> forall p, In p (seq_writes (stage_component c)) -> within (comp_dir c) p.
Proof. exact components_confined. Qed.
Print Assumptions C18_components_confined.

(* ... and therefore nothing of it lands in the working directory of another component (directories that are not
   nested): an archive member with an absolute name, or below a link, that is inside one component's directory is never
   created by the staging of another.  That the archive is examined for EVERY directory is necessary:
   C18_checked_once_refuted. *)
Theorem C18_components_apart : forall (cs : list component),
  forallb comp_ok cs = true ->
  forall c c', In c cs -> In c' cs -> apart (comp_dir c) (comp_dir c') = true ->
  forall p, In p (seq_writes (stage_component c)) -> ~ within (comp_dir c') p.
Proof. exact components_apart. Qed.
Print Assumptions C18_components_apart.

(* non-vacuity: a benign archive (directories, a file, a relative symbolic link with "..", a hard
   link, an absolute name inside the destination) is accepted by the repaired check and extracted where
   expected; the hostile ones are refused; a nested manifest with a link entry is accepted. *)
Example C18_nonvacuous :
  let d := ["t"; "work"] in
  let ok := [("./", KDir); ("./a", KDir); ("./a/b.txt", KFile); ("a/l", KSym "../c"); ("h", KHard "a/b.txt");
             ("/t/work/z", KFile)] in
  gooddir d = true /\ tar_check d ok = true /\
  map (created d ok) ok = [d; d ++ ["a"]; d ++ ["a"; "b.txt"]; d ++ ["a"; "l"]; d ++ ["h"]; d ++ ["z"]]%list /\
  tar_check d [("../escaped.txt", KFile)] = false /\
  tar_check d [("/t/work2/x", KFile)] = false /\
  tar_check d [("lnk", KSym "../../out"); ("lnk/f.txt", KFile)] = false /\
  tar_check d [("l", KSym "sub"); ("l/x", KFile)] = false /\
  validate [("bin", "scripts"); ("data/sub", "/p/x:link"); ("./conf", "c:copy")] = true /\
  validate [("../x", "src")] = false /\ validate [("a", "/p/src:link"); ("a/b", "s:copy")] = false /\
  extract d ok = extract_lexical d ok /\
  (let pre := [(d ++ ["prod"], ["out"]); (["t"; "work2"; "l"], d); (d ++ ["a"; "in"], d ++ ["z"])]%list in
   real_dir pre d = true /\ tar_check_pre pre d [("a/b.txt", KFile); ("s", KSym "prod")] = true /\
   stage_extract_pre pre d [("a/b.txt", KFile); ("s", KSym "prod")] = [d ++ ["a"; "b.txt"]; d ++ ["s"]]%list /\
   tar_check_pre pre d [("prod/new.txt", KFile)] = false /\ tar_check_pre pre d [("prod", KFile)] = false /\
   tar_check_pre pre d [("a/in/x", KFile)] = false /\ tar_check_pre pre d [("h", KHard "prod/secret.txt")] = false /\
   real_dir [(["t"], ["out"])] d = false) /\
  deploy_ok false [("bin", "scripts"); ("data/sub", "/p/x:link"); ("./conf", "c:copy")] = true /\
  deploy_all false ["loc"; "i"] [("bin", "scripts"); ("data", "/p/x:link")] =
    [["loc"; "i"; "bin"]; ["loc"; "i"; "data"]; ["loc"; "i"; "conf"]; ["loc"; "i"; "conf"; "flowir_package.yaml"]] /\
  deploy_ok false [("conf", "/p/c:link")] = false /\ deploy_ok false [("./conf/", "/p/c:link")] = false /\
  deploy_ok false [("conf", "/p/c"); ("conf/flowir_package.yaml", "/p/f:link")] = false /\
  deploy_ok true [("conf", "/p/c"); ("conf/flowir_package.yaml", "/p/f:link")] = true /\
  stage_entry d "/p/stages/stage0/prod/out.txt" = Some (d ++ ["out.txt"])%list /\
  migrate_entry d "/p/stages/stage0/work" = Some d /\ migrate_entry d "/p/stages/stage0/prod" = Some ["t"; "prod"] /\
  migrate_entry d "/p/stages/stage0/prod/.." = None /\
  (* a copied folder holding a link to a directory outside, a link to a file and a dangling link two levels down; a
     second key nested below the first link, a third below a :link-free real directory *)
  (let i := ["loc"; "i"] in
   let srcs := [("ds", Some [(["readme.txt"], SFile); (["shared"], SLnk "/store" (Some true)); (["shared"; "big.dat"], SFile);
                             (["d"], SDir); (["d"; "fl"], SLnk "../readme.txt" (Some false))]);
                ("extra", Some [(["notes.txt"], SFile)]); ("broken", Some [(["d"], SDir); (["d"; "gone"], SLnk "nowhere" None)]);
                ("afile", None)] in
   let man := [("data", "ds:copy"); ("data/shared/extra", "extra:copy"); ("ln", "/p/x:link")] in
   nodup_keys man = true /\ deploy_ok false man = true /\
   deploy_fs res_fs false false srcs i man =
     ([(i ++ ["data"], EDir); (i ++ ["data"; "readme.txt"], EFile); (i ++ ["data"; "shared"], EDir);
       (i ++ ["data"; "shared"; "big.dat"], EFile); (i ++ ["data"; "d"], EDir); (i ++ ["data"; "d"; "fl"], EFile);
       (i ++ ["data"; "shared"; "extra"], EDir); (i ++ ["data"; "shared"; "extra"; "notes.txt"], EFile);
       (i ++ ["ln"], ELink ["p"; "x"]); (i ++ ["conf"], EDir); (i ++ ["conf"; "flowir_package.yaml"], EFile)]%list, true) /\
   (* the nested key first: the folder copy finds its target present; a dangling link: copied without it, then stops;
      a source that is not a directory; a key below a copied FILE *)
   deploy_fs res_fs false false srcs i [("data/shared/extra", "extra:copy"); ("data", "ds:copy")] =
     ([(i ++ ["data"], EDir); (i ++ ["data"; "shared"], EDir); (i ++ ["data"; "shared"; "extra"], EDir);
       (i ++ ["data"; "shared"; "extra"; "notes.txt"], EFile)]%list, false) /\
   deploy_fs res_fs false false srcs i [("b", "broken:copy"); ("c", "extra")] =
     ([(i ++ ["b"], EDir); (i ++ ["b"; "d"], EDir)]%list, false) /\
   deploy_fs res_fs false false srcs i [("b", "afile:copy")] = ([], false) /\
   snd (deploy_fs res_fs false false srcs i [("data", "ds:copy"); ("data/d/fl/x", "extra:copy")]) = false /\
   nodup_keys [("a", "x"); ("b", "y"); ("a", "z:link")] = false) /\
  (* a sequence with colliding and nested names: p1/out.txt:link, p2/out.txt:copy (refused: on top of the link),
     p2/dd:copy (a folder that holds a link), p1/dd:link (the name exists), an archive with a member below the link the
     folder brought (refused), an archive that adds a file below the copied folder and a link, a file copied on top of
     that link (refused), a file copied next to it; Job.stageIn stops at the first failure *)
  (let refs := [RLink "/p1/out.txt"; RCopyFile "/p2/out.txt";
                RCopyDir "/p2/dd" [(["a"], SFile); (["l"], SLnk "/store" (Some true)); (["l"; "x"], SFile)];
                RLink "/p1/dd"; RExtract [("dd/l/x", KFile)]; RExtract [("dd/new/y", KFile); ("z", KSym "dd/a")];
                RCopyFile "/p3/z"; RCopyFile "/p3/w"] in
   stage_seq d [] false refs =
     ([(d ++ ["out.txt"], ELink ["p1"; "out.txt"]); (d ++ ["dd"], EDir); (d ++ ["dd"; "a"], EFile);
       (d ++ ["dd"; "l"], ELink ["store"]); (d ++ ["dd"; "new"], EDir); (d ++ ["dd"; "new"; "y"], EFile);
       (d ++ ["z"], ELink (d ++ ["dd"; "a"])); (d ++ ["w"], EFile)]%list,
      [d ++ ["out.txt"]; d ++ ["dd"]; d ++ ["dd"; "a"]; d ++ ["dd"; "l"]; d ++ ["dd"; "new"; "y"]; d ++ ["z"]; d ++ ["w"]]%list,
      [(0, true); (2, true); (0, true); (2, true); (1, true); (0, true); (2, true); (0, true)]) /\
   stage_seq d [] true refs = ([(d ++ ["out.txt"], ELink ["p1"; "out.txt"])]%list, [d ++ ["out.txt"]]%list, [(0, true); (2, true)]) /\
   (* a dangling link found in the directory: nothing is copied on top of it; a file found there is replaced *)
   seq_codes (stage_seq d [(d ++ ["out.txt"], ELink ["p1"; "new.txt"]); (d ++ ["w"], EFile)]%list false
                        [RCopyFile "/p2/out.txt"; RCopyFile "/p3/w"; RCopyDir "/p2/w" []]) = [(2, true); (0, true); (2, true)]) /\
  (* three components extract the SAME archive: into an empty directory (staged), into one where an earlier :link
     reference left the link `shared` (refused, the link is kept, nothing else appears), into one that found a dangling
     link there (refused); an archive with an absolute name inside the first directory: staged there, refused elsewhere *)
  (let bundle := RExtract [("summary.txt", KFile); ("shared/cache.dat", KFile)] in
   let absolute := RExtract [("/t/work/state.txt", KFile)] in
   let e := ["t"; "wb"] in let f := ["t"; "wc"] in
   let cs := [(d, [], true, [bundle; absolute]); (e, [], true, [RLink "/input/shared"; bundle]);
              (f, [(f ++ ["shared"], ELink ["nowhere"])]%list, false, [bundle; absolute])] in
   forallb comp_ok cs = true /\ apart d e = true /\ apart e f = true /\ apart d ["t"; "work"; "sub"] = false /\
   stage_components cs =
     [([(d ++ ["summary.txt"], EFile); (d ++ ["shared"], EDir); (d ++ ["shared"; "cache.dat"], EFile); (d ++ ["state.txt"], EFile)]%list,
       [d ++ ["summary.txt"]; d ++ ["shared"; "cache.dat"]; d ++ ["state.txt"]]%list, [(0, true); (0, true)]);
      ([(e ++ ["shared"], ELink ["input"; "shared"])]%list, [e ++ ["shared"]]%list, [(0, true); (1, true)]);
      ([(f ++ ["shared"], ELink ["nowhere"])]%list, [], [(1, true); (1, true)])]).
Proof. vm_compute. repeat split; reflexivity. Qed.
