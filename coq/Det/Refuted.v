(* C15 — parts of the full statement that are false of the (faithful) model. *)
From Coq Require Import String List Bool ZArith Permutation.
Import ListNotations.
Require Import V.Lib.PyStr V.Lib.JTree V.Det.Model V.Det.Proofs V.Det.Refs V.Det.Aggregate V.Det.Replicate V.Det.Reparam.
Require V.Det.StageVars.
Module SV := V.Det.StageVars.
Open Scope string_scope.
Open Scope list_scope.

Definition at_path (p : list string) (o : option jv) : option jv :=
  match o with Some r => get_path p r | None => None end.

Definition two_files (f : string) : jv :=
  if String.eqb f "one.yaml" then JDict [("global", JDict [("x", JStr "one")])]
  else JDict [("global", JDict [("x", JStr "two")])].

(* F15 (repaired by a fix: commit): the pinned code layered list(set(variable_files)).  Two files
   defining the same variable: the winner is the file the set happens to yield last, i.e. it depends
   on the iteration order (PYTHONHASHSEED) and not on the order given. *)
Theorem C15_set_order_refuted :
  exists (read : string -> jv) files p piF v v',
    perm_oracle piF /\ (forall f, wfk (read f)) /\ (forall f, leaf_in p (read f)) /\
    at_path p (layer_variable_files id_oracle id_oracle read files) = Some v /\
    at_path p (layer_variable_files piF id_oracle read files) = Some v' /\
    v <> v' /\ last_def p (map read files) = Some v.
Proof.
  exists two_files, ["one.yaml"; "two.yaml"], ["global"; "x"], (@rev string), (JStr "two"), (JStr "one").
  split; [exact rev_perm_oracle|]. split; [|split].
  - intros f. unfold two_files. destruct (String.eqb f "one.yaml"); cbn; repeat split; repeat constructor; cbn; tauto.
  - intros f. unfold two_files, leaf_in. destruct (String.eqb f "one.yaml"); exact I.
  - repeat split; try reflexivity. discriminate.
Qed.
Print Assumptions C15_set_order_refuted.

(* Why the repair keeps the LAST position of a repeated path: de-duplicating with
   list(dict.fromkeys(files)) (first position kept) is order preserving too, but [a; b; a] is then
   layered as [a; b] and b wins, although a is the last file given. *)
Theorem C15_dedup_first_refuted :
  exists (read : string -> jv) files p,
    at_path p (layer (map read (dedup_first files))) <> last_def p (map read files) /\
    at_path p (layer (map read (dedup_last files))) = last_def p (map read files).
Proof.
  exists two_files, ["one.yaml"; "two.yaml"; "one.yaml"], ["global"; "x"].
  split; [vm_compute; discriminate|reflexivity].
Qed.
Print Assumptions C15_dedup_first_refuted.

(* F15b (repaired by a fix: commit): the pinned code rewrote the arguments of a DSL component with
   one str.replace per output reference, in the iteration order of a set.  Witness (confirmed on the
   real code, hash seeds 0/1/4 vs 2/3/5): the step c of the entry workflow is given
   message = <a>:ref and other = <b/x<entry-instance/a>>:ref (a file of b whose path has the
   components "x<entry-instance" and "a>"); the reference strings are made absolute, and the data
   reference that replaces the second one contains the first one.  The two orders of the two element
   set give two different argument strings; the reference strings are not separated (so the
   hypothesis of C15_replace_separated cannot be dropped); the sorted order gives the first result. *)
Definition s5_refs : list (string * string) :=
  [("<entry-instance/a>:ref", "stage0.a:ref");
   ("<entry-instance/b/x<entry-instance/a>>:ref", "stage0.b/x<entry-instance/a>:ref")].
Definition s5_ps : list AM.piece :=
  [AM.Tok "<entry-instance/a>:ref"; AM.Lit " "; AM.Tok "<entry-instance/b/x<entry-instance/a>>:ref"].

Theorem C15_replace_set_order_refuted :
  exists refs ps piS,
    perm_oracle piS /\
    replace_refs id_oracle refs (AM.flatten ps) = "stage0.a:ref stage0.b/x<entry-instance/a>:ref" /\
    replace_refs piS refs (AM.flatten ps) = "stage0.a:ref stage0.b/xstage0.a:ref" /\
    replace_refs id_oracle refs (AM.flatten ps) <> replace_refs piS refs (AM.flatten ps) /\
    refs_separatedb refs ps = false /\
    replace_refs_sorted piS refs (AM.flatten ps) = replace_refs id_oracle refs (AM.flatten ps).
Proof.
  exists s5_refs, s5_ps, (@rev string). split; [exact rev_perm_oracle|].
  split; [vm_compute; reflexivity|]. split; [vm_compute; reflexivity|].
  split; [vm_compute; discriminate|]. split; vm_compute; reflexivity.
Qed.
Print Assumptions C15_replace_set_order_refuted.

(* S7: why the collection of replicated references that apply_replicate hands to compile_component_aggregate has
   to be the LIST in document order (it is, in the code that exists: no finding; a set here is a regression the
   correspondence run looks for).  Two replicating producers gen and mygen in the stage of the aggregating
   component, which uses the relative spellings and lists the longer name first: in document order mygen:ref is
   rewritten before gen:ref can match inside it; in the other order of the two element collection the text gen:ref
   inside mygen:ref is expanded and the component references the unknown producer mystage0.gen0.  The spellings
   are not separated, so the hypothesis of C15_aggregate_separated cannot be dropped. *)
Definition s7_refs : list AM.dref :=
  [rref "stage0.mygen:ref" "mygen:ref" ["stage0.mygen0:ref"; "stage0.mygen1:ref"];
   rref "stage0.gen:ref" "gen:ref" ["stage0.gen0:ref"; "stage0.gen1:ref"]].
Definition s7_ps : list AM.piece := [AM.Tok "mygen:ref"; AM.Lit " "; AM.Tok "gen:ref"].

Theorem C15_aggregate_set_order_refuted :
  exists refs ps piS,
    perm_oracle piS /\
    aggregate_list refs (AM.flatten ps) = "stage0.mygen0:ref stage0.mygen1:ref stage0.gen0:ref stage0.gen1:ref" /\
    aggregate_set piS refs (AM.flatten ps) = "mystage0.gen0:ref stage0.gen1:ref stage0.gen0:ref stage0.gen1:ref" /\
    aggregate_list refs (AM.flatten ps) <> aggregate_set piS refs (AM.flatten ps) /\
    AM.separatedb refs ps = false.
Proof.
  exists s7_refs, s7_ps, (@rev AM.dref). split; [exact rev_perm_oracle|].
  split; [vm_compute; reflexivity|]. split; [vm_compute; reflexivity|].
  split; [vm_compute; discriminate|vm_compute; reflexivity].
Qed.
Print Assumptions C15_aggregate_set_order_refuted.


(* S6, which templates replicate: the answer is a function of the sets of the COUNTING producers (those met before an
   aggregating one in their scan), not of the set of all producers: the `break` ends the scan of a string at the
   first aggregating producer.  "<summarise>:output <generate>:ref" in ONE argument makes `report` no replica,
   "<generate>:ref <summarise>:output" makes it one (confirmed on the real code: the first namespace is rejected when
   report uses %(replica)s).  The two strings are different (ordered) data, so this is no nondeterminism of loading
   and no finding of C15; it is why C15_replicates_set_of_producers speaks of succ and why the key-order theorem
   leaves the strings untouched. *)
Definition ex_text_order (agg_first : bool) : tbl :=
  let e (n : string) : loc := ["entry-instance"; n] in
  [mk_inst (e "report") true false false
     [("p", [(if agg_first then [e "summarise"; e "generate"] else [e "generate"; e "summarise"]); []])];
   mk_inst (e "summarise") true false true [("parts", [[e "generate"]; []])];
   mk_inst (e "generate") true true false []].

Theorem C15_replicates_text_order_refuted :
  exists t t' l,
    (forall x, repl t x = repl t' x) /\ (forall x, agg t x = agg t' x) /\
    (forall x p, In p (concat (groups_at t x)) <-> In p (concat (groups_at t' x))) /\
    can_replicate t l = false /\ can_replicate t' l = true.
Proof.
  exists (ex_text_order true), (ex_text_order false), ["entry-instance"; "report"].
  split; [|split; [|split; [|split; vm_compute; reflexivity]]].
  - intros x. unfold repl. cbn. repeat (destruct (loc_eqb x _); [reflexivity|]). reflexivity.
  - intros x. unfold agg. cbn. repeat (destruct (loc_eqb x _); [reflexivity|]). reflexivity.
  - intros x p. unfold groups_at. cbn. repeat (destruct (loc_eqb x _); [cbn; tauto|]). tauto.
Qed.
Print Assumptions C15_replicates_text_order_refuted.

(* Why the snapshot of the package has to be taken BEFORE the user variables of the constructor are patched in
   (conf.py: `self._original_flowir_0 = concrete.raw()` in __init__): with a snapshot taken at the first
   parametrize() (Det.Reparam.parametrize_lazy) an object constructed with a file that sets x and then re-parametrized
   WITHOUT files keeps serving that x; a fresh construction without files serves the value of the package.  No
   finding: the code takes the snapshot in __init__ (in-memory FlowIR / DOSINI / FlowIR file; for DSL 2.0 see F15c). *)
Definition one_file (f : string) : jv := JDict [("global", JDict [("x", JStr "one")])].
Definition rp_pkg : package := [("default", [("0", JDict [("x", JStr "pkg")])])].
Theorem C15_lazy_snapshot_refuted :
  exists (read : string -> jv) pkg files,
    (forall f, wfk (read f)) /\
    let c := construct id_oracle pkg (read, files, "default") in
    current (parametrize_lazy id_oracle "default" c (read, [], "default")) <>
    current (construct id_oracle pkg (read, [], "default")) /\
    current (parametrize id_oracle c (read, [], "default")) = current (construct id_oracle pkg (read, [], "default")).
Proof.
  exists one_file, rp_pkg, ["one.yaml"]. split.
  - intros f. cbn. repeat split; repeat constructor; cbn; tauto.
  - cbv zeta. split; [vm_compute; discriminate|reflexivity].
Qed.
Print Assumptions C15_lazy_snapshot_refuted.

(* Why `context = global_variables.copy()` has to stay INSIDE the loop over the stages of FlowIRConcrete.instance()
   (Det.StageVars.walk_hoisted builds it once before the loop): the context then keeps the variables of the stages
   visited earlier, and the order of the visits is the iteration order of a set.  Stage 0 (workdir = %(base)s/zero,
   no base of its own) resolves /global/zero when it is visited first and /one/zero when stage 1 (base = /one) was
   visited before it.  No finding: the code rebuilds the context for every stage (SV.walk, the C15_stage_variables theorems). *)
Theorem C15_hoisted_context_refuted :
  exists p o1 o2 sk, Permutation o1 o2 /\
    lookup sk (SV.walk_hoisted p o1) <> lookup sk (SV.walk_hoisted p o2) /\
    lookup sk (SV.walk p o1) = lookup sk (SV.walk p o2).
Proof.
  exists SV.ex_pkg, ["0"; "1"; "2"], ["2"; "1"; "0"], "0". split; [apply (Permutation_rev ["0"; "1"; "2"])|].
  split; [vm_compute; discriminate|vm_compute; reflexivity].
Qed.
Print Assumptions C15_hoisted_context_refuted.
