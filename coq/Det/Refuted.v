(* C15 — parts of the full statement that are false of the (faithful) model. *)
From Coq Require Import String List Bool ZArith Permutation.
Import ListNotations.
Require Import V.Lib.PyStr V.Lib.JTree V.Det.Model V.Det.Proofs.
Open Scope string_scope.
Open Scope list_scope.

Definition at_path (p : list string) (o : option jv) : option jv :=
  match o with Some r => get_path p r | None => None end.

Definition two_files (f : string) : jv :=
  if String.eqb f "one.yaml" then JDict [("global", JDict [("x", JStr "one")])]
  else JDict [("global", JDict [("x", JStr "two")])].

(* F15 (repaired by a fix: commit): the pinned code layered list(set(variable_files)).  Two files
   defining the same variable: the winner is the file the set happens to yield last, i.e. it depends
   on the iteration order (PYTHONHASHSEED) and not on the order given. *)
Theorem C15_set_order_refuted :
  exists (read : string -> jv) files p piF v v',
    perm_oracle piF /\ (forall f, wfk (read f)) /\ (forall f, leaf_in p (read f)) /\
    at_path p (layer_variable_files id_oracle id_oracle read files) = Some v /\
    at_path p (layer_variable_files piF id_oracle read files) = Some v' /\
    v <> v' /\ last_def p (map read files) = Some v.
Proof.
  exists two_files, ["one.yaml"; "two.yaml"], ["global"; "x"], (@rev string), (JStr "two"), (JStr "one").
  split; [exact rev_perm_oracle|]. split; [|split].
  - intros f. unfold two_files. destruct (String.eqb f "one.yaml"); cbn; repeat split; repeat constructor; cbn; tauto.
  - intros f. unfold two_files, leaf_in. destruct (String.eqb f "one.yaml"); exact I.
  - repeat split; try reflexivity. discriminate.
Qed.
Print Assumptions C15_set_order_refuted.

(* Why the repair keeps the LAST position of a repeated path: de-duplicating with
   list(dict.fromkeys(files)) (first position kept) is order preserving too, but [a; b; a] is then
   layered as [a; b] and b wins, although a is the last file given. *)
Theorem C15_dedup_first_refuted :
  exists (read : string -> jv) files p,
    at_path p (layer (map read (dedup_first files))) <> last_def p (map read files) /\
    at_path p (layer (map read (dedup_last files))) = last_def p (map read files).
Proof.
  exists two_files, ["one.yaml"; "two.yaml"; "one.yaml"], ["global"; "x"].
  split; [vm_compute; discriminate|reflexivity].
Qed.
Print Assumptions C15_dedup_first_refuted.
