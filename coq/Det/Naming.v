(* C15 — S6: the names of the components and of the environments of a DSL 2 namespace are functions
   of the document that read its mappings only through lookups (steps) or after sorting
   (environments): they are invariant under every permutation of the keys of those mappings. *)
From Coq Require Import String List Bool Arith ZArith Permutation.
Import ListNotations.
Require Import V.Lib.PyStr V.Lib.JTree V.Det.Model V.Det.Proofs.
Open Scope string_scope.
Open Scope list_scope.

(* the same workflow, its `steps` mapping written in another key order *)
Definition wf_rel (w w' : wf) : Prop :=
  wf_name w = wf_name w' /\ wf_exec w = wf_exec w' /\
  Permutation (wf_steps w) (wf_steps w') /\ NoDup (map fst (wf_steps w)).
(* the same namespace: the lists (workflows, components, execute) are ordered data and stay as they are *)
Definition ns_rel (d d' : ns) : Prop :=
  Forall2 wf_rel (ns_wfs d) (ns_wfs d') /\ ns_comps d = ns_comps d' /\ ns_entry d = ns_entry d'.

Lemma find_wf_rel l l' : Forall2 wf_rel l l' -> forall n,
  match find_wf n l, find_wf n l' with
  | Some w, Some w' => wf_rel w w'
  | None, None => True
  | _, _ => False
  end.
Proof.
  induction 1 as [|w w' l l' R _ IH]; intros n; cbn; [exact I|].
  destruct R as [En R']. rewrite <- En. destruct (String.eqb n (wf_name w)); [split; assumption|apply IH].
Qed.

Lemma forallb_perm {A} (p : A -> bool) l l' : Permutation l l' -> forallb p l = forallb p l'.
Proof.
  induction 1 as [|x l l' _ IH|x y l|l l' l'' _ IH1 _ IH2]; cbn.
  - reflexivity.
  - rewrite IH. reflexivity.
  - destruct (p x), (p y); reflexivity.
  - congruence.
Qed.

Lemma children_ext steps steps' comps vis vis' :
  (forall t, lookup t steps' = lookup t steps) -> (forall t tn, vis t tn = vis' t tn) ->
  forall ts, children steps comps vis ts = children steps' comps vis' ts.
Proof.
  intros Hl Hv. induction ts as [|t r IH]; [reflexivity|].
  cbn. rewrite Hl. destruct (lookup t steps) as [tn|]; [|reflexivity].
  rewrite Hv, IH. reflexivity.
Qed.

Lemma map_wf_name_rel l l' : Forall2 wf_rel l l' -> map wf_name l = map wf_name l'.
Proof. induction 1 as [|w w' l l' R _ IH]; cbn; [reflexivity|]. destruct R as [En _]. rewrite En, IH. reflexivity. Qed.

Lemma Forall2_length {A B} (R : A -> B -> Prop) l l' : Forall2 R l l' -> List.length l = List.length l'.
Proof. induction 1; cbn; congruence. Qed.

Lemma visit_rel d d' : ns_rel d d' ->
  forall fuel anc loc t, visit fuel d anc loc t = visit fuel d' anc loc t.
Proof.
  intros [Hw [Hc He]]. induction fuel as [|f IH]; intros anc loc t; [reflexivity|].
  cbn [visit]. rewrite <- Hc. destruct (mem t (ns_comps d)); [reflexivity|].
  pose proof (find_wf_rel _ _ Hw t) as F.
  destruct (find_wf t (ns_wfs d)) as [w|], (find_wf t (ns_wfs d')) as [w'|]; try tauto.
  destruct F as [_ [Ee [Ps ND]]]. rewrite <- Ee.
  rewrite <- (forallb_perm (fun kv => mem (fst kv) (wf_exec w)) _ _ Ps).
  destruct (mem t anc || negb (nodup_strs (wf_exec w)) ||
            negb (forallb (fun kv => mem (fst kv) (wf_exec w)) (wf_steps w))); [reflexivity|].
  rewrite (children_ext (wf_steps w) (wf_steps w') (ns_comps d)
             (fun t0 tn => visit f d (t :: anc) (loc ++ [t0]) tn)
             (fun t0 tn => visit f d' (t :: anc) (loc ++ [t0]) tn)).
  - reflexivity.
  - intros k. exact (lookup_perm k _ _ Ps ND).
  - intros t0 tn. apply IH.
Qed.

Lemma dsl_names_rel d d' : ns_rel d d' -> dsl_names d = dsl_names d'.
Proof.
  intros R. pose proof R as [Hw [Hc He]]. unfold dsl_names, component_scopes.
  rewrite <- Hc, <- He, <- (map_wf_name_rel _ _ Hw), <- (Forall2_length _ _ _ Hw).
  rewrite (visit_rel d d' R). reflexivity.
Qed.

(* environments: the same mapping written in another key order *)
Definition env_rel (e e' : option (list (string * option string))) : Prop :=
  match e, e' with
  | Some a, Some b => Permutation a b /\ NoDup (map fst a)
  | None, None => True
  | _, _ => False
  end.

Lemma env_names_rel envs envs' : Forall2 env_rel envs envs' ->
  forall known, env_names known envs = env_names known envs'.
Proof.
  induction 1 as [|e e' r r' R _ IH]; intros known; [reflexivity|].
  destruct e as [a|], e' as [b|]; cbn in R; try tauto.
  - destruct R as [P ND]. destruct a as [|x a], b as [|y b].
    + cbn. rewrite IH. reflexivity.
    + apply Permutation_nil in P. discriminate.
    + apply Permutation_sym, Permutation_nil in P. discriminate.
    + cbn [env_names]. unfold env_hash. rewrite (sort_kv_perm _ _ P ND).
      destruct (List.find _ known); rewrite IH; reflexivity.
  - cbn. rewrite IH. reflexivity.
Qed.
