(* C15 — FlowIRConcrete.instance(): the loop that resolves the STAGE variables of every stage
   (python/experiment/model/frontends/flowir.py; reached from FlowIRConcrete.replicate(), hence from every
   primitive=False load, and from the code which writes conf/flowir_instance.yaml).

       global_variables  = default global updated with platform global   (platform = default: the default ones)
       each global variable is interpolated against the global variables
       for stage_index in comp_stages:                      # comp_stages: keys inserted while iterating the SET of
           default_stage_vars  = variables.default.stages[i]    # component ids: the ORDER OF THE VISITS is per process
           (platform != default: without the keys the platform defines at global level)
           this_stage_vars     = default_stage_vars updated with variables.<platform>.stages[i]
           context             = global_variables.copy(); context.update(this_stage_vars)
           for name in this_stage_vars:
               this_stage_vars[name] = interpolate(this_stage_vars[name], context)    # FlowIRVariableUnknown: kept

   The loop is modelled as a fold over the stage keys in the order [order] (the oracle: any order) whose state
   holds the loop-carried Python variable `context`; [walk] rebuilds it for every stage (the code), [walk_hoisted]
   is the variant that builds it once before the loop and keeps updating it (refuted in Refuted.v).
   FlowIR.interpolate is V.Conf.Model.interp_string (C04, read-only). *)
From Coq Require Import String List Bool ZArith Permutation.
Import ListNotations.
Require Import V.Lib.PyStr V.Lib.JTree.
Require V.Conf.Model.
Module CM := V.Conf.Model.
Open Scope string_scope.
Open Scope list_scope.

Definition alist := CM.alist.

(* one value: resolved completely, or kept exactly as written when a variable it needs is unknown;
   an error of another class leaves instance() *)
Definition resolve_value (ctx : alist) (v : jv) : CM.res jv :=
  match v with
  | JStr s => match CM.interp_string ctx s with
              | CM.Ok t => CM.Ok (JStr t)
              | CM.Err (CM.EUnknown _) => CM.Ok v
              | CM.Err e => CM.Err e
              end
  | _ => CM.Ok v
  end.

Definition resolve_all (ctx vars : alist) : list (string * CM.res jv) :=
  map (fun kv => (fst kv, resolve_value ctx (snd kv))) vars.

(* what the later steps of instance() read: a value that raised is not there (the call has failed) *)
Definition settled (l : list (string * CM.res jv)) : alist :=
  flat_map (fun kv => match snd kv with CM.Ok v => [(fst kv, v)] | CM.Err _ => [] end) l.

Record pkg := {
  is_default : bool;                            (* platform = 'default' *)
  gdef : alist;                                 (* variables.default.global *)
  gplat : alist;                                (* variables.<platform>.global *)
  stages : list (string * (alist * alist))      (* stage -> (variables.default.stages[i], variables.<platform>.stages[i]) *)
}.

Definition global_raw (p : pkg) : alist := if is_default p then gplat p else CM.update (gdef p) (gplat p).
Definition global_resolved (p : pkg) : list (string * CM.res jv) := resolve_all (global_raw p) (global_raw p).
Definition global_ctx (p : pkg) : alist := settled (global_resolved p).

Definition stage_raw (p : pkg) (sk : string) : alist :=
  match lookup sk (stages p) with
  | None => []
  | Some (sd, sp) =>
      CM.update (if is_default p then sd else filter (fun kv => negb (has_key (fst kv) (gplat p))) sd) sp
  end.

(* the body of the loop for the stage sk when `context` holds ctx0 before `context.update(this_stage_vars)` *)
Definition stage_body (ctx0 : alist) (p : pkg) (sk : string) : alist * list (string * CM.res jv) :=
  let ctx := CM.update ctx0 (stage_raw p sk) in (ctx, resolve_all ctx (stage_raw p sk)).

Definition result := list (string * list (string * CM.res jv)).

(* the code: context = global_variables.copy() INSIDE the loop *)
Definition step (p : pkg) (st : alist * result) (sk : string) : alist * result :=
  let (ctx, r) := stage_body (global_ctx p) p sk in (ctx, set_key sk r (snd st)).
Definition walk (p : pkg) (order : list string) : result := snd (fold_left (step p) order ([], [])).

(* the variant: context = global_variables.copy() BEFORE the loop *)
Definition step_hoisted (p : pkg) (st : alist * result) (sk : string) : alist * result :=
  let (ctx, r) := stage_body (fst st) p sk in (ctx, set_key sk r (snd st)).
Definition walk_hoisted (p : pkg) (order : list string) : result :=
  snd (fold_left (step_hoisted p) order (global_ctx p, [])).

(* the stage variables of one stage, as a function of the package alone *)
Definition stage_resolved (p : pkg) (sk : string) : list (string * CM.res jv) :=
  resolve_all (CM.update (global_ctx p) (stage_raw p sk)) (stage_raw p sk).

(* ------------------------------------------------------------------ proofs *)
Lemma lookup_set_key_same : forall (A : Type) k (v : A) m, lookup k (set_key k v m) = Some v.
Proof.
  induction m as [|[k' v'] r IH]; simpl.
  - now rewrite String.eqb_refl.
  - destruct (String.eqb k k') eqn:E; simpl.
    + now rewrite String.eqb_refl.
    + now rewrite E.
Qed.

Lemma lookup_set_key_other : forall (A : Type) k k' (v : A) m, String.eqb k k' = false ->
  lookup k (set_key k' v m) = lookup k m.
Proof.
  induction m as [|[k2 v2] r IH]; simpl; intros E.
  - now rewrite E.
  - destruct (String.eqb k' k2) eqn:E2; simpl.
    + apply String.eqb_eq in E2. subst k2. now rewrite E.
    + destruct (String.eqb k k2); auto.
Qed.

Lemma walk_fold : forall p order ctx acc sk,
  lookup sk (snd (fold_left (step p) order (ctx, acc))) =
  if existsb (String.eqb sk) order then Some (stage_resolved p sk) else lookup sk acc.
Proof.
  induction order as [|k r IH]; intros ctx acc sk; simpl; auto.
  unfold step at 2. unfold stage_body. simpl. rewrite IH.
  destruct (existsb (String.eqb sk) r) eqn:Er.
  - now rewrite orb_true_r.
  - rewrite orb_false_r. destruct (String.eqb sk k) eqn:E.
    + apply String.eqb_eq in E. subst k. now rewrite lookup_set_key_same.
    + now apply lookup_set_key_other.
Qed.

(* whatever the order of the visits, a visited stage gets the value that depends on the package alone *)
Lemma walk_visited : forall p order sk, In sk order -> lookup sk (walk p order) = Some (stage_resolved p sk).
Proof.
  intros p order sk H. unfold walk. rewrite walk_fold.
  replace (existsb (String.eqb sk) order) with true; auto.
  symmetry. apply existsb_exists. exists sk. split; auto. apply String.eqb_refl.
Qed.

Lemma walk_not_visited : forall p order sk, ~ In sk order -> lookup sk (walk p order) = None.
Proof.
  intros p order sk H. unfold walk. rewrite walk_fold.
  destruct (existsb (String.eqb sk) order) eqn:E; auto.
  apply existsb_exists in E. destruct E as [x [Hx Ex]]. apply String.eqb_eq in Ex. subst x. contradiction.
Qed.

Lemma walk_order_independent : forall p o1 o2 sk, Permutation o1 o2 -> lookup sk (walk p o1) = lookup sk (walk p o2).
Proof.
  intros p o1 o2 sk HP.
  destruct (in_dec string_dec sk o1) as [H|H].
  - rewrite (walk_visited p o1 sk H). rewrite (walk_visited p o2 sk); auto. eapply Permutation_in; eauto.
  - rewrite (walk_not_visited p o1 sk H). rewrite (walk_not_visited p o2 sk); auto.
    intro H2. apply H. eapply Permutation_in; [apply Permutation_sym|]; eauto.
Qed.

(* the variables of the OTHER stages are not read: two packages with the same global variables and the same
   variables of stage sk resolve the variables of sk alike, in any two orders of the visits *)
Lemma walk_local : forall p q o1 o2 sk, In sk o1 -> In sk o2 ->
  is_default p = is_default q -> gdef p = gdef q -> gplat p = gplat q ->
  lookup sk (stages p) = lookup sk (stages q) ->
  lookup sk (walk p o1) = lookup sk (walk q o2).
Proof.
  intros p q o1 o2 sk H1 H2 Hd Hg Hp Hs.
  rewrite (walk_visited p o1 sk H1), (walk_visited q o2 sk H2).
  unfold stage_resolved, stage_raw, global_ctx, global_resolved, global_raw.
  now rewrite Hd, Hg, Hp, Hs.
Qed.

(* the package of the examples: base is a global variable that the stages 1 and 2 override *)
Definition ex_pkg : pkg :=
  {| is_default := true; gdef := []; gplat := [("base", JStr "/global")];
     stages := [("0", ([("workdir", JStr "%(base)s/zero")], [("workdir", JStr "%(base)s/zero")]));
                ("1", ([("base", JStr "/one"); ("workdir", JStr "%(base)s/one")],
                       [("base", JStr "/one"); ("workdir", JStr "%(base)s/one")]));
                ("2", ([("base", JStr "/two"); ("workdir", JStr "%(base)s/two")],
                       [("base", JStr "/two"); ("workdir", JStr "%(base)s/two")]))] |}.

(* ------------------------------------------------------------------ correspondence *)
(* impl: None = instance() raised; Some [(stage, [(name, value)])] (the harness sorts nothing: compared by key) *)
Definition all_ok (l : list (string * CM.res jv)) : bool :=
  forallb (fun kv => match snd kv with CM.Ok _ => true | CM.Err _ => false end) l.

Definition same_vars (m : list (string * CM.res jv)) (impl : alist) : bool :=
  Nat.eqb (length m) (length impl) &&
  forallb (fun kv => match lookup (fst kv) m with
                     | Some (CM.Ok v) => jv_eqb v (snd kv)
                     | _ => false
                     end) impl.

Definition check_stagevars
  (c : (bool * (alist * alist) * list (string * (alist * alist)) * list string) * option (alist * list (string * alist))) : bool :=
  let '((d, (gd, gp), sts, order), impl) := c in
  let p := {| is_default := d; gdef := gd; gplat := gp; stages := sts |} in
  let m := walk p order in
  let m' := walk p (rev order) in
  let fine := all_ok (global_resolved p) && forallb (fun kr => all_ok (snd kr)) m in
  match impl with
  | None => negb fine
  | Some (g, st) =>
      fine && same_vars (global_resolved p) g &&
      Nat.eqb (length st) (length order) &&
      forallb (fun kv => match lookup (fst kv) m, lookup (fst kv) m' with
                         | Some r, Some r' => same_vars r (snd kv) && same_vars r' (snd kv)
                         | _, _ => false
                         end) st
  end.
