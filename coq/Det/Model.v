(* C15 — Loading a package is deterministic.

   What is modelled.  Every place of the anchored code where a result is produced by ITERATING AN
   UNORDERED SOURCE (a set of strings: its iteration order depends on PYTHONHASHSEED; a dictionary
   whose insertion order depends on the order of the keys in an input document) is a function that
   takes an explicit ORACLE: a function list -> list that is only known to return a permutation of
   its argument.  "Deterministic in every process" is then "the same result for every oracle".

   Oracle sites (the list [oracle_sites] below is compared by the harness with a static scan of the
   anchored functions):

   S1 conf.py FlowIRExperimentConfiguration.__init__ / parametrize:
        pinned code     variable_files = list(set(variable_files or []))        -> [set_list piF]
        repaired code   keep the order given, a repeated path keeps its last position -> [dedup_last]
      followed by layer_many_variable_files: agg = {}; for path in files: override_object(agg, read(path))
   S2 flowir.py FlowIR.override_object: `for key in keys_novel: ret[key] = new[key]` (keys_novel is a
      set): insertion order of the novel keys in the result                       -> [override_pi piK]
   S3 graph.py ComponentSpecification._memoization_info_to_hash: iterates dictionaries (whose
      insertion order follows the documents) but only through sorted(...)        -> [ser_pi piD]
   S4 dsl.py ComponentFlowIR.convert_outputreferences_to_datareferences:
      `sorted(parameters_legacy.union(arguments_legacy))` (a set, sorted)       -> [sort (piS l)]
      and namespace_to_flowir.hash_environment `for key in sorted(environment)`  -> [sort_kv (piD l)]
   S5 dsl.py the same method: `for ref_str in <set>: arguments = arguments.replace(ref_str, new_ref_str)`
        pinned code     <set> = parameters_output.union(arguments_output) (NOT sorted) -> [replace_refs piS]
        repaired code   sorted(parameters_output.union(arguments_output))   -> [replace_refs_sorted piS]
      (Det.Refs: the pinned loop is invariant, and equal to the simultaneous substitution, exactly when the
       reference strings are separated; otherwise two set orders give two argument strings: finding F15b)

   S7 flowir.py FlowIR.apply_replicate -> compile_component_aggregate: one search/replace pass per replicated
      reference `for ref in refs_to_replicate` (absolute spelling, else the relative one): the collection is a
      LIST in the order of the `references` field of the document (no oracle)   -> [Det.Aggregate.aggregate_list];
      what a set would do -> [Det.Aggregate.aggregate_set piS] (order independent exactly under separation)

   Process state.  A process performs SEVERAL loads one after the other ([session]); every load reads the files
   as they are on disk at that time and its result is a function of (contents, list given) only: nothing a
   previous load did is visible to a later one ([layer_many] = layer_many_variable_files on the list as given).

   Dictionaries are association lists (V.Lib.JTree.jv); a YAML document never has a repeated key
   ([wfk]). *)
From Coq Require Import String Ascii List Bool Arith ZArith Permutation.
Import ListNotations.
Require Import V.Lib.PyStr V.Lib.JTree.
Require V.Lib.Harness.   (* used by the generated case files of the correspondence run *)
Open Scope string_scope.
Open Scope list_scope.

Definition oracle (A : Type) := list A -> list A.
Definition perm_oracle {A} (pi : oracle A) : Prop := forall l, Permutation l (pi l).
Definition id_oracle {A} : oracle A := fun l => l.

Definition oracle_sites : list string :=
  [ "S1 conf.FlowIRExperimentConfiguration.__init__: variable_files de-duplication";
    "S1 conf.FlowIRExperimentConfiguration.parametrize: variable_files de-duplication";
    "S2 flowir.FlowIR.override_object: for key in keys_novel";
    "S3 graph.ComponentSpecification._memoization_info_to_hash: sorted(obj)";
    "S4 dsl.ComponentFlowIR.convert_outputreferences_to_datareferences: sorted(parameters_legacy.union(arguments_legacy))";
    "S4 dsl.namespace_to_flowir.hash_environment: sorted(environment)";
    "S5 dsl.ComponentFlowIR.convert_outputreferences_to_datareferences: sorted(parameters_output.union(arguments_output))";
    "S7 flowir.FlowIR.apply_replicate: replicated_refs is an ordered list, iterated by compile_component_aggregate / compile_component_replica" ].
(* S6 (no oracle, not in the list): dsl.py namespace_to_flowir names components and environments while
   iterating dictionaries whose insertion order is a function of the document: [dsl_names], [env_names] *)

(* ---------------------------------------------------------------- S1: the list of variable files *)
Fixpoint mem (x : string) (l : list string) : bool :=
  match l with [] => false | y :: r => String.eqb x y || mem x r end.

(* repaired code: [p for i, p in enumerate(files) if p not in files[i + 1:]] *)
Fixpoint dedup_last (l : list string) : list string :=
  match l with
  | [] => []
  | x :: r => if mem x r then dedup_last r else x :: dedup_last r
  end.

(* the obvious alternative list(dict.fromkeys(files)): a repeated path keeps its FIRST position *)
Fixpoint dedup_first_acc (seen l : list string) : list string :=
  match l with
  | [] => []
  | x :: r => if mem x seen then dedup_first_acc seen r else x :: dedup_first_acc (x :: seen) r
  end.
Definition dedup_first (l : list string) : list string := dedup_first_acc [] l.

(* pinned code: list(set(files)): the distinct paths in the iteration order of the set *)
Definition set_list (piF : oracle string) (l : list string) : list string := piF (dedup_last l).

(* ---------------------------------------------------------------- S2: override_object *)
(* recursive override of the keys of old; [f] is the recursive call *)
Definition merge_common (f : jv -> jv -> option jv) (mn : list (string * jv)) :=
  fix go (mo : list (string * jv)) : option (list (string * jv)) :=
    match mo with
    | [] => Some []
    | (k, v) :: r =>
        match lookup k mn with
        | Some v' => match f v v', go r with
                     | Some x, Some y => Some ((k, x) :: y)
                     | _, _ => None
                     end
        | None => option_map (cons (k, v)) (go r)
        end
    end.

Definition novel (mo mn : list (string * jv)) : list (string * jv) :=
  filter (fun kv => negb (has_key (fst kv) mo)) mn.

(* FlowIR.override_object(old, new) with the iteration order of `keys_novel` given by piK.
   None = the AttributeError raised when old is a dict and new is a non-empty non-dict value. *)
Fixpoint override_pi (piK : oracle (string * jv)) (old new : jv) : option jv :=
  match old with
  | JDict mo =>
      if falsy new then Some old
      else match new with
           | JDict mn =>
               match merge_common (override_pi piK) mn mo with
               | Some l => Some (JDict (l ++ piK (novel mo mn)))
               | None => None
               end
           | _ => None
           end
  | _ => match new with JNull => Some old | _ => Some new end
  end.

(* layer_many_variable_files: agg = dict(); for doc in docs: override_object(agg, doc).
   None = FlowIRConfigurationErrors (a file could not be merged). *)
Fixpoint layer_from (piK : oracle (string * jv)) (acc : jv) (docs : list jv) : option jv :=
  match docs with
  | [] => Some acc
  | d :: r => match override_pi piK acc d with
              | Some acc' => layer_from piK acc' r
              | None => None
              end
  end.
Definition layer_pi (piK : oracle (string * jv)) (docs : list jv) : option jv := layer_from piK (JDict []) docs.
Definition layer (docs : list jv) : option jv := layer_pi id_oracle docs.

(* pinned code *)
Definition layer_variable_files (piF : oracle string) (piK : oracle (string * jv))
           (read : string -> jv) (files : list string) : option jv :=
  layer_pi piK (map read (set_list piF files)).
(* repaired code *)
Definition load_variables (piK : oracle (string * jv)) (read : string -> jv) (files : list string) : option jv :=
  layer_pi piK (map read (dedup_last files)).

(* layer_many_variable_files called directly: the list as given, no de-duplication *)
Definition layer_many (piK : oracle (string * jv)) (read : string -> jv) (files : list string) : option jv :=
  layer_pi piK (map read files).

(* one process, several loads one after the other: load i finds the contents read_i on disk and is given files_i.
   The code that exists keeps nothing between two loads (every file is parsed again, into fresh dictionaries). *)
Definition session (piK : oracle (string * jv)) (loads : list ((string -> jv) * list string)) : list (option jv) :=
  map (fun l => load_variables piK (fst l) (snd l)) loads.

(* the documented result: the value of the LAST document that defines the path *)
Fixpoint last_def_from (p : list string) (acc : option jv) (docs : list jv) : option jv :=
  match docs with
  | [] => acc
  | d :: r => last_def_from p (match get_path p d with Some v => Some v | None => acc end) r
  end.
Definition last_def (p : list string) (docs : list jv) : option jv := last_def_from p None docs.

(* a path is a leaf path of the documents: every document either does not have it or has a
   scalar (not a dictionary, not null) there *)
Definition scalar (v : jv) : Prop := match v with JDict _ | JNull => False | _ => True end.
Definition scalarb (v : jv) : bool := match v with JDict _ | JNull => false | _ => true end.
Definition leaf_in (p : list string) (d : jv) : Prop :=
  match get_path p d with None => True | Some v => scalar v end.

(* no repeated key, at any depth reachable through dictionaries *)
Fixpoint wfk (v : jv) : Prop :=
  match v with
  | JDict m => NoDup (map fst m) /\
               (fix go (m : list (string * jv)) : Prop :=
                  match m with [] => True | (_, w) :: r => wfk w /\ go r end) m
  | _ => True
  end.

(* equality up to the order of dictionary entries, at any depth *)
Inductive jperm : jv -> jv -> Prop :=
  | JP_refl : forall v, jperm v v
  | JP_dict : forall ma mb mc, eperm ma mb -> Permutation mb mc -> jperm (JDict ma) (JDict mc)
with eperm : list (string * jv) -> list (string * jv) -> Prop :=
  | EP_nil : eperm [] []
  | EP_cons : forall k v w ra rb, jperm v w -> eperm ra rb -> eperm ((k, v) :: ra) ((k, w) :: rb).

(* _patch_in_variable_files: the variables injected in stage s are the global user variables
   updated with the user variables of stage s (dict.update) *)
Definition inject_stage (uv : jv) (s : string) : list (string * jv) :=
  let g := match get_path ["global"] uv with Some (JDict m) => m | _ => [] end in
  let st := match get_path ["stages"; s] uv with Some (JDict m) => m | _ => [] end in
  fold_left (fun acc kv => set_key (fst kv) (snd kv) acc) st g.

(* ---------------------------------------------------------------- S3/S4: sorted(...) *)
Fixpoint insert (x : string) (l : list string) : list string :=
  match l with
  | [] => [x]
  | y :: r => if String.leb x y then x :: l else y :: insert x r
  end.
Fixpoint sort (l : list string) : list string :=
  match l with [] => [] | x :: r => insert x (sort r) end.

Fixpoint insert_kv {B} (x : string * B) (l : list (string * B)) : list (string * B) :=
  match l with
  | [] => [x]
  | y :: r => if String.leb (fst x) (fst y) then x :: l else y :: insert_kv x r
  end.
Fixpoint sort_kv {B} (l : list (string * B)) : list (string * B) :=
  match l with [] => [] | x :: r => insert_kv x (sort_kv r) end.

Fixpoint cat (l : list string) : string :=
  match l with [] => "" | x :: r => (x ++ cat r)%string end.

Definition zstr (z : Z) : string :=
  match z with
  | Z0 => "0"
  | Zpos p => dec (Npos p)
  | Zneg p => ("-" ++ dec (Npos p))%string
  end.

Fixpoint all_strs (l : list jv) : option (list string) :=
  match l with
  | [] => Some []
  | JStr s :: r => option_map (cons s) (all_strs r)
  | _ :: _ => None
  end.

(* children of a dictionary serialised by [f], None if one of them cannot be *)
Definition ser_entries (f : jv -> option string) :=
  fix go (m : list (string * jv)) : option (list (string * string)) :=
    match m with
    | [] => Some []
    | (k, w) :: r => match f w, go r with
                     | Some s, Some t => Some ((k, s) :: t)
                     | _, _ => None
                     end
    end.

(* _memoization_info_to_hash: the buffer handed to md5.  The dictionary is iterated in the order
   piD (its insertion order: whatever the documents and the code that built it produced) and the
   keys are sorted; lists are modelled when all their elements are strings (sorted as well). *)
Fixpoint ser_pi (piD : oracle (string * string)) (v : jv) : option string :=
  match v with
  | JNull => Some "None"
  | JBool b => Some (if b then "True" else "False")
  | JInt z => Some (zstr z)
  | JFlt r => Some r
  | JStr s => Some s
  | JList l => option_map (fun ss => cat (sort ss)) (all_strs l)
  | JDict m =>
      option_map (fun kvs => cat (map (fun kv => (fst kv ++ snd kv)%string) (sort_kv (piD kvs))))
                 (ser_entries (ser_pi piD) m)
  end.

(* S4: the references of a DSL component: sorted(set) *)
Definition references_of (piS : oracle string) (refs : list string) : list string := sort (piS (dedup_last refs)).

(* S5: replacement of the output references in the arguments: the loop
     for ref_str in ORDER: arguments = arguments.replace(ref_str, new_ref_str)
   refs maps every reference string of the set to the legacy data reference that replaces it. *)
Definition apply_refs (refs : list (string * string)) (order : list string) (args : string) : string :=
  fold_left (fun a r => match lookup r refs with Some n => replace r n a | None => a end) order args.
(* pinned code: ORDER = the iteration order of the set parameters_output.union(arguments_output).
   Invariant only when the reference strings are separated (Det.Refs); refuted otherwise = finding F15b *)
Definition replace_refs (piS : oracle string) (refs : list (string * string)) (args : string) : string :=
  apply_refs refs (piS (dedup_last (map fst refs))) args.
(* repaired code: ORDER = sorted(parameters_output.union(arguments_output)) *)
Definition replace_refs_sorted (piS : oracle string) (refs : list (string * string)) (args : string) : string :=
  apply_refs refs (sort (piS (dedup_last (map fst refs)))) args.

(* ---------------------------------------------------------------- S6: DSL 2 component and environment naming *)
(* dsl.py namespace_to_flowir names the components in the insertion order of `scopes.scopes` and the
   environments in the order of first use.  No unordered source is involved: the order is a function
   of the document, modelled here WITHOUT oracle.  The document, as far as the traversal reads it:
   workflows (a list; each with its name, its `steps` MAPPING step -> template and its `execute` LIST
   of step names), the names of the component templates, the template of the entry instance.
   None = the namespace is rejected (DSLInvalidError). *)
Record wf := mk_wf { wf_name : string; wf_steps : list (string * string); wf_exec : list string }.
Record ns := mk_ns { ns_wfs : list wf; ns_comps : list string; ns_entry : string }.

Fixpoint find_wf (n : string) (l : list wf) : option wf :=
  match l with
  | [] => None
  | w :: r => if String.eqb n (wf_name w) then Some w else find_wf n r
  end.

Fixpoint nodup_strs (l : list string) : bool :=
  match l with [] => true | x :: r => negb (mem x r) && nodup_strs r end.

(* ScopeStack.discover_all_instances_of_templates: a work list; the children of a workflow are put in
   front of it: first its COMPONENT steps in the REVERSE order of the execute list
   (children_scopes.insert(0, ...)), then its WORKFLOW steps in the order of the execute list
   (children_scopes.append(...)), each followed by its own descendants.  `steps` is used only as a
   lookup table (and every step needs an execute entry).  Result: the component scopes in the order
   they are entered = the insertion order of scopes.scopes restricted to components.
   anc = the templates of the enclosing workflows (cycle check); fuel = nesting depth. *)
Definition children (steps : list (string * string)) (comps : list string)
           (vis : string -> string -> option (list (list string * string))) :=
  fix go (ts : list string) : option (list (list string * string) * list (list string * string)) :=
    match ts with
    | [] => Some ([], [])
    | t :: r =>
        match lookup t steps with
        | None => None
        | Some tn =>
            match vis t tn, go r with
            | Some a, Some (cs, ws) => if mem tn comps then Some (cs ++ a, ws) else Some (cs, a ++ ws)
            | _, _ => None
            end
        end
    end.

Fixpoint visit (fuel : nat) (d : ns) (anc : list string) (loc : list string) (tname : string)
  : option (list (list string * string)) :=
  match fuel with
  | O => None
  | S f =>
      if mem tname (ns_comps d) then Some [(loc, tname)]
      else match find_wf tname (ns_wfs d) with
           | None => None
           | Some w =>
               if mem tname anc || negb (nodup_strs (wf_exec w)) ||
                  negb (forallb (fun kv => mem (fst kv) (wf_exec w)) (wf_steps w)) then None
               else
                 match children (wf_steps w) (ns_comps d)
                                (fun t tn => visit f d (tname :: anc) (loc ++ [t]) tn) (wf_exec w) with
                 | Some (cs, ws) => Some (cs ++ ws)
                 | None => None
                 end
           end
  end.

Definition component_scopes (d : ns) : option (list (list string * string)) :=
  if nodup_strs (ns_comps d ++ map wf_name (ns_wfs d))
  then visit (S (S (length (ns_wfs d)))) d [] ["entry-instance"] (ns_entry d)
  else None.

(* number_to_roman_like_numeral *)
Fixpoint rep_str (n : nat) (s : string) : string := match n with O => "" | S k => (s ++ rep_str k s)%string end.
Definition roman (v : nat) : string :=
  let r := Nat.modulo v 10 in
  (rep_str (Nat.div v 10) "X" ++
   (if Nat.eqb r 9 then "IX"
    else if Nat.leb 5 r then "V" ++ rep_str (r - 5) "I"
    else if Nat.eqb r 4 then "IV"
    else rep_str r "I"))%string.

(* SignatureNamePattern (stage(?P<stage>([0-9]+))\.)?(?P<name>([A-Za-z0-9._-]*[A-Za-z_-]+)), fullmatch *)
Definition is_lower (a : ascii) : bool := let n := nat_of_ascii a in Nat.leb 97 n && Nat.leb n 122.
Definition name_last_ch (a : ascii) : bool :=
  is_upper a || is_lower a || Ascii.eqb a "_" || Ascii.eqb a "-".
Definition name_ch (a : ascii) : bool := name_last_ch a || is_digit a || Ascii.eqb a ".".
Fixpoint last_ch (s : string) : option ascii :=
  match s with
  | EmptyString => None
  | String c EmptyString => Some c
  | String _ r => last_ch r
  end.
Definition name_ok (s : string) : bool :=
  all_chars name_ch s && match last_ch s with Some c => name_last_ch c | None => false end.
Fixpoint take_digits (s : string) : string :=
  match s with
  | String c r => if is_digit c then String c (take_digits r) else EmptyString
  | EmptyString => EmptyString
  end.
Definition parse_name (s : string) : option (N * string) :=
  let with_stage :=
    if prefixb "stage" s then
      let rest := drop 5 s in
      let ds := take_digits rest in
      match ds, drop (String.length ds) rest with
      | String _ _, String "." nm => if name_ok nm then option_map (fun n => (n, nm)) (undec ds) else None
      | _, _ => None
      end
    else None in
  match with_stage with
  | Some r => Some r
  | None => if name_ok s then Some (0%N, s) else None
  end.

Definition id_eqb (a b : N * string) : bool := N.eqb (fst a) (fst b) && String.eqb (snd a) (snd b).

(* the `while True` loop: the next candidate name of the step until its (stage, name) is not taken *)
Fixpoint pick (fuel : nat) (step : string) (names : list (string * nat)) (taken : list (N * string))
  : option (list (string * nat) * (N * string)) :=
  match fuel with
  | O => None
  | S f =>
      let nc := match lookup step names with
                | None => (set_key step O names, step)
                | Some c => (set_key step (S c) names, (step ++ "-" ++ roman (S c))%string)
                end in
      match parse_name (snd nc) with
      | None => None
      | Some i => if existsb (id_eqb i) taken then pick f step (fst nc) taken else Some (fst nc, i)
      end
  end.

Fixpoint assign_names (names : list (string * nat)) (taken : list (N * string)) (scs : list (list string * string))
  : option (list (list string * (N * string))) :=
  match scs with
  | [] => Some []
  | (loc, _) :: r =>
      match pick (S (List.length taken)) (last loc "") names taken with
      | None => None
      | Some (names', i) => option_map (cons (loc, i)) (assign_names names' (i :: taken) r)
      end
  end.

(* location of every component instance -> (stage, name), in the order the components are named *)
Definition dsl_names (d : ns) : option (list (list string * (N * string))) :=
  match component_scopes d with
  | Some scs => assign_names [] [] scs
  | None => None
  end.

(* environments: hash_environment = the (key, str(value)) pairs with a value, keys sorted; an
   environment seen for the first time is called env<number of known environments>; {} -> "none";
   no environment -> None *)
Definition env_hash (e : list (string * option string)) : list (string * string) :=
  flat_map (fun kv => match snd kv with Some v => [(fst kv, v)] | None => [] end) (sort_kv e).
Fixpoint hash_eqb (a b : list (string * string)) : bool :=
  match a, b with
  | [], [] => true
  | x :: r, y :: s => String.eqb (fst x) (fst y) && String.eqb (snd x) (snd y) && hash_eqb r s
  | _, _ => false
  end.
Fixpoint env_names (known : list (list (string * string) * string)) (envs : list (option (list (string * option string))))
  : list (option string) :=
  match envs with
  | [] => []
  | None :: r => None :: env_names known r
  | Some [] :: r => Some "none" :: env_names known r
  | Some e :: r =>
      let h := env_hash e in
      match List.find (fun p => hash_eqb (fst p) h) known with
      | Some p => Some (snd p) :: env_names known r
      | None => let nm := ("env" ++ dec (N.of_nat (List.length known)))%string in
                Some nm :: env_names (known ++ [(h, nm)]) r
      end
  end.

(* ---------------------------------------------------------------- checkers used by the correspondence run *)
Definition read_of (tbl : list (string * jv)) (path : string) : jv :=
  match lookup path tbl with Some d => d | None => JNull end.

Definition opt_jv_eqb (a b : option jv) : bool :=
  match a, b with
  | Some x, Some y => jv_eqb x y
  | None, None => true
  | _, _ => false
  end.

Fixpoint all_paths_ok (r : jv) (docs : list jv) (ps : list (list string)) : bool :=
  match ps with
  | [] => true
  | p :: q => opt_jv_eqb (get_path p r) (last_def p docs) && all_paths_ok r docs q
  end.

(* case = ((file table, files as given),
           (leaf paths, per stage: the platform stage variables of the package before the files are patched in),
           (user variables reported by the implementation (None: it raised), platform stage variables afterwards)) *)
Definition check_case
  (c : (list (string * jv) * list string) * (list (list string) * list (string * jv)) * (option jv * list (string * jv))) : bool :=
  let '((tbl, files), (paths, stages), (impl_uv, impl_after)) := c in
  let model := load_variables id_oracle (read_of tbl) files in
  opt_jv_eqb model impl_uv &&
  opt_jv_eqb (load_variables (@rev _) (read_of tbl) files) impl_uv &&
  match model with
  | None => true
  | Some r =>
      (* the model itself gives every leaf path the value of the last file (given order, with repetitions) *)
      all_paths_ok r (map (read_of tbl) files) paths &&
      forallb (fun sb => match lookup (fst sb) impl_after with
                         | Some d => jv_eqb (JDict (fold_left (fun acc kv => set_key (fst kv) (snd kv) acc)
                                                              (inject_stage r (fst sb)) (jdict_of (snd sb)))) d
                         | None => false
                         end) stages
  end.

(* layer case = ((file table, files as given), result of layer_many_variable_files on that list (None: it raised)) *)
Definition check_layer (c : (list (string * jv) * list string) * option jv) : bool :=
  let '((tbl, files), impl) := c in
  opt_jv_eqb (layer_many id_oracle (read_of tbl) files) impl &&
  opt_jv_eqb (layer_many (@rev _) (read_of tbl) files) impl.

(* session case = (loads of one process in the order performed: (file table at that time, files given),
                   user variables reported after each load) *)
Fixpoint opts_eqb (a b : list (option jv)) : bool :=
  match a, b with
  | [], [] => true
  | x :: r, y :: s => opt_jv_eqb x y && opts_eqb r s
  | _, _ => false
  end.
Definition check_session (c : list (list (string * jv) * list string) * list (option jv)) : bool :=
  let loads := map (fun l => (read_of (fst l), snd l)) (fst c) in
  opts_eqb (session id_oracle loads) (snd c) && opts_eqb (session (@rev _) loads) (snd c).

(* ser case = (dictionary, buffer the implementation handed to md5 (None: it raised)) *)
Definition opt_str_eqb (a b : option string) : bool :=
  match a, b with
  | Some x, Some y => String.eqb x y
  | None, None => true
  | _, _ => false
  end.
Definition check_ser (c : jv * option string) : bool :=
  opt_str_eqb (ser_pi id_oracle (fst c)) (snd c) && opt_str_eqb (ser_pi (@rev _) (fst c)) (snd c).

(* override case = (old, new, result of FlowIR.override_object (None: it raised)) *)
Definition check_override (c : jv * jv * option jv) : bool :=
  let '(old, new, r) := c in
  opt_jv_eqb (override_pi id_oracle old new) r && opt_jv_eqb (override_pi (@rev _) old new) r.

(* references case = (reference strings found, references field of the component) *)
Definition check_refs (c : list string * list string) : bool :=
  let '(found, refs) := c in
  (fix eq (a b : list string) : bool :=
     match a, b with
     | [], [] => true
     | x :: r, y :: s => String.eqb x y && eq r s
     | _, _ => false
     end) (references_of id_oracle found) refs.

(* replacement case = ((reference string -> data reference that replaces it, arguments before the loop),
                       arguments after the loop as left by the implementation) *)
Definition check_replace (c : (list (string * string) * string) * string) : bool :=
  let '((refs, args), out) := c in
  String.eqb (replace_refs_sorted id_oracle refs args) out &&
  String.eqb (replace_refs_sorted (@rev _) refs args) out.


(* naming case = (namespace, (location, (stage, name)) of every component in naming order (None: rejected)) *)
Fixpoint strs_eqb (a b : list string) : bool :=
  match a, b with
  | [], [] => true
  | x :: r, y :: s => String.eqb x y && strs_eqb r s
  | _, _ => false
  end.
Fixpoint names_eqb (a b : list (list string * (N * string))) : bool :=
  match a, b with
  | [], [] => true
  | x :: r, y :: s => strs_eqb (fst x) (fst y) && id_eqb (snd x) (snd y) && names_eqb r s
  | _, _ => false
  end.
Definition check_names (c : ns * option (list (list string * (N * string)))) : bool :=
  match dsl_names (fst c), snd c with
  | Some a, Some b => names_eqb a b
  | None, None => true
  | _, _ => false
  end.

(* environment case = (environment of every component in naming order, command.environment given to each) *)
Fixpoint onames_eqb (a b : list (option string)) : bool :=
  match a, b with
  | [], [] => true
  | x :: r, y :: s => opt_str_eqb x y && onames_eqb r s
  | _, _ => false
  end.
Definition check_envs (c : list (option (list (string * option string))) * list (option string)) : bool :=
  onames_eqb (env_names [] (fst c)) (snd c).