(* C15 — Loading a package is deterministic.  Property theorems only.
   "In every process" is represented by "for every oracle (= iteration order) at the modelled sites". *)
From Coq Require Import String List Bool ZArith Permutation.
Import ListNotations.
Require Import V.Lib.PyStr V.Lib.JTree V.Det.Model V.Det.Proofs.
Open Scope string_scope.
Open Scope list_scope.

(* User variable files are layered in the order given, the last one winning: for the repaired
   loader (order-preserving de-duplication, a repeated path keeps its last position), whatever the
   iteration order piK inside override_object, every leaf path (a path at which each file has
   either nothing or a scalar: global.NAME, stages.N.NAME) of the layered variables has the value
   given by the LAST file of the list, as given (repetitions included), that defines it. *)
Theorem C15_layering : forall piK (read : string -> jv) files p r,
  perm_oracle piK -> p <> [] ->
  (forall f, In f files -> wfk (read f)) ->
  (forall f, In f files -> leaf_in p (read f)) ->
  load_variables piK read files = Some r ->
  get_path p r = last_def p (map read files).
Proof. exact load_variables_last_wins. Qed.
Print Assumptions C15_layering.

(* hence two processes (two iteration orders) load the same value for every variable *)
Theorem C15_layering_same_in_every_process : forall piK piK' (read : string -> jv) files p r r',
  perm_oracle piK -> perm_oracle piK' -> p <> [] ->
  (forall f, In f files -> wfk (read f)) ->
  (forall f, In f files -> leaf_in p (read f)) ->
  load_variables piK read files = Some r -> load_variables piK' read files = Some r' ->
  get_path p r = get_path p r'.
Proof. exact load_variables_oracle_independent. Qed.
Print Assumptions C15_layering_same_in_every_process.

(* One call of override_object: for any two iteration orders of the novel keys the two results
   are both errors, or are equal up to the order of dictionary entries (at any depth); with the
   identity order the model is V.Lib.JTree.override. *)
Theorem C15_perm_invariant_override : forall piK piK' old new,
  perm_oracle piK -> perm_oracle piK' ->
  match override_pi piK old new, override_pi piK' old new with
  | Some a, Some b => jperm a b
  | None, None => True
  | _, _ => False
  end.
Proof. intros piK piK' old new H1 H2. exact (override_perm_invariant piK piK' H1 H2 old new). Qed.
Print Assumptions C15_perm_invariant_override.

Theorem C15_override_is_jtree : forall old new, override_pi id_oracle old new = override old new.
Proof. exact override_id. Qed.
Print Assumptions C15_override_is_jtree.

(* Whatever is sorted before use does not depend on the iteration order: strings, entries with
   distinct keys, and the references of a DSL component (a sorted set). *)
Theorem C15_perm_invariant_sort :
  (forall l l', Permutation l l' -> sort l = sort l') /\
  (forall (l l' : list (string * string)), Permutation l l' -> NoDup (map fst l) -> sort_kv l = sort_kv l') /\
  (forall piS piS' refs, perm_oracle piS -> perm_oracle piS' -> references_of piS refs = references_of piS' refs).
Proof.
  split; [exact sort_perm|]. split; [exact (@sort_kv_perm string)|].
  intros piS piS' refs H1 H2. exact (references_perm_invariant piS piS' refs H1 H2).
Qed.
Print Assumptions C15_perm_invariant_sort.

(* The buffer hashed by _memoization_info_to_hash does not depend on the order in which the
   dictionaries of the info are iterated (documents without repeated keys). *)
Theorem C15_perm_invariant_memo : forall piD piD' v,
  perm_oracle piD -> perm_oracle piD' -> wfk v -> ser_pi piD v = ser_pi piD' v.
Proof. intros piD piD' v H1 H2. exact (ser_perm_invariant piD piD' H1 H2 v). Qed.
Print Assumptions C15_perm_invariant_memo.

(* non-vacuity: three files a, b, c given as [a; b; c; a]; x is defined by all of them, y only by b.
   The hypotheses hold, the loader succeeds, x comes from a (the last one given), y from b; reversing
   every iteration order changes nothing; the memo buffer of a permuted dictionary is the same. *)
Definition ex_read (f : string) : jv :=
  if String.eqb f "a" then JDict [("global", JDict [("x", JStr "A")]); ("stages", JDict [("0", JDict [("z", JInt 1)])])]
  else if String.eqb f "b" then JDict [("stages", JDict [("0", JDict [("z", JInt 2)]); ("1", JDict [("z", JInt 3)])]);
                                       ("global", JDict [("y", JStr "B"); ("x", JStr "B")])]
  else JDict [("global", JDict [("x", JStr "C")])].

Example C15_nonvacuous :
  let files := ["a"; "b"; "c"; "a"] in
  (forall f, wfk (ex_read f)) /\
  (forall f, leaf_in ["global"; "x"] (ex_read f)) /\
  (exists r, load_variables id_oracle ex_read files = Some r /\
             get_path ["global"; "x"] r = Some (JStr "A") /\
             get_path ["global"; "y"] r = Some (JStr "B") /\
             get_path ["stages"; "0"; "z"] r = Some (JInt 1) /\
             get_path ["stages"; "1"; "z"] r = Some (JInt 3)) /\
  (exists r', load_variables (@rev _) ex_read files = Some r' /\ get_path ["global"; "x"] r' = Some (JStr "A")) /\
  last_def ["global"; "x"] (map ex_read files) = Some (JStr "A") /\
  ser_pi id_oracle (JDict [("b", JStr "1"); ("a", JDict [("d", JInt 2); ("c", JNull)])]) = Some "acNoned2b1" /\
  ser_pi (@rev _) (JDict [("b", JStr "1"); ("a", JDict [("d", JInt 2); ("c", JNull)])]) = Some "acNoned2b1".
Proof.
  cbv zeta. split; [|split; [|split; [|split; [|split; [|split]]]]].
  - intros f. unfold ex_read. destruct (String.eqb f "a"); [|destruct (String.eqb f "b")]; cbn;
      repeat split; repeat constructor; cbn; intuition discriminate.
  - intros f. unfold ex_read, leaf_in. destruct (String.eqb f "a"); [|destruct (String.eqb f "b")]; exact I.
  - eexists. split; [vm_compute; reflexivity|]. repeat split.
  - eexists. split; [vm_compute; reflexivity|]. reflexivity.
  - reflexivity.
  - reflexivity.
  - reflexivity.
Qed.
