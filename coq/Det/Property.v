(* C15 — Loading a package is deterministic.  Property theorems only.
   "In every process" is represented by "for every oracle (= iteration order) at the modelled sites". *)
From Coq Require Import String List Bool ZArith Permutation.
Import ListNotations.
Require Import V.Lib.PyStr V.Lib.JTree V.Det.Model V.Det.Proofs V.Det.Congr V.Det.Refs V.Det.Naming V.Det.Session V.Det.Aggregate V.Det.Replicate V.Det.Reparam.
Require V.Det.StageVars.
Module SV := V.Det.StageVars.
Open Scope string_scope.
Open Scope list_scope.

(* User variable files are layered in the order given, the last one winning: for the repaired
   loader (order-preserving de-duplication, a repeated path keeps its last position), whatever the
   iteration order piK inside override_object, every leaf path (a path at which each file has
   either nothing or a scalar: global.NAME, stages.N.NAME) of the layered variables has the value
   given by the LAST file of the list, as given (repetitions included), that defines it. *)
Theorem C15_layering : forall piK (read : string -> jv) files p r,
  perm_oracle piK -> p <> [] ->
  (forall f, In f files -> wfk (read f)) ->
  (forall f, In f files -> leaf_in p (read f)) ->
  load_variables piK read files = Some r ->
  get_path p r = last_def p (map read files).
Proof. exact load_variables_last_wins. Qed.
Print Assumptions C15_layering.

(* hence two processes (two iteration orders) load the same value for every variable *)
Theorem C15_layering_same_in_every_process : forall piK piK' (read : string -> jv) files p r r',
  perm_oracle piK -> perm_oracle piK' -> p <> [] ->
  (forall f, In f files -> wfk (read f)) ->
  (forall f, In f files -> leaf_in p (read f)) ->
  load_variables piK read files = Some r -> load_variables piK' read files = Some r' ->
  get_path p r = get_path p r'.
Proof. exact load_variables_oracle_independent. Qed.
Print Assumptions C15_layering_same_in_every_process.

(* One call of override_object: for any two iteration orders of the novel keys the two results
   are both errors, or are equal up to the order of dictionary entries (at any depth); with the
   identity order the model is V.Lib.JTree.override. *)
Theorem C15_perm_invariant_override : forall piK piK' old new,
  perm_oracle piK -> perm_oracle piK' ->
  match override_pi piK old new, override_pi piK' old new with
  | Some a, Some b => jperm a b
  | None, None => True
  | _, _ => False
  end.
Proof. intros piK piK' old new H1 H2. exact (override_perm_invariant piK piK' H1 H2 old new). Qed.
Print Assumptions C15_perm_invariant_override.

Theorem C15_override_is_jtree : forall old new, override_pi id_oracle old new = override old new.
Proof. exact override_id. Qed.
Print Assumptions C15_override_is_jtree.

(* Whatever is sorted before use does not depend on the iteration order: strings, entries with
   distinct keys, and the references of a DSL component (a sorted set). *)
Theorem C15_perm_invariant_sort :
  (forall l l', Permutation l l' -> sort l = sort l') /\
  (forall (l l' : list (string * string)), Permutation l l' -> NoDup (map fst l) -> sort_kv l = sort_kv l') /\
  (forall piS piS' refs, perm_oracle piS -> perm_oracle piS' -> references_of piS refs = references_of piS' refs).
Proof.
  split; [exact sort_perm|]. split; [exact (@sort_kv_perm string)|].
  intros piS piS' refs H1 H2. exact (references_perm_invariant piS piS' refs H1 H2).
Qed.
Print Assumptions C15_perm_invariant_sort.

(* The buffer hashed by _memoization_info_to_hash does not depend on the order in which the
   dictionaries of the info are iterated (documents without repeated keys). *)
Theorem C15_perm_invariant_memo : forall piD piD' v,
  perm_oracle piD -> perm_oracle piD' -> wfk v -> ser_pi piD v = ser_pi piD' v.
Proof. intros piD piD' v H1 H2. exact (ser_perm_invariant piD piD' H1 H2 v). Qed.
Print Assumptions C15_perm_invariant_memo.

(* ---------------------------------------------------------------- the WHOLE layered dictionary *)
(* "equal up to the order of dictionary entries at every depth" is an equivalence relation, it is
   equality for every reader that goes through keys (what is read at a path is again jperm-related;
   a scalar is EQUAL), so "the same dictionary in every process" can be stated with it. *)
Theorem C15_jperm_equivalence :
  (forall a, jperm a a) /\
  (forall a b, jperm a b -> jperm b a) /\
  (forall a b c, jperm a b -> jperm b c -> jperm a c) /\
  (forall p a b, jperm a b -> wfk a ->
     match get_path p a, get_path p b with
     | Some x, Some y => jperm x y
     | None, None => True
     | _, _ => False
     end) /\
  (forall a b, jperm a b -> scalar a -> b = a).
Proof.
  split; [exact JP_refl|]. split; [exact jperm_sym|]. split; [exact jperm_trans|].
  split; [exact jperm_get_path|exact jperm_scalar].
Qed.
Print Assumptions C15_jperm_equivalence.

(* override_object is a congruence for jperm in BOTH arguments, under any two iteration orders of
   the novel keys: key-permuted but equal arguments give both an error or key-permuted but equal
   results (new without repeated keys; nothing is asked of old). *)
Theorem C15_override_congruence : forall piK piK' old old' new new',
  perm_oracle piK -> perm_oracle piK' -> jperm old old' -> jperm new new' -> wfk new ->
  match override_pi piK old new, override_pi piK' old' new' with
  | Some a, Some b => jperm a b
  | None, None => True
  | _, _ => False
  end.
Proof. intros piK piK' old old' new new' H1 H2. exact (override_congr piK piK' H1 H2 old old' new new'). Qed.
Print Assumptions C15_override_congruence.

(* The whole dictionary of layered user variables (the fold of override_object over the files in
   the order given), not only its leaves: two processes that use any two iteration orders inside
   every override_object call AND read key-permuted but equal files either both fail or obtain
   the same dictionary up to the order of entries at every depth. *)
Theorem C15_perm_invariant_layering : forall piK piK' (read read' : string -> jv) files,
  perm_oracle piK -> perm_oracle piK' ->
  (forall f, In f files -> wfk (read f)) ->
  (forall f, In f files -> jperm (read f) (read' f)) ->
  match load_variables piK read files, load_variables piK' read' files with
  | Some r, Some r' => jperm r r'
  | None, None => True
  | _, _ => False
  end.
Proof. exact load_variables_congr. Qed.
Print Assumptions C15_perm_invariant_layering.

(* ---------------------------------------------------------------- S5: output references -> data references *)
(* The repaired loop (sorted set): the arguments do not depend on the iteration order of the set. *)
Theorem C15_perm_invariant_replace : forall piS piS' refs args,
  perm_oracle piS -> perm_oracle piS' ->
  replace_refs_sorted piS refs args = replace_refs_sorted piS' refs args.
Proof. exact replace_refs_sorted_invariant. Qed.
Print Assumptions C15_perm_invariant_replace.

(* Under separation of the reference strings (every reference string occurs in the arguments only
   as the tokens equal to it, whatever tokens have been replaced already: not inside another
   reference, not inside a replacement, not across a boundary; decidable, V.Args.Model.separatedb)
   the loop computes the SIMULTANEOUS substitution of the tokens, in every iteration order: the pinned
   loop over the unsorted set was order independent on such inputs, and the sorted order chosen by
   the repair gives the intended result.  Without separation: C15_replace_set_order_refuted. *)
Theorem C15_replace_separated : forall piS refs ps,
  perm_oracle piS -> refs_separatedb refs ps = true ->
  replace_refs piS refs (AM.flatten ps) = AM.spec (ref_drefs refs) ps /\
  replace_refs_sorted piS refs (AM.flatten ps) = AM.spec (ref_drefs refs) ps.
Proof.
  intros piS refs ps H S. split; [exact (replace_refs_spec piS refs ps H S)|exact (replace_refs_sorted_spec piS refs ps H S)].
Qed.
Print Assumptions C15_replace_separated.

(* ---------------------------------------------------------------- S6: DSL 2 component / environment names *)
(* The names given to the components (traversal of the workflows, de-duplication with roman
   numerals, stage prefix) and to the environments (first use) by namespace_to_flowir are functions
   of the document without any oracle, and they do not depend on the order in which the keys of the
   mappings of the document are written: `steps` of every workflow (read by lookups only) and every
   environment (hashed after sorting).  Lists (workflows, components, execute) are ordered data. *)
Theorem C15_naming_invariant :
  (forall d d', ns_rel d d' -> dsl_names d = dsl_names d') /\
  (forall envs envs', Forall2 env_rel envs envs' -> env_names [] envs = env_names [] envs').
Proof. split; [exact dsl_names_rel|]. intros envs envs' H. exact (env_names_rel envs envs' H []). Qed.
Print Assumptions C15_naming_invariant.

(* ---------------------------------------------------------------- several loads in one process *)
(* layer_many_variable_files on the list AS GIVEN (no de-duplication, repetitions included): every leaf path has
   the value of the last file of the list that defines it, and the whole dictionary is the same up to the order
   of entries for any two iteration orders and key-permuted but equal files. *)
Theorem C15_layer_many_last_wins : forall piK (read : string -> jv) files p r,
  perm_oracle piK -> p <> [] ->
  (forall f, In f files -> wfk (read f)) ->
  (forall f, In f files -> leaf_in p (read f)) ->
  layer_many piK read files = Some r ->
  get_path p r = last_def p (map read files).
Proof. exact layer_many_last_wins. Qed.
Print Assumptions C15_layer_many_last_wins.

Theorem C15_layer_many_same_in_every_process : forall piK piK' (read read' : string -> jv) files,
  perm_oracle piK -> perm_oracle piK' ->
  (forall f, In f files -> wfk (read f)) ->
  (forall f, In f files -> jperm (read f) (read' f)) ->
  match layer_many piK read files, layer_many piK' read' files with
  | Some r, Some r' => jperm r r'
  | None, None => True
  | _, _ => False
  end.
Proof. exact layer_many_congr. Qed.
Print Assumptions C15_layer_many_same_in_every_process.

(* "In every process" includes a process that has ALREADY loaded other things: the load a process performs after
   any loads `before` (which may use the same files in another order, subsets of them, other contents of them)
   and before any loads `after` gives what a FRESH process (its own iteration orders, key-permuted but equal
   files) gives for the same contents and the same list: both fail, or the same dictionary up to the order of
   entries.  The result of a load is a function of (contents, list given) only. *)
Theorem C15_session_same_as_fresh_process : forall piK piK' before after (read read' : string -> jv) files,
  perm_oracle piK -> perm_oracle piK' ->
  (forall f, In f files -> wfk (read f)) ->
  (forall f, In f files -> jperm (read f) (read' f)) ->
  match load_at piK before (read, files) after, load_variables piK' read' files with
  | Some r, Some r' => jperm r r'
  | None, None => True
  | _, _ => False
  end.
Proof. exact session_same_as_fresh. Qed.
Print Assumptions C15_session_same_as_fresh_process.

(* ONE configuration object, RE-PARAMETRIZED (Det.Reparam: the object keeps the FlowIR of the package as it was
   before any user variable was patched in, and what it currently serves).  Whatever options it was constructed with
   and whatever calls of parametrize() it has answered since (other variable files, none, other platforms), the
   object that parametrize(options) leaves is the one a fresh construction with these options gives: same user
   variables, same stage variables of the platform in use (same iteration orders and contents); and against a FRESH
   PROCESS (its own iteration orders, key-permuted but equal files) the user variables fail in both or are equal up
   to the order of entries. *)
Theorem C15_reparametrize_same_as_fresh_object : forall piK pkg first more o,
  parametrize piK (after piK pkg first more) o = construct piK pkg o.
Proof. exact reparam_is_fresh. Qed.
Print Assumptions C15_reparametrize_same_as_fresh_object.

Theorem C15_reparametrize_answers_are_fresh_loads : forall piK pkg calls,
  answers piK pkg calls = map (construct piK pkg) calls.
Proof. exact answers_fresh. Qed.
Print Assumptions C15_reparametrize_answers_are_fresh_loads.

Theorem C15_reparametrize_same_as_fresh_process : forall piK piK' pkg first more (read read' : string -> jv) files plat,
  perm_oracle piK -> perm_oracle piK' ->
  (forall f, In f files -> wfk (read f)) ->
  (forall f, In f files -> jperm (read f) (read' f)) ->
  current (parametrize piK (after piK pkg first more) (read, files, plat)) =
    patch (load_variables piK read files) (table_of pkg plat) /\
  match uservars (parametrize piK (after piK pkg first more) (read, files, plat)),
        uservars (construct piK' pkg (read', files, plat)) with
  | Some r, Some r' => jperm r r'
  | None, None => True
  | _, _ => False
  end.
Proof.
  intros piK piK' pkg first more read read' files plat H1 H2 W J. split.
  - apply reparam_current.
  - exact (reparam_uservars piK piK' pkg first more read read' files plat H1 H2 W J).
Qed.
Print Assumptions C15_reparametrize_same_as_fresh_process.

(* ---------------------------------------------------------------- S7: aggregation of replicated references *)
(* compile_component_aggregate rewrites with one pass per replicated reference (absolute spelling, else relative)
   in the order of the collection apply_replicate hands to it.  Under separation of the spellings in the
   tokenised string (V.Args.Model.separatedb / unambiguousb) ANY iteration order of the collection gives the
   result of the document-ordered list, which is the simultaneous substitution of the tokens.  Without
   separation the order matters (C15_aggregate_set_order_refuted): the collection has to be the list. *)
Theorem C15_aggregate_separated : forall piS refs ps,
  perm_oracle piS -> AM.separatedb refs ps = true -> AM.unambiguousb refs ps = true ->
  aggregate_set piS refs (AM.flatten ps) = aggregate_list refs (AM.flatten ps) /\
  aggregate_list refs (AM.flatten ps) = AM.spec refs ps.
Proof. exact aggregate_separated. Qed.
Print Assumptions C15_aggregate_separated.

(* ---------------------------------------------------------------- S6: which templates replicate *)
(* ScopeStack.can_template_replicate (work list, visited set, parameters in the key order of the `args` mapping,
   two scans per string, `break` at an aggregating producer: Det.Replicate.walk) answers: the instance is a
   Component that replicates itself, or does not aggregate and reaches a replicating Component through producers
   that are met before an aggregating one in their scan (succ). *)
Theorem C15_replicates_reachability : forall t l,
  can_replicate t l = true <->
  comp t l = true /\ (repl t l = true \/ (agg t l = false /\ exists r, reach t l r /\ repl t r = true)).
Proof. exact can_replicate_spec. Qed.
Print Assumptions C15_replicates_reachability.

(* hence the answer is a function of the SETS of (counting) producers of the instances, whatever the order in
   which they are met ... *)
Theorem C15_replicates_set_of_producers : forall t t',
  same_producers t t' -> forall l, can_replicate t l = can_replicate t' l.
Proof. exact can_replicate_set. Qed.
Print Assumptions C15_replicates_set_of_producers.

(* ... in particular it is the same for two equal namespaces that write the keys of their `args` mappings in
   different orders (the strings, i.e. the scans, are untouched: ordered data), for every instance. *)
Theorem C15_replicates_key_order_invariant : forall t t',
  tbl_rel t t' -> forall l, can_replicate t l = can_replicate t' l.
Proof. exact can_replicate_key_order. Qed.
Print Assumptions C15_replicates_key_order_invariant.


(* FlowIRConcrete.instance() (every replicated load, and the instance files): the loop that resolves the stage
   variables visits the stages in the order in which a SET of component ids yields them (the oracle: any list of
   stage keys).  Det.StageVars.walk is the loop, with the loop-carried `context`: for any two orders that visit the
   same stages every stage gets the same resolved variables ... *)
Theorem C15_stage_variables_visit_order_invariant : forall p o1 o2 sk,
  Permutation o1 o2 -> lookup sk (SV.walk p o1) = lookup sk (SV.walk p o2).
Proof. exact SV.walk_order_independent. Qed.
Print Assumptions C15_stage_variables_visit_order_invariant.

(* ... namely the variables of that stage resolved against 'global variables + the variables of THAT stage' ... *)
Theorem C15_stage_variables_of_a_visited_stage : forall p order sk,
  In sk order -> lookup sk (SV.walk p order) = Some (SV.stage_resolved p sk).
Proof. exact SV.walk_visited. Qed.
Print Assumptions C15_stage_variables_of_a_visited_stage.

(* ... so the variables of the OTHER stages are never read: two packages with the same platform, the same global
   variables and the same variables of stage sk resolve the variables of sk alike, whatever the other stages define
   and in whatever order the two processes visit the stages *)
Theorem C15_stage_variables_read_own_stage_only : forall p q o1 o2 sk, In sk o1 -> In sk o2 ->
  SV.is_default p = SV.is_default q -> SV.gdef p = SV.gdef q -> SV.gplat p = SV.gplat q ->
  lookup sk (SV.stages p) = lookup sk (SV.stages q) ->
  lookup sk (SV.walk p o1) = lookup sk (SV.walk q o2).
Proof. exact SV.walk_local. Qed.
Print Assumptions C15_stage_variables_read_own_stage_only.

(* non-vacuity: three files a, b, c given as [a; b; c; a]; x is defined by all of them, y only by b.
   The hypotheses hold, the loader succeeds, x comes from a (the last one given), y from b; reversing
   every iteration order changes nothing; the memo buffer of a permuted dictionary is the same. *)
Definition ex_read (f : string) : jv :=
  if String.eqb f "a" then JDict [("global", JDict [("x", JStr "A")]); ("stages", JDict [("0", JDict [("z", JInt 1)])])]
  else if String.eqb f "b" then JDict [("stages", JDict [("0", JDict [("z", JInt 2)]); ("1", JDict [("z", JInt 3)])]);
                                       ("global", JDict [("y", JStr "B"); ("x", JStr "B")])]
  else JDict [("global", JDict [("x", JStr "C")])].

Example C15_nonvacuous :
  let files := ["a"; "b"; "c"; "a"] in
  (forall f, wfk (ex_read f)) /\
  (forall f, leaf_in ["global"; "x"] (ex_read f)) /\
  (exists r, load_variables id_oracle ex_read files = Some r /\
             get_path ["global"; "x"] r = Some (JStr "A") /\
             get_path ["global"; "y"] r = Some (JStr "B") /\
             get_path ["stages"; "0"; "z"] r = Some (JInt 1) /\
             get_path ["stages"; "1"; "z"] r = Some (JInt 3)) /\
  (exists r', load_variables (@rev _) ex_read files = Some r' /\ get_path ["global"; "x"] r' = Some (JStr "A")) /\
  last_def ["global"; "x"] (map ex_read files) = Some (JStr "A") /\
  ser_pi id_oracle (JDict [("b", JStr "1"); ("a", JDict [("d", JInt 2); ("c", JNull)])]) = Some "acNoned2b1" /\
  ser_pi (@rev _) (JDict [("b", JStr "1"); ("a", JDict [("d", JInt 2); ("c", JNull)])]) = Some "acNoned2b1".
Proof.
  cbv zeta. split; [|split; [|split; [|split; [|split; [|split]]]]].
  - intros f. unfold ex_read. destruct (String.eqb f "a"); [|destruct (String.eqb f "b")]; cbn;
      repeat split; repeat constructor; cbn; intuition discriminate.
  - intros f. unfold ex_read, leaf_in. destruct (String.eqb f "a"); [|destruct (String.eqb f "b")]; exact I.
  - eexists. split; [vm_compute; reflexivity|]. repeat split.
  - eexists. split; [vm_compute; reflexivity|]. reflexivity.
  - reflexivity.
  - reflexivity.
  - reflexivity.
Qed.

(* non-vacuity of the new hypotheses: two key-permuted but equal files (at two depths) are jperm and
   without repeated keys, the loader succeeds on both and the results are different terms; two output
   references of a DSL component are separated in its arguments and the loop gives the expected text. *)
Definition ex_read' (f : string) : jv :=
  if String.eqb f "a" then JDict [("stages", JDict [("0", JDict [("z", JInt 1)])]); ("global", JDict [("x", JStr "A")])]
  else if String.eqb f "b" then JDict [("global", JDict [("x", JStr "B"); ("y", JStr "B")]);
                                       ("stages", JDict [("1", JDict [("z", JInt 3)]); ("0", JDict [("z", JInt 2)])])]
  else JDict [("global", JDict [("x", JStr "C")])].

Definition ex_refs : list (string * string) :=
  [("<entry-instance/a>:ref", "stage0.a:ref"); ("<entry-instance/b>/out.txt:ref", "stage0.b/out.txt:ref")].
Definition ex_ps : list AM.piece :=
  [AM.Lit "cat "; AM.Tok "<entry-instance/b>/out.txt:ref"; AM.Lit " "; AM.Tok "<entry-instance/a>:ref";
   AM.Lit " "; AM.Tok "<entry-instance/b>/out.txt:ref"].

Example C15_nonvacuous_whole :
  (forall f, jperm (ex_read f) (ex_read' f)) /\
  (exists r r', load_variables id_oracle ex_read ["a"; "b"; "c"; "a"] = Some r /\
                load_variables (@rev _) ex_read' ["a"; "b"; "c"; "a"] = Some r' /\ r <> r' /\ jperm r r') /\
  refs_separatedb ex_refs ex_ps = true /\
  replace_refs (@rev _) ex_refs (AM.flatten ex_ps) = "cat stage0.b/out.txt:ref stage0.a:ref stage0.b/out.txt:ref" /\
  replace_refs_sorted id_oracle ex_refs (AM.flatten ex_ps) = "cat stage0.b/out.txt:ref stage0.a:ref stage0.b/out.txt:ref".
Proof.
  assert (J : forall f, jperm (ex_read f) (ex_read' f)).
  { intros f. unfold ex_read, ex_read'. destruct (String.eqb f "a"); [|destruct (String.eqb f "b")].
    - eapply JP_dict; [apply eperm_refl|apply perm_swap].
    - eapply JP_dict; [|apply perm_swap].
      constructor; [eapply JP_dict; [apply eperm_refl|apply perm_swap]|].
      constructor; [eapply JP_dict; [apply eperm_refl|apply perm_swap]|constructor].
    - apply JP_refl. }
  split; [exact J|]. split; [|split; [vm_compute; reflexivity|split; vm_compute; reflexivity]].
  destruct (load_variables id_oracle ex_read ["a"; "b"; "c"; "a"]) as [r|] eqn:R; [|vm_compute in R; discriminate].
  destruct (load_variables (@rev _) ex_read' ["a"; "b"; "c"; "a"]) as [r'|] eqn:R'; [|vm_compute in R'; discriminate].
  exists r, r'. split; [reflexivity|]. split; [reflexivity|]. split.
  - vm_compute in R, R'. inversion R; inversion R'; subst. discriminate.
  - pose proof (C15_perm_invariant_layering id_oracle (@rev _) ex_read ex_read' ["a"; "b"; "c"; "a"]
                  id_perm_oracle rev_perm_oracle) as T.
    rewrite R, R' in T. apply T.
    + intros f _. pose proof C15_nonvacuous as NV. cbv zeta in NV. exact (proj1 NV f).
    + intros f _. exact (J f).
Qed.

(* non-vacuity of C15_naming_invariant: a namespace with a nested workflow used twice and repeated
   step names, its steps mappings written in two key orders; three environments, two of them equal up
   to key order and None values *)
Definition ex_ns (flip : bool) : ns :=
  let o (l : list (string * string)) := if flip then rev l else l in
  mk_ns [mk_wf "main" (o [("sb", "inner"); ("sa", "echo"); ("stage1.sa", "inner")]) ["sa"; "sb"; "stage1.sa"];
         mk_wf "inner" (o [("greet", "echo"); ("sa", "echo")]) ["greet"; "sa"]]
        ["echo"] "main".

Example C15_nonvacuous_naming :
  ns_rel (ex_ns false) (ex_ns true) /\ ex_ns false <> ex_ns true /\
  dsl_names (ex_ns true) =
    Some [(["entry-instance"; "sa"], (0%N, "sa"));
          (["entry-instance"; "sb"; "sa"], (0%N, "sa-I")); (["entry-instance"; "sb"; "greet"], (0%N, "greet"));
          (["entry-instance"; "stage1.sa"; "sa"], (0%N, "sa-II")); (["entry-instance"; "stage1.sa"; "greet"], (0%N, "greet-I"))] /\
  Forall2 env_rel [Some [("B", Some "1"); ("A", None)]; None; Some [("A", Some "x")]; Some [("A", Some "1")]]
                  [Some [("A", None); ("B", Some "1")]; None; Some [("A", Some "x")]; Some [("A", Some "1")]] /\
  env_names [] [Some [("B", Some "1"); ("A", None)]; None; Some [("A", Some "x")]; Some [("A", None); ("B", Some "1")]] =
    [Some "env0"; None; Some "env1"; Some "env0"].
Proof.
  split; [|split; [discriminate|split; [vm_compute; reflexivity|split; [|vm_compute; reflexivity]]]].
  - split; [|split; reflexivity]. cbn.
    constructor; [|constructor; [|constructor]].
    + split; [reflexivity|]. split; [reflexivity|]. split; [apply Permutation_rev|].
      cbn. repeat constructor; cbn; intuition discriminate.
    + split; [reflexivity|]. split; [reflexivity|]. split; [apply Permutation_rev|].
      cbn. repeat constructor; cbn; intuition discriminate.
  - constructor; [|constructor; [exact I|constructor; [|constructor; [|constructor]]]].
    + split; [apply perm_swap|]. cbn. repeat constructor; cbn; intuition discriminate.
    + split; [apply Permutation_refl|]. cbn. repeat constructor; cbn; tauto.
    + split; [apply Permutation_refl|]. cbn. repeat constructor; cbn; tauto.
Qed.

(* non-vacuity of the session / layer_many / S7 statements: a process layers [a; b], then [b; a], then [a] alone
   (shared files, other orders, a subset): the third load gives x = A without the y of b, exactly what the load
   alone gives; layer_many keeps a repeated path where it is; two replicated producers whose absolute spellings
   are used are separated, and every order of the collection gives the expected aggregation. *)
Definition ex_agg_refs : list AM.dref :=
  [rref "stage0.mygen:ref" "mygen:ref" ["stage0.mygen0:ref"; "stage0.mygen1:ref"];
   rref "stage0.gen:ref" "gen:ref" ["stage0.gen0:ref"; "stage0.gen1:ref"]].
Definition ex_agg_ps : list AM.piece :=
  [AM.Lit "cat "; AM.Tok "stage0.mygen:ref"; AM.Lit " "; AM.Tok "stage0.gen:ref"].

Example C15_nonvacuous_session :
  let before := [(ex_read, ["a"; "b"]); (ex_read, ["b"; "a"])] in
  (exists r, load_at id_oracle before (ex_read, ["a"]) [(ex_read, ["b"])] = Some r /\
             get_path ["global"; "x"] r = Some (JStr "A") /\ get_path ["global"; "y"] r = None /\
             load_variables (@rev _) ex_read' ["a"] = Some r) /\
  (exists r1 r2, nth 0 (session id_oracle before) None = Some r1 /\ nth 1 (session id_oracle before) None = Some r2 /\
                 get_path ["global"; "x"] r1 = Some (JStr "B") /\ get_path ["global"; "x"] r2 = Some (JStr "A")) /\
  (exists r, layer_many id_oracle ex_read ["a"; "b"; "a"; "c"] = Some r /\ get_path ["global"; "x"] r = Some (JStr "C")) /\
  AM.separatedb ex_agg_refs ex_agg_ps = true /\ AM.unambiguousb ex_agg_refs ex_agg_ps = true /\
  aggregate_set (@rev _) ex_agg_refs (AM.flatten ex_agg_ps) =
    "cat stage0.mygen0:ref stage0.mygen1:ref stage0.gen0:ref stage0.gen1:ref".
Proof.
  cbv zeta. split; [|split; [|split; [|split; [|split]]]].
  - eexists. split; [vm_compute; reflexivity|]. repeat split.
  - eexists. eexists. split; [vm_compute; reflexivity|]. split; [vm_compute; reflexivity|]. split; reflexivity.
  - eexists. split; [vm_compute; reflexivity|]. reflexivity.
  - vm_compute; reflexivity.
  - vm_compute; reflexivity.
  - vm_compute; reflexivity.
Qed.

(* non-vacuity of the S6 traversal statements: `generate` replicates, `summarise` aggregates it, `relay` passes it
   on, `report` consumes the aggregate, the relay and a text, `plot` only the aggregate; the args mapping of `report`
   in two key orders (aggregate first / last): related, different, report replicates in both, plot in none. *)
Definition ex_tbl (o : bool) : tbl :=
  let e (n : string) : loc := ["entry-instance"; n] in
  let ps := [("p", [[e "summarise"]; []]); ("r", [[]; []]); ("q", [[]; [e "relay"]])] in
  [mk_inst ["entry-instance"] false false false [];
   mk_inst (e "plot") true false false [("q", [[e "summarise"]; []])];
   mk_inst (e "report") true false false (if o then rev ps else ps);
   mk_inst (e "summarise") true false true [("parts", [[e "generate"]; []])];
   mk_inst (e "relay") true false false [("b", [[]; []]); ("a", [[e "generate"]; []])];
   mk_inst (e "generate") true true false []].

Example C15_nonvacuous_replicates :
  tbl_rel (ex_tbl false) (ex_tbl true) /\ ex_tbl false <> ex_tbl true /\
  can_replicate (ex_tbl false) ["entry-instance"; "report"] = true /\
  can_replicate (ex_tbl true) ["entry-instance"; "report"] = true /\
  can_replicate (ex_tbl true) ["entry-instance"; "plot"] = false /\
  can_replicate (ex_tbl true) ["entry-instance"; "summarise"] = false /\
  reach (ex_tbl false) ["entry-instance"; "report"] ["entry-instance"; "generate"].
Proof.
  split; [|split; [discriminate|repeat split; try (vm_compute; reflexivity)]].
  - repeat constructor. cbn. apply Permutation_rev.
  - apply (reach_step _ _ ["entry-instance"; "relay"]); [vm_compute; tauto|].
    apply (reach_step _ _ ["entry-instance"; "generate"]); [vm_compute; tauto|apply reach_refl].
Qed.

(* non-vacuity of the re-parametrization statements: a package whose stage 0 has x = pkg; an object constructed with
   [a; b] (x = B, y = B, z = 2 patched into stage 0) and then re-parametrized without files serves x = pkg, z = pkgz again;
   re-parametrized with [a] it serves x = A, z = 1 and no y.  The lazily taken snapshot (Refuted) keeps x = B. *)
Definition ex_pkg : package := [("default", [("0", JDict [("x", JStr "pkg"); ("z", JStr "pkgz")])])].
Example C15_nonvacuous_reparametrize :
  current (construct id_oracle ex_pkg (ex_read, ["a"; "b"], "default")) =
    [("0", JDict [("x", JStr "B"); ("z", JInt 2); ("y", JStr "B")])] /\
  current (parametrize id_oracle (after id_oracle ex_pkg (ex_read, ["a"; "b"], "default") []) (ex_read, [], "default")) =
    [("0", JDict [("x", JStr "pkg"); ("z", JStr "pkgz")])] /\
  current (parametrize id_oracle (after id_oracle ex_pkg (ex_read, ["a"; "b"], "default") [(ex_read, [], "default")])
                       (ex_read, ["a"], "default")) =
    [("0", JDict [("x", JStr "A"); ("z", JInt 1)])].
Proof. repeat split; vm_compute; reflexivity. Qed.

(* non-vacuity of the stage variable statements: global base = /global; stage 0 has workdir = %(base)s/zero and does
   not define base, stages 1 and 2 define base; in both orders of the visits stage 0 resolves /global/zero and
   stage 1 resolves /one/one *)
Example C15_nonvacuous_stage_variables :
  lookup "0" (SV.walk SV.ex_pkg ["0"; "1"; "2"]) = Some [("workdir", SV.CM.Ok (JStr "/global/zero"))] /\
  lookup "0" (SV.walk SV.ex_pkg ["2"; "1"; "0"]) = Some [("workdir", SV.CM.Ok (JStr "/global/zero"))] /\
  lookup "1" (SV.walk SV.ex_pkg ["2"; "1"; "0"]) =
    Some [("base", SV.CM.Ok (JStr "/one")); ("workdir", SV.CM.Ok (JStr "/one/one"))] /\
  Permutation ["0"; "1"; "2"] ["2"; "1"; "0"].
Proof. repeat split; try (vm_compute; reflexivity). apply (Permutation_rev ["0"; "1"; "2"]). Qed.
