(* C15 — S6 (traversal part): ScopeStack.can_template_replicate of frontends/dsl.py.

   digest_dsl_component asks, for every Component instance of a DSL 2.0 namespace, whether the instance is
   downstream of a replicating component (then %(replica)s is a known parameter and the FlowIR component is marked
   as a replica).  The code that exists:

       scope = scopes[location]
       if scope is a Workflow: return False
       if scope.replicate is set: return True
       if scope.aggregate: return False
       to_check = [location]; visited = set()
       while to_check:
           l = to_check.pop()                                  # the LAST one
           if l in visited: continue
           visited.add(l); s = scopes[l]
           if s is a Workflow: continue
           if s.replicate is set: return True
           for value in s.parameters.values():                 # the `args` MAPPING of the step, in ITS key order
               for pattern in [vanilla, nested]:               # two scans of the same string
                   for match in pattern.finditer(value):       # the references of the string, in text order
                       producer = the Component the reference resolves to (else: continue)
                       if producer replicates: return True     # (or is cached as replicating)
                       if producer aggregates: break           # the replicas end there: next scan / next value
                       to_check.append(producer)
       return False

   The model keeps the work list (a stack: pop takes what was appended last), the visited set, the order of the
   parameters, the two scans per value and the `break`.  What is taken from the harness (recomputed with the real
   regular expressions, OutputReference.from_str and the table of scopes): which Component every reference of a
   string resolves to.  Not modelled: the two caches replicating_components / aggregating_components (they only
   remember answers of this very function; the correspondence runs the real code with its caches, in its call order).

   Result: the answer is `some replicating component is reachable through producers that are met before an
   aggregating one in their scan` — a function of the SET of (counting) producers of every instance, hence
   invariant under every permutation of the keys of every `args` mapping.  (The order of the references INSIDE one
   string is ordered data.) *)
From Coq Require Import String List Bool Arith Lia Permutation.
Import ListNotations.
Require Import V.Lib.PyStr V.Det.Model.
Open Scope string_scope.
Open Scope list_scope.

Definition loc := list string.

Fixpoint loc_eqb (a b : loc) : bool :=
  match a, b with
  | [], [] => true
  | x :: a', y :: b' => String.eqb x y && loc_eqb a' b'
  | _, _ => false
  end.

Fixpoint memloc (x : loc) (l : list loc) : bool :=
  match l with [] => false | y :: r => loc_eqb x y || memloc x r end.

(* one template instance: its location, Component (true) / Workflow (false), workflowAttributes.replicate set,
   workflowAttributes.aggregate, and its parameters: key -> scans (vanilla, nested) -> the Components the references
   of the string resolve to, in text order *)
Record inst := mk_inst { i_loc : loc; i_comp : bool; i_repl : bool; i_agg : bool;
                         i_params : list (string * list (list loc)) }.
Definition tbl := list inst.

Fixpoint find_inst (l : loc) (t : tbl) : option inst :=
  match t with
  | [] => None
  | i :: r => if loc_eqb l (i_loc i) then Some i else find_inst l r
  end.

Definition comp (t : tbl) (l : loc) : bool := match find_inst l t with Some i => i_comp i | None => false end.
Definition repl (t : tbl) (l : loc) : bool := match find_inst l t with Some i => i_comp i && i_repl i | None => false end.
Definition agg (t : tbl) (l : loc) : bool := match find_inst l t with Some i => i_comp i && i_agg i | None => false end.

(* the scans of an instance, in the order of its parameters *)
Definition groups (i : inst) : list (list loc) := flat_map snd (i_params i).

Definition groups_at (t : tbl) (l : loc) : list (list loc) :=
  match find_inst l t with Some i => groups i | None => [] end.

(* one scan: None = `return True`; Some acc = the work list additions so far (after a `break` or at the end) *)
Fixpoint scan_group (t : tbl) (g : list loc) (acc : list loc) : option (list loc) :=
  match g with
  | [] => Some acc
  | p :: r => if repl t p then None else if agg t p then Some acc else scan_group t r (acc ++ [p])
  end.

Fixpoint scan_groups (t : tbl) (gs : list (list loc)) (acc : list loc) : option (list loc) :=
  match gs with
  | [] => Some acc
  | g :: r => match scan_group t g acc with None => None | Some acc' => scan_groups t r acc' end
  end.

(* visiting one location: None = `return True`; Some ps = appended to the work list *)
Definition expand (t : tbl) (l : loc) : option (list loc) :=
  match find_inst l t with
  | None => Some []
  | Some i => if negb (i_comp i) then Some [] else if i_repl i then None else scan_groups t (groups i) []
  end.

(* the work list with its top first: appending p1 then p2 gives p2 :: p1 :: rest *)
Fixpoint walk (t : tbl) (fuel : nat) (stack visited : list loc) : bool :=
  match fuel with
  | O => false
  | S f =>
    match stack with
    | [] => false
    | l :: rest =>
      if memloc l visited then walk t f rest visited
      else match expand t l with
           | None => true
           | Some ps => walk t f (rev ps ++ rest) (l :: visited)
           end
    end
  end.

(* the producers that count: those met before an aggregating one in their scan (a replicating one ends the scan
   too: the answer is known) *)
Fixpoint cut (t : tbl) (g : list loc) : list loc :=
  match g with
  | [] => []
  | p :: r => if repl t p then [p] else if agg t p then [] else p :: cut t r
  end.

Definition succ (t : tbl) (l : loc) : list loc :=
  match find_inst l t with
  | Some i => if i_comp i then flat_map (cut t) (groups i) else []
  | None => []
  end.

Definition nodes (t : tbl) : list loc := map i_loc t.
Definition deg (t : tbl) (l : loc) : nat := List.length (succ t l).
Fixpoint lsum (l : list nat) : nat := match l with [] => 0 | x :: r => x + lsum r end.
Definition sumf (t : tbl) (ns visited : list loc) : nat :=
  lsum (map (deg t) (filter (fun v => negb (memloc v visited)) ns)).
(* every iteration pops one entry; an instance is expanded at most once *)
Definition fuel_of (t : tbl) : nat := S (S (sumf t (nodes t) [])).

Definition can_replicate (t : tbl) (l : loc) : bool :=
  match find_inst l t with
  | None => false
  | Some i =>
    if negb (i_comp i) then false
    else if i_repl i then true
    else if i_agg i then false
    else walk t (fuel_of t) [l] []
  end.

(* ---------------------------------------------------------------- specification *)
Inductive reach (t : tbl) : loc -> loc -> Prop :=
| reach_refl l : reach t l l
| reach_step l m r : In m (succ t l) -> reach t m r -> reach t l r.

Lemma loc_eqb_eq a b : loc_eqb a b = true <-> a = b.
Proof.
  revert b. induction a as [|x a IH]; destruct b as [|y b]; cbn; split; intros H; try reflexivity; try discriminate.
  - apply andb_true_iff in H. destruct H as [H1 H2]. apply String.eqb_eq in H1. apply IH in H2. congruence.
  - injection H as -> ->. rewrite String.eqb_refl. apply IH. reflexivity.
Qed.

Lemma loc_eqb_refl a : loc_eqb a a = true.
Proof. apply loc_eqb_eq. reflexivity. Qed.

Lemma memloc_In x l : memloc x l = true <-> In x l.
Proof.
  induction l as [|y r IH]; cbn; [split; [discriminate|tauto]|].
  rewrite orb_true_iff, IH, loc_eqb_eq. split; intros [H|H]; auto.
Qed.

Lemma find_inst_some l t i : find_inst l t = Some i -> i_loc i = l /\ In i t.
Proof.
  induction t as [|j r IH]; cbn; [discriminate|].
  destruct (loc_eqb l (i_loc j)) eqn:E.
  - intros H. injection H as ->. apply loc_eqb_eq in E. split; [congruence|left; reflexivity].
  - intros H. destruct (IH H) as [A B]. split; [exact A|right; exact B].
Qed.

Lemma scan_group_spec t g acc :
  scan_group t g acc = if existsb (repl t) (cut t g) then None else Some (acc ++ cut t g).
Proof.
  revert acc. induction g as [|p r IH]; intros acc; cbn.
  - rewrite app_nil_r. reflexivity.
  - destruct (repl t p) eqn:R; cbn.
    + rewrite R. reflexivity.
    + destruct (agg t p); cbn.
      * rewrite app_nil_r. reflexivity.
      * rewrite R, IH. cbn. rewrite <- app_assoc. reflexivity.
Qed.

Lemma scan_groups_spec t gs acc :
  scan_groups t gs acc = if existsb (repl t) (flat_map (cut t) gs) then None else Some (acc ++ flat_map (cut t) gs).
Proof.
  revert acc. induction gs as [|g r IH]; intros acc; cbn.
  - rewrite app_nil_r. reflexivity.
  - rewrite scan_group_spec, existsb_app. destruct (existsb (repl t) (cut t g)); cbn; [reflexivity|].
    rewrite IH, app_assoc. reflexivity.
Qed.

Lemma expand_spec t l :
  expand t l = if repl t l || existsb (repl t) (succ t l) then None else Some (succ t l).
Proof.
  unfold expand, repl at 1, succ. destruct (find_inst l t) as [i|]; [|reflexivity].
  destruct (i_comp i); cbn; [|reflexivity].
  destruct (i_repl i); cbn; [reflexivity|].
  rewrite scan_groups_spec. reflexivity.
Qed.

Lemma walk_sound t : forall fuel stack visited,
  walk t fuel stack visited = true -> exists s r, In s stack /\ reach t s r /\ repl t r = true.
Proof.
  induction fuel as [|f IH]; intros stack visited H; [discriminate|].
  destruct stack as [|l rest]; [discriminate|]. cbn [walk] in H.
  destruct (memloc l visited).
  - destruct (IH _ _ H) as [s [r [A B]]]. exists s, r. split; [right; exact A|exact B].
  - rewrite expand_spec in H. destruct (repl t l) eqn:R; cbn in H.
    + exists l, l. split; [left; reflexivity|]. split; [apply reach_refl|exact R].
    + destruct (existsb (repl t) (succ t l)) eqn:E.
      * apply existsb_exists in E. destruct E as [m [Hm Rm]].
        exists l, m. split; [left; reflexivity|]. split; [|exact Rm].
        apply (reach_step t l m m Hm), reach_refl.
      * destruct (IH _ _ H) as [s [r [A [B C]]]]. apply in_app_or in A. destruct A as [A|A].
        -- apply in_rev in A. exists l, r. split; [left; reflexivity|]. split; [|exact C].
           apply (reach_step t l s r A B).
        -- exists s, r. split; [right; exact A|]. split; assumption.
Qed.

Lemma sum_filter_le (d : loc -> nat) (p q : loc -> bool) (l : loc) ns :
  (forall v, p v = true -> q v = true) ->
  lsum (map d (filter p ns)) <= lsum (map d (filter q ns)) /\
  (In l ns -> p l = false -> q l = true ->
   lsum (map d (filter p ns)) + d l <= lsum (map d (filter q ns))).
Proof.
  intros PQ. induction ns as [|v ns [IH1 IH2]]; cbn [filter].
  - split; [cbn; lia|]. intros [].
  - split.
    + destruct (p v) eqn:Pv; [rewrite (PQ _ Pv); cbn [map lsum]; lia|].
      destruct (q v); cbn [map lsum]; lia.
    + intros [H|H] Pl Ql.
      * subst v. rewrite Pl, Ql. cbn [map lsum]. lia.
      * specialize (IH2 H Pl Ql). destruct (p v) eqn:Pv; [rewrite (PQ _ Pv); cbn [map lsum]; lia|].
        destruct (q v); cbn [map lsum]; lia.
Qed.

Lemma sumf_drop t ns l visited :
  sumf t ns (l :: visited) <= sumf t ns visited /\
  (In l ns -> memloc l visited = false -> sumf t ns (l :: visited) + deg t l <= sumf t ns visited).
Proof.
  unfold sumf.
  destruct (sum_filter_le (deg t) (fun v => negb (memloc v (l :: visited))) (fun v => negb (memloc v visited)) l ns)
    as [A B].
  - intros v. cbn [memloc]. destruct (loc_eqb v l); cbn; [discriminate|tauto].
  - split; [exact A|]. intros H M. apply B; [exact H| |rewrite M; reflexivity].
    cbn [memloc]. rewrite loc_eqb_refl. reflexivity.
Qed.

Lemma deg_zero_or_node t l : deg t l = 0 \/ In l (nodes t).
Proof.
  unfold deg, succ, nodes. destruct (find_inst l t) as [i|] eqn:F; [|left; reflexivity].
  right. destruct (find_inst_some _ _ _ F) as [A B]. subst l. apply in_map, B.
Qed.

Definition inv (t : tbl) (stack visited : list loc) : Prop :=
  forall v, In v visited -> repl t v = false /\ forall m, In m (succ t v) -> In m visited \/ In m stack.

(* a replicating component reachable from a visited one is reachable from the work list *)
Lemma escape t stack visited r : inv t stack visited -> repl t r = true ->
  forall v, reach t v r -> In v visited -> exists s, In s stack /\ reach t s r.
Proof.
  intros I R v H. induction H as [l|l m r Hm Hr IH]; intros V.
  - destruct (I _ V) as [A _]. congruence.
  - destruct (I _ V) as [_ A]. destruct (A _ Hm) as [B|B].
    + apply IH; assumption.
    + exists m. split; assumption.
Qed.

Lemma walk_complete t : forall fuel stack visited,
  List.length stack + sumf t (nodes t) visited < fuel ->
  inv t stack visited ->
  (exists s r, In s stack /\ reach t s r /\ repl t r = true) ->
  walk t fuel stack visited = true.
Proof.
  induction fuel as [|f IH]; intros stack visited F I [s [r [Hs [Hr R]]]]; [lia|].
  destruct stack as [|l rest]; [destruct Hs|]. cbn [walk]. cbn [List.length] in F.
  destruct (memloc l visited) eqn:M.
  - apply memloc_In in M.
    assert (I' : inv t rest visited).
    { intros v V. destruct (I _ V) as [A B]. split; [exact A|]. intros m Hm.
      destruct (B _ Hm) as [C|[C|C]]; [left; exact C|subst m; left; exact M|right; exact C]. }
    apply IH; [lia|exact I'|].
    destruct Hs as [Hs|Hs].
    + subst s. destruct (escape t rest visited r I' R l Hr M) as [s' [A B]]. exists s', r. auto.
    + exists s, r. auto.
  - rewrite expand_spec. destruct (repl t l) eqn:Rl; cbn [orb]; [reflexivity|].
    destruct (existsb (repl t) (succ t l)) eqn:E; [reflexivity|].
    assert (I' : inv t (rev (succ t l) ++ rest) (l :: visited)).
    { intros v [V|V].
      - subst v. split; [exact Rl|]. intros m Hm. right. apply in_or_app. left. rewrite <- in_rev. exact Hm.
      - destruct (I _ V) as [A B]. split; [exact A|]. intros m Hm.
        destruct (B _ Hm) as [C|[C|C]].
        + left. right. exact C.
        + left. left. exact C.
        + right. apply in_or_app. right. exact C. }
    apply IH; [|exact I'|].
    + rewrite app_length, rev_length. fold (deg t l).
      destruct (sumf_drop t (nodes t) l visited) as [D1 D2].
      destruct (deg_zero_or_node t l) as [Z|N]; [rewrite Z; lia|]. specialize (D2 N M). lia.
    + destruct Hs as [Hs|Hs].
      * subst s. inversion Hr as [l0|l0 m r0 Hm Hr']; subst.
        -- congruence.
        -- exists m, r. split; [apply in_or_app; left; rewrite <- in_rev; exact Hm|]. split; assumption.
      * exists s, r. split; [apply in_or_app; right; exact Hs|]. split; assumption.
Qed.

(* what can_template_replicate answers *)
Lemma can_replicate_spec t l :
  can_replicate t l = true <->
  comp t l = true /\ (repl t l = true \/ (agg t l = false /\ exists r, reach t l r /\ repl t r = true)).
Proof.
  unfold can_replicate, comp, repl at 1, agg. destruct (find_inst l t) as [i|] eqn:F.
  - destruct (i_comp i); cbn [negb andb].
    + destruct (i_repl i) eqn:Ri; [split; [intros _; split; [reflexivity|left; reflexivity]|reflexivity]|].
      destruct (i_agg i).
      * split; [discriminate|]. intros [_ [H|[H _]]]; discriminate.
      * split.
        -- intros H. split; [reflexivity|]. right. split; [reflexivity|].
           destruct (walk_sound _ _ _ _ H) as [s [r [[A|[]] B]]]. subst s. exists r. exact B.
        -- intros [_ [H|[_ [r [A B]]]]]; [discriminate|].
           apply walk_complete.
           ++ unfold fuel_of. cbn [List.length]. lia.
           ++ intros v [].
           ++ exists l, r. split; [left; reflexivity|]. split; assumption.
    + split; [discriminate|]. intros [H _]. discriminate.
  - split; [discriminate|]. intros [H _]. discriminate.
Qed.

(* ---------------------------------------------------------------- a function of the SETS of producers *)
Definition same_producers (t t' : tbl) : Prop :=
  (forall l, comp t l = comp t' l) /\ (forall l, repl t l = repl t' l) /\ (forall l, agg t l = agg t' l) /\
  (forall l x, In x (succ t l) <-> In x (succ t' l)).

Lemma reach_same t t' : (forall l x, In x (succ t l) -> In x (succ t' l)) ->
  forall l r, reach t l r -> reach t' l r.
Proof.
  intros H l r R. induction R as [l|l m r Hm _ IH]; [apply reach_refl|].
  apply (reach_step t' l m r); [apply H, Hm|exact IH].
Qed.

Lemma can_replicate_set t t' : same_producers t t' -> forall l, can_replicate t l = can_replicate t' l.
Proof.
  intros [Hc [Hr [Ha Hs]]] l.
  assert (E : can_replicate t l = true <-> can_replicate t' l = true).
  { rewrite !can_replicate_spec. rewrite <- Hc, <- Hr, <- Ha. split.
    - intros [A [B|[B [r [C D]]]]]; split; auto. right. split; [exact B|]. exists r. split.
      + apply (reach_same t t'); [intros l0 x; apply Hs|exact C].
      + rewrite <- Hr. exact D.
    - intros [A [B|[B [r [C D]]]]]; split; auto. right. split; [exact B|]. exists r. split.
      + apply (reach_same t' t); [intros l0 x; apply Hs|exact C].
      + rewrite Hr. exact D. }
  destruct (can_replicate t l), (can_replicate t' l); try reflexivity.
  - symmetry. apply E. reflexivity.
  - apply E. reflexivity.
Qed.

(* the same instance, its `args` mapping written in another key order (the strings themselves are untouched) *)
Definition inst_rel (i i' : inst) : Prop :=
  i_loc i = i_loc i' /\ i_comp i = i_comp i' /\ i_repl i = i_repl i' /\ i_agg i = i_agg i' /\
  Permutation (i_params i) (i_params i').
Definition tbl_rel (t t' : tbl) : Prop := Forall2 inst_rel t t'.

Lemma find_inst_rel t t' : tbl_rel t t' -> forall l,
  match find_inst l t, find_inst l t' with
  | Some i, Some i' => inst_rel i i'
  | None, None => True
  | _, _ => False
  end.
Proof.
  induction 1 as [|i i' r r' R _ IH]; intros l; cbn; [exact I|].
  pose proof R as [El _]. rewrite <- El. destruct (loc_eqb l (i_loc i)); [exact R|apply IH].
Qed.

Lemma cut_ext t t' : (forall l, repl t l = repl t' l) -> (forall l, agg t l = agg t' l) -> forall g, cut t g = cut t' g.
Proof. intros Hr Ha. induction g as [|p r IH]; cbn; [reflexivity|]. rewrite <- Hr, <- Ha, IH. reflexivity. Qed.

Lemma tbl_rel_same t t' : tbl_rel t t' -> same_producers t t'.
Proof.
  intros R.
  assert (Hc : forall l, comp t l = comp t' l).
  { intros l. unfold comp. pose proof (find_inst_rel _ _ R l) as F.
    destruct (find_inst l t), (find_inst l t'); try tauto. destruct F as [_ [A _]]. exact A. }
  assert (Hr : forall l, repl t l = repl t' l).
  { intros l. unfold repl. pose proof (find_inst_rel _ _ R l) as F.
    destruct (find_inst l t), (find_inst l t'); try tauto. destruct F as [_ [A [B _]]]. rewrite A, B. reflexivity. }
  assert (Ha : forall l, agg t l = agg t' l).
  { intros l. unfold agg. pose proof (find_inst_rel _ _ R l) as F.
    destruct (find_inst l t), (find_inst l t'); try tauto. destruct F as [_ [A [_ [B _]]]]. rewrite A, B. reflexivity. }
  split; [exact Hc|]. split; [exact Hr|]. split; [exact Ha|].
  assert (Hin : forall t1 t2, tbl_rel t1 t2 -> (forall g, cut t1 g = cut t2 g) ->
                forall l x, In x (succ t1 l) -> In x (succ t2 l)).
  { intros t1 t2 R12 Hcut l x. unfold succ. pose proof (find_inst_rel _ _ R12 l) as F.
    destruct (find_inst l t1) as [i|], (find_inst l t2) as [i'|]; try tauto.
    destruct F as [_ [A [_ [_ P]]]]. rewrite <- A. destruct (i_comp i); [|tauto].
    unfold groups. rewrite !in_flat_map. intros [g [Hg Hx]]. apply in_flat_map in Hg. destruct Hg as [kv [Hkv Hg]].
    exists g. split; [|rewrite <- Hcut; exact Hx]. apply in_flat_map. exists kv. split; [|exact Hg].
    apply (Permutation_in _ P Hkv). }
  intros l x. split.
  - apply (Hin t t' R). apply cut_ext; assumption.
  - apply (Hin t' t).
    + clear -R. induction R as [|i i' r r' [A [B [C [D P]]]] _ IH]; constructor; [|exact IH].
      repeat split; symmetry; assumption.
    + intros g. symmetry. apply cut_ext; assumption.
Qed.

Lemma can_replicate_key_order t t' : tbl_rel t t' -> forall l, can_replicate t l = can_replicate t' l.
Proof. intros R. apply can_replicate_set, tbl_rel_same, R. Qed.

(* ---------------------------------------------------------------- correspondence *)
(* replicate case = ((table of instances, location asked), answer of the real can_template_replicate) *)
Definition check_replicate (c : (tbl * loc) * bool) : bool :=
  let '((t, l), out) := c in Bool.eqb (can_replicate t l) out.
