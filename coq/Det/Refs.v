(* C15 — site S5: the sequential str.replace of the output references of a DSL component.
   The loop is the one of C10 (resolveArguments) with one spelling per reference, so the
   separation hypothesis and the "sequential = simultaneous substitution" theorem of coq/Args are
   reused (read-only): under separation the result is the simultaneous substitution, for EVERY
   iteration order of the set; without it two orders of a two element set give two results. *)
From Coq Require Import String List Bool ZArith Permutation.
Import ListNotations.
Require Import V.Lib.PyStr V.Lib.JTree.
Require V.Args.Model V.Args.Proofs.
Require Import V.Det.Model V.Det.Proofs.
Module AM := V.Args.Model.
Module AP := V.Args.Proofs.
Open Scope string_scope.
Open Scope list_scope.

(* a reference string with its replacement, as a declared reference of the C10 model: one spelling *)
Definition dr (refs : list (string * string)) (r : string) : AM.dref :=
  match lookup r refs with
  | Some n => AM.mk_ref r r true n
  | None => AM.mk_ref r r false ""
  end.
Definition ref_drefs (refs : list (string * string)) : list AM.dref := map (dr refs) (dedup_last (map fst refs)).

(* Separation (decidable; V.Args.Model.separatedb): the argument string is given with its
   tokenisation ps (AM.flatten ps is the string; the tokens are the matches of the reference
   pattern); whatever tokens have already been replaced, every reference string occurs in the text
   only as the tokens equal to it: not inside a longer reference, not inside a replacement, not
   across a boundary. *)
Definition refs_separatedb (refs : list (string * string)) (ps : list AM.piece) : bool :=
  AM.separatedb (ref_drefs refs) ps.

Lemma step_dr refs r args :
  fst (AM.step args (dr refs r)) = match lookup r refs with Some n => replace r n args | None => args end.
Proof.
  unfold AM.step, dr. destruct (lookup r refs) as [n|]; cbn; [|reflexivity].
  destruct (occurs r args) eqn:O; cbn; [reflexivity|]. rewrite replace_no_occ by exact O. reflexivity.
Qed.

Lemma apply_refs_resolve refs : forall order args,
  apply_refs refs order args = AM.resolve_args (map (dr refs) order) args.
Proof.
  induction order as [|r order IH]; intros args; [reflexivity|].
  cbn [map]. rewrite AP.resolve_cons, step_dr. unfold apply_refs. cbn [fold_left]. apply IH.
Qed.

Lemma dr_unambiguous refs l ps : AP.unambiguous (map (dr refs) l) ps.
Proof.
  intros r r' t Hr Hr' _ D D'.
  apply in_map_iff in Hr as [k [<- _]]. apply in_map_iff in Hr' as [k' [<- _]].
  assert (K : forall x, AM.denotes (dr refs x) t = true -> t = x).
  { intros x. unfold AM.denotes, AM.spells, dr. destruct (lookup x refs); cbn; [|discriminate].
    rewrite orb_diag. apply String.eqb_eq. }
  rewrite <- (K k D), <- (K k' D'). reflexivity.
Qed.

(* any order that is a permutation of the set: the simultaneous substitution *)
Lemma apply_refs_spec refs order ps :
  Permutation (dedup_last (map fst refs)) order -> refs_separatedb refs ps = true ->
  apply_refs refs order (AM.flatten ps) = AM.spec (ref_drefs refs) ps.
Proof.
  intros P S. rewrite apply_refs_resolve. apply AP.separatedb_sound in S.
  assert (P' : Permutation (ref_drefs refs) (map (dr refs) order)) by (apply Permutation_map; exact P).
  rewrite (AP.exact _ ps (AP.separated_perm _ _ _ P' S)).
  symmetry. apply AP.spec_perm.
  - intros r. split; apply Permutation_in; [exact P'|apply Permutation_sym; exact P'].
  - apply dr_unambiguous.
Qed.

Lemma replace_refs_spec piS refs ps :
  perm_oracle piS -> refs_separatedb refs ps = true ->
  replace_refs piS refs (AM.flatten ps) = AM.spec (ref_drefs refs) ps.
Proof. intros H S. apply apply_refs_spec; [apply H|exact S]. Qed.

Lemma replace_refs_sorted_spec piS refs ps :
  perm_oracle piS -> refs_separatedb refs ps = true ->
  replace_refs_sorted piS refs (AM.flatten ps) = AM.spec (ref_drefs refs) ps.
Proof.
  intros H S. apply apply_refs_spec; [|exact S].
  eapply Permutation_trans; [apply H|]. apply sort_permutation.
Qed.

(* the repaired loop: no hypothesis *)
Lemma replace_refs_sorted_invariant piS piS' refs args :
  perm_oracle piS -> perm_oracle piS' -> replace_refs_sorted piS refs args = replace_refs_sorted piS' refs args.
Proof.
  intros H1 H2. unfold replace_refs_sorted. f_equal. apply sort_perm.
  eapply Permutation_trans; [apply Permutation_sym; apply H1|apply H2].
Qed.
