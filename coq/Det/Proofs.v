(* C15 — lemmas. *)
From Coq Require Import String Ascii List Bool Arith ZArith Permutation Lia NArith.
Import ListNotations.
Require Import V.Lib.PyStr V.Lib.JTree V.Det.Model.
Open Scope string_scope.
Open Scope list_scope.

(* ---------------------------------------------------------------- induction on jv *)
Section JvInd.
  Variable P : jv -> Prop.
  Hypothesis Hnull : P JNull.
  Hypothesis Hbool : forall b, P (JBool b).
  Hypothesis Hint : forall z, P (JInt z).
  Hypothesis Hflt : forall r, P (JFlt r).
  Hypothesis Hstr : forall s, P (JStr s).
  Hypothesis Hlist : forall l, P (JList l).
  Hypothesis Hdict : forall m, Forall (fun kv => P (snd kv)) m -> P (JDict m).
  Fixpoint jv_induction (v : jv) : P v :=
    match v with
    | JNull => Hnull
    | JBool b => Hbool b
    | JInt z => Hint z
    | JFlt r => Hflt r
    | JStr s => Hstr s
    | JList l => Hlist l
    | JDict m =>
        Hdict m ((fix go (m : list (string * jv)) : Forall (fun kv => P (snd kv)) m :=
                    match m with
                    | [] => Forall_nil _
                    | kv :: r => Forall_cons kv (jv_induction (snd kv)) (go r)
                    end) m)
    end.
End JvInd.

(* ---------------------------------------------------------------- association lists *)
Lemma eqb_sym_false a b : String.eqb a b = false -> String.eqb b a = false.
Proof. rewrite (String.eqb_sym b a). auto. Qed.

Lemma lookup_app {A} k (a b : list (string * A)) :
  lookup k (a ++ b) = match lookup k a with Some v => Some v | None => lookup k b end.
Proof.
  induction a as [|[k' v] a IH]; cbn; [reflexivity|].
  destruct (String.eqb k k'); [reflexivity|exact IH].
Qed.

Lemma lookup_none_notin {A} k (l : list (string * A)) : lookup k l = None -> ~ In k (map fst l).
Proof.
  induction l as [|[k' v] l IH]; cbn; [tauto|].
  destruct (String.eqb k k') eqn:E; [discriminate|].
  intros H [H1|H1]; [subst; rewrite String.eqb_refl in E; discriminate|exact (IH H H1)].
Qed.

Lemma lookup_notin_none {A} k (l : list (string * A)) : ~ In k (map fst l) -> lookup k l = None.
Proof.
  induction l as [|[k' v] l IH]; cbn; [reflexivity|].
  intros H. destruct (String.eqb k k') eqn:E.
  - apply String.eqb_eq in E. subst. tauto.
  - apply IH. tauto.
Qed.

Lemma lookup_perm {A} k (l l' : list (string * A)) :
  Permutation l l' -> NoDup (map fst l) -> lookup k l' = lookup k l.
Proof.
  induction 1 as [|[k1 v1] l l' Hp IH|[k1 v1] [k2 v2] l|l l' l'' H1 IH1 H2 IH2]; intros ND; cbn.
  - reflexivity.
  - cbn in ND. inversion ND; subst. rewrite IH by assumption. reflexivity.
  - cbn in ND. inversion ND as [|? ? N1 N2]; subst.
    destruct (String.eqb k k1) eqn:E1, (String.eqb k k2) eqn:E2; try reflexivity.
    apply String.eqb_eq in E1, E2. subst. exfalso. apply N1. left. reflexivity.
  - rewrite IH2, IH1; [reflexivity|assumption|].
    eapply Permutation_NoDup; [apply Permutation_map; exact H1|exact ND].
Qed.

Lemma has_key_lookup {A} k (m : list (string * A)) : has_key k m = match lookup k m with Some _ => true | None => false end.
Proof. reflexivity. Qed.

Lemma lookup_novel k mo mn :
  lookup k (novel mo mn) = if has_key k mo then None else lookup k mn.
Proof.
  unfold novel. induction mn as [|[k' v] mn IH]; cbn.
  - destruct (has_key k mo); reflexivity.
  - destruct (has_key k' mo) eqn:Hk'; cbn.
    + rewrite IH. destruct (String.eqb k k') eqn:E; [|reflexivity].
      apply String.eqb_eq in E. subst. rewrite Hk'. reflexivity.
    + destruct (String.eqb k k') eqn:E; [|exact IH].
      apply String.eqb_eq in E. subst. rewrite Hk'. reflexivity.
Qed.

Lemma novel_keys_incl mo mn k : In k (map fst (novel mo mn)) -> In k (map fst mn).
Proof.
  unfold novel. intros H. apply in_map_iff in H. destruct H as [kv [E H]].
  apply filter_In in H. apply in_map_iff. exists kv. tauto.
Qed.

Lemma NoDup_novel mo mn : NoDup (map fst mn) -> NoDup (map fst (novel mo mn)).
Proof.
  induction mn as [|[k v] mn IH]; cbn; intros ND; [constructor|].
  inversion ND as [|? ? N1 N2]; subst.
  destruct (negb (has_key k mo)); cbn; [|exact (IH N2)].
  constructor; [|exact (IH N2)]. intros H. apply N1. exact (novel_keys_incl _ _ _ H).
Qed.

Lemma merge_common_lookup f mn k : forall mo l,
  merge_common f mn mo = Some l ->
  lookup k l = match lookup k mo with
               | None => None
               | Some u => match lookup k mn with Some w => f u w | None => Some u end
               end.
Proof.
  induction mo as [|[k' v] mo IH]; cbn; intros l H.
  - inversion H. reflexivity.
  - destruct (lookup k' mn) as [v'|] eqn:L.
    + destruct (f v v') as [x|] eqn:F; [|discriminate].
      destruct (merge_common f mn mo) as [y|] eqn:G; [|discriminate].
      inversion H; subst. cbn. destruct (String.eqb k k') eqn:E.
      * apply String.eqb_eq in E. subst. rewrite L. symmetry. exact F.
      * apply IH. reflexivity.
    + destruct (merge_common f mn mo) as [y|] eqn:G; [|discriminate].
      cbn in H. inversion H; subst. cbn. destruct (String.eqb k k') eqn:E.
      * apply String.eqb_eq in E. subst. rewrite L. reflexivity.
      * apply IH. reflexivity.
Qed.

Lemma merge_common_keys f mn : forall mo l, merge_common f mn mo = Some l -> map fst l = map fst mo.
Proof.
  induction mo as [|[k' v] mo IH]; cbn; intros l H.
  - inversion H. reflexivity.
  - destruct (lookup k' mn) as [v'|].
    + destruct (f v v') as [x|]; [|discriminate].
      destruct (merge_common f mn mo) as [y|]; [|discriminate].
      inversion H; subst. cbn. f_equal. apply IH. reflexivity.
    + destruct (merge_common f mn mo) as [y|]; [|discriminate].
      cbn in H. inversion H; subst. cbn. f_equal. apply IH. reflexivity.
Qed.

Lemma wfk_lookup m k w : wfk (JDict m) -> lookup k m = Some w -> wfk w.
Proof.
  cbn. intros [_ H]. induction m as [|[k' v] m IH]; cbn; [discriminate|].
  destruct H as [Hv Hr]. destruct (String.eqb k k'); [intros E; inversion E; subst; exact Hv|exact (IH Hr)].
Qed.

Lemma wfk_nodup m : wfk (JDict m) -> NoDup (map fst m).
Proof. cbn. tauto. Qed.

(* what the top-level key k of the result of one override is *)
Lemma in_keys_of_lookup {A} k (m : list (string * A)) u : lookup k m = Some u -> In k (map fst m).
Proof.
  induction m as [|[k' v] m IH]; cbn; [discriminate|].
  destruct (String.eqb k k') eqn:E; [left; symmetry; apply String.eqb_eq; exact E|right; auto].
Qed.

Lemma override_pi_key piK (Hpi : perm_oracle piK) mo mn r k :
  override_pi piK (JDict mo) (JDict mn) = Some r -> falsy (JDict mn) = false -> wfk (JDict mn) ->
  exists mr, r = JDict mr /\
    lookup k mr =
      match lookup k mo with
      | Some u => match lookup k mn with Some w => override_pi piK u w | None => Some u end
      | None => lookup k mn
      end /\
    (forall u w, lookup k mo = Some u -> lookup k mn = Some w -> override_pi piK u w <> None).
Proof.
  intros H Fz W. cbn [override_pi] in H. rewrite Fz in H.
  destruct (merge_common (override_pi piK) mn mo) as [l|] eqn:G; [|discriminate].
  inversion H; subst. eexists. split; [reflexivity|]. split.
  - rewrite lookup_app, (merge_common_lookup _ _ k _ _ G).
    destruct (lookup k mo) as [u|] eqn:Lo.
    + destruct (lookup k mn) as [w|] eqn:Ln; [|reflexivity].
      destruct (override_pi piK u w) eqn:O; [reflexivity|].
      exfalso. pose proof (merge_common_lookup _ _ k _ _ G) as Q. rewrite Lo, Ln, O in Q.
      apply lookup_none_notin in Q. rewrite (merge_common_keys _ _ _ _ G) in Q.
      apply Q. exact (in_keys_of_lookup _ _ _ Lo).
    + rewrite (lookup_perm k _ _ (Hpi (novel mo mn))).
      * rewrite lookup_novel. unfold has_key. rewrite Lo. reflexivity.
      * apply NoDup_novel. exact (wfk_nodup _ W).
  - intros u w Lo Ln O.
    pose proof (merge_common_lookup _ _ k _ _ G) as Q. rewrite Lo, Ln, O in Q.
    apply lookup_none_notin in Q. rewrite (merge_common_keys _ _ _ _ G) in Q.
    apply Q. exact (in_keys_of_lookup _ _ _ Lo).
Qed.

Lemma override_falsy piK mo new r :
  override_pi piK (JDict mo) new = Some r -> falsy new = true -> r = JDict mo.
Proof. intros H F. cbn [override_pi] in H. rewrite F in H. inversion H. reflexivity. Qed.

Lemma override_dict_new piK mo new r :
  override_pi piK (JDict mo) new = Some r -> falsy new = false -> exists mn, new = JDict mn.
Proof.
  intros H F. cbn [override_pi] in H. rewrite F in H. destruct new; try discriminate. eauto.
Qed.

Lemma override_nondict piK old new r :
  (forall m, old <> JDict m) -> override_pi piK old new = Some r -> r = match new with JNull => old | _ => new end.
Proof.
  intros ND H. destruct old; cbn in H; try (destruct new; inversion H; reflexivity).
  exfalso. exact (ND m eq_refl).
Qed.

(* ---------------------------------------------------------------- one override, seen through a path *)
Lemma lookup_some_falsy k (m : list (string * jv)) v : lookup k m = Some v -> falsy (JDict m) = false.
Proof. destruct m; [discriminate|reflexivity]. Qed.

Section OnePath.
  Variable piK : oracle (string * jv).
  Hypothesis Hpi : perm_oracle piK.

  (* new defines the path *)
  Lemma ov_defines : forall p old new r v,
    override_pi piK old new = Some r -> wfk new ->
    get_path p new = Some v -> v <> JNull ->
    (forall m, get_path p old <> Some (JDict m)) ->
    get_path p r = Some v.
  Proof.
    induction p as [|k p IH]; intros old new r v H W G NN ND.
    - cbn in G. inversion G; subst. cbn.
      rewrite (override_nondict piK old v r); [destruct v; congruence| |exact H].
      intros m E. apply (ND m). cbn. congruence.
    - cbn in G. destruct new as [| | | | | |mn]; try discriminate.
      destruct (lookup k mn) as [w|] eqn:Ln; [|discriminate].
      pose proof (lookup_some_falsy _ _ _ Ln) as Fz.
      destruct old as [| | | | | |mo].
      1-6: cbn in H; inversion H; subst; cbn; rewrite Ln; exact G.
      destruct (override_pi_key piK Hpi mo mn r k H Fz W) as [mr [Er [Lk Ok]]].
      subst r. cbn. rewrite Lk, Ln.
      destruct (lookup k mo) as [u|] eqn:Lo; [|exact G].
      destruct (override_pi piK u w) as [x|] eqn:O; [|exfalso; exact (Ok u w eq_refl Ln O)].
      apply (IH u w x v O); [exact (wfk_lookup _ _ _ W Ln)|exact G|exact NN|].
      intros m E. apply (ND m). cbn. rewrite Lo. exact E.
  Qed.

  (* new is silent about the path and old has it *)
  Lemma ov_keeps : forall p old new r v,
    override_pi piK old new = Some r -> wfk new ->
    get_path p new = None -> get_path p old = Some v ->
    get_path p r = Some v.
  Proof.
    induction p as [|k p IH]; intros old new r v H W Gn Go.
    - cbn in Gn. discriminate.
    - cbn in Go. destruct old as [| | | | | |mo]; try discriminate.
      destruct (lookup k mo) as [u|] eqn:Lo; [|discriminate].
      destruct (falsy new) eqn:Fz.
      + rewrite (override_falsy _ _ _ _ H Fz). cbn. rewrite Lo. exact Go.
      + destruct (override_dict_new _ _ _ _ H Fz) as [mn En]. subst new.
        destruct (override_pi_key piK Hpi mo mn r k H Fz W) as [mr [Er [Lk Ok]]].
        subst r. cbn. rewrite Lk, Lo. cbn in Gn.
        destruct (lookup k mn) as [w|] eqn:Ln; [|exact Go].
        destruct (override_pi piK u w) as [x|] eqn:O; [|exfalso; exact (Ok u w Lo eq_refl O)].
        exact (IH u w x v O (wfk_lookup _ _ _ W Ln) Gn Go).
  Qed.

  (* neither has the path *)
  Lemma ov_absent : forall p old new r,
    override_pi piK old new = Some r -> wfk new ->
    get_path p new = None -> get_path p old = None ->
    get_path p r = None.
  Proof.
    induction p as [|k p IH]; intros old new r H W Gn Go.
    - cbn in Gn. discriminate.
    - destruct old as [| | | | | |mo].
      1-6: cbn in H; destruct new; inversion H; subst; first [exact Gn | exact Go | reflexivity].
      destruct (falsy new) eqn:Fz.
      + rewrite (override_falsy _ _ _ _ H Fz). exact Go.
      + destruct (override_dict_new _ _ _ _ H Fz) as [mn En]. subst new.
        destruct (override_pi_key piK Hpi mo mn r k H Fz W) as [mr [Er [Lk Ok]]].
        subst r. cbn. rewrite Lk. cbn in Gn, Go.
        destruct (lookup k mo) as [u|] eqn:Lo; [|exact Gn].
        destruct (lookup k mn) as [w|] eqn:Ln; [|exact Go].
        destruct (override_pi piK u w) as [x|] eqn:O; [|reflexivity].
        exact (IH u w x O (wfk_lookup _ _ _ W Ln) Gn Go).
  Qed.

  (* ------------------------------------------------------------ layering *)
  Definition leafish (o : option jv) : Prop := match o with None => True | Some v => scalar v end.

  Lemma scalar_not_null v : scalar v -> v <> JNull.
  Proof. destruct v; cbn; congruence. Qed.

  Lemma layer_from_path p : forall docs acc r,
    Forall wfk docs -> Forall (leaf_in p) docs -> leafish (get_path p acc) ->
    layer_from piK acc docs = Some r ->
    get_path p r = last_def_from p (get_path p acc) docs.
  Proof.
    induction docs as [|d docs IH]; intros acc r W L A H; cbn in *.
    - inversion H. reflexivity.
    - destruct (override_pi piK acc d) as [acc'|] eqn:O; [|discriminate].
      inversion W as [|? ? Wd Wr]; subst. inversion L as [|? ? Ld Lr]; subst.
      assert (E : get_path p acc' = match get_path p d with Some v => Some v | None => get_path p acc end).
      { unfold leaf_in in Ld. destruct (get_path p d) as [v|] eqn:Gd.
        - apply (ov_defines p acc d acc' v O Wd Gd (scalar_not_null _ Ld)).
          intros m E. rewrite E in A. exact A.
        - destruct (get_path p acc) as [u|] eqn:Ga.
          + exact (ov_keeps p acc d acc' u O Wd Gd Ga).
          + exact (ov_absent p acc d acc' O Wd Gd Ga). }
      rewrite (IH acc' r Wr Lr); [rewrite E; reflexivity| |exact H].
      rewrite E. unfold leaf_in in Ld. destruct (get_path p d); [exact Ld|exact A].
  Qed.

  Lemma layering p docs r :
    p <> [] -> Forall wfk docs -> Forall (leaf_in p) docs ->
    layer_pi piK docs = Some r -> get_path p r = last_def p docs.
  Proof.
    intros Np W L H. unfold layer_pi in H.
    assert (A : get_path p (JDict []) = None) by (destruct p as [|k p]; [congruence|reflexivity]).
    rewrite (layer_from_path p docs (JDict []) r W L); [rewrite A; reflexivity|rewrite A; exact I|exact H].
  Qed.
End OnePath.

(* ---------------------------------------------------------------- de-duplication *)
Lemma last_def_from_split p docs : forall acc,
  last_def_from p acc docs = match last_def p docs with Some v => Some v | None => acc end.
Proof.
  unfold last_def. induction docs as [|d docs IH]; intros acc; cbn; [reflexivity|].
  rewrite IH. rewrite (IH (match get_path p d with Some v => Some v | None => None end)).
  destruct (last_def_from p None docs); [reflexivity|]. destruct (get_path p d); reflexivity.
Qed.

Lemma last_def_cons p d ds :
  last_def p (d :: ds) = match last_def p ds with Some v => Some v | None => get_path p d end.
Proof.
  unfold last_def at 1. cbn. rewrite last_def_from_split.
  destruct (last_def p ds); [reflexivity|]. destruct (get_path p d); reflexivity.
Qed.

Lemma last_def_in p docs d v : In d docs -> get_path p d = Some v -> exists w, last_def p docs = Some w.
Proof.
  induction docs as [|d' docs IH]; [intros []|]. intros [E|I] G; rewrite last_def_cons.
  - subst. rewrite G. destruct (last_def p docs); eauto.
  - destruct (IH I G) as [w Hw]. rewrite Hw. eauto.
Qed.

Lemma mem_in x l : mem x l = true -> In x l.
Proof.
  induction l as [|y l IH]; cbn; [discriminate|]. intros H. apply orb_true_iff in H.
  destruct H as [H|H]; [left; symmetry; apply String.eqb_eq; exact H|right; auto].
Qed.

Lemma dedup_last_harmless (read : string -> jv) p files :
  last_def p (map read (dedup_last files)) = last_def p (map read files).
Proof.
  induction files as [|x r IH]; [reflexivity|].
  change (dedup_last (x :: r)) with (if mem x r then dedup_last r else x :: dedup_last r).
  change (map read (x :: r)) with (read x :: map read r). rewrite last_def_cons.
  destruct (mem x r) eqn:M.
  - rewrite IH. destruct (get_path p (read x)) as [v|] eqn:G; [|destruct (last_def p (map read r)); reflexivity].
    destruct (last_def_in p (map read r) (read x) v (in_map read _ _ (mem_in _ _ M)) G) as [w Hw].
    rewrite Hw. reflexivity.
  - change (map read (x :: dedup_last r)) with (read x :: map read (dedup_last r)).
    rewrite last_def_cons, IH. reflexivity.
Qed.

(* ---------------------------------------------------------------- one override: any two oracles, same map *)
Lemma eperm_refl m : eperm m m.
Proof. induction m as [|[k v] m IH]; constructor; [apply JP_refl|exact IH]. Qed.

Lemma eperm_app a b c d : eperm a b -> eperm c d -> eperm (a ++ c) (b ++ d).
Proof. induction 1; cbn; intros Hcd; [exact Hcd|constructor; auto]. Qed.

Definition orel (a b : option jv) : Prop :=
  match a, b with
  | Some x, Some y => jperm x y
  | None, None => True
  | _, _ => False
  end.

Lemma override_perm_invariant piK piK' :
  perm_oracle piK -> perm_oracle piK' ->
  forall old new, orel (override_pi piK old new) (override_pi piK' old new).
Proof.
  intros H1 H2 old. induction old as [| | | | | |mo IH] using jv_induction; intros new;
    try (cbn; destruct new; cbn; apply JP_refl).
  cbn. destruct (falsy new); [cbn; apply JP_refl|].
  destruct new as [| | | | | |mn]; try exact I.
  assert (M : match merge_common (override_pi piK) mn mo, merge_common (override_pi piK') mn mo with
              | Some a, Some b => eperm a b
              | None, None => True
              | _, _ => False
              end).
  { induction mo as [|[k v] mo IHm]; cbn; [constructor|].
    inversion IH as [|? ? Hv Hr]; subst. cbn in Hv. specialize (IHm Hr).
    destruct (lookup k mn) as [v'|].
    - specialize (Hv v').
      destruct (override_pi piK v v') as [x|], (override_pi piK' v v') as [x'|]; cbn in Hv; try tauto;
      destruct (merge_common (override_pi piK) mn mo) as [y|], (merge_common (override_pi piK') mn mo) as [y'|];
        try tauto.
      constructor; assumption.
    - destruct (merge_common (override_pi piK) mn mo) as [y|], (merge_common (override_pi piK') mn mo) as [y'|];
        cbn; try tauto.
      constructor; [apply JP_refl|assumption]. }
  destruct (merge_common (override_pi piK) mn mo) as [a|], (merge_common (override_pi piK') mn mo) as [b|];
    try tauto.
  cbn. apply JP_dict with (mb := b ++ piK (novel mo mn)).
  - apply eperm_app; [exact M|apply eperm_refl].
  - apply Permutation_app_head. eapply Permutation_trans; [apply Permutation_sym; apply H1|apply H2].
Qed.

(* with the identity oracle the model is V.Lib.JTree.override *)
Lemma override_id : forall old new, override_pi id_oracle old new = override old new.
Proof.
  induction old as [| | | | | |mo IH] using jv_induction; intros new; try reflexivity.
  cbn. destruct (falsy new); [reflexivity|]. destruct new as [| | | | | |mn]; try reflexivity.
  assert (M : merge_common (override_pi id_oracle) mn mo = merge_common override mn mo).
  { induction mo as [|[k v] mo IHm]; cbn; [reflexivity|].
    inversion IH as [|? ? Hv Hr]; subst. cbn in Hv. rewrite (IHm Hr).
    destruct (lookup k mn) as [v'|]; [rewrite Hv|]; reflexivity. }
  rewrite M. reflexivity.
Qed.

(* ---------------------------------------------------------------- sorting is canonical on permutations *)
Lemma ascii_compare_N a b : Ascii.compare a b = N.compare (N_of_ascii a) (N_of_ascii b).
Proof. reflexivity. Qed.

Lemma compare_le_trans a : forall b c,
  String.compare a b <> Gt -> String.compare b c <> Gt -> String.compare a c <> Gt.
Proof.
  induction a as [|x a IH]; intros [|y b] [|z c]; cbn; try congruence.
  rewrite !ascii_compare_N.
  destruct (N.compare_spec (N_of_ascii x) (N_of_ascii y)) as [E1|L1|G1];
  destruct (N.compare_spec (N_of_ascii y) (N_of_ascii z)) as [E2|L2|G2];
  destruct (N.compare_spec (N_of_ascii x) (N_of_ascii z)) as [E3|L3|G3];
  try congruence; try lia; try (intros; discriminate).
  apply IH.
Qed.

Lemma leb_trans a b c : String.leb a b = true -> String.leb b c = true -> String.leb a c = true.
Proof.
  unfold String.leb. intros H1 H2.
  assert (A : String.compare a b <> Gt) by (destruct (String.compare a b); congruence).
  assert (B : String.compare b c <> Gt) by (destruct (String.compare b c); congruence).
  pose proof (compare_le_trans a b c A B) as C. destruct (String.compare a c); congruence.
Qed.

Lemma leb_false_le a b : String.leb a b = false -> String.leb b a = true.
Proof. intros H. destruct (String.leb_total a b) as [T|T]; congruence. Qed.

Lemma insert_comm x y l : insert x (insert y l) = insert y (insert x l).
Proof.
  induction l as [|z r IH]; cbn.
  - destruct (String.leb x y) eqn:XY, (String.leb y x) eqn:YX; try reflexivity.
    + rewrite (String.leb_antisym _ _ XY YX). reflexivity.
    + apply leb_false_le in XY. congruence.
  - destruct (String.leb y z) eqn:YZ, (String.leb x z) eqn:XZ; cbn; rewrite ?YZ, ?XZ.
    + destruct (String.leb x y) eqn:XY, (String.leb y x) eqn:YX; try reflexivity.
      * rewrite (String.leb_antisym _ _ XY YX). reflexivity.
      * apply leb_false_le in XY. congruence.
    + destruct (String.leb x y) eqn:XY.
      * rewrite (leb_trans _ _ _ XY YZ) in XZ. discriminate.
      * cbn. rewrite ?XZ, ?YZ. reflexivity.
    + destruct (String.leb y x) eqn:YX.
      * rewrite (leb_trans _ _ _ YX XZ) in YZ. discriminate.
      * cbn. rewrite ?XZ, ?YZ. reflexivity.
    + rewrite IH. reflexivity.
Qed.

Lemma sort_perm l l' : Permutation l l' -> sort l = sort l'.
Proof.
  induction 1 as [|x l l' _ IH|x y l|l l' l'' _ IH1 _ IH2]; cbn.
  - reflexivity.
  - rewrite IH. reflexivity.
  - apply insert_comm.
  - congruence.
Qed.

Lemma insert_permutation x l : Permutation (x :: l) (insert x l).
Proof.
  induction l as [|y r IH]; cbn; [apply Permutation_refl|].
  destruct (String.leb x y); [apply Permutation_refl|].
  eapply Permutation_trans; [apply perm_swap|]. constructor. exact IH.
Qed.

Lemma sort_permutation l : Permutation l (sort l).
Proof.
  induction l as [|x r IH]; cbn; [constructor|].
  eapply Permutation_trans; [constructor; exact IH|apply insert_permutation].
Qed.

(* entries with distinct keys *)
Lemma insert_kv_comm {B} (x y : string * B) l : fst x <> fst y ->
  insert_kv x (insert_kv y l) = insert_kv y (insert_kv x l).
Proof.
  intros D. induction l as [|z r IH]; cbn.
  - destruct (String.leb (fst x) (fst y)) eqn:XY, (String.leb (fst y) (fst x)) eqn:YX; try reflexivity.
    + exfalso. apply D. exact (String.leb_antisym _ _ XY YX).
    + apply leb_false_le in XY. congruence.
  - destruct (String.leb (fst y) (fst z)) eqn:YZ, (String.leb (fst x) (fst z)) eqn:XZ; cbn; rewrite ?YZ, ?XZ.
    + destruct (String.leb (fst x) (fst y)) eqn:XY, (String.leb (fst y) (fst x)) eqn:YX; try reflexivity.
      * exfalso. apply D. exact (String.leb_antisym _ _ XY YX).
      * apply leb_false_le in XY. congruence.
    + destruct (String.leb (fst x) (fst y)) eqn:XY.
      * rewrite (leb_trans _ _ _ XY YZ) in XZ. discriminate.
      * cbn. rewrite ?XZ, ?YZ. reflexivity.
    + destruct (String.leb (fst y) (fst x)) eqn:YX.
      * rewrite (leb_trans _ _ _ YX XZ) in YZ. discriminate.
      * cbn. rewrite ?XZ, ?YZ. reflexivity.
    + rewrite IH. reflexivity.
Qed.

Lemma sort_kv_perm {B} (l l' : list (string * B)) :
  Permutation l l' -> NoDup (map fst l) -> sort_kv l = sort_kv l'.
Proof.
  induction 1 as [|x l l' Hp IH|x y l|l l' l'' H1 IH1 H2 IH2]; cbn; intros ND.
  - reflexivity.
  - inversion ND; subst. rewrite IH by assumption. reflexivity.
  - inversion ND as [|? ? N1 N2]; subst. apply insert_kv_comm. intros E. apply N1. left. symmetry. exact E.
  - rewrite IH1 by assumption. apply IH2.
    eapply Permutation_NoDup; [apply Permutation_map; exact H1|exact ND].
Qed.

(* the memoization buffer does not depend on the iteration order of the dictionaries *)
Lemma ser_entries_keys f : forall m kvs, ser_entries f m = Some kvs -> map fst kvs = map fst m.
Proof.
  induction m as [|[k w] m IH]; cbn; intros kvs H.
  - inversion H. reflexivity.
  - destruct (f w); [|discriminate]. destruct (ser_entries f m); [|discriminate].
    inversion H; subst. cbn. f_equal. apply IH. reflexivity.
Qed.

Lemma ser_perm_invariant piD piD' :
  perm_oracle piD -> perm_oracle piD' ->
  forall v, wfk v -> ser_pi piD v = ser_pi piD' v.
Proof.
  intros H1 H2 v. induction v as [| | | | | |m IH] using jv_induction; intros W; try reflexivity.
  cbn.
  assert (E : ser_entries (ser_pi piD) m = ser_entries (ser_pi piD') m).
  { destruct W as [_ W]. induction m as [|[k w] m IHm]; cbn; [reflexivity|].
    inversion IH as [|? ? Hw Hr]; subst. cbn in Hw. destruct W as [Ww Wr].
    rewrite (Hw Ww), (IHm Hr Wr). reflexivity. }
  rewrite E. destruct (ser_entries (ser_pi piD') m) as [kvs|] eqn:S; [|reflexivity].
  cbn. f_equal. f_equal. f_equal.
  assert (ND : NoDup (map fst kvs)).
  { rewrite (ser_entries_keys _ _ _ S). exact (wfk_nodup _ W). }
  rewrite <- (sort_kv_perm kvs (piD kvs) (H1 kvs) ND).
  exact (sort_kv_perm kvs (piD' kvs) (H2 kvs) ND).
Qed.

Lemma references_perm_invariant piS piS' refs :
  perm_oracle piS -> perm_oracle piS' -> references_of piS refs = references_of piS' refs.
Proof.
  intros H1 H2. unfold references_of. apply sort_perm.
  eapply Permutation_trans; [apply Permutation_sym; apply H1|apply H2].
Qed.

Lemma rev_perm_oracle {A} : perm_oracle (@rev A).
Proof. intros l. apply Permutation_rev. Qed.

Lemma id_perm_oracle {A} : perm_oracle (@id_oracle A).
Proof. intros l. apply Permutation_refl. Qed.

(* ---------------------------------------------------------------- the repaired loader, files as given *)
Lemma dedup_last_incl x l : In x (dedup_last l) -> In x l.
Proof.
  induction l as [|y l IH]; cbn; [tauto|]. destruct (mem y l); cbn; intros H; [right; auto|].
  destruct H; [left; assumption|right; auto].
Qed.

Lemma load_variables_last_wins piK (read : string -> jv) files p r :
  perm_oracle piK -> p <> [] ->
  (forall f, In f files -> wfk (read f)) ->
  (forall f, In f files -> leaf_in p (read f)) ->
  load_variables piK read files = Some r ->
  get_path p r = last_def p (map read files).
Proof.
  intros Hpi Np W L H. unfold load_variables in H.
  rewrite <- dedup_last_harmless.
  apply (layering piK Hpi p _ r Np); [| |exact H]; apply Forall_forall; intros d Hd;
    apply in_map_iff in Hd; destruct Hd as [f [E Hf]]; subst d; [apply W|apply L]; exact (dedup_last_incl _ _ Hf).
Qed.

Lemma load_variables_oracle_independent piK piK' (read : string -> jv) files p r r' :
  perm_oracle piK -> perm_oracle piK' -> p <> [] ->
  (forall f, In f files -> wfk (read f)) ->
  (forall f, In f files -> leaf_in p (read f)) ->
  load_variables piK read files = Some r -> load_variables piK' read files = Some r' ->
  get_path p r = get_path p r'.
Proof.
  intros H1 H2 Np W L R R'.
  rewrite (load_variables_last_wins piK read files p r H1 Np W L R).
  rewrite (load_variables_last_wins piK' read files p r' H2 Np W L R'). reflexivity.
Qed.
