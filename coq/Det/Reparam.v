(* C15 — ONE configuration object that is constructed and then re-parametrized.

   conf.py FlowIRExperimentConfiguration: __init__ keeps the FlowIR of the package as it was handed over / parsed
   (`self._original_flowir_0 = concrete.raw()`, a deep copy taken BEFORE _patch_in_variable_files injects the user
   variables as platform-stage variables of every platform and stage); parametrize() -> _load_concrete(None, ...)
   builds a new FlowIRConcrete out of that snapshot, _initialize() layers the variable files of THIS call and patches
   them in.  The object therefore has two parts: [pristine] (never written after the constructor) and [current]. *)
From Coq Require Import String List Bool Arith ZArith Permutation.
Import ListNotations.
Require Import V.Lib.PyStr V.Lib.JTree V.Det.Model V.Det.Proofs V.Det.Congr V.Det.Session.
Open Scope string_scope.
Open Scope list_scope.

Definition stage_table := list (string * jv).       (* stage -> its platform-stage variables (a dictionary) *)
Definition package := list (string * stage_table).  (* platform -> stage table *)

Definition table_of (pkg : package) (plat : string) : stage_table :=
  match lookup plat pkg with Some t => t | None => [] end.

(* _patch_in_variable_files on one stage: set_platform_stage_variable for every injected variable *)
Definition patch_stage (uv : jv) (sb : string * jv) : string * jv :=
  (fst sb, JDict (fold_left (fun acc kv => set_key (fst kv) (snd kv) acc) (inject_stage uv (fst sb)) (jdict_of (snd sb)))).
Definition patch (uv : option jv) (t : stage_table) : stage_table :=
  match uv with Some r => map (patch_stage r) t | None => t end.

(* options of one call: contents of the files at that time, list given, platform *)
Definition options := ((string -> jv) * list string * string)%type.

Record cfgobj := { pristine : package; uservars : option jv; current : stage_table }.

Definition configure (piK : oracle (string * jv)) (pkg : package) (o : options) : cfgobj :=
  let '(read, files, plat) := o in
  let uv := load_variables piK read files in
  {| pristine := pkg; uservars := uv; current := patch uv (table_of pkg plat) |}.

Definition construct := configure.
Definition parametrize (piK : oracle (string * jv)) (c : cfgobj) (o : options) : cfgobj := configure piK (pristine c) o.

(* the object after a history of calls *)
Definition after (piK : oracle (string * jv)) (pkg : package) (first : options) (more : list options) : cfgobj :=
  fold_left (parametrize piK) more (construct piK pkg first).

(* the answers of one object to a list of calls (the first one constructs it) *)
Fixpoint answers_from (piK : oracle (string * jv)) (c : cfgobj) (calls : list options) : list cfgobj :=
  match calls with
  | [] => []
  | o :: r => let c' := parametrize piK c o in c' :: answers_from piK c' r
  end.
Definition answers (piK : oracle (string * jv)) (pkg : package) (calls : list options) : list cfgobj :=
  match calls with
  | [] => []
  | o :: r => let c := construct piK pkg o in c :: answers_from piK c r
  end.

(* the regression class "snapshot taken lazily": the first parametrize() takes the snapshot from the object as it
   is by then, i.e. with the user variables of the constructor patched into the table of the platform in use *)
Definition parametrize_lazy (piK : oracle (string * jv)) (plat0 : string) (c : cfgobj) (o : options) : cfgobj :=
  configure piK (set_key plat0 (current c) (pristine c)) o.

(* ------------------------------------------------------------------ proofs *)
Lemma pristine_after piK pkg first more : pristine (after piK pkg first more) = pkg.
Proof.
  unfold after. assert (G : forall c, pristine (fold_left (parametrize piK) more c) = pristine c).
  { induction more as [|o r IH]; intro c; cbn [fold_left]; [reflexivity|]. rewrite IH.
    unfold parametrize, configure. destruct o as [[rd fs] pl]. reflexivity. }
  rewrite G. unfold construct, configure. destruct first as [[rd fs] pl]. reflexivity.
Qed.

(* whatever the object was constructed with and asked before: parametrize = a fresh construction *)
Lemma reparam_is_fresh piK pkg first more o :
  parametrize piK (after piK pkg first more) o = construct piK pkg o.
Proof. unfold parametrize. rewrite pristine_after. reflexivity. Qed.

Lemma reparam_current piK pkg first more read files plat :
  current (parametrize piK (after piK pkg first more) (read, files, plat)) =
  patch (load_variables piK read files) (table_of pkg plat).
Proof. rewrite reparam_is_fresh. reflexivity. Qed.

(* ... and its user variables are those a fresh process (own iteration orders, key-permuted files) layers *)
Lemma reparam_uservars piK piK' pkg first more (read read' : string -> jv) files plat :
  perm_oracle piK -> perm_oracle piK' ->
  (forall f, In f files -> wfk (read f)) ->
  (forall f, In f files -> jperm (read f) (read' f)) ->
  orel (uservars (parametrize piK (after piK pkg first more) (read, files, plat)))
       (uservars (construct piK' pkg (read', files, plat))).
Proof.
  intros H1 H2 W J. rewrite reparam_is_fresh. cbn. apply load_variables_congr; assumption.
Qed.

Lemma answers_from_fresh piK c calls :
  answers_from piK c calls = map (construct piK (pristine c)) calls.
Proof.
  revert c. induction calls as [|o r IH]; intro c; [reflexivity|]. cbn [answers_from map].
  assert (E : pristine (parametrize piK c o) = pristine c).
  { unfold parametrize, configure. destruct o as [[rd fs] pl]. reflexivity. }
  rewrite IH, E. reflexivity.
Qed.

Lemma answers_fresh piK pkg calls : answers piK pkg calls = map (construct piK pkg) calls.
Proof.
  destruct calls as [|o r]; [reflexivity|]. cbn [answers map]. rewrite answers_from_fresh.
  unfold construct at 2, configure. destruct o as [[rd fs] pl]. reflexivity.
Qed.

(* ------------------------------------------------------------------ correspondence *)
Fixpoint table_eqb (a b : stage_table) : bool :=
  match a, b with
  | [], [] => true
  | (k, v) :: r, (k', w) :: s => String.eqb k k' && jv_eqb v w && table_eqb r s
  | _, _ => false
  end.

Definition answer_ok (c : cfgobj) (impl : option jv * stage_table) : bool :=
  opt_jv_eqb (uservars c) (fst impl) &&
  match uservars c with Some _ => table_eqb (current c) (snd impl) | None => true end.

Fixpoint answers_ok (cs : list cfgobj) (impl : list (option jv * stage_table)) : bool :=
  match cs, impl with
  | [], [] => true
  | c :: r, i :: s => answer_ok c i && answers_ok r s
  | _, _ => false
  end.

(* case = ((file table, platform -> stage -> variables of the package), calls in the order performed on ONE object:
           (files given, platform), answers of the implementation: (user variables (None: raised), stage variables of
           the platform in use afterwards, sorted by stage)) *)
Definition check_reparam
  (c : (list (string * jv) * package) * list (list string * string) * list (option jv * stage_table)) : bool :=
  let '((tbl, pkg), calls, impl) := c in
  let os := map (fun fp => (read_of tbl, fst fp, snd fp)) calls in
  answers_ok (answers id_oracle pkg os) impl && answers_ok (answers (@rev _) pkg os) impl.
