(* C15 — override_object is a congruence for "equal up to the order of dictionary entries at every
   depth" (jperm) in BOTH arguments and under any two iteration orders; hence the whole layered
   dictionary (the fold of override over the variable files), not only its leaves, is the same in
   every process, also when the processes read key-permuted but equal documents.
   jperm is an equivalence relation and is observationally equality through get_path. *)
From Coq Require Import String List Bool ZArith Permutation Lia.
Import ListNotations.
Require Import V.Lib.PyStr V.Lib.JTree V.Det.Model V.Det.Proofs.
Open Scope string_scope.
Open Scope list_scope.

(* entries: pointwise jperm (same keys, same order), then a permutation *)
Definition mrel (a c : list (string * jv)) : Prop := exists b, eperm a b /\ Permutation b c.

Lemma mrel_refl m : mrel m m.
Proof. exists m. split; [apply eperm_refl|apply Permutation_refl]. Qed.

Lemma jperm_of_mrel ma mc : mrel ma mc -> jperm (JDict ma) (JDict mc).
Proof. intros [mb [E P]]. exact (JP_dict ma mb mc E P). Qed.

Lemma jperm_dict_inv ma c : jperm (JDict ma) c -> exists mc, c = JDict mc /\ mrel ma mc.
Proof.
  intros H. inversion H; subst.
  - exists ma. split; [reflexivity|apply mrel_refl].
  - eexists. split; [reflexivity|]. exists mb. split; assumption.
Qed.

Lemma jperm_nondict_inv a c : (forall m, a <> JDict m) -> jperm a c -> c = a.
Proof. intros N H. inversion H; subst; [reflexivity|]. exfalso. eapply N. reflexivity. Qed.

Ltac nondict J :=
  match type of J with
  | jperm ?a ?c =>
      let N := fresh "N" in let E := fresh "E" in
      assert (N : forall m, a <> JDict m) by (intros ? ?; discriminate);
      pose proof (jperm_nondict_inv a c N J) as E; subst c; clear N
  end.

Lemma eperm_keys a b : eperm a b -> map fst a = map fst b.
Proof. induction 1; cbn; [reflexivity|]. f_equal. assumption. Qed.

Lemma eperm_lookup k a b : eperm a b -> orel (lookup k a) (lookup k b).
Proof.
  induction 1 as [|k' v w ra rb Hv Hr IH]; cbn; [exact I|].
  destruct (String.eqb k k'); [exact Hv|exact IH].
Qed.

Lemma mrel_lookup k a c : mrel a c -> NoDup (map fst a) -> orel (lookup k a) (lookup k c).
Proof.
  intros [b [E P]] ND. rewrite (lookup_perm k b c P).
  - exact (eperm_lookup k a b E).
  - rewrite <- (eperm_keys a b E). exact ND.
Qed.

Lemma has_key_in {A} k (m : list (string * A)) : has_key k m = true <-> In k (map fst m).
Proof.
  unfold has_key. split.
  - destruct (lookup k m) eqn:L; [intros _; exact (in_keys_of_lookup _ _ _ L)|discriminate].
  - intros H. destruct (lookup k m) eqn:L; [reflexivity|]. exfalso. exact (lookup_none_notin _ _ L H).
Qed.

Lemma mrel_keys a c : mrel a c -> Permutation (map fst a) (map fst c).
Proof. intros [b [E P]]. rewrite (eperm_keys a b E). apply Permutation_map. exact P. Qed.

Lemma mrel_has_key k a c : mrel a c -> has_key k a = has_key k c.
Proof.
  intros M. pose proof (mrel_keys a c M) as P.
  destruct (has_key k a) eqn:Ha, (has_key k c) eqn:Hc; try reflexivity.
  - apply has_key_in in Ha. apply (Permutation_in _ P) in Ha. apply has_key_in in Ha. congruence.
  - apply has_key_in in Hc. apply (Permutation_in _ (Permutation_sym P)) in Hc. apply has_key_in in Hc. congruence.
Qed.

Lemma jperm_falsy a b : jperm a b -> falsy a = falsy b.
Proof.
  intros H. inversion H as [|ma mb mc E P]; subst; [reflexivity|].
  destruct ma as [|x ma].
  - inversion E; subst. apply Permutation_nil in P. subst. reflexivity.
  - inversion E; subst. destruct mc as [|y mc]; [|reflexivity].
    apply Permutation_sym in P. apply Permutation_nil in P. discriminate.
Qed.

(* ---------------------------------------------------------------- merge_common *)
Lemma merge_eperm f f' mn mn' : forall mo m1,
  eperm mo m1 ->
  (forall k, orel (lookup k mn) (lookup k mn')) ->
  (forall k w, lookup k mn = Some w -> wfk w) ->
  Forall (fun kv => forall a' b b', jperm (snd kv) a' -> jperm b b' -> wfk b -> orel (f (snd kv) b) (f' a' b')) mo ->
  match merge_common f mn mo, merge_common f' mn' m1 with
  | Some a, Some b => eperm a b
  | None, None => True
  | _, _ => False
  end.
Proof.
  induction 1 as [|k v w ra rb Hv Hr IH]; intros Hl Hw HF; cbn; [constructor|].
  inversion HF as [|? ? Fv Fr]; subst. cbn in Fv. specialize (IH Hl Hw Fr).
  pose proof (Hl k) as Lk.
  destruct (lookup k mn) as [x|] eqn:L1, (lookup k mn') as [x'|] eqn:L2; cbn in Lk; try tauto.
  - pose proof (Fv w x x' Hv Lk (Hw k x L1)) as O.
    destruct (f v x) as [y|], (f' w x') as [y'|]; cbn in O; try tauto;
      destruct (merge_common f mn ra) as [z|], (merge_common f' mn' rb) as [z'|]; try tauto.
    constructor; assumption.
  - destruct (merge_common f mn ra) as [z|], (merge_common f' mn' rb) as [z'|]; cbn; try tauto.
    constructor; assumption.
Qed.

Definition mstep (g : jv -> jv -> option jv) (n : list (string * jv)) (kv : string * jv) : option (string * jv) :=
  match lookup (fst kv) n with
  | Some v' => option_map (pair (fst kv)) (g (snd kv) v')
  | None => Some kv
  end.

Lemma merge_cons g n kv r :
  merge_common g n (kv :: r) =
  match mstep g n kv, merge_common g n r with Some x, Some y => Some (x :: y) | _, _ => None end.
Proof.
  destruct kv as [k v]. unfold mstep. cbn. destruct (lookup k n) as [v'|].
  - destruct (g v v'); cbn; [|reflexivity]. destruct (merge_common g n r); reflexivity.
  - destruct (merge_common g n r); reflexivity.
Qed.

Lemma merge_perm g n : forall m m', Permutation m m' ->
  match merge_common g n m, merge_common g n m' with
  | Some a, Some b => Permutation a b
  | None, None => True
  | _, _ => False
  end.
Proof.
  induction 1 as [|x l l' _ IH|x y l|l l' l'' _ IH1 _ IH2].
  - cbn. constructor.
  - rewrite !merge_cons. destruct (mstep g n x);
      destruct (merge_common g n l), (merge_common g n l'); try tauto. constructor. exact IH.
  - rewrite !merge_cons. destruct (mstep g n x), (mstep g n y), (merge_common g n l); try exact I.
    apply perm_swap.
  - destruct (merge_common g n l), (merge_common g n l'), (merge_common g n l''); try tauto.
    eapply Permutation_trans; eassumption.
Qed.

(* ---------------------------------------------------------------- the novel keys *)
Lemma eperm_filter (p : string -> bool) a b :
  eperm a b -> eperm (filter (fun kv => p (fst kv)) a) (filter (fun kv => p (fst kv)) b).
Proof.
  induction 1 as [|k v w ra rb Hv Hr IH]; cbn; [constructor|].
  destruct (p k); [constructor; assumption|exact IH].
Qed.

Lemma perm_filter {A} (p : A -> bool) a b : Permutation a b -> Permutation (filter p a) (filter p b).
Proof.
  induction 1 as [|x l l' _ IH|x y l|l l' l'' _ IH1 _ IH2]; cbn.
  - constructor.
  - destruct (p x); [constructor|]; exact IH.
  - destruct (p x), (p y); try apply Permutation_refl. apply perm_swap.
  - eapply Permutation_trans; eassumption.
Qed.

Lemma novel_mrel mo mo' mn mn' : mrel mo mo' -> mrel mn mn' -> mrel (novel mo mn) (novel mo' mn').
Proof.
  intros Mo [n1 [E P]]. unfold novel.
  rewrite (filter_ext (fun kv => negb (has_key (fst kv) mo')) (fun kv => negb (has_key (fst kv) mo))).
  2:{ intros kv. rewrite (mrel_has_key (fst kv) mo mo' Mo). reflexivity. }
  exists (filter (fun kv => negb (has_key (fst kv) mo)) n1). split.
  - exact (eperm_filter (fun k => negb (has_key k mo)) mn n1 E).
  - apply perm_filter. exact P.
Qed.

(* a permutation before a pointwise change is a pointwise change before a permutation *)
Lemma perm_eperm_commute a b : Permutation a b -> forall b1, eperm b b1 ->
  exists a1, eperm a a1 /\ Permutation a1 b1.
Proof.
  induction 1 as [|x l l' _ IH|x y l|l l' l'' _ IH1 _ IH2]; intros b1 E.
  - inversion E; subst. exists []. split; constructor.
  - inversion E as [|k v w ra rb Hv Hr]; subst. destruct (IH rb Hr) as [a1 [E1 P1]].
    exists ((k, w) :: a1). split; constructor; assumption.
  - inversion E as [|k v w ra rb Hv Hr]; subst. inversion Hr as [|k2 v2 w2 ra2 rb2 Hv2 Hr2]; subst.
    exists ((k2, w2) :: (k, w) :: rb2). split; [constructor; [|constructor]; assumption|apply perm_swap].
  - destruct (IH2 b1 E) as [m1 [E1 P1]]. destruct (IH1 m1 E1) as [a1 [E0 P0]].
    exists a1. split; [exact E0|eapply Permutation_trans; eassumption].
Qed.

(* and the other way round *)
Lemma eperm_perm_commute a b : Permutation a b -> forall a1, eperm a a1 ->
  exists b1, eperm b b1 /\ Permutation a1 b1.
Proof.
  induction 1 as [|x l l' _ IH|x y l|l l' l'' _ IH1 _ IH2]; intros a1 E.
  - inversion E; subst. exists []. split; constructor.
  - inversion E as [|k v w ra rb Hv Hr]; subst. destruct (IH rb Hr) as [b1 [E1 P1]].
    exists ((k, w) :: b1). split; constructor; assumption.
  - inversion E as [|k v w ra rb Hv Hr]; subst. inversion Hr as [|k2 v2 w2 ra2 rb2 Hv2 Hr2]; subst.
    exists ((k2, w2) :: (k, w) :: rb2). split; [constructor; [|constructor]; assumption|apply perm_swap].
  - destruct (IH1 a1 E) as [m1 [E1 P1]]. destruct (IH2 m1 E1) as [b1 [E2 P2]].
    exists b1. split; [exact E2|eapply Permutation_trans; eassumption].
Qed.

Lemma mrel_oracle piK piK' X Y : perm_oracle piK -> perm_oracle piK' -> mrel X Y -> mrel (piK X) (piK' Y).
Proof.
  intros H1 H2 [X1 [E P]].
  destruct (perm_eperm_commute (piK X) X (Permutation_sym (H1 X)) X1 E) as [A1 [EA PA]].
  exists A1. split; [exact EA|].
  eapply Permutation_trans; [exact PA|]. eapply Permutation_trans; [exact P|apply H2].
Qed.

Lemma mrel_app a c a' c' : mrel a c -> mrel a' c' -> mrel (a ++ a') (c ++ c').
Proof.
  intros [b [E P]] [b' [E' P']]. exists (b ++ b'). split; [apply eperm_app; assumption|apply Permutation_app; assumption].
Qed.

(* ---------------------------------------------------------------- override_object is a congruence *)
Lemma jperm_nondict_result a b b' :
  jperm b b' -> jperm (match b with JNull => a | _ => b end) (match b' with JNull => a | _ => b' end).
Proof. intros H. inversion H; subst; [apply JP_refl|exact H]. Qed.

Lemma override_congr piK piK' : perm_oracle piK -> perm_oracle piK' ->
  forall a a' b b', jperm a a' -> jperm b b' -> wfk b ->
  orel (override_pi piK a b) (override_pi piK' a' b').
Proof.
  intros H1 H2 a. induction a as [|x0|x0|x0|x0|x0|mo IH] using jv_induction; intros a' b b' Ja Jb Wb.
  1-6: nondict Ja; cbn; destruct b; try (nondict Jb; cbn; apply JP_refl);
       destruct (jperm_dict_inv _ _ Jb) as [mc [Ec _]]; subst b'; cbn; exact Jb.
  destruct (jperm_dict_inv mo a' Ja) as [mo' [Ea Mo]]. subst a'.
  cbn [override_pi]. rewrite <- (jperm_falsy b b' Jb).
  destruct (falsy b) eqn:Fz; [cbn; exact (jperm_of_mrel _ _ Mo)|].
  destruct b as [| | | | | |mn];
    try (nondict Jb; exact I).
  destruct (jperm_dict_inv mn b' Jb) as [mn' [Eb Mn]]. subst b'.
  destruct Mo as [m1 [Eo Po]].
  pose proof (merge_eperm (override_pi piK) (override_pi piK') mn mn' mo m1 Eo
                (fun k => mrel_lookup k mn mn' Mn (wfk_nodup _ Wb))
                (fun k w L => wfk_lookup mn k w Wb L) IH) as M1.
  pose proof (merge_perm (override_pi piK') mn' m1 mo' Po) as M2.
  destruct (merge_common (override_pi piK) mn mo) as [l|],
           (merge_common (override_pi piK') mn' m1) as [l1|],
           (merge_common (override_pi piK') mn' mo') as [l'|]; try tauto.
  cbn. apply jperm_of_mrel. apply mrel_app.
  - exists l1. split; assumption.
  - apply mrel_oracle; [exact H1|exact H2|]. apply novel_mrel; [exists m1; split; assumption|exact Mn].
Qed.

(* ---------------------------------------------------------------- the fold *)
Lemma layer_from_congr piK piK' : perm_oracle piK -> perm_oracle piK' ->
  forall docs docs', Forall2 jperm docs docs' -> Forall wfk docs ->
  forall acc acc', jperm acc acc' -> orel (layer_from piK acc docs) (layer_from piK' acc' docs').
Proof.
  intros H1 H2 docs docs' F. induction F as [|d d' r r' Jd Fr IH]; intros W acc acc' Ja; cbn.
  - exact Ja.
  - inversion W as [|? ? Wd Wr]; subst.
    pose proof (override_congr piK piK' H1 H2 acc acc' d d' Ja Jd Wd) as O.
    destruct (override_pi piK acc d) as [x|], (override_pi piK' acc' d') as [x'|]; cbn in O; try tauto.
    exact (IH Wr x x' O).
Qed.

Lemma layer_pi_congr piK piK' docs docs' : perm_oracle piK -> perm_oracle piK' ->
  Forall2 jperm docs docs' -> Forall wfk docs -> orel (layer_pi piK docs) (layer_pi piK' docs').
Proof. intros H1 H2 F W. exact (layer_from_congr piK piK' H1 H2 docs docs' F W _ _ (JP_refl _)). Qed.

Lemma Forall2_map_in {A B} (R : B -> B -> Prop) (f g : A -> B) l :
  (forall x, In x l -> R (f x) (g x)) -> Forall2 R (map f l) (map g l).
Proof.
  induction l as [|x l IH]; cbn; intros H; constructor; [apply H; left; reflexivity|].
  apply IH. intros y Hy. apply H. right. exact Hy.
Qed.

(* the repaired loader: any two iteration orders, key-permuted but equal files: the same dictionary *)
Lemma load_variables_congr piK piK' (read read' : string -> jv) files :
  perm_oracle piK -> perm_oracle piK' ->
  (forall f, In f files -> wfk (read f)) ->
  (forall f, In f files -> jperm (read f) (read' f)) ->
  orel (load_variables piK read files) (load_variables piK' read' files).
Proof.
  intros H1 H2 W J. unfold load_variables. apply layer_pi_congr; [exact H1|exact H2| |].
  - apply Forall2_map_in. intros f Hf. apply J. exact (dedup_last_incl _ _ Hf).
  - apply Forall_forall. intros d Hd. apply in_map_iff in Hd. destruct Hd as [f [E Hf]]. subst d.
    apply W. exact (dedup_last_incl _ _ Hf).
Qed.

(* ---------------------------------------------------------------- jperm is an equivalence *)
Lemma eperm_trans_with :
  forall a b, eperm a b -> Forall (fun kv => forall y z, jperm (snd kv) y -> jperm y z -> jperm (snd kv) z) a ->
  forall c, eperm b c -> eperm a c.
Proof.
  induction 1 as [|k v w ra rb Hv Hr IH]; intros HF c E; inversion E; subst; [constructor|].
  inversion HF as [|? ? Fv Fr]; subst. cbn in Fv. constructor; [eapply Fv; eassumption|apply IH; assumption].
Qed.

Lemma jperm_trans : forall a b c, jperm a b -> jperm b c -> jperm a c.
Proof.
  induction a as [|x0|x0|x0|x0|x0|ma IH] using jv_induction; intros b c H1 H2.
  1-6: nondict H1; exact H2.
  destruct (jperm_dict_inv ma b H1) as [mb [Eb [m1 [E1 P1]]]]. subst b.
  destruct (jperm_dict_inv mb c H2) as [mc [Ec [m2 [E2 P2]]]]. subst c.
  destruct (perm_eperm_commute m1 mb P1 m2 E2) as [m1' [E3 P3]].
  apply JP_dict with (mb := m1').
  - exact (eperm_trans_with ma m1 E1 IH m1' E3).
  - eapply Permutation_trans; eassumption.
Qed.

Lemma eperm_sym_with :
  forall a b, eperm a b -> Forall (fun kv => forall y, jperm (snd kv) y -> jperm y (snd kv)) a -> eperm b a.
Proof.
  induction 1 as [|k v w ra rb Hv Hr IH]; intros HF; [constructor|].
  inversion HF as [|? ? Fv Fr]; subst. cbn in Fv. constructor; [apply Fv; exact Hv|apply IH; exact Fr].
Qed.

Lemma jperm_sym : forall a b, jperm a b -> jperm b a.
Proof.
  induction a as [|x0|x0|x0|x0|x0|ma IH] using jv_induction; intros b H.
  1-6: nondict H; apply JP_refl.
  destruct (jperm_dict_inv ma b H) as [mb [Eb [m1 [E1 P1]]]]. subst b.
  pose proof (eperm_sym_with ma m1 E1 IH) as E1'.
  destruct (eperm_perm_commute m1 mb P1 ma E1') as [b1 [E2 P2]].
  apply JP_dict with (mb := b1); [exact E2|apply Permutation_sym; exact P2].
Qed.

(* ---------------------------------------------------------------- jperm is equality for every reader *)
(* whatever is read through a path of keys is the same (up to jperm again): in particular every
   leaf is EQUAL; needs unique keys (a permuted dictionary with a repeated key shadows differently) *)
Lemma jperm_get_path : forall p a b, jperm a b -> wfk a -> orel (get_path p a) (get_path p b).
Proof.
  induction p as [|k p IH]; intros a b J W; cbn; [exact J|].
  destruct a as [| | | | | |ma];
    try (nondict J; exact I).
  destruct (jperm_dict_inv ma b J) as [mb [Eb M]]. subst b.
  pose proof (mrel_lookup k ma mb M (wfk_nodup _ W)) as L.
  destruct (lookup k ma) as [v|] eqn:La, (lookup k mb) as [w|]; cbn in L; try tauto.
  exact (IH v w L (wfk_lookup _ _ _ W La)).
Qed.

Lemma jperm_scalar a b : jperm a b -> scalar a -> b = a.
Proof. intros J S. apply jperm_nondict_inv; [|exact J]. intros m E. subst a. exact S. Qed.
