(* C15 — site S7: FlowIR.apply_replicate -> compile_component_aggregate.

   apply_replicate collects, in the order of the `references` field of the aggregating component, the
   references that point to replicated producers (their ABSOLUTE spelling) and hands the collection to
   compile_component_aggregate, whose closure `aggregate(string)` is applied to every string of the component:

       for ref in refs_to_replicate:                      # the collection, in ITS iteration order
           for spelling in [absolute(ref), relative(ref)]:
               if spelling is found in string:
                   string = string.replace(spelling, " ".join(translation_map[spelling]))
                   if string changed: break               # absolute found: the relative one is not tried

   This is the loop of C10 (resolveArguments: absolute spelling, else relative spelling, one value per
   reference), so the model IS V.Args.Model.resolve_args over the references in the order of the collection
   (coq/Args is imported read-only): r_abs/r_rel = the two spellings, r_val = the replicas joined by a blank
   (translation_map[...]; recomputed by the harness with the real FlowIR.compile_reference, in document order).
   Not modelled: the regular expression flavour of the search (a reference followed by /path, `.` as wildcard);
   the generators do not produce such strings.

   With a LIST the result is a function of the document.  With a SET (iteration order = hash seed) it is
   independent of the order exactly under the separation hypothesis of C10; otherwise two orders give two
   strings (gen / mygen, relative spellings: Det.Refuted.C15_aggregate_set_order_refuted). *)
From Coq Require Import String List Bool ZArith Permutation.
Import ListNotations.
Require Import V.Lib.PyStr V.Lib.JTree.
Require V.Args.Model V.Args.Proofs.
Require Import V.Det.Model.
Module AM := V.Args.Model.
Module AP := V.Args.Proofs.
Open Scope string_scope.
Open Scope list_scope.

(* one replicated reference: absolute spelling, relative spelling, the references to the replicas *)
Definition rref (abs rel : string) (replicas : list string) : AM.dref := AM.mk_ref abs rel true (join " " replicas).

(* the code that exists: the collection is the list built in document order *)
Definition aggregate_list (refs : list AM.dref) (s : string) : string := AM.resolve_args refs s.
(* a collection without an order of its own (a set): iterated in the order piS *)
Definition aggregate_set (piS : oracle AM.dref) (refs : list AM.dref) (s : string) : string :=
  AM.resolve_args (piS refs) s.

Lemma aggregate_separated piS refs ps :
  perm_oracle piS -> AM.separatedb refs ps = true -> AM.unambiguousb refs ps = true ->
  aggregate_set piS refs (AM.flatten ps) = aggregate_list refs (AM.flatten ps) /\
  aggregate_list refs (AM.flatten ps) = AM.spec refs ps.
Proof.
  intros H S U. unfold aggregate_set, aggregate_list. split.
  - symmetry. apply AP.order_independent; [apply H|apply AP.separatedb_sound, S|apply AP.unambiguousb_sound, U].
  - apply AP.exact, AP.separatedb_sound, S.
Qed.

(* aggregate case = ((references in document order as (absolute, relative, replicas), string), string returned by
   the closure of the real compile_component_aggregate) *)
Definition check_aggregate (c : (list ((string * string) * list string) * string) * string) : bool :=
  let '((refs, s), out) := c in
  String.eqb (aggregate_list (map (fun r => rref (fst (fst r)) (snd (fst r)) (snd r)) refs) s) out.
