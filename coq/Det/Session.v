(* C15 — several loads in ONE process, and layer_many_variable_files called on the list as given. *)
From Coq Require Import String List Bool Arith ZArith Permutation.
Import ListNotations.
Require Import V.Lib.PyStr V.Lib.JTree V.Det.Model V.Det.Proofs V.Det.Congr.
Open Scope string_scope.
Open Scope list_scope.

(* the list as given (repetitions included, no de-duplication): the last file wins *)
Lemma layer_many_last_wins piK (read : string -> jv) files p r :
  perm_oracle piK -> p <> [] ->
  (forall f, In f files -> wfk (read f)) ->
  (forall f, In f files -> leaf_in p (read f)) ->
  layer_many piK read files = Some r ->
  get_path p r = last_def p (map read files).
Proof.
  intros Hpi Np W L H. unfold layer_many in H.
  apply (layering piK Hpi p _ r Np); [| |exact H]; apply Forall_forall; intros d Hd;
    apply in_map_iff in Hd; destruct Hd as [f [E Hf]]; subst d; [apply W|apply L]; exact Hf.
Qed.

Lemma layer_many_congr piK piK' (read read' : string -> jv) files :
  perm_oracle piK -> perm_oracle piK' ->
  (forall f, In f files -> wfk (read f)) ->
  (forall f, In f files -> jperm (read f) (read' f)) ->
  orel (layer_many piK read files) (layer_many piK' read' files).
Proof.
  intros H1 H2 W J. unfold layer_many. apply layer_pi_congr; [exact H1|exact H2| |].
  - apply Forall2_map_in. exact J.
  - apply Forall_forall. intros d Hd. apply in_map_iff in Hd. destruct Hd as [f [E Hf]]. subst d. apply W, Hf.
Qed.

(* the load performed after the loads `before` (and before the loads `after`) of a process *)
Definition load_at (piK : oracle (string * jv)) before (l : (string -> jv) * list string) after : option jv :=
  nth (length before) (session piK (before ++ l :: after)) None.

Lemma load_at_alone piK before l after : load_at piK before l after = load_variables piK (fst l) (snd l).
Proof.
  unfold load_at, session. rewrite map_app. rewrite app_nth2; rewrite map_length; [|apply Nat.le_refl].
  rewrite Nat.sub_diag. reflexivity.
Qed.

(* what a process that has already loaded other things obtains = what a fresh process obtains for the same load
   (any two iteration orders, key-permuted but equal files) *)
Lemma session_same_as_fresh piK piK' before after (read read' : string -> jv) files :
  perm_oracle piK -> perm_oracle piK' ->
  (forall f, In f files -> wfk (read f)) ->
  (forall f, In f files -> jperm (read f) (read' f)) ->
  orel (load_at piK before (read, files) after) (load_variables piK' read' files).
Proof. intros H1 H2 W J. rewrite load_at_alone. cbn [fst snd]. apply load_variables_congr; assumption. Qed.
