(* C11 — example workflows for the primitive load and for the identifiers of the expanded workflow (non-vacuity) *)
From Coq Require Import String Ascii List Bool ZArith NArith Relations.
Import ListNotations.
Require Import V.Lib.PyStr V.Valid.Model V.Valid.Proofs V.Valid.Prim V.Valid.Generated V.Valid.GenProofs.
Open Scope string_scope.

(* the component NAME a is used in two stages: dropping stage0.a leaves two consumers of it while stage1.a still
   carries the name; a reference renamed to stage1.b names nobody (b lives in stage 0) *)
Definition ex_wf_twin : wf :=
  mkWf [("g0", [])]
       [mkComp 0 "a" [] ["g0"] [] (ex_doc "a" 0 [] []);
        mkComp 0 "b" [(0%N, "a")] [] [] (ex_doc "b" 0 ["stage0.a:ref"] []);
        mkComp 1 "a" [(0%N, "b"); (0%N, "a")] [] [] (ex_doc "a" 1 ["stage0.b:ref"; "stage0.a:ref"] [])].

(* unique identifiers as written; `sample` with replicas 0..2 next to the authored sample1 *)
Definition ex_wf_clash : wf :=
  mkWf []
       [mkComp 0 "sample" [] [] [] (ex_doc "sample" 0 [] []);
        mkComp 0 "sample1" [] [] [] (ex_doc "sample1" 0 [] []);
        mkComp 1 "summary" [(0%N, "sample"); (0%N, "sample1")] [] []
               (ex_doc "summary" 1 ["stage0.sample:ref"; "stage0.sample1:ref"] [])].

(* two replicating components: run (10 or 11 replicas) and run1 (2 replicas: run10, run11) *)
Definition ex_wf_run : wf :=
  mkWf []
       [mkComp 0 "run" [] [] [] (ex_doc "run" 0 [] []);
        mkComp 0 "run1" [] [] [] (ex_doc "run1" 0 [] [])].

Definition ex_cnt_run (n : N) : cid -> option N := cnt_of [((0%N, "run"), n); ((0%N, "run1"), 2%N)].

Lemma ex_prim_applicable :
  applicable component_full (DropComponent 0) ex_wf_twin /\
  applicable component_full (RenameRef 2 0 (1%N, "b")) ex_wf_twin.
Proof.
  split.
  - exists 2%nat. eexists. eexists. split; [discriminate|]. split; [reflexivity|]. split; [reflexivity|].
    cbn. right; left; reflexivity.
  - eexists. eexists. split; [reflexivity|]. split; [reflexivity|].
    cbn. intros [E | [E | [E | []]]]; discriminate.
Qed.
