(* C11 — A workflow that loads is structurally executable; a broken one is rejected.
   Model of (i) validate_object_schema (flowir.py) as a generic schema interpreter [check] over
   Python-like values, the schema VALUE being regenerated from the running code into
   Valid/Generated.v on every run, (ii) FlowIR.convert_component_types (the coercion of option values that precedes
   the schema check: [convert], [expected_types]) and (iii) the accept/reject verdict of loading a workflow with
   validation enabled (FlowIRConcrete construction, FlowIRExperimentConfiguration._initialize,
   FlowIRConcrete.validate / FlowIR.validate_component / validate_references) over a small
   structured workflow.  Total computable definitions only. *)
From Coq Require Import String Ascii List Bool ZArith NArith Arith.
Import ListNotations.
Require Import V.Lib.PyStr.
Require V.Ref.Model.
Open Scope string_scope.
Open Scope list_scope.

(* ------------------------------------------------------------------ Python-like values *)
Inductive pk := KS (s : string) | KI (z : Z).           (* dictionary keys: str or int *)

Inductive pv :=
  | VNone | VBool (b : bool) | VInt (z : Z) | VFlt (repr : string) | VStr (s : string)
  | VList (l : list pv) | VDict (m : list (pk * pv)).

Definition pk_eqb (a b : pk) : bool :=
  match a, b with
  | KS x, KS y => String.eqb x y
  | KI x, KI y => Z.eqb x y
  | _, _ => false
  end.

Lemma pk_eqb_eq a b : pk_eqb a b = true <-> a = b.
Proof.
  destruct a, b; cbn; split; intro H; try discriminate; try (inversion H; subst).
  - apply String.eqb_eq in H; subst; reflexivity.
  - apply String.eqb_refl.
  - apply Z.eqb_eq in H; subst; reflexivity.
  - apply Z.eqb_refl.
Qed.

Definition zdec (z : Z) : string :=
  match z with
  | Z0 => "0"
  | Zpos p => dec (Npos p)
  | Zneg p => "-" ++ dec (Npos p)
  end.

(* Text(key) *)
Definition pk_text (k : pk) : string := match k with KS s => s | KI z => zdec z end.

Fixpoint plookup (k : pk) (m : list (pk * pv)) : option pv :=
  match m with
  | [] => None
  | (k', v) :: r => if pk_eqb k k' then Some v else plookup k r
  end.

(* d[k] = v on an insertion-ordered dict *)
Fixpoint pset (k : pk) (v : pv) (m : list (pk * pv)) : list (pk * pv) :=
  match m with
  | [] => [(k, v)]
  | (k', v') :: r => if pk_eqb k k' then (k, v) :: r else (k', v') :: pset k v r
  end.

(* ------------------------------------------------------------------ schemas *)
Inductive ty := TStr | TInt | TFloat | TBool | TDict | TList.

(* isinstance(v, T); bool is a subclass of int *)
Definition ty_match (t : ty) (v : pv) : bool :=
  match t, v with
  | TStr, VStr _ | TInt, VInt _ | TInt, VBool _ | TFloat, VFlt _ | TBool, VBool _
  | TDict, VDict _ | TList, VList _ => true
  | _, _ => false
  end.

Definition ty_match_key (t : ty) (k : pk) : bool :=
  match t, k with
  | TStr, KS _ | TInt, KI _ => true
  | _, _ => false
  end.

(* the closed table of named callables that may occur in a FlowIR schema *)
Inductive pname :=
  | PIsVarRef            (* FlowIR.is_var_reference *)
  | PRestartHookFile     (* FlowIR._validate_restart_hook_file *)
  | PMaxRestarts         (* type_flowir_component.<locals>.max_restarts_int *)
  | PDictOrNone          (* type_flowir_component.<locals>.is_dictionary_or_none *)
  | PK8sQos              (* FlowIR.str_to_kubernetes_qos *)
  | PMemory              (* FlowIR._schema_memory *)
  | PStatusKey           (* type_flowir_structure.<locals>.is_valid_status_report_key *)
  | PVersion             (* FlowIR.validate_flowir_version *)
  | PDataRef             (* FlowIR.ParseDataReference *)
  | PTrue.               (* lambda x: True *)

(* int(s) for the plain spellings [+-]?[0-9]+ (no blanks, no underscores: domain restriction) *)
Definition py_int (s : string) : option Z :=
  let body := match s with
              | String c r => if Ascii.eqb c "-" || Ascii.eqb c "+" then r else s
              | EmptyString => s
              end in
  let neg := match s with String c _ => Ascii.eqb c "-" | _ => false end in
  match body with
  | EmptyString => None
  | _ => if all_chars is_digit body
         then match undec body with
              | Some n => Some (if neg then (- Z.of_N n)%Z else Z.of_N n)
              | None => None
              end
         else None
  end.

Definition status_key_str (s : string) : bool :=
  match py_int s with
  | Some _ => true
  | None => if prefixb "stage" s then match py_int (drop 5 s) with Some _ => true | None => false end else false
  end.

Definition version_str (s : string) : bool :=
  match split_on "." s with
  | [a; b; c] => match py_int a, py_int b, py_int c with Some _, Some _, Some _ => true | _, _, _ => false end
  | _ => false
  end.

Definition qos_names : list string := ["guaranteed"; "burstable"; "besteffort"].

(* `safe_call(f, v) is False` is what makes validate_object_schema report an error: [pred_eval]
   is the negation of that test (a predicate returning None therefore passes) *)
Definition pred_eval (p : pname) (v : pv) : bool :=
  match p, v with
  | PIsVarRef, VStr s => V.Ref.Model.is_var_reference s
  | PIsVarRef, _ => false
  | PRestartHookFile, VNone => true
  | PRestartHookFile, VStr s => negb (V.Ref.Model.hasc "/" s)
  | PRestartHookFile, _ => false
  | PMaxRestarts, VInt z => Z.leb (-1) z
  | PMaxRestarts, VBool _ => true
  | PMaxRestarts, _ => false
  | PDictOrNone, VNone | PDictOrNone, VDict _ => true
  | PDictOrNone, _ => false
  | PK8sQos, VNone => true
  | PK8sQos, VStr s => V.Ref.Model.in_strs (lower s) qos_names
  | PK8sQos, _ => false
  | PMemory, VList _ | PMemory, VDict _ => false
  | PMemory, _ => true
  | PStatusKey, VInt _ | PStatusKey, VBool _ => true
  | PStatusKey, VStr s => status_key_str s
  | PStatusKey, _ => false
  | PVersion, VStr s => version_str s
  | PVersion, _ => false
  | PDataRef, VStr s => match V.Ref.Model.parse_data s with Some _ => true | None => false end
  | PDataRef, _ => false
  | PTrue, _ => true
  end.

Definition pv_of_key (k : pk) : pv := match k with KS s => VStr s | KI z => VInt z end.

(* how a dictionary-schema key is matched against a document key *)
Inductive kmatch :=
  | MConst (k : pk)            (* a constant *)
  | MTypes (tys : list ty)     (* a tuple of types: isinstance only *)
  | MBare (t : ty)             (* a bare type T: isinstance(key, T) or bool(T(key)) *)
  | MPred (p : pname).         (* a callable: f(key) is True *)

Definition key_matches (km : kmatch) (k : pk) : bool :=
  match km with
  | MConst c => pk_eqb k c
  | MTypes tys => existsb (fun t => ty_match_key t k) tys
  | MBare TStr => true                      (* str(key) is non-empty for every str/int key but "" which is a str *)
  | MBare TInt => match k with
                  | KI _ => true
                  | KS s => match py_int s with Some z => negb (Z.eqb z 0) | None => false end
                  end
  | MBare _ => false
  | MPred p => pred_eval p (pv_of_key k)
  end.

Inductive schema :=
  | SConst (c : pv)               (* None or a str constant: obj == c *)
  | SType (tys : list ty)         (* a type or tuple of types *)
  | SPred (p : pname)             (* a callable *)
  | SDict (rules : list rule)     (* a dict schema *)
  | SAlts (alts : list schema)    (* a list schema: obj is a list whose items match one alternative *)
  | SMany (s : schema)            (* ValidateMany *)
  | SOr (alts : list schema)      (* ValidateOr *)
  | SOpt (s : schema)             (* ValidateOptional on a value *)
with rule :=
  | Rule (optional : bool) (km : kmatch) (text : string) (s : schema).

Definition rule_opt (r : rule) := let 'Rule o _ _ _ := r in o.
Definition rule_km (r : rule) := let 'Rule _ km _ _ := r in km.
Definition rule_text (r : rule) := let 'Rule _ _ t _ := r in t.
Definition rule_schema (r : rule) := let 'Rule _ _ _ s := r in s.

Inductive err := EKeyUnknown (label : string) | EValueInvalid (label : string) | EKeyMissing (label : string).

(* the three groups of validate_object_schema: constants, types, maybe (in this order) *)
Definition is_const_rule (r : rule) : bool :=
  negb (rule_opt r) && match rule_km r with MConst _ | MPred _ => true | _ => false end.
Definition is_type_rule (r : rule) : bool :=
  negb (rule_opt r) && match rule_km r with MTypes _ | MBare _ => true | _ => false end.
Definition is_maybe_rule (r : rule) : bool := rule_opt r.

(* a non-optional callable key only matches by equality in the code (key in constants): never for str/int keys *)
Definition rule_matches (r : rule) (k : pk) : bool :=
  match rule_opt r, rule_km r with
  | false, MPred _ => false
  | _, km => key_matches km k
  end.

Fixpoint first_rule (sel : rule -> bool) (k : pk) (rs : list rule) : option rule :=
  match rs with
  | [] => None
  | r :: rest => if sel r && rule_matches r k then Some r else first_rule sel k rest
  end.

Definition find_rule (rs : list rule) (k : pk) : option rule :=
  match first_rule is_const_rule k rs with
  | Some r => Some r
  | None => match first_rule is_type_rule k rs with
            | Some r => Some r
            | None => first_rule is_maybe_rule k rs
            end
  end.

Fixpoint mapi_from {A B} (f : nat -> A -> B) (i : nat) (l : list A) : list B :=
  match l with [] => [] | x :: r => f i x :: mapi_from f (S i) r end.

Definition idx_label (lbl : string) (i : nat) : string := lbl ++ "[" ++ dec (N.of_nat i) ++ "]".
Definition key_label (lbl : string) (k : pk) : string := lbl ++ "." ++ pk_text k.

(* a non-optional rule is missing when no key matched it; a missing TYPE rule is discarded when a matched
   constant key is an instance of it *)
Definition same_rule (a b : rule) : bool :=
  Bool.eqb (rule_opt a) (rule_opt b) && String.eqb (rule_text a) (rule_text b).

(* a non-optional rule is missing when no key matched it; a missing TYPE rule is discarded when a key matched by
   a constant rule is an instance of it *)
Definition rule_is_missing (rs : list rule) (m : list (pk * pv)) (r : rule) : bool :=
  negb (rule_opt r) &&
  negb (existsb (fun kv => match find_rule rs (fst kv) with
                           | Some r' => same_rule r r'
                           | None => false
                           end) m) &&
  negb (is_type_rule r &&
        existsb (fun kv => match find_rule rs (fst kv) with
                           | Some r' => is_const_rule r' &&
                                        match rule_km r with
                                        | MTypes tys => existsb (fun t => ty_match_key t (fst kv)) tys
                                        | MBare t => ty_match_key t (fst kv)
                                        | _ => false
                                        end
                           | None => false
                           end) m).

Fixpoint check (s : schema) (v : pv) (lbl : string) {struct s} : list err :=
  match s with
  | SOpt s' => match v with VNone => [] | _ => check s' v lbl end
  | SConst c =>
      match c, v with
      | VNone, VNone => []
      | VStr a, VStr b => if String.eqb a b then [] else [EValueInvalid lbl]
      | _, _ => [EValueInvalid lbl]
      end
  | SType tys => if existsb (fun t => ty_match t v) tys then [] else [EValueInvalid lbl]
  | SPred p => if pred_eval p v then [] else [EValueInvalid lbl]
  | SDict rules =>
      match v with
      | VDict m =>
          let go := fix go (sel : rule -> bool) (rs : list rule) (k : pk) (x : pv) : option (list err) :=
                      match rs with
                      | [] => None
                      | Rule o km t s' :: rest =>
                          if sel (Rule o km t s') && rule_matches (Rule o km t s') k
                          then Some (check s' x (key_label lbl k))
                          else go sel rest k x
                      end in
          flat_map (fun kv =>
                      match go is_const_rule rules (fst kv) (snd kv) with
                      | Some e => e
                      | None =>
                          match go is_type_rule rules (fst kv) (snd kv) with
                          | Some e => e
                          | None =>
                              match go is_maybe_rule rules (fst kv) (snd kv) with
                              | Some e => e
                              | None => [EKeyUnknown (key_label lbl (fst kv))]
                              end
                          end
                      end) m
          ++ map (fun r => EKeyMissing (lbl ++ "." ++ rule_text r)) (filter (rule_is_missing rules m) rules)
      | _ => [EValueInvalid lbl]
      end
  | SAlts alts =>
      match v with
      | VList l =>
          concat (mapi_from (fun i child =>
                      if (fix any (al : list schema) : bool :=
                            match al with
                            | [] => false
                            | a :: r => match check a child (idx_label lbl i) with [] => true | _ => any r end
                            end) alts
                      then [] else [EValueInvalid (idx_label lbl i)]) 0 l)
      | _ => [EValueInvalid lbl]
      end
  | SMany s' =>
      match v with
      | VList l => concat (mapi_from (fun i child => check s' child (idx_label lbl i)) 0 l)
      | _ => [EValueInvalid lbl]
      end
  | SOr alts =>
      if (fix any (al : list schema) : bool :=
            match al with
            | [] => false
            | a :: r => match check a v lbl with [] => true | _ => any r end
            end) alts
      then [] else [EValueInvalid lbl]
  end.

(* the same function, written with first-order helpers (proved equal in Proofs.v) *)
Definition entry_errs (rules : list rule) (lbl : string) (kv : pk * pv) : list err :=
  match find_rule rules (fst kv) with
  | Some r => check (rule_schema r) (snd kv) (key_label lbl (fst kv))
  | None => [EKeyUnknown (key_label lbl (fst kv))]
  end.

Definition missing_errs (rules : list rule) (m : list (pk * pv)) (lbl : string) : list err :=
  map (fun r => EKeyMissing (lbl ++ "." ++ rule_text r)) (filter (rule_is_missing rules m) rules).

Definition is_hard (e : err) : bool := match e with EKeyMissing _ => false | _ => true end.
Definition hard_errs (s : schema) (v : pv) (lbl : string) : list err := filter is_hard (check s v lbl).

(* ------------------------------------------------------------------ paths into documents / schemas *)
Fixpoint pget (p : list pk) (v : pv) : option pv :=
  match p with
  | [] => Some v
  | k :: p' => match v with
               | VDict m => match plookup k m with Some w => pget p' w | None => None end
               | _ => None
               end
  end.

(* d[p0][p1]...[k] = x ; the document is unchanged when the path does not lead to a dictionary *)
Fixpoint pput (p : list pk) (k : pk) (x : pv) (v : pv) : pv :=
  match p with
  | [] => match v with VDict m => VDict (pset k x m) | _ => v end
  | k0 :: p' => match v with
                | VDict m => match plookup k0 m with
                             | Some w => VDict (pset k0 (pput p' k x w) m)
                             | None => v
                             end
                | _ => v
                end
  end.

(* the schema that validate_object_schema applies at a path of dictionary keys (no descent through Or/Many) *)
Fixpoint sub_at (p : list pk) (s : schema) : option schema :=
  match p with
  | [] => Some s
  | k :: p' =>
      match (match s with SOpt s' => s' | _ => s end) with
      | SDict rules => match find_rule rules k with Some r => sub_at p' (rule_schema r) | None => None end
      | _ => None
      end
  end.

Definition dict_rules (s : schema) : option (list rule) :=
  match (match s with SOpt s' => s' | _ => s end) with SDict rules => Some rules | _ => None end.

Fixpoint path_label (lbl : string) (p : list pk) : string :=
  match p with [] => lbl | k :: p' => path_label (key_label lbl k) p' end.

(* ------------------------------------------------------------------ FlowIR.convert_component_types *)
(* the converters named in the [expected_types] table of convert_component_types *)
Inductive conv :=
  | CStr        (* str *)
  | CInt        (* int *)
  | CFloat      (* float *)
  | CBool       (* the local to_bool: str_to_bool for a string, bool(value) otherwise *)
  | CStrBool    (* str_to_bool *)
  | COptInt     (* the local optional_int *)
  | CMemory     (* FlowIR.memory_to_bytes *)
  | CQos        (* FlowIR.str_to_kubernetes_qos *)
  | CDictT.     (* dict: "we do not care about the value" *)

Inductive ctree := CLeaf (c : conv) | CNode (ch : list (string * ctree)).

Fixpoint assoc_ct (k : string) (ch : list (string * ctree)) : option ctree :=
  match ch with
  | [] => None
  | (k', t) :: r => if String.eqb k k' then Some t else assoc_ct k r
  end.

(* `key in expected_type`: the table has str keys only *)
Definition child (ch : list (string * ctree)) (k : pk) : option ctree :=
  match k with KS s => assoc_ct s ch | KI _ => None end.

(* {'true': True, 'false': False, 'yes': True, 'no': False}[s.lower()] *)
Definition str_to_bool (s : string) : option bool :=
  let l := lower s in
  if String.eqb l "true" || String.eqb l "yes" then Some true
  else if String.eqb l "false" || String.eqb l "no" then Some false
  else None.

(* float(s) succeeds: modelled for the plain spellings sign? digits, sign? digits '.' digits?, sign? '.' digits
   (no exponent, inf/nan, blanks, underscores: domain restriction) *)
Definition py_float (s : string) : bool :=
  let body := match s with
              | String c r => if Ascii.eqb c "-" || Ascii.eqb c "+" then r else s
              | EmptyString => s
              end in
  match split_on "." body with
  | [a] => negb (String.eqb a "") && all_chars is_digit a
  | [a; b] => all_chars is_digit a && all_chars is_digit b && negb (String.eqb a "" && String.eqb b "")
  | _ => false
  end.

(* int(value) for str/int/bool *)
Definition py_int_of (v : pv) : option Z :=
  match v with
  | VStr s => py_int s
  | VInt z => Some z
  | VBool b => Some (if b then 1 else 0)%Z
  | _ => None
  end.

(* FlowIR.memory_to_bytes on a string: int(value), else int(value[:-2]) scaled by the Mi/Gi suffix *)
Definition memory_bytes (s : string) : option Z :=
  match py_int s with
  | Some z => Some z
  | None =>
      let n := String.length s in
      match py_int (take (n - 2) s) with
      | None => None
      | Some z => let suf := drop (n - 2) s in
                  if String.eqb suf "Mi" then Some (z * 1048576)%Z
                  else if String.eqb suf "Gi" then Some (z * 1073741824)%Z
                  else None
      end
  end.

(* expected_type(value) for a value that is a str, an int or a bool; None = the call raises *)
Definition conv_scalar (c : conv) (v : pv) : option pv :=
  match c with
  | CStr => match v with
            | VStr _ => Some v
            | VInt z => Some (VStr (zdec z))
            | VBool b => Some (VStr (if b then "True" else "False"))
            | _ => None
            end
  | CInt | COptInt => option_map VInt (py_int_of v)
  | CFloat => match v with
              | VStr s => if py_float s then Some (VFlt s) else None
              | VInt z => Some (VFlt (zdec z ++ ".0"))
              | VBool b => Some (VFlt (if b then "1.0" else "0.0"))
              | _ => None
              end
  | CBool => match v with
             | VStr s => option_map VBool (str_to_bool s)
             | VInt z => Some (VBool (negb (Z.eqb z 0)))
             | VBool _ => Some v
             | _ => None
             end
  | CStrBool => match v with
                | VStr s => option_map VBool (str_to_bool s)
                | VBool _ => Some v
                | _ => None               (* an int has no .lower() *)
                end
  | CMemory => match v with
               | VStr s => option_map VInt (memory_bytes s)
               | VInt _ => Some v
               | VBool b => Some (VInt (if b then 1 else 0))
               | _ => None
               end
  | CQos => match v with
            | VStr s => if V.Ref.Model.in_strs (lower s) qos_names then Some (VStr (lower s)) else None
            | _ => None                  (* an int has no .lower() *)
            end
  | CDictT => match v with
              | VStr s => if String.eqb s "" then Some (VDict []) else None     (* dict('') == {} *)
              | _ => None
              end
  end.

Section OMap.
  Context {A B : Type}.
  Variable f : A -> option B.
  Fixpoint omap (l : list A) : option (list B) :=
    match l with
    | [] => Some []
    | x :: r => match f x, omap r with
                | Some y, Some r' => Some (y :: r')
                | _, _ => None
                end
    end.
End OMap.

(* the inner convert(value, expected_type, label) of convert_component_types; [t] = None: the key is not in the
   table (the value is left alone); result None: at least one conversion raised (every failure ends in
   FlowIRFailedComponentConvertType, the component is then invalid).  Only str/int/bool values are converted:
   a float, None or a list is left for the schema; a dictionary is entered when the table has a dictionary there,
   left alone when the table says `dict` and makes `key in expected_type` raise when the table has a callable *)
Fixpoint convert (t : option ctree) (v : pv) {struct v} : option pv :=
  match t with
  | None => Some v
  | Some (CLeaf c) =>
      match v with
      | VStr _ | VInt _ | VBool _ => conv_scalar c v
      | VDict m => match c, m with
                   | CDictT, _ => Some v
                   | _, [] => Some v
                   | _, _ => None
                   end
      | _ => Some v
      end
  | Some (CNode ch) =>
      match v with
      | VStr _ | VInt _ | VBool _ => None          (* a dictionary is not callable *)
      | VDict m => option_map VDict
                     (omap (fun kv => option_map (pair (fst kv)) (convert (child ch (fst kv)) (snd kv))) m)
      | _ => Some v
      end
  end.

(* the [expected_types] table of convert_component_types (compared with the table extracted from the source of the
   running code on every run: Generated.expected_types_code, GenProofs.expected_types_current) *)
Definition expected_types : ctree :=
  CNode [
    ("command", CNode [("arguments", CLeaf CStr); ("environment", CLeaf CStr); ("executable", CLeaf CStr);
                       ("resolvePath", CLeaf CStrBool); ("interpreter", CLeaf CStr); ("expandArguments", CLeaf CStr)]);
    ("workflowAttributes", CNode [
       ("restartHookFile", CLeaf CStr); ("replicate", CLeaf CInt); ("aggregate", CLeaf CBool);
       ("isMigratable", CLeaf CBool); ("isMigrated", CLeaf CBool); ("repeatInterval", CLeaf CInt);
       ("repeatRetries", CLeaf CInt); ("isRepeat", CLeaf CBool); ("maxRestarts", CLeaf COptInt);
       ("memoization", CNode [("disable", CNode [("strong", CLeaf CBool); ("fuzzy", CLeaf CBool)])]);
       ("optimizer", CNode [("disable", CLeaf CBool); ("exploitChance", CLeaf CFloat); ("exploitTarget", CLeaf CFloat);
                            ("exploitTargetLow", CLeaf CFloat); ("exploitTargetHigh", CLeaf CFloat)])]);
    ("resourceRequest", CNode [("numberProcesses", CLeaf CInt); ("numberThreads", CLeaf CInt);
                               ("ranksPerNode", CLeaf CInt); ("threadsPerCore", CLeaf CInt);
                               ("memory", CLeaf CMemory); ("gpus", CLeaf CInt)]);
    ("resourceManager", CNode [
       ("config", CNode [("backend", CLeaf CStr); ("walltime", CLeaf CFloat)]);
       ("lsf", CNode [("queue", CLeaf CStr); ("reservation", CLeaf CStr); ("resourceString", CLeaf CStr);
                      ("statusRequestInterval", CLeaf CFloat); ("dockerImage", CLeaf CStr);
                      ("dockerProfileApp", CLeaf CStr); ("dockerOptions", CLeaf CStr)]);
       ("kubernetes", CNode [("qos", CLeaf CQos); ("image", CLeaf CStr); ("image-pull-secret", CLeaf CStr);
                             ("namespace", CLeaf CStr); ("api-key-var", CLeaf CStr); ("host", CLeaf CStr);
                             ("cpuUnitsPerCore", CLeaf CFloat); ("gracePeriod", CLeaf CInt); ("podSpec", CLeaf CDictT)]);
       ("docker", CNode [("image", CLeaf CStr)])])].

(* the entry of the table that governs the value at a path of dictionary keys (None: left alone) *)
Fixpoint tree_at (p : list pk) (t : option ctree) : option ctree :=
  match p with
  | [] => t
  | k :: p' => match t with
               | Some (CNode ch) => tree_at p' (child ch k)
               | _ => None
               end
  end.

(* what a value placed at path p of a component becomes (None: the conversion raises) *)
Definition conv_at (p : list pk) (x : pv) : option pv := convert (tree_at p (Some expected_types)) x.

(* ------------------------------------------------------------------ graphs: a verified topological-order check *)
Section Graph.
  Variable K : Type.
  Variable keqb : K -> K -> bool.

  Definition kmem (x : K) (l : list K) : bool := existsb (keqb x) l.
  Definition entry : Type := (K * list K)%type.     (* node, the nodes it consumes from *)

  (* [vo seen ord]: every node of ord is new and consumes only from nodes placed before it *)
  Fixpoint vo (seen : list K) (ord : list entry) : bool :=
    match ord with
    | [] => true
    | e :: r => forallb (fun u => kmem u seen) (snd e) && negb (kmem (fst e) seen) && vo (fst e :: seen) r
    end.

  Definition is_ready (seen : list K) (e : entry) : bool := forallb (fun u => kmem u seen) (snd e).

  (* Kahn's algorithm, fuel = number of nodes: the order in which nodes become ready *)
  Fixpoint kahn (fuel : nat) (seen : list K) (pending : list entry) : list entry :=
    match fuel with
    | O => []
    | S f =>
        let ready := filter (is_ready seen) pending in
        match ready with
        | [] => []
        | _ => ready ++ kahn f (map fst ready ++ seen) (filter (fun e => negb (is_ready seen e)) pending)
        end
    end.

  Definition covers (g ord : list entry) : bool :=
    forallb (fun e => existsb (fun e' => keqb (fst e) (fst e') && forallb (fun u => kmem u (snd e')) (snd e)) ord) g.

  Definition acyclic_b (g : list entry) : bool :=
    let ord := kahn (length g) [] g in vo [] ord && covers g ord.

  Fixpoint uniq (l : list K) : bool :=
    match l with [] => true | x :: r => negb (kmem x r) && uniq r end.
End Graph.
Arguments kmem {K}. Arguments vo {K}. Arguments kahn {K}. Arguments covers {K}. Arguments acyclic_b {K}.
Arguments uniq {K}. Arguments is_ready {K}.

(* ------------------------------------------------------------------ the structured workflow *)
Definition cid : Type := (N * string)%type.
Definition cid_eqb (a b : cid) : bool := N.eqb (fst a) (fst b) && String.eqb (snd a) (snd b).

Record comp := mkComp {
  c_stage : N; c_name : string;
  c_refs : list cid;                       (* references to components, as (stage, name) *)
  c_uses : list string;                    (* variables used by command/references *)
  c_vars : list (string * list string);    (* component variables: name, variables its value mentions *)
  c_doc : pv                               (* the component's FlowIR dictionary *)
}.
Record wf := mkWf {
  w_gvars : list (string * list string);   (* global variables of the platform *)
  w_comps : list comp
}.

Definition c_id (c : comp) : cid := (c_stage c, c_name c).
Definition ids (w : wf) : list cid := map c_id (w_comps w).

Definition refs_exist (w : wf) : bool :=
  forallb (fun c => forallb (fun r => kmem cid_eqb r (ids w)) (c_refs c)) (w_comps w).

Definition graph_of (w : wf) : list (cid * list cid) :=
  map (fun c => (c_id c, filter (fun r => kmem cid_eqb r (ids w)) (c_refs c))) (w_comps w).

(* FlowIRConcrete.instance resolves the global variables among themselves first and stores the result in place: a
   global all of whose (transitive) mentions are global variables is a CONSTANT by the time a component is resolved
   (its mentions were bound to the global values, whatever the component shadows); a global that cannot be resolved
   there (FlowIRVariableUnknown is only logged) keeps its text and is resolved with the variables of the component *)
Fixpoint vlookup (n : string) (vs : list (string * list string)) : option (list string) :=
  match vs with
  | [] => None
  | (k, rs) :: r => if String.eqb n k then Some rs else vlookup n r
  end.

Fixpoint gres (vs : list (string * list string)) (fuel : nat) (n : string) : bool :=
  match fuel with
  | O => false
  | S f => match vlookup n vs with
           | None => false
           | Some rs => forallb (gres vs f) rs
           end
  end.

Definition gresolved (w : wf) (n : string) : bool := gres (w_gvars w) (length (w_gvars w)) n.

(* variables visible to a component: its own, then the global ones it does not shadow *)
Definition env_of (w : wf) (c : comp) : list (string * list string) :=
  c_vars c ++ map (fun gv => (fst gv, if gresolved w (fst gv) then [] else snd gv))
                  (filter (fun gv => negb (kmem String.eqb (fst gv) (map fst (c_vars c)))) (w_gvars w)).

Definition vars_defined (w : wf) (c : comp) : bool :=
  let env := env_of w c in
  let names := map fst env in
  forallb (fun u => kmem String.eqb u names) (c_uses c) &&
  forallb (fun e => forallb (fun u => kmem String.eqb u names) (snd e)) env.

Definition var_graph (w : wf) (c : comp) : list (string * list string) :=
  let env := env_of w c in
  map (fun e => (fst e, filter (fun u => kmem String.eqb u (map fst env)) (snd e))) env.

Definition vars_acyclic (w : wf) (c : comp) : bool := acyclic_b String.eqb (var_graph w c).

(* FlowIRConcrete.get_stage_number asserts that the stage indices in use are 0..n-1 *)
Definition stages_ok (w : wf) : bool :=
  forallb (fun c => forallb (fun s => existsb (fun c' => N.eqb (c_stage c') (N.of_nat s)) (w_comps w))
                            (seq 0 (N.to_nat (c_stage c)))) (w_comps w).

(* the global variables are also resolved on their own when the configuration is initialised: a cycle among them
   is fatal even when every component shadows them (an undefined name there is not) *)
Definition gvar_graph (w : wf) : list (string * list string) :=
  map (fun e => (fst e, filter (fun u => kmem String.eqb u (map fst (w_gvars w))) (snd e))) (w_gvars w).

Definition gvars_acyclic (w : wf) : bool := acyclic_b String.eqb (gvar_graph w).

Section Accept.
  Variable cs : schema.      (* the regenerated type_flowir_component('full') *)

  (* the errors that matter for a component document: the conversion of convert_component_types raises
     (FlowIRFailedComponentConvertType), or the CONVERTED document has a key-unknown / value-invalid error *)
  Definition doc_hard_errs (d : pv) : list err :=
    match convert (Some expected_types) d with
    | None => [EValueInvalid "<convert_component_types>"]
    | Some d' => hard_errs cs d' ""
    end.

  Definition schema_ok (c : comp) : bool :=
    match doc_hard_errs (c_doc c) with [] => true | _ => false end.

  (* a value x placed at path p of a component is rejected: its conversion raises, or the schema at p reports a hard
     error for what it was converted to *)
  Definition wrong_rejected (p : list pk) (x : pv) : bool :=
    match conv_at p x with
    | None => true
    | Some y => match sub_at p cs with
                | Some s' => existsb is_hard (check s' y (path_label "" p))
                | None => false
                end
    end.

  Definition accept (w : wf) : bool :=
    forallb schema_ok (w_comps w) && uniq cid_eqb (ids w) && refs_exist w &&
    acyclic_b cid_eqb (graph_of w) && forallb (fun c => vars_defined w c && vars_acyclic w c) (w_comps w) &&
    stages_ok w && gvars_acyclic w.

  (* why a workflow is rejected: 1 schema, 2 duplicate identifier, 3 unknown reference, 4 cycle, 5 variables,
     6 stage indices with a gap *)
  Definition reasons (w : wf) : list nat :=
    (if forallb schema_ok (w_comps w) then [] else [1]) ++
    (if uniq cid_eqb (ids w) then [] else [2]) ++
    (if refs_exist w then [] else [3]) ++
    (if acyclic_b cid_eqb (graph_of w) then [] else [4]) ++
    (if forallb (fun c => vars_defined w c && vars_acyclic w c) (w_comps w) then [] else [5]) ++
    (if stages_ok w then [] else [6]) ++
    (if gvars_acyclic w then [] else [5]).

  (* ---------------------------------------------------------------- single-fault mutations *)
  Fixpoint upd_nth {A} (i : nat) (f : A -> A) (l : list A) : list A :=
    match l, i with
    | [], _ => []
    | x :: r, O => f x :: r
    | x :: r, S j => x :: upd_nth j f r
    end.

  Fixpoint del_nth {A} (i : nat) (l : list A) : list A :=
    match l, i with
    | [], _ => []
    | _ :: r, O => r
    | x :: r, S j => x :: del_nth j r
    end.

  Inductive fault :=
    | DropComponent (i : nat)
    | RenameRef (i j : nat) (r' : cid)          (* j-th reference of component i now names r' *)
    | AddBackEdge (i : nat) (r : cid)           (* component i additionally consumes r *)
    | DupName (i j : nat)                        (* component i takes the identifier of component j *)
    | UnknownKey (i : nat) (p : list pk) (k : pk) (x : pv)
    | WrongType (i : nat) (p : list pk) (k : pk) (x : pv)
    | RemoveVar (n : string)                     (* the global variable n is no longer defined *)
    | CyclicVars (scope : option nat) (a b : string)
        (* the value of variable a additionally mentions variable b: a is a global variable (scope None) or a
           variable of component i (scope Some i) *)
    | RemoveCompVar (i : nat) (n : string).
        (* the COMPONENT-level variable n of component i is no longer defined (the variables of a component are
           private to it: a sibling that defines a variable of the same name does not make it defined) *)

  Definition set_refs (f : list cid -> list cid) (c : comp) : comp :=
    mkComp (c_stage c) (c_name c) (f (c_refs c)) (c_uses c) (c_vars c) (c_doc c).
  Definition set_id (i : cid) (c : comp) : comp :=
    mkComp (fst i) (snd i) (c_refs c) (c_uses c) (c_vars c) (c_doc c).
  Definition set_doc (f : pv -> pv) (c : comp) : comp :=
    mkComp (c_stage c) (c_name c) (c_refs c) (c_uses c) (c_vars c) (f (c_doc c)).

  Definition set_vars (f : list (string * list string) -> list (string * list string)) (c : comp) : comp :=
    mkComp (c_stage c) (c_name c) (c_refs c) (c_uses c) (f (c_vars c)) (c_doc c).

  Definition drop_var (n : string) (vs : list (string * list string)) : list (string * list string) :=
    filter (fun e => negb (String.eqb n (fst e))) vs.

  Definition add_mention (a b : string) (vs : list (string * list string)) : list (string * list string) :=
    map (fun e => if String.eqb (fst e) a then (fst e, snd e ++ [b]) else e) vs.

  Definition mutate (m : fault) (w : wf) : wf :=
    match m with
    | DropComponent i => mkWf (w_gvars w) (del_nth i (w_comps w))
    | RenameRef i j r' => mkWf (w_gvars w) (upd_nth i (set_refs (upd_nth j (fun _ => r'))) (w_comps w))
    | AddBackEdge i r => mkWf (w_gvars w) (upd_nth i (set_refs (fun l => l ++ [r])) (w_comps w))
    | DupName i j => match nth_error (w_comps w) j with
                     | Some cj => mkWf (w_gvars w) (upd_nth i (set_id (c_id cj)) (w_comps w))
                     | None => w
                     end
    | UnknownKey i p k x | WrongType i p k x => mkWf (w_gvars w) (upd_nth i (set_doc (pput p k x)) (w_comps w))
    | RemoveVar n => mkWf (filter (fun gv => negb (String.eqb n (fst gv))) (w_gvars w)) (w_comps w)
    | CyclicVars None a b => mkWf (add_mention a b (w_gvars w)) (w_comps w)
    | CyclicVars (Some i) a b => mkWf (w_gvars w) (upd_nth i (set_vars (add_mention a b)) (w_comps w))
    | RemoveCompVar i n => mkWf (w_gvars w) (upd_nth i (set_vars (drop_var n)) (w_comps w))
    end.
End Accept.

(* ------------------------------------------------------------------ the PRIMITIVE load
   WorkflowGraph.graphFromFlowIR / ExperimentPackage.packageFromLocation with their default primitive=True: nothing is
   expanded (FlowIRExperimentConfiguration._initialize skips replicate()), no graph is searched for a cycle, and the
   ONLY gate for a dangling component reference is FlowIR.validate_references (on the replicated path
   propagate_replicate refuses it first).  The structural part of that load: the schema of every component, unique
   (stage, name) identifiers, every reference names an identifier - stage AND name -, stage indices without a gap.
   (The variables of a primitive load are resolved without the in-place resolution of the globals of
   FlowIRConcrete.instance; they are explored against the property predicate only.) *)
Definition accept_prim (cs : schema) (w : wf) : bool :=
  forallb (schema_ok cs) (w_comps w) && uniq cid_eqb (ids w) && refs_exist w && stages_ok w.

Definition reasons_prim (cs : schema) (w : wf) : list nat :=
  (if forallb (schema_ok cs) (w_comps w) then [] else [1]) ++
  (if uniq cid_eqb (ids w) then [] else [2]) ++
  (if refs_exist w then [] else [3]) ++
  (if stages_ok w then [] else [6]).

(* ------------------------------------------------------------------ the identifiers of the EXPANDED workflow
   FlowIR.apply_replicate names replica k of a component `name` textually: name ++ decimal(k) (compile_component_replica),
   in the stage of the component; a component with no replica count (or the count 0), and an aggregating one, keeps
   its identifier.  [cnt] is the assignment of replica counts (what propagate_replicate computes; None for a
   component that is not expanded).  The replicated load hands the expanded list to FlowIRConcrete, whose constructor
   refuses an identifier that occurs twice ("exists multiple times"). *)
Definition nseqN (n : N) : list N := map N.of_nat (seq 0 (N.to_nat n)).

Definition replica_ids (cnt : cid -> option N) (c : comp) : list cid :=
  match cnt (c_id c) with
  | Some n => if N.eqb n 0 then [c_id c] else map (fun k => (c_stage c, (c_name c ++ dec k)%string)) (nseqN n)
  | None => [c_id c]
  end.

Definition expand_ids (cnt : cid -> option N) (w : wf) : list cid := flat_map (replica_ids cnt) (w_comps w).

Definition accept_repl (cs : schema) (cnt : cid -> option N) (w : wf) : bool :=
  accept cs w && uniq cid_eqb (expand_ids cnt w).

Definition reasons_repl (cs : schema) (cnt : cid -> option N) (w : wf) : list nat :=
  reasons cs w ++ (if uniq cid_eqb (expand_ids cnt w) then [] else [2]).

Fixpoint cnt_of (l : list (cid * N)) (c : cid) : option N :=
  match l with
  | [] => None
  | (k, n) :: r => if cid_eqb c k then Some n else cnt_of r c
  end.

(* ------------------------------------------------------------------ correspondence checkers *)
Definition err_code (e : err) : nat * string :=
  match e with EKeyUnknown l => (1, l) | EValueInvalid l => (2, l) | EKeyMissing l => (3, l) end.

Definition code_eqb (a b : nat * string) : bool := Nat.eqb (fst a) (fst b) && String.eqb (snd a) (snd b).

Fixpoint remove_one (x : nat * string) (l : list (nat * string)) : option (list (nat * string)) :=
  match l with
  | [] => None
  | y :: r => if code_eqb x y then Some r else option_map (cons y) (remove_one x r)
  end.

Fixpoint perm_eqb (a b : list (nat * string)) : bool :=
  match a with
  | [] => match b with [] => true | _ => false end
  | x :: r => match remove_one x b with Some b' => perm_eqb r b' | None => false end
  end.

(* (schema, document, root label, errors reported by validate_object_schema as (class code, label)) *)
Definition check_schema_case (c : schema * pv * string * list (nat * string)) : bool :=
  let '(s, v, lbl, impl) := c in perm_eqb (map err_code (check s v lbl)) impl.

(* (predicate, argument, `safe_call(f, arg) is not False`) *)
Definition check_pred_case (c : pname * pv * bool) : bool :=
  let '(p, v, b) := c in Bool.eqb (pred_eval p v) b.

(* (key matcher, key, matched by the code) is exercised through check_schema_case on one-rule dict schemas *)

(* (workflow, accepted by the real loader, reason codes of the real rejection; 0 = unclassified error) *)
Definition check_load_case (cs : schema) (c : wf * bool * list nat) : bool :=
  let '(w, acc, rs) := c in
  Bool.eqb (accept cs w) acc &&
  forallb (fun r => if Nat.eqb r 0 then negb (accept cs w) else existsb (Nat.eqb r) (reasons cs w)) rs.

(* (well-formed workflow, fault, the mutant is accepted by the real loader): the model's own [mutate] *)
Definition check_mutant_case (cs : schema) (c : wf * fault * bool) : bool :=
  let '(w, m, acc) := c in Bool.eqb (accept cs (mutate m w)) acc.

(* ---- convert_component_types: (component document, what the real function turns it into; None = it raised
   FlowIRFailedComponentConvertType).  Floats are compared by type only (their repr is not modelled) *)
Fixpoint erase_flt (v : pv) : pv :=
  match v with
  | VFlt _ => VFlt ""
  | VList l => VList (map erase_flt l)
  | VDict m => VDict (map (fun kv => (fst kv, erase_flt (snd kv))) m)
  | _ => v
  end.

Fixpoint pv_eqb (a b : pv) {struct a} : bool :=
  match a, b with
  | VNone, VNone => true
  | VBool x, VBool y => Bool.eqb x y
  | VInt x, VInt y => Z.eqb x y
  | VFlt x, VFlt y => String.eqb x y
  | VStr x, VStr y => String.eqb x y
  | VList l, VList l' =>
      (fix go (l l' : list pv) : bool :=
         match l, l' with
         | [], [] => true
         | x :: r, y :: r' => pv_eqb x y && go r r'
         | _, _ => false
         end) l l'
  | VDict m, VDict m' =>
      (fix go (m m' : list (pk * pv)) : bool :=
         match m, m' with
         | [], [] => true
         | kx :: r, ky :: r' => pk_eqb (fst kx) (fst ky) && pv_eqb (snd kx) (snd ky) && go r r'
         | _, _ => false
         end) m m'
  | _, _ => false
  end.

Definition check_convert_case (c : pv * option pv) : bool :=
  let '(d, impl) := c in
  match convert (Some expected_types) d, impl with
  | None, None => true
  | Some a, Some b => pv_eqb (erase_flt a) (erase_flt b)
  | _, _ => false
  end.

(* (workflow, replica counts of the components that are expanded, accepted by the real REPLICATED load, reason codes) *)
Definition check_repl_case (cs : schema) (c : wf * list (cid * N) * bool * list nat) : bool :=
  let '(w, cnts, acc, rs) := c in
  Bool.eqb (accept_repl cs (cnt_of cnts) w) acc &&
  forallb (fun r => if Nat.eqb r 0 then negb (accept_repl cs (cnt_of cnts) w)
                    else existsb (Nat.eqb r) (reasons_repl cs (cnt_of cnts) w)) rs.

(* (workflow, accepted by the real PRIMITIVE load, reason codes of the real rejection): the load is accepted only if
   the structural part holds; when the structural part fails it is rejected and every structural reason the loader
   gives (1 schema, 2 duplicate, 3 unknown reference, 6 stage gap) is one of the model; when the structural part holds
   a rejection is about the variables (5) or the conversion/unclassified (0) *)
Definition check_prim_case (cs : schema) (c : wf * bool * list nat) : bool :=
  let '(w, acc, rs) := c in
  let a := accept_prim cs w in
  (if a then true else negb acc) &&
  forallb (fun r => if Nat.eqb r 5 then true
                    else if Nat.eqb r 0 then (negb a || negb (accept cs w))
                    else existsb (Nat.eqb r) (reasons_prim cs w)) rs.
