(* C11 — two more entry points of the loader.
   (1) the PRIMITIVE load (accept_prim): sound for the structural part (identifiers unique, every reference names an
       identifier by stage AND name, schema) and complete for the five structural single faults that do not need the
       expanded graph (DropComponent / RenameRef / DupName / UnknownKey / WrongType) - in particular when the dropped
       or renamed identifier differs from a surviving one in its STAGE only;
   (2) the identifiers of the EXPANDED workflow (accept_repl): an accepted workflow has unique expanded identifiers
       (textual replica names name ++ decimal index), and a workflow whose expansion yields one identifier twice -
       from two different components - is rejected, whatever else holds. *)
From Coq Require Import String Ascii List Bool ZArith NArith Arith Lia Relations.
Import ListNotations.
Require Import V.Lib.PyStr V.Valid.Model V.Valid.Proofs.
Open Scope string_scope.
Open Scope list_scope.

Section Prim.
  Variable cs : schema.

  Lemma accept_prim_weaker w : accept cs w = true -> accept_prim cs w = true.
  Proof.
    unfold accept, accept_prim. intros H.
    apply andb_prop in H as [H _]. apply andb_prop in H as [H St]. apply andb_prop in H as [H _].
    apply andb_prop in H as [H _]. apply andb_prop in H as [H Hr]. apply andb_prop in H as [Hs Hu].
    rewrite Hs, Hu, Hr, St. reflexivity.
  Qed.

  Theorem prim_sound w : accept_prim cs w = true ->
    NoDup (ids w) /\
    (forall c r, In c (w_comps w) -> In r (c_refs c) -> exists c', In c' (w_comps w) /\ c_id c' = r) /\
    (forall c, In c (w_comps w) -> doc_hard_errs cs (c_doc c) = []).
  Proof.
    unfold accept_prim. intros H.
    apply andb_prop in H as [H _]. apply andb_prop in H as [H Hr]. apply andb_prop in H as [Hs Hu].
    split; [|split].
    - apply (uniq_NoDup cid cid_eqb cid_eqb_eq); assumption.
    - intros c r Ic Ir. unfold refs_exist in Hr. rewrite forallb_forall in Hr. specialize (Hr _ Ic).
      rewrite forallb_forall in Hr. specialize (Hr _ Ir). apply (kmem_In cid cid_eqb cid_eqb_eq) in Hr.
      unfold ids in Hr. apply in_map_iff in Hr as [c' [E I]]. exists c'; split; assumption.
    - intros c Ic. rewrite forallb_forall in Hs. specialize (Hs _ Ic). unfold schema_ok in Hs.
      destruct (doc_hard_errs cs (c_doc c)); [reflexivity | discriminate].
  Qed.

  Lemma prim_schema_false w c :
    In c (w_comps w) -> doc_hard_errs cs (c_doc c) <> [] -> accept_prim cs w = false.
  Proof.
    intros Ic Hh. destruct (accept_prim cs w) eqn:A; [|reflexivity].
    destruct (prim_sound w A) as [_ [_ S]]. specialize (S _ Ic). contradiction.
  Qed.

  Lemma prim_unknown_key w i c p k x s' rules m :
    nth_error (w_comps w) i = Some c ->
    sub_at p cs = Some s' -> dict_rules s' = Some rules -> pget p (c_doc c) = Some (VDict m) ->
    find_rule rules k = None ->
    accept_prim cs (mutate (UnknownKey i p k x) w) = false.
  Proof.
    intros Hn Hs D Hg F. cbn [mutate].
    apply prim_schema_false with (c := set_doc (pput p k x) c).
    - cbn. apply upd_nth_In; assumption.
    - cbn. apply doc_hard_in. intros d' C.
      destruct (convert_pget p _ _ d' _ C (pget_pput_dict p k x _ m Hg)) as [y [G Cy]].
      destruct (convert_dict_keys _ _ _ Cy) as [m' [-> K]].
      assert (Ik : In k (map fst m')).
      { rewrite K. apply in_map_iff. exists (k, x). split; [reflexivity | apply In_pset]. }
      destruct (in_keys_entry k m' Ik) as [x' Ix].
      exists (EKeyUnknown (key_label (path_label "" p) k)). split; [|reflexivity].
      eapply schema_unknown_key; [exact Hs | exact D | exact G | exact Ix | exact F].
  Qed.

  Lemma prim_wrong_type w i c p k l s' m :
    nth_error (w_comps w) i = Some c ->
    sub_at (p ++ [k]) cs = Some s' -> no_list s' = true -> pget p (c_doc c) = Some (VDict m) ->
    accept_prim cs (mutate (WrongType i p k (VList l)) w) = false.
  Proof.
    intros Hn Hs N Hg. cbn [mutate].
    apply prim_schema_false with (c := set_doc (pput p k (VList l)) c).
    - cbn. apply upd_nth_In; assumption.
    - cbn. apply doc_hard_in. intros d' C.
      destruct (convert_pget (p ++ [k]) _ _ d' _ C (pget_pput_leaf p k (VList l) _ m Hg)) as [y [G Cy]].
      rewrite convert_list in Cy. inversion Cy; subst y.
      exists (EValueInvalid (path_label "" (p ++ [k]))). split; [|reflexivity].
      eapply schema_wrong_type; [exact Hs | exact N | exact G].
  Qed.

  Lemma prim_wrong_scalar w i c p k x m :
    nth_error (w_comps w) i = Some c -> pget p (c_doc c) = Some (VDict m) ->
    wrong_rejected cs (p ++ [k]) x = true ->
    accept_prim cs (mutate (WrongType i p k x) w) = false.
  Proof.
    intros Hn Hg R. cbn [mutate].
    apply prim_schema_false with (c := set_doc (pput p k x) c).
    - cbn. apply upd_nth_In; assumption.
    - cbn. apply doc_hard_in. intros d' C.
      destruct (convert_pget (p ++ [k]) _ _ d' _ C (pget_pput_leaf p k x _ m Hg)) as [y [G Cy]].
      unfold wrong_rejected, conv_at in R. rewrite Cy in R.
      destruct (sub_at (p ++ [k]) cs) as [s'|] eqn:Hs; [|discriminate].
      apply existsb_exists in R as [e [Ie He]].
      exists e. split; [|exact He]. eapply lift_errors; [exact Hs | exact G | exact Ie].
  Qed.

  Lemma prim_dup_name w i j ci cj :
    i <> j -> nth_error (w_comps w) i = Some ci -> nth_error (w_comps w) j = Some cj ->
    accept_prim cs (mutate (DupName i j) w) = false.
  Proof.
    intros N Hi Hj. cbn [mutate]. rewrite Hj.
    destruct (accept_prim cs _) eqn:A; [|reflexivity]. exfalso.
    destruct (prim_sound _ A) as [U _]. unfold ids in U; cbn in U.
    apply N. eapply (nodup_nth _ i j (c_id cj) U).
    - rewrite nth_error_map, (nth_upd_same _ _ _ _ Hi). reflexivity.
    - rewrite nth_error_map, nth_upd_other by assumption. rewrite Hj; reflexivity.
  Qed.

  (* RenameRef: the new identifier r' is nobody's - e.g. an existing NAME with the stage of another component *)
  Lemma prim_rename_ref w i j c r r' :
    nth_error (w_comps w) i = Some c -> nth_error (c_refs c) j = Some r ->
    ~ In r' (ids w) ->
    accept_prim cs (mutate (RenameRef i j r') w) = false.
  Proof.
    intros Hi Hj Nr. cbn [mutate].
    destruct (accept_prim cs _) eqn:A; [|reflexivity]. exfalso.
    destruct (prim_sound _ A) as [_ [R _]]. cbn in R.
    destruct (R (set_refs (upd_nth j (fun _ => r')) c) r') as [c' [I E]].
    - apply upd_nth_In; assumption.
    - cbn. apply (upd_nth_In (fun _ => r') j (c_refs c) r Hj).
    - apply Nr. unfold ids.
      assert (M : map c_id (upd_nth i (set_refs (upd_nth j (fun _ => r'))) (w_comps w)) = map c_id (w_comps w))
        by (apply upd_nth_map; intros; reflexivity).
      pose proof (in_map c_id _ _ I) as I2. rewrite M, E in I2. exact I2.
  Qed.

  (* DropComponent: a consumer of the dropped identifier remains - whatever components of the same NAME other stages hold *)
  Lemma prim_drop w i j c d :
    accept_prim cs w = true -> i <> j ->
    nth_error (w_comps w) i = Some c -> nth_error (w_comps w) j = Some d -> In (c_id c) (c_refs d) ->
    accept_prim cs (mutate (DropComponent i) w) = false.
  Proof.
    intros A0 N Hi Hj Hr. cbn [mutate].
    destruct (accept_prim cs (mkWf (w_gvars w) (del_nth i (w_comps w)))) eqn:A; [|reflexivity]. exfalso.
    destruct (prim_sound _ A0) as [U _].
    destruct (prim_sound _ A) as [_ [R _]]. cbn in R.
    destruct (R d (c_id c)) as [c' [I E]].
    - eapply del_nth_keeps; eassumption.
    - assumption.
    - apply (del_nth_nodup c_id i (w_comps w) c U Hi). rewrite <- E. apply in_map; assumption.
  Qed.

  (* the faults a primitive load has to refuse (AddBackEdge needs the graph, the variable faults are outside accept_prim) *)
  Definition prim_fault (m : fault) : bool :=
    match m with
    | DropComponent _ | RenameRef _ _ _ | DupName _ _ | UnknownKey _ _ _ _ | WrongType _ _ _ _ => true
    | _ => false
    end.

  Theorem prim_complete m w :
    accept_prim cs w = true -> prim_fault m = true -> applicable cs m w -> accept_prim cs (mutate m w) = false.
  Proof.
    intros A P H. destruct m; cbn [prim_fault] in P; try discriminate; cbn [applicable] in H.
    - destruct H as [j [c [d [N [Hi [Hj Hr]]]]]]. eapply prim_drop; eassumption.
    - destruct H as [c [r [Hi [Hj Nr]]]]. eapply prim_rename_ref; eassumption.
    - destruct H as [N [ci [cj [Hi Hj]]]]. eapply prim_dup_name; eassumption.
    - destruct H as [c [s' [rules [m [Hi [Hs [D [Hg F]]]]]]]]. eapply prim_unknown_key; eassumption.
    - destruct H as [[c [s' [m [l [-> [Hi [Hs [N Hg]]]]]]]] | [c [m [Hi [Hg R]]]]].
      + eapply prim_wrong_type; eassumption.
      + eapply prim_wrong_scalar; eassumption.
  Qed.

  (* the instance behind a loader that looks a reference up by NAME only: the reference keeps its name and gets the
     stage of ... nobody with that name *)
  Lemma prim_wrong_stage w i j c s n s' :
    accept_prim cs w = true ->
    nth_error (w_comps w) i = Some c -> nth_error (c_refs c) j = Some (s, n) ->
    ~ In (s', n) (ids w) ->
    accept_prim cs (mutate (RenameRef i j (s', n)) w) = false.
  Proof. intros _ Hi Hj Nr. eapply prim_rename_ref; eassumption. Qed.
End Prim.

(* ------------------------------------------------------------------ expanded identifiers *)
Section Expanded.
  Variable cs : schema.
  Variable cnt : cid -> option N.

  Lemma flat_map_clash {A B} (f : A -> list B) : forall (l : list A) i j a b x,
    NoDup (flat_map f l) -> nth_error l i = Some a -> nth_error l j = Some b -> i <> j ->
    In x (f a) -> In x (f b) -> False.
  Proof.
    induction l as [|y r IH]; intros i j a b x N Hi Hj D Ia Ib.
    - destruct i; discriminate.
    - cbn [flat_map] in N.
      assert (Sep : forall z, In z (f y) -> In z (flat_map f r) -> False).
      { intros z I1 I2. clear - N I1 I2. induction (f y) as [|u t IHt]; [contradiction|].
        cbn in N. inversion N as [|? ? N1 N2]; subst. destruct I1 as [-> | I1].
        - apply N1. apply in_or_app; right; assumption.
        - apply IHt; assumption. }
      assert (Tail : NoDup (flat_map f r)).
      { clear - N. induction (f y) as [|u t IHt]; [exact N|]. cbn in N. inversion N; subst. apply IHt; assumption. }
      destruct i as [|i], j as [|j]; cbn in Hi, Hj.
      + contradiction.
      + inversion Hi; subst. apply (Sep x Ia). apply in_flat_map. exists b. split; [eapply nth_error_In; eassumption | assumption].
      + inversion Hj; subst. apply (Sep x Ib). apply in_flat_map. exists a. split; [eapply nth_error_In; eassumption | assumption].
      + eapply (IH i j a b x Tail Hi Hj); [congruence | assumption | assumption].
  Qed.

  Theorem repl_sound w : accept_repl cs cnt w = true -> accept cs w = true /\ NoDup (expand_ids cnt w).
  Proof.
    unfold accept_repl. intros H. apply andb_prop in H as [A U]. split; [exact A|].
    apply (uniq_NoDup cid cid_eqb cid_eqb_eq); assumption.
  Qed.

  (* two different components whose expansions share an identifier: rejected *)
  Theorem repl_clash_rejected w i j c d x :
    i <> j -> nth_error (w_comps w) i = Some c -> nth_error (w_comps w) j = Some d ->
    In x (replica_ids cnt c) -> In x (replica_ids cnt d) ->
    accept_repl cs cnt w = false.
  Proof.
    intros N Hi Hj Ic Id. destruct (accept_repl cs cnt w) eqn:A; [|reflexivity]. exfalso.
    destruct (repl_sound _ A) as [_ U]. unfold expand_ids in U.
    exact (flat_map_clash (replica_ids cnt) _ i j c d x U Hi Hj N Ic Id).
  Qed.

  Lemma In_nseqN k n : (k < n)%N -> In k (nseqN n).
  Proof.
    intros L. unfold nseqN. apply in_map_iff. exists (N.to_nat k). split; [apply N2Nat.id|].
    apply in_seq. lia.
  Qed.

  Lemma replica_in c n k : cnt (c_id c) = Some n -> (k < n)%N -> In (c_stage c, (c_name c ++ dec k)%string) (replica_ids cnt c).
  Proof.
    intros E L. unfold replica_ids. rewrite E. destruct (N.eqb n 0) eqn:Z.
    - apply N.eqb_eq in Z. lia.
    - apply in_map_iff. exists k. split; [reflexivity | apply In_nseqN; assumption].
  Qed.

  (* replica k of component c (n replicas, k < n) is called like the authored component d of the same stage *)
  Theorem repl_authored_clash w i j c d n k :
    i <> j -> nth_error (w_comps w) i = Some c -> nth_error (w_comps w) j = Some d ->
    cnt (c_id c) = Some n -> (k < n)%N -> cnt (c_id d) = None ->
    c_stage d = c_stage c -> c_name d = (c_name c ++ dec k)%string ->
    accept_repl cs cnt w = false.
  Proof.
    intros N Hi Hj En L Ed Es Ename.
    eapply (repl_clash_rejected w i j c d (c_stage c, (c_name c ++ dec k)%string)); try eassumption.
    - apply replica_in with (n := n); assumption.
    - unfold replica_ids. rewrite Ed. left. unfold c_id. rewrite Es, Ename. reflexivity.
  Qed.

  (* replica k of c and replica k' of d have the same text (run ++ "10" = run1 ++ "0") *)
  Theorem repl_replica_clash w i j c d n m k k' :
    i <> j -> nth_error (w_comps w) i = Some c -> nth_error (w_comps w) j = Some d ->
    cnt (c_id c) = Some n -> (k < n)%N -> cnt (c_id d) = Some m -> (k' < m)%N ->
    c_stage d = c_stage c -> (c_name d ++ dec k')%string = (c_name c ++ dec k)%string ->
    accept_repl cs cnt w = false.
  Proof.
    intros N Hi Hj En L Em L' Es Ename.
    eapply (repl_clash_rejected w i j c d (c_stage c, (c_name c ++ dec k)%string)); try eassumption.
    - apply replica_in with (n := n); assumption.
    - rewrite <- Es, <- Ename. apply replica_in with (n := m); assumption.
  Qed.

  (* with no component expanded the replicated gate is the plain one *)
  Lemma expand_ids_none w : (forall c, cnt c = None) -> expand_ids cnt w = ids w.
  Proof.
    intros Z. unfold expand_ids, ids. induction (w_comps w) as [|c r IH]; [reflexivity|].
    cbn [flat_map map]. unfold replica_ids at 1. rewrite Z. cbn. rewrite IH. reflexivity.
  Qed.
End Expanded.
