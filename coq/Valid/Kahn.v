(* C11 — completeness of the topological-order check: a finite graph with distinct node names whose edges stay
   inside the graph and in which no node reaches itself is accepted by [acyclic_b] (Kahn order, then verify).
   Together with [acyclic_b_sound] this makes the checker's verdict EQUAL to "no path from a node to itself". *)
From Coq Require Import String Ascii List Bool ZArith NArith Arith Lia Relations.
Import ListNotations.
Require Import V.Lib.PyStr V.Valid.Model V.Valid.Proofs.
Open Scope string_scope.
Open Scope list_scope.

(* ------------------------------------------------------------------ list facts *)
Lemma forallb_false_ex {A} (f : A -> bool) l : forallb f l = false -> exists x, In x l /\ f x = false.
Proof.
  induction l as [|a r IH]; cbn; [discriminate|]. intros H. apply andb_false_iff in H as [H | H].
  - exists a; split; [left; reflexivity | exact H].
  - destruct (IH H) as [x [I F]]. exists x; split; [right; exact I | exact F].
Qed.

Lemma forallb_ext' {A} (f g : A -> bool) l : (forall x, f x = g x) -> forallb f l = forallb g l.
Proof. intros E. induction l as [|a r IH]; cbn; [reflexivity|]. rewrite E, IH; reflexivity. Qed.

Lemma filter_split_length {A} (p : A -> bool) l :
  length (filter p l) + length (filter (fun x => negb (p x)) l) = length l.
Proof. induction l as [|a r IH]; cbn; [reflexivity|]. destruct (p a); cbn; lia. Qed.

Lemma NoDup_map_filter {A B} (f : A -> B) (p : A -> bool) l : NoDup (map f l) -> NoDup (map f (filter p l)).
Proof.
  induction l as [|a r IH]; cbn; intros N; [constructor|]. inversion N as [|? ? N1 N2]; subst.
  destruct (p a); cbn; [|auto]. constructor; [|auto].
  intros I. apply N1. apply in_map_iff in I as [x [E I]]. apply filter_In in I as [I _].
  rewrite <- E. apply in_map; exact I.
Qed.

Lemma NoDup_map_inj {A B} (f : A -> B) l x y : NoDup (map f l) -> In x l -> In y l -> f x = f y -> x = y.
Proof.
  induction l as [|a r IH]; cbn; intros N Ix Iy E; [contradiction|]. inversion N as [|? ? N1 N2]; subst.
  destruct Ix as [<- | Ix], Iy as [<- | Iy]; auto.
  - exfalso. apply N1. rewrite E. apply in_map; exact Iy.
  - exfalso. apply N1. rewrite <- E. apply in_map; exact Ix.
Qed.

(* ------------------------------------------------------------------ a finite set in which every element has a
   predecessor contains a cycle (walk backwards; the walk cannot stay fresh longer than the set is large) *)
Section NoSource.
  Variable K : Type.
  Variable keqb : K -> K -> bool.
  Hypothesis keqb_eq : forall a b, keqb a b = true <-> a = b.
  Variable R : K -> K -> Prop.
  Variable P : list K.
  Hypothesis pred_in : forall x, In x P -> exists y, In y P /\ R y x.

  Lemma walk_back : forall n visited x,
    NoDup (x :: visited) -> incl (x :: visited) P ->
    (forall v, In v visited -> clos_trans K R x v) ->
    length P <= n + length visited + 1 ->
    exists z, clos_trans K R z z.
  Proof.
    induction n as [|n IH]; intros visited x N I Hr L.
    - destruct (pred_in x (I x (or_introl eq_refl))) as [y [Iy Ryx]].
      destruct (kmem keqb y (x :: visited)) eqn:M.
      + apply (kmem_In K keqb keqb_eq) in M. destruct M as [<- | M].
        * exists x. apply t_step; exact Ryx.
        * exists x. eapply t_trans; [exact (Hr _ M) | apply t_step; exact Ryx].
      + exfalso.
        assert (N' : NoDup (y :: x :: visited)).
        { constructor; [|exact N]. intros C. apply (kmem_In K keqb keqb_eq) in C. congruence. }
        assert (I' : incl (y :: x :: visited) P) by (intros z [<- | Hz]; [exact Iy | exact (I z Hz)]).
        pose proof (NoDup_incl_length N' I') as LL. cbn in LL. lia.
    - destruct (pred_in x (I x (or_introl eq_refl))) as [y [Iy Ryx]].
      destruct (kmem keqb y (x :: visited)) eqn:M.
      + apply (kmem_In K keqb keqb_eq) in M. destruct M as [<- | M].
        * exists x. apply t_step; exact Ryx.
        * exists x. eapply t_trans; [exact (Hr _ M) | apply t_step; exact Ryx].
      + apply (IH (x :: visited) y).
        * constructor; [|exact N]. intros C. apply (kmem_In K keqb keqb_eq) in C. congruence.
        * intros z [<- | Hz]; [exact Iy | exact (I z Hz)].
        * intros v [<- | Hv]; [apply t_step; exact Ryx | eapply t_trans; [apply t_step; exact Ryx | exact (Hr _ Hv)]].
        * cbn. lia.
  Qed.

  Lemma no_source_cycle : P <> [] -> exists z, clos_trans K R z z.
  Proof.
    intros H.
    assert (X : exists x, In x P) by (destruct P as [|x r]; [congruence | exists x; left; reflexivity]).
    destruct X as [x Ix].
    apply (walk_back (length P) [] x).
    - constructor; [intros []|constructor].
    - intros z [<- | []]. exact Ix.
    - intros v [].
    - cbn. lia.
  Qed.
End NoSource.

(* ------------------------------------------------------------------ Kahn's order verifies *)
Section KahnComplete.
  Variable K : Type.
  Variable keqb : K -> K -> bool.
  Hypothesis keqb_eq : forall a b, keqb a b = true <-> a = b.

  Notation entry := (K * list K)%type.
  Notation kIn := (kmem_In K keqb keqb_eq).

  Lemma kmem_ext x s1 s2 : (forall y, In y s1 <-> In y s2) -> kmem keqb x s1 = kmem keqb x s2.
  Proof.
    intros H. destruct (kmem keqb x s1) eqn:A, (kmem keqb x s2) eqn:B; try reflexivity.
    - apply kIn in A. apply H in A. apply kIn in A. congruence.
    - apply kIn in B. apply H in B. apply kIn in B. congruence.
  Qed.

  (* [vo] looks at [seen] as a set *)
  Lemma vo_ext ord : forall s1 s2, (forall y, In y s1 <-> In y s2) -> vo keqb s1 ord = vo keqb s2 ord.
  Proof.
    induction ord as [|e r IH]; intros s1 s2 H; [reflexivity|]. cbn.
    rewrite (kmem_ext (fst e) s1 s2 H).
    rewrite (forallb_ext' (fun u => kmem keqb u s1) (fun u => kmem keqb u s2) (snd e)) by (intros; apply kmem_ext; exact H).
    f_equal. apply IH. intros y; cbn. rewrite H. tauto.
  Qed.

  Lemma ready_mono seen seen' (e : entry) :
    incl seen seen' -> is_ready keqb seen e = true -> is_ready keqb seen' e = true.
  Proof.
    unfold is_ready. intros I H. rewrite forallb_forall in *. intros u Hu.
    apply kIn. apply I. apply kIn. apply H; exact Hu.
  Qed.

  (* a layer of distinct, new, ready nodes followed by an order that verifies after the layer *)
  Lemma vo_layer (a : list entry) : forall S b,
    (forall e, In e a -> is_ready keqb S e = true) ->
    NoDup (map fst a) -> (forall e, In e a -> ~ In (fst e) S) ->
    vo keqb (map fst a ++ S) b = true ->
    vo keqb S (a ++ b) = true.
  Proof.
    induction a as [|e r IH]; intros S b Hr N Hn Hb; [exact Hb|].
    cbn [app vo]. inversion N as [|? ? N1 N2]; subst.
    assert (R1 : is_ready keqb S e = true) by (apply Hr; left; reflexivity).
    unfold is_ready in R1. rewrite R1. cbn.
    assert (M : kmem keqb (fst e) S = false).
    { destruct (kmem keqb (fst e) S) eqn:M; [|reflexivity]. apply kIn in M. exfalso. apply (Hn e); [left; reflexivity | exact M]. }
    rewrite M. cbn. apply IH.
    - intros e' I. apply (ready_mono S); [intros z Hz; right; exact Hz | apply Hr; right; exact I].
    - exact N2.
    - intros e' I [C | C].
      + apply N1. rewrite C. apply in_map; exact I.
      + apply (Hn e'); [right; exact I | exact C].
    - rewrite (vo_ext b _ (map fst (e :: r) ++ S)); [exact Hb|].
      intros y; cbn. rewrite !in_app_iff; cbn. tauto.
  Qed.

  Lemma edge_filter (p : entry -> bool) l u v : edge (filter p l) u v -> edge l u v.
  Proof. intros [rs [I U]]. apply filter_In in I as [I _]. exists rs; split; assumption. Qed.

  Lemma kahn_S_nil f seen pending :
    filter (is_ready keqb seen) pending = [] -> kahn keqb (S f) seen pending = [].
  Proof. intros E. cbn [kahn]. rewrite E. reflexivity. Qed.

  Lemma kahn_S_cons f seen pending :
    filter (is_ready keqb seen) pending <> [] ->
    kahn keqb (S f) seen pending =
    filter (is_ready keqb seen) pending ++
    kahn keqb f (map fst (filter (is_ready keqb seen) pending) ++ seen)
         (filter (fun e => negb (is_ready keqb seen e)) pending).
  Proof. intros E. cbn [kahn]. destruct (filter (is_ready keqb seen) pending); [congruence | reflexivity]. Qed.

  Lemma kahn_complete : forall fuel seen pending,
    length pending <= fuel ->
    NoDup (map fst pending) ->
    (forall e, In e pending -> ~ In (fst e) seen) ->
    (forall e u, In e pending -> In u (snd e) -> In u seen \/ In u (map fst pending)) ->
    (forall x, ~ clos_trans K (edge pending) x x) ->
    vo keqb seen (kahn keqb fuel seen pending) = true /\
    (forall e, In e pending -> In e (kahn keqb fuel seen pending)).
  Proof.
    induction fuel as [|f IH]; intros seen pending L N Hn Hc Ha.
    - destruct pending; [|cbn in L; lia]. cbn. split; [reflexivity | intros e []].
    - pose proof (kahn_S_nil f seen pending) as Knil. pose proof (kahn_S_cons f seen pending) as Kcons.
      remember (filter (is_ready keqb seen) pending) as ready eqn:Er.
      remember (filter (fun e => negb (is_ready keqb seen e)) pending) as rest eqn:Es.
      assert (Rin : forall e, In e ready <-> In e pending /\ is_ready keqb seen e = true) by (intros e; rewrite Er; apply filter_In).
      assert (Sin : forall e, In e rest <-> In e pending /\ is_ready keqb seen e = false).
      { intros e. rewrite Es, filter_In, negb_true_iff. reflexivity. }
      assert (Len : length ready + length rest = length pending) by (rewrite Er, Es; apply filter_split_length).
      assert (Nr : NoDup (map fst ready)) by (rewrite Er; apply NoDup_map_filter; exact N).
      assert (Ns : NoDup (map fst rest)) by (rewrite Es; apply NoDup_map_filter; exact N).
      assert (Esub : forall u v, edge rest u v -> edge pending u v) by (rewrite Es; intros u v; apply edge_filter).
      clear Er Es.
      assert (D : ready = [] \/ ready <> []) by (destruct ready; [left; reflexivity | right; discriminate]).
      destruct D as [D | D].
      + (* nothing is ready: pending is empty, or every pending node waits for a pending node: a cycle *)
        rewrite (Knil D).
        assert (D2 : pending = [] \/ pending <> []) by (destruct pending; [left; reflexivity | right; discriminate]).
        destruct D2 as [-> | D2]; [split; [reflexivity | intros e []]|]. exfalso.
        assert (NR : forall e, In e pending -> is_ready keqb seen e = false).
        { intros e I. destruct (is_ready keqb seen e) eqn:Re; [|reflexivity].
          assert (X : In e ready) by (apply Rin; split; assumption). rewrite D in X; destruct X. }
        destruct (no_source_cycle K keqb keqb_eq (edge pending) (map fst pending)) as [z C].
        * intros x Ix. apply in_map_iff in Ix as [e [<- Ie]].
          specialize (NR e Ie). unfold is_ready in NR. apply forallb_false_ex in NR as [u [Iu Mu]].
          destruct (Hc e u Ie Iu) as [S | S].
          -- apply kIn in S. congruence.
          -- exists u. split; [exact S|]. exists (snd e). split; [destruct e; exact Ie | exact Iu].
        * intros E. apply D2. destruct pending; [reflexivity | discriminate].
        * exact (Ha z C).
      + rewrite (Kcons D).
        assert (Lr : length rest <= f) by (destruct ready; [congruence | cbn in Len; lia]).
        destruct (IH (map fst ready ++ seen) rest) as [V C]; try exact Lr; try exact Ns.
        * intros e I C. apply Sin in I as [Ie Re]. apply in_app_or in C as [C | C].
          -- apply in_map_iff in C as [e' [E I']]. apply Rin in I' as [Ie' Re'].
             assert (e' = e) by (eapply (NoDup_map_inj fst pending); eassumption). subst e'. congruence.
          -- exact (Hn e Ie C).
        * intros e u I Iu. apply Sin in I as [Ie _].
          destruct (Hc e u Ie Iu) as [S | S]; [left; apply in_or_app; right; exact S|].
          apply in_map_iff in S as [e' [E Ie']].
          destruct (is_ready keqb seen e') eqn:Re'.
          -- left. apply in_or_app; left. rewrite <- E. apply in_map. apply Rin; split; assumption.
          -- right. rewrite <- E. apply in_map. apply Sin; split; assumption.
        * intros x T. apply (Ha x). eapply clos_trans_mono; [|exact T]. exact Esub.
        * split.
          -- apply vo_layer.
             ++ intros e I. apply Rin; exact I.
             ++ exact Nr.
             ++ intros e I. apply Hn. apply Rin; exact I.
             ++ exact V.
          -- intros e I. apply in_or_app. destruct (is_ready keqb seen e) eqn:Re.
             ++ left. apply Rin; split; assumption.
             ++ right. apply C. apply Sin; split; assumption.
  Qed.

  (* the hypotheses: node names are distinct and every edge starts at a node of the graph *)
  Definition closed_graph (g : list entry) : Prop := forall v rs u, In (v, rs) g -> In u rs -> In u (map fst g).

  Theorem acyclic_b_complete g :
    NoDup (map fst g) -> closed_graph g -> (forall u, ~ clos_trans K (edge g) u u) -> acyclic_b keqb g = true.
  Proof.
    intros N Cl A. unfold acyclic_b. cbv zeta.
    match goal with |- vo ?k ?s ?o && _ = true =>
      assert (H : vo k s o = true /\ (forall e, In e g -> In e o)) end.
    { apply kahn_complete.
      - apply le_n.
      - exact N.
      - intros e _ [].
      - intros [v rs] u I Iu. right. exact (Cl v rs u I Iu).
      - exact A. }
    destruct H as [V C]. rewrite V. cbn [andb].
    unfold covers. apply forallb_forall. intros e I.
    apply existsb_exists. exists e. split; [apply C; exact I|].
    apply andb_true_intro; split; [apply keqb_eq; reflexivity|].
    apply forallb_forall. intros u Iu. apply kIn; exact Iu.
  Qed.

  Theorem acyclic_b_correct g :
    NoDup (map fst g) -> closed_graph g ->
    (acyclic_b keqb g = true <-> forall u, ~ clos_trans K (edge g) u u).
  Proof.
    intros N Cl. split; [apply acyclic_b_sound; exact keqb_eq | apply acyclic_b_complete; assumption].
  Qed.

  (* the check is a decision procedure: a rejected graph of this shape has a node that reaches itself *)
  Corollary acyclic_b_false g :
    NoDup (map fst g) -> closed_graph g -> acyclic_b keqb g = false -> ~ (forall u, ~ clos_trans K (edge g) u u).
  Proof. intros N Cl F A. rewrite (acyclic_b_complete g N Cl A) in F. discriminate. Qed.
End KahnComplete.
Arguments closed_graph {K}.

(* ------------------------------------------------------------------ the graphs of a workflow have that shape *)
Lemma graph_of_closed w : closed_graph (graph_of w).
Proof.
  intros v rs u I Iu. unfold graph_of in I. apply in_map_iff in I as [c [E Ic]]. inversion E; subst.
  apply filter_In in Iu as [_ M]. apply (kmem_In cid cid_eqb cid_eqb_eq) in M.
  unfold graph_of. rewrite map_map. cbn. exact M.
Qed.

Lemma graph_of_nodes w : map fst (graph_of w) = ids w.
Proof. unfold graph_of, ids. rewrite map_map. reflexivity. Qed.

Lemma graph_edge_wedge w u v : edge (graph_of w) u v -> wedge w u v.
Proof.
  intros [rs [I Iu]]. unfold graph_of in I. apply in_map_iff in I as [c [E Ic]]. inversion E; subst.
  apply filter_In in Iu as [Iu _]. exists c. repeat split; assumption.
Qed.

(* the cycle check of [accept] is exact: with distinct identifiers and resolved references it accepts precisely
   the workflows in which no component depends, directly or not, on itself *)
Theorem cycle_check_exact w :
  uniq cid_eqb (ids w) = true -> refs_exist w = true ->
  (acyclic_b cid_eqb (graph_of w) = true <-> forall u, ~ clos_trans cid (wedge w) u u).
Proof.
  intros U R. split.
  - intros A u C. apply (acyclic_b_sound cid cid_eqb cid_eqb_eq _ A u).
    eapply clos_trans_mono; [|exact C]. apply wedge_graph; exact R.
  - intros A. apply (acyclic_b_complete cid cid_eqb cid_eqb_eq).
    + rewrite graph_of_nodes. apply (uniq_NoDup cid cid_eqb cid_eqb_eq); exact U.
    + apply graph_of_closed.
    + intros u C. apply (A u). eapply clos_trans_mono; [|exact C]. apply graph_edge_wedge.
Qed.

(* ------------------------------------------------------------------ the variable graphs *)
Lemma NoDup_app_intro {A} (l1 l2 : list A) :
  NoDup l1 -> NoDup l2 -> (forall x, In x l1 -> ~ In x l2) -> NoDup (l1 ++ l2).
Proof.
  induction l1 as [|a r IH]; cbn; intros N1 N2 D; [exact N2|]. inversion N1 as [|? ? Na Nr]; subst.
  constructor.
  - intros I. apply in_app_or in I as [I | I]; [contradiction | exact (D a (or_introl eq_refl) I)].
  - apply IH; [exact Nr | exact N2 | intros x Ix; apply D; right; exact Ix].
Qed.

Lemma env_names_nodup w c :
  NoDup (map fst (w_gvars w)) -> NoDup (map fst (c_vars c)) -> NoDup (map fst (env_of w c)).
Proof.
  intros Ng Nc. unfold env_of. rewrite map_app, map_map. cbn [fst]. apply NoDup_app_intro.
  - exact Nc.
  - apply NoDup_map_filter; exact Ng.
  - intros x Ix I. apply in_map_iff in I as [e [E I]]. apply filter_In in I as [_ Q]. subst x.
    apply negb_true_iff in Q. apply (kmem_In string String.eqb string_eqb_eq') in Ix. congruence.
Qed.

Lemma var_graph_nodes w c : map fst (var_graph w c) = map fst (env_of w c).
Proof. unfold var_graph. rewrite map_map. reflexivity. Qed.

Lemma var_graph_closed w c : closed_graph (var_graph w c).
Proof.
  intros v rs u I Iu. rewrite var_graph_nodes. unfold var_graph in I. apply in_map_iff in I as [e [E Ie]].
  inversion E; subst. apply filter_In in Iu as [_ M]. apply (kmem_In string String.eqb string_eqb_eq') in M. exact M.
Qed.

Lemma var_graph_edge w c u v : edge (var_graph w c) u v -> var_edge w c u v.
Proof.
  intros [rs [I Iu]]. unfold var_graph in I. apply in_map_iff in I as [[v' rs'] [E Ie]]. cbn in E. inversion E; subst.
  apply filter_In in Iu as [Iu _]. exists rs'. split; assumption.
Qed.

Lemma gvar_graph_nodes w : map fst (gvar_graph w) = map fst (w_gvars w).
Proof. unfold gvar_graph. rewrite map_map. reflexivity. Qed.

Lemma gvar_graph_closed w : closed_graph (gvar_graph w).
Proof.
  intros v rs u I Iu. rewrite gvar_graph_nodes. unfold gvar_graph in I. apply in_map_iff in I as [e [E Ie]].
  inversion E; subst. apply filter_In in Iu as [_ M]. apply (kmem_In string String.eqb string_eqb_eq') in M. exact M.
Qed.

(* ------------------------------------------------------------------ accept is EXACTLY the structural predicate *)
(* variable tables are dictionaries: no name twice (what a YAML/Python mapping guarantees) *)
Definition dicts_ok (w : wf) : Prop :=
  NoDup (map fst (w_gvars w)) /\ forall c, In c (w_comps w) -> NoDup (map fst (c_vars c)).

Definition structurally_ok (cs : schema) (w : wf) : Prop :=
  NoDup (ids w) /\
  (forall c r, In c (w_comps w) -> In r (c_refs c) -> exists c', In c' (w_comps w) /\ c_id c' = r) /\
  (forall u, ~ clos_trans cid (wedge w) u u) /\
  (forall c, In c (w_comps w) -> vars_resolvable w c) /\
  (forall c, In c (w_comps w) -> doc_hard_errs cs (c_doc c) = []) /\
  stages_ok w = true /\
  (forall x, ~ clos_trans string (edge (gvar_graph w)) x x).

Theorem accept_exact cs w : dicts_ok w -> (accept cs w = true <-> structurally_ok cs w).
Proof.
  intros [Dg Dc]. split.
  - intros A. destruct (accept_sound cs w A) as [H1 [H2 [H3 [H4 H5]]]].
    repeat (split; [assumption|]).
    unfold accept in A. apply andb_prop in A as [A G]. apply andb_prop in A as [_ S].
    split; [exact S|]. apply (acyclic_b_sound string String.eqb string_eqb_eq'). exact G.
  - intros [H1 [H2 [H3 [H4 [H5 [H6 H7]]]]]].
    assert (U : uniq cid_eqb (ids w) = true) by (apply (NoDup_uniq cid cid_eqb cid_eqb_eq); exact H1).
    assert (R : refs_exist w = true).
    { unfold refs_exist. apply forallb_forall. intros c Ic. apply forallb_forall. intros r Ir.
      apply (kmem_In cid cid_eqb cid_eqb_eq). destruct (H2 c r Ic Ir) as [c' [I' E]]. rewrite <- E.
      unfold ids. apply in_map. exact I'. }
    assert (P1 : forallb (schema_ok cs) (w_comps w) = true).
    { apply forallb_forall. intros c Ic. unfold schema_ok. rewrite (H5 c Ic). reflexivity. }
    assert (P4 : acyclic_b cid_eqb (graph_of w) = true) by (apply cycle_check_exact; assumption).
    assert (P5 : forallb (fun c => vars_defined w c && vars_acyclic w c) (w_comps w) = true).
    { apply forallb_forall. intros c Ic. destruct (H4 c Ic) as [V1 [V2 V3]].
      apply andb_true_intro; split.
      * unfold vars_defined. apply andb_true_intro; split.
        -- apply forallb_forall. intros u Iu. apply (kmem_In string String.eqb string_eqb_eq'). apply V1; exact Iu.
        -- apply forallb_forall. intros [n rs] Ie. apply forallb_forall. intros u Iu.
           apply (kmem_In string String.eqb string_eqb_eq'). eapply V2; eassumption.
      * unfold vars_acyclic. apply (acyclic_b_complete string String.eqb string_eqb_eq').
        -- rewrite var_graph_nodes. apply env_names_nodup; [exact Dg | apply Dc; exact Ic].
        -- apply var_graph_closed.
        -- intros x C. apply (V3 x). eapply clos_trans_mono; [|exact C]. apply var_graph_edge. }
    assert (P7 : gvars_acyclic w = true).
    { unfold gvars_acyclic. apply (acyclic_b_complete string String.eqb string_eqb_eq').
      * rewrite gvar_graph_nodes. exact Dg.
      * apply gvar_graph_closed.
      * exact H7. }
    unfold accept. rewrite P1, U, R, P4, P5, H6, P7. reflexivity.
Qed.

(* a rejected workflow has one of the defects: nothing else makes the model reject *)
Corollary reject_has_defect cs w : dicts_ok w -> accept cs w = false -> ~ structurally_ok cs w.
Proof. intros D F S. apply (accept_exact cs w D) in S. congruence. Qed.

(* ------------------------------------------------------------------ the hypotheses of completeness are necessary *)
Lemma ct_first {A} (R : A -> A -> Prop) x y : clos_trans A R x y -> exists z, R x z.
Proof. induction 1 as [x y H | x y z _ IH1 _ _]; [exists y; exact H | exact IH1]. Qed.

Lemma ct_last {A} (R : A -> A -> Prop) x y : clos_trans A R x y -> exists z, R z y.
Proof. induction 1 as [x y H | x y z _ _ _ IH2]; [exists x; exact H | exact IH2]. Qed.

Definition g_dup : list (string * list string) := [("a", []); ("a", [])].
Definition g_dangling : list (string * list string) := [("a", ["b"])].

Lemma needs_distinct :
  closed_graph g_dup /\ (forall u, ~ clos_trans string (edge g_dup) u u) /\ acyclic_b String.eqb g_dup = false.
Proof.
  split; [|split; [|reflexivity]].
  - intros v rs u I Iu. cbn in I. destruct I as [E | [E | []]]; inversion E; subst; destruct Iu.
  - intros u C. apply ct_first in C as [z [rs [I Iu]]].
    cbn in I. destruct I as [E | [E | []]]; inversion E; subst; destruct Iu.
Qed.

Lemma needs_closed :
  NoDup (map fst g_dangling) /\ (forall u, ~ clos_trans string (edge g_dangling) u u) /\
  acyclic_b String.eqb g_dangling = false.
Proof.
  split; [|split; [|reflexivity]].
  - cbn. constructor; [intros [] | constructor].
  - intros u C. destruct (ct_first _ _ _ C) as [z [rs [I Iu]]]. destruct (ct_last _ _ _ C) as [z' [rs' [I' _]]].
    cbn in I, I'. destruct I as [E | []]. destruct I' as [E' | []]. inversion E; subst. inversion E'; subst.
    cbn in Iu. destruct Iu as [Iu | []]. discriminate.
Qed.

(* a variable table with one name twice is not a dictionary: the model then rejects although nothing is wrong *)
Definition w_dupvar : wf := mkWf [("g", []); ("g", [])] [].

Lemma needs_dicts : structurally_ok (SPred PTrue) w_dupvar /\ accept (SPred PTrue) w_dupvar = false.
Proof.
  split; [|reflexivity]. unfold structurally_ok. cbn.
  split; [constructor|]. split; [intros c r []|]. split.
  - intros u C. apply ct_first in C as [z [c [[] _]]].
  - split; [intros c []|]. split; [intros c []|]. split; [reflexivity|].
    intros x C. apply ct_first in C as [z [rs [I Iu]]].
    cbn in I. destruct I as [E | [E | []]]; inversion E; subst; destruct Iu.
Qed.
