(* C11 — scalar-for-scalar WrongType faults over the REGENERATED schema and the conversion table of
   convert_component_types: which wrongly typed scalars are rejected (for every float / every non-numeric string /
   every non-empty dictionary), and which are coerced by design (the explicit exception list). *)
From Coq Require Import String Ascii List Bool ZArith NArith Relations.
Import ListNotations.
Require Import V.Lib.PyStr V.Valid.Model V.Valid.Proofs V.Valid.Kahn V.Valid.Generated V.Valid.GenProofs.
Open Scope string_scope.
Open Scope list_scope.

(* the table modelled in Model.v is the table of the running code *)
Lemma expected_types_current : expected_types_code = expected_types.
Proof. reflexivity. Qed.

Definition conv_eqb (a b : conv) : bool :=
  match a, b with
  | CStr, CStr | CInt, CInt | CFloat, CFloat | CBool, CBool | CStrBool, CStrBool | COptInt, COptInt
  | CMemory, CMemory | CQos, CQos | CDictT, CDictT => true
  | _, _ => false
  end.

Lemma conv_eqb_eq a b : conv_eqb a b = true -> a = b.
Proof. destruct a, b; cbn; intros H; try discriminate; reflexivity. Qed.

(* the converter that the table names for the option at path p *)
Definition leaf_conv (p : list pk) : option conv :=
  match tree_at p (Some expected_types) with Some (CLeaf c) => Some c | _ => None end.

Definition conv_in (cs : list conv) (p : list pk) : bool :=
  match leaf_conv p with Some c => existsb (conv_eqb c) cs | None => false end.

Definition int_options : list (list pk) := filter (conv_in [CInt; COptInt]) option_leaves.
Definition float_options : list (list pk) := filter (conv_in [CFloat]) option_leaves.
Definition bool_options : list (list pk) := filter (conv_in [CBool; CStrBool]) option_leaves.
Definition str_options : list (list pk) := filter (conv_in [CStr]) option_leaves.
Definition converted_options : list (list pk) :=
  filter (fun p => match leaf_conv p with Some _ => true | None => false end) option_leaves.

Definition float_admitting (r : string) : list (list pk) :=
  filter (fun p => negb (wrong_rejected component_full p (VFlt r))) option_leaves.
Definition empty_dict_admitting : list (list pk) :=
  filter (fun p => negb (wrong_rejected component_full p (VDict []))) option_leaves.

(* ------------------------------------------------------------------ the classes of options, explicitly
   (re-checked against the regenerated option list and the table of the running code on every run) *)
Lemma int_options_exact :
  map (map pk_str) int_options
  = [["workflowAttributes"; "replicate"]; ["workflowAttributes"; "repeatInterval"];
     ["workflowAttributes"; "repeatRetries"]; ["workflowAttributes"; "maxRestarts"];
     ["resourceManager"; "kubernetes"; "gracePeriod"]; ["resourceRequest"; "numberProcesses"];
     ["resourceRequest"; "numberThreads"]; ["resourceRequest"; "ranksPerNode"];
     ["resourceRequest"; "threadsPerCore"]; ["resourceRequest"; "gpus"]].
Proof. vm_compute. reflexivity. Qed.

Lemma float_options_exact :
  map (map pk_str) float_options
  = [["workflowAttributes"; "optimizer"; "exploitChance"]; ["workflowAttributes"; "optimizer"; "exploitTarget"];
     ["workflowAttributes"; "optimizer"; "exploitTargetLow"]; ["workflowAttributes"; "optimizer"; "exploitTargetHigh"];
     ["resourceManager"; "config"; "walltime"]; ["resourceManager"; "lsf"; "statusRequestInterval"];
     ["resourceManager"; "kubernetes"; "cpuUnitsPerCore"]].
Proof. vm_compute. reflexivity. Qed.

Lemma bool_options_exact :
  map (map pk_str) bool_options
  = [["workflowAttributes"; "aggregate"]; ["workflowAttributes"; "isMigratable"]; ["workflowAttributes"; "isMigrated"];
     ["workflowAttributes"; "isRepeat"]; ["workflowAttributes"; "memoization"; "disable"; "strong"];
     ["workflowAttributes"; "memoization"; "disable"; "fuzzy"]; ["workflowAttributes"; "optimizer"; "disable"];
     ["command"; "resolvePath"]].
Proof. vm_compute. reflexivity. Qed.

(* the options that admit a float - ANY float - are exactly these nine: the seven converted with float(), the
   repeat interval, and the memory request (whose schema is memory_to_bytes) *)
Lemma float_admitting_exact r :
  map (map pk_str) (float_admitting r)
  = [["workflowAttributes"; "repeatInterval"];
     ["workflowAttributes"; "optimizer"; "exploitChance"]; ["workflowAttributes"; "optimizer"; "exploitTarget"];
     ["workflowAttributes"; "optimizer"; "exploitTargetLow"]; ["workflowAttributes"; "optimizer"; "exploitTargetHigh"];
     ["resourceManager"; "config"; "walltime"]; ["resourceManager"; "lsf"; "statusRequestInterval"];
     ["resourceManager"; "kubernetes"; "cpuUnitsPerCore"]; ["resourceRequest"; "memory"]].
Proof. vm_compute. reflexivity. Qed.

Lemma empty_dict_admitting_exact :
  map (map pk_str) empty_dict_admitting = [["resourceManager"; "kubernetes"; "podSpec"]].
Proof. vm_compute. reflexivity. Qed.

Fixpoint path_eqb (a b : list pk) : bool :=
  match a, b with
  | [], [] => true
  | x :: r, y :: r' => pk_eqb x y && path_eqb r r'
  | _, _ => false
  end.

Lemma path_eqb_eq a : forall b, path_eqb a b = true -> a = b.
Proof.
  induction a as [|x r IH]; intros [|y r'] H; cbn in H; try discriminate; [reflexivity|].
  apply andb_prop in H as [H1 H2]. apply pk_eqb_eq in H1. subst. f_equal. apply IH; exact H2.
Qed.

Definition p_repeat_interval : list pk := [KS "workflowAttributes"; KS "repeatInterval"].

(* ------------------------------------------------------------------ a float - whatever its value: 2.5, 0.5 but also
   600.0 - given to an option that is converted with int() is rejected, the repeat interval (whose schema also admits
   a float) excepted: convert_component_types leaves a float alone and the schema of the option reports it *)
Lemma float_for_int_rejected r p :
  In p int_options -> p <> p_repeat_interval -> wrong_rejected component_full p (VFlt r) = true.
Proof.
  intros I N.
  assert (F : forallb (fun q => path_eqb q p_repeat_interval || wrong_rejected component_full q (VFlt r)) int_options = true)
    by (vm_compute; reflexivity).
  rewrite forallb_forall in F. specialize (F _ I). apply orb_prop in F as [F | F]; [|exact F].
  apply path_eqb_eq in F. contradiction.
Qed.

(* the same for the options converted with to_bool / str_to_bool and for those converted with str() *)
Lemma float_for_bool_rejected r p : In p bool_options -> wrong_rejected component_full p (VFlt r) = true.
Proof.
  intros I.
  assert (F : forallb (fun q => wrong_rejected component_full q (VFlt r)) bool_options = true) by (vm_compute; reflexivity).
  rewrite forallb_forall in F. exact (F _ I).
Qed.

Lemma float_for_str_rejected r p : In p str_options -> wrong_rejected component_full p (VFlt r) = true.
Proof.
  intros I.
  assert (F : forallb (fun q => wrong_rejected component_full q (VFlt r)) str_options = true) by (vm_compute; reflexivity).
  rewrite forallb_forall in F. exact (F _ I).
Qed.

(* ------------------------------------------------------------------ strings and dictionaries: the conversion raises *)
Lemma conv_in_leaf cs p : conv_in cs p = true -> exists c, tree_at p (Some expected_types) = Some (CLeaf c) /\ In c cs.
Proof.
  unfold conv_in, leaf_conv. destruct (tree_at p (Some expected_types)) as [[c|ch]|]; try discriminate.
  intros H. apply existsb_exists in H as [c' [I E]]. apply conv_eqb_eq in E. subst. exists c'. split; [reflexivity | exact I].
Qed.

Lemma conv_fails_rejected cs p x : conv_at p x = None -> wrong_rejected cs p x = true.
Proof. unfold wrong_rejected. intros ->. reflexivity. Qed.

Lemma in_filter {A} (f : A -> bool) l x : In x (filter f l) -> f x = true.
Proof. intros I. apply filter_In in I. exact (proj2 I). Qed.

Lemma in_int_options p : In p int_options -> exists c, tree_at p (Some expected_types) = Some (CLeaf c) /\ In c [CInt; COptInt].
Proof. unfold int_options. intros I. apply in_filter in I. apply conv_in_leaf in I. exact I. Qed.
Lemma in_float_options p : In p float_options -> tree_at p (Some expected_types) = Some (CLeaf CFloat).
Proof.
  unfold float_options. intros I. apply in_filter in I. apply conv_in_leaf in I as [c [T [<- | []]]]. exact T.
Qed.
Lemma in_bool_options p : In p bool_options -> exists c, tree_at p (Some expected_types) = Some (CLeaf c) /\ In c [CBool; CStrBool].
Proof. unfold bool_options. intros I. apply in_filter in I. apply conv_in_leaf in I. exact I. Qed.
Lemma in_str_options p : In p str_options -> tree_at p (Some expected_types) = Some (CLeaf CStr).
Proof.
  unfold str_options. intros I. apply in_filter in I. apply conv_in_leaf in I as [c [T [<- | []]]]. exact T.
Qed.

(* the converters, on their own *)
Lemma conv_int_str c s : In c [CInt; COptInt] -> convert (Some (CLeaf c)) (VStr s) = option_map VInt (py_int s).
Proof. intros [<- | [<- | []]]; reflexivity. Qed.
Lemma conv_int_bool c (b : bool) : In c [CInt; COptInt] -> convert (Some (CLeaf c)) (VBool b) = Some (VInt (if b then 1 else 0)).
Proof. intros [<- | [<- | []]]; reflexivity. Qed.
Lemma conv_int_int c z : In c [CInt; COptInt] -> convert (Some (CLeaf c)) (VInt z) = Some (VInt z).
Proof. intros [<- | [<- | []]]; reflexivity. Qed.
Lemma conv_bool_str c s : In c [CBool; CStrBool] -> convert (Some (CLeaf c)) (VStr s) = option_map VBool (str_to_bool s).
Proof. intros [<- | [<- | []]]; reflexivity. Qed.
Lemma conv_bool_bool c b : In c [CBool; CStrBool] -> convert (Some (CLeaf c)) (VBool b) = Some (VBool b).
Proof. intros [<- | [<- | []]]; reflexivity. Qed.
Lemma conv_float_str s : convert (Some (CLeaf CFloat)) (VStr s) = if py_float s then Some (VFlt s) else None.
Proof. reflexivity. Qed.

(* for ANY schema *)
Lemma string_for_int_rejected cs s p : In p int_options -> py_int s = None -> wrong_rejected cs p (VStr s) = true.
Proof.
  intros I H. apply in_int_options in I as [c [T Ic]].
  apply conv_fails_rejected. unfold conv_at. rewrite T, (conv_int_str c s Ic), H. reflexivity.
Qed.

Lemma string_for_float_rejected cs s p : In p float_options -> py_float s = false -> wrong_rejected cs p (VStr s) = true.
Proof.
  intros I H. apply in_float_options in I.
  apply conv_fails_rejected. unfold conv_at. rewrite I, conv_float_str, H. reflexivity.
Qed.

Lemma string_for_bool_rejected cs s p : In p bool_options -> str_to_bool s = None -> wrong_rejected cs p (VStr s) = true.
Proof.
  intros I H. apply in_bool_options in I as [c [T Ic]].
  apply conv_fails_rejected. unfold conv_at. rewrite T, (conv_bool_str c s Ic), H. reflexivity.
Qed.

(* a non-empty dictionary where the table names a converter other than `dict` *)
Lemma conv_dict_fails c k x m : c <> CDictT -> convert (Some (CLeaf c)) (VDict ((k, x) :: m)) = None.
Proof. intros N. destruct c; try reflexivity. contradiction. Qed.

Lemma dict_for_scalar_rejected cs k x m p c :
  tree_at p (Some expected_types) = Some (CLeaf c) -> c <> CDictT -> wrong_rejected cs p (VDict ((k, x) :: m)) = true.
Proof.
  intros T N. apply conv_fails_rejected. unfold conv_at. rewrite T. apply conv_dict_fails. exact N.
Qed.

(* ... and the empty dictionary is left alone, then reported by the schema of every option but podSpec *)
Lemma empty_dict_rejected p :
  In p option_leaves -> p <> [KS "resourceManager"; KS "kubernetes"; KS "podSpec"] ->
  wrong_rejected component_full p (VDict []) = true.
Proof.
  intros I N.
  assert (F : forallb (fun q => path_eqb q [KS "resourceManager"; KS "kubernetes"; KS "podSpec"]
                                 || wrong_rejected component_full q (VDict [])) option_leaves = true)
    by (vm_compute; reflexivity).
  rewrite forallb_forall in F. specialize (F _ I). apply orb_prop in F as [F | F]; [|exact F].
  apply path_eqb_eq in F. contradiction.
Qed.

(* an int given to the option converted with str_to_bool (command.resolvePath): an int has no .lower() *)
Lemma int_for_str_to_bool_rejected cs z :
  wrong_rejected cs [KS "command"; KS "resolvePath"] (VInt z) = true.
Proof. reflexivity. Qed.

(* ------------------------------------------------------------------ the scalars that ARE coerced (the explicit
   exception list: for these the option is not "wrongly typed" for the loader; the schema then judges the result) *)
Lemma coerced_int p : In p int_options ->
  (forall s z, py_int s = Some z -> conv_at p (VStr s) = Some (VInt z)) /\
  (forall b : bool, conv_at p (VBool b) = Some (VInt (if b then 1 else 0))) /\
  (forall z, conv_at p (VInt z) = Some (VInt z)).
Proof.
  intros I. apply in_int_options in I as [c [T Ic]]. unfold conv_at. rewrite T. split; [|split].
  - intros s z H. rewrite (conv_int_str c s Ic), H. reflexivity.
  - intros b. apply conv_int_bool; exact Ic.
  - intros z. apply conv_int_int; exact Ic.
Qed.

Lemma coerced_float p : In p float_options ->
  (forall s, py_float s = true -> conv_at p (VStr s) = Some (VFlt s)) /\
  (forall z, conv_at p (VInt z) = Some (VFlt (zdec z ++ ".0"))) /\
  (forall b : bool, conv_at p (VBool b) = Some (VFlt (if b then "1.0" else "0.0"))).
Proof.
  intros I. apply in_float_options in I. unfold conv_at. rewrite I. split; [|split].
  - intros s H. rewrite conv_float_str, H. reflexivity.
  - reflexivity.
  - reflexivity.
Qed.

Definition p_resolve_path : list pk := [KS "command"; KS "resolvePath"].

Lemma bool_options_to_bool p : In p bool_options -> p <> p_resolve_path -> tree_at p (Some expected_types) = Some (CLeaf CBool).
Proof.
  intros I N.
  assert (F : forallb (fun q => path_eqb q p_resolve_path || conv_in [CBool] q) bool_options = true)
    by (vm_compute; reflexivity).
  rewrite forallb_forall in F. specialize (F _ I). apply orb_prop in F as [F | F].
  - apply path_eqb_eq in F. contradiction.
  - apply conv_in_leaf in F as [c [T [<- | []]]]. exact T.
Qed.

Lemma coerced_bool p : In p bool_options ->
  (forall s b, str_to_bool s = Some b -> conv_at p (VStr s) = Some (VBool b)) /\
  (forall b, conv_at p (VBool b) = Some (VBool b)) /\
  (p <> p_resolve_path -> forall z, conv_at p (VInt z) = Some (VBool (negb (Z.eqb z 0)))).
Proof.
  intros I. split; [|split].
  - apply in_bool_options in I as [c [T Ic]]. intros s b H. unfold conv_at. rewrite T, (conv_bool_str c s Ic), H. reflexivity.
  - apply in_bool_options in I as [c [T Ic]]. intros b. unfold conv_at. rewrite T. apply conv_bool_bool; exact Ic.
  - intros N z. unfold conv_at. rewrite (bool_options_to_bool p I N). reflexivity.
Qed.

Lemma coerced_str p : In p str_options ->
  (forall z, conv_at p (VInt z) = Some (VStr (zdec z))) /\
  (forall b : bool, conv_at p (VBool b) = Some (VStr (if b then "True" else "False"))) /\
  (forall s, conv_at p (VStr s) = Some (VStr s)).
Proof.
  intros I. apply in_str_options in I. unfold conv_at. rewrite I. repeat split; reflexivity.
Qed.

(* None, a float and a list are never converted, at any position, by any table *)
Lemma never_converted t :
  convert t VNone = Some VNone /\ (forall r, convert t (VFlt r) = Some (VFlt r)) /\
  (forall l, convert t (VList l) = Some (VList l)).
Proof. destruct t as [[c|ch]|]; repeat split; reflexivity. Qed.

(* ------------------------------------------------------------------ mutant level *)
Lemma sound_typed cs w : accept cs w = true ->
  forall c, In c (w_comps w) -> convert (Some expected_types) (c_doc c) = Some (c_doc c) ->
  hard_errs cs (c_doc c) "" = [].
Proof.
  intros A c Ic H. destruct (accept_sound cs w A) as [_ [_ [_ [_ S]]]]. specialize (S c Ic).
  unfold doc_hard_errs in S. rewrite H in S. exact S.
Qed.

(* every accepted workflow, every component, every option converted with int() but the repeat interval, EVERY float *)
Lemma float_for_int_option_rejected w i c p k r m :
  accept component_full w = true -> nth_error (w_comps w) i = Some c -> pget p (c_doc c) = Some (VDict m) ->
  In (p ++ [k]) int_options -> p ++ [k] <> p_repeat_interval ->
  accept component_full (mutate (WrongType i p k (VFlt r)) w) = false.
Proof.
  intros A Hn Hg I N. eapply complete_wrong_scalar; [exact Hn | exact Hg |]. apply float_for_int_rejected; assumption.
Qed.

Lemma string_for_int_option_rejected w i c p k s m :
  accept component_full w = true -> nth_error (w_comps w) i = Some c -> pget p (c_doc c) = Some (VDict m) ->
  In (p ++ [k]) int_options -> py_int s = None ->
  accept component_full (mutate (WrongType i p k (VStr s)) w) = false.
Proof.
  intros A Hn Hg I N. eapply complete_wrong_scalar; [exact Hn | exact Hg |]. apply string_for_int_rejected; assumption.
Qed.

Definition ex_p_nproc : list pk := [KS "resourceRequest"; KS "numberProcesses"].
Lemma ex_nproc_int : In ex_p_nproc int_options.
Proof. vm_compute. tauto. Qed.
