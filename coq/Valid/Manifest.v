(* C11 — loading with a MANIFEST: which written references are judged as component references.
   (1) top_level: the top-level folder of a manifest key is its LEFT-MOST segment (a nested key a/b declares a, never b);
   (2) accept_man / accept_man_prim sound: every written reference of an accepted workflow names a component, or is a
       stage-less reference to the name of a top-level folder (manifest or special);
   (3) complete: a written reference that names no component and is not such a folder reference is refused by both
       loads - in particular the one named like the right-most segment of a nested manifest key. *)
From Coq Require Import String Ascii List Bool NArith Arith Lia.
Import ListNotations.
Require Import V.Lib.PyStr V.Valid.Model V.Valid.Proofs V.Valid.ManifestModel.
Open Scope string_scope.
Open Scope list_scope.

Lemma top_level_nested a b : no_sep a = true -> top_level (a ++ String "/"%char b) = a.
Proof.
  induction a as [|c a IH]; cbn; intros H.
  - reflexivity.
  - apply andb_prop in H as [H1 H2]. destruct (is_sep c); [discriminate|]. rewrite IH by exact H2. reflexivity.
Qed.

Lemma top_level_flat a : no_sep a = true -> top_level a = a.
Proof.
  induction a as [|c a IH]; cbn; intros H; [reflexivity|].
  apply andb_prop in H as [H1 H2]. destruct (is_sep c); [discriminate|]. rewrite IH by exact H2. reflexivity.
Qed.

Lemma top_level_no_sep k : no_sep (top_level k) = true.
Proof. induction k as [|c k IH]; cbn; [reflexivity|]. destruct (is_sep c) eqn:E; cbn; [reflexivity|]. rewrite E, IH. reflexivity. Qed.

Lemma string_eqb_eq a b : String.eqb a b = true <-> a = b.
Proof. apply String.eqb_eq. Qed.

Lemma map2_ids {B} (f : comp -> B -> comp) : (forall c b, c_id (f c b) = c_id c) ->
  forall (l : list comp) (m : list B), length m = length l -> map c_id (map2 f l m) = map c_id l.
Proof.
  intros Hf. induction l as [|x l IH]; intros [|y m] L; cbn in *; try discriminate; [reflexivity|].
  rewrite Hf, IH by lia. reflexivity.
Qed.

Lemma map2_nth {A B C} (f : A -> B -> C) : forall i (l : list A) (m : list B) x y,
  nth_error l i = Some x -> nth_error m i = Some y -> nth_error (map2 f l m) i = Some (f x y).
Proof.
  induction i as [|i IH]; intros [|a l] [|b m] x y H1 H2; cbn in *; try discriminate.
  - inversion H1; inversion H2; reflexivity.
  - apply IH; assumption.
Qed.

Lemma ids_resolve keys w wr : length wr = length (w_comps w) -> ids (resolve_refs keys w wr) = ids w.
Proof. intros L. unfold ids, resolve_refs. cbn. apply map2_ids; [reflexivity | exact L]. Qed.

(* what "every written reference is fine" means *)
Definition wref_ok (keys : list string) (w : wf) (br : wref) : Prop :=
  In (snd br) (ids w) \/ (fst br = true /\ In (snd (snd br)) (folders keys)).

Lemma refs_exist_written keys w wr :
  length wr = length (w_comps w) -> refs_exist (resolve_refs keys w wr) = true ->
  forall i c brs, nth_error (w_comps w) i = Some c -> nth_error wr i = Some brs ->
  forall br, In br brs -> wref_ok keys w br.
Proof.
  intros L R i c brs Hc Hb br Ibr.
  unfold refs_exist in R. rewrite ids_resolve in R by exact L.
  rewrite forallb_forall in R.
  pose proof (map2_nth (fun c brs => set_refs (fun _ => component_refs (folders keys) (ids w) brs) c)
                       i (w_comps w) wr c brs Hc Hb) as N.
  apply nth_error_In in N. specialize (R _ N). cbn in R. rewrite forallb_forall in R.
  unfold wref_ok. destruct (is_direct (folders keys) (ids w) br) eqn:D.
  - right. unfold is_direct in D. apply andb_prop in D as [D D3]. apply andb_prop in D as [D1 D2].
    split; [exact D2|]. apply (kmem_In string String.eqb string_eqb_eq). exact D3.
  - left. apply (kmem_In cid cid_eqb cid_eqb_eq). apply R. unfold component_refs.
    apply in_map. apply filter_In. split; [exact Ibr | rewrite D; reflexivity].
Qed.

Section Man.
  Variable cs : schema.

  Lemma accept_refs_exist w : accept cs w = true -> refs_exist w = true.
  Proof.
    unfold accept. intros H.
    apply andb_prop in H as [H _]. apply andb_prop in H as [H _]. apply andb_prop in H as [H _].
    apply andb_prop in H as [H _]. apply andb_prop in H as [_ H]. exact H.
  Qed.

  Lemma accept_prim_refs_exist w : accept_prim cs w = true -> refs_exist w = true.
  Proof.
    unfold accept_prim. intros H. apply andb_prop in H as [H _]. apply andb_prop in H as [_ H]. exact H.
  Qed.

  Theorem man_sound keys w wr : accept_man cs keys w wr = true ->
    accept cs (resolve_refs keys w wr) = true /\
    forall i c brs, nth_error (w_comps w) i = Some c -> nth_error wr i = Some brs ->
    forall br, In br brs -> wref_ok keys w br.
  Proof.
    unfold accept_man. intros H. apply andb_prop in H as [L A]. apply Nat.eqb_eq in L.
    split; [exact A|]. apply refs_exist_written; [exact L | apply accept_refs_exist; exact A].
  Qed.

  Theorem man_prim_sound keys w wr : accept_man_prim cs keys w wr = true ->
    forall i c brs, nth_error (w_comps w) i = Some c -> nth_error wr i = Some brs ->
    forall br, In br brs -> wref_ok keys w br.
  Proof.
    unfold accept_man_prim. intros H. apply andb_prop in H as [L A]. apply Nat.eqb_eq in L.
    apply refs_exist_written; [exact L | apply accept_prim_refs_exist; exact A].
  Qed.

  (* a written reference that names no component and is not a stage-less reference to a folder: both loads refuse *)
  Definition dangling (keys : list string) (w : wf) (br : wref) : Prop :=
    ~ In (snd br) (ids w) /\ (fst br = false \/ ~ In (snd (snd br)) (folders keys)).

  Lemma dangling_not_ok keys w br : dangling keys w br -> ~ wref_ok keys w br.
  Proof.
    intros [D1 D2] [O|[O1 O2]]; [exact (D1 O)|]. destruct D2 as [D2|D2]; [congruence | exact (D2 O2)].
  Qed.

  Theorem man_dangling_rejected keys w wr i c brs br :
    nth_error (w_comps w) i = Some c -> nth_error wr i = Some brs -> In br brs -> dangling keys w br ->
    accept_man cs keys w wr = false /\ accept_man_prim cs keys w wr = false.
  Proof.
    intros Hc Hb Ib D. split.
    - destruct (accept_man cs keys w wr) eqn:A; [|reflexivity]. exfalso.
      apply man_sound in A as [_ A]. exact (dangling_not_ok _ _ _ D (A _ _ _ Hc Hb _ Ib)).
    - destruct (accept_man_prim cs keys w wr) eqn:A; [|reflexivity]. exfalso.
      exact (dangling_not_ok _ _ _ D (man_prim_sound _ _ _ A _ _ _ Hc Hb _ Ib)).
  Qed.

  (* the boundary the manifest hides: the only key of the manifest is NESTED (top/leaf); a reference named like the
     leaf - written without a stage, naming no component, the leaf being neither the top segment nor a special folder -
     is refused.  (With the key `leaf` or `leaf/sub` the same reference is a folder reference: man_folder_reference.) *)
  Theorem man_nested_leaf_rejected top leaf w wr i c brs st :
    no_sep top = true -> leaf <> top -> ~ In leaf special_folders ->
    nth_error (w_comps w) i = Some c -> nth_error wr i = Some brs -> In (true, (st, leaf)) brs ->
    ~ In (st, leaf) (ids w) ->
    accept_man cs [(top ++ String "/"%char leaf)%string] w wr = false /\
    accept_man_prim cs [(top ++ String "/"%char leaf)%string] w wr = false.
  Proof.
    intros Ht Ne Ns Hc Hb Ib Ni. eapply man_dangling_rejected; eauto.
    split; [exact Ni|]. right. cbn [fst snd]. unfold folders, top_level_folders. cbn [map app].
    rewrite top_level_nested by exact Ht. intros [E|I]; [exact (Ne (eq_sym E)) | exact (Ns I)].
  Qed.

  (* the control: references that ARE folder references do not count against a workflow - removing them from what
     is written changes nothing *)
  Theorem man_folder_reference keys w (br : wref) :
    fst br = true -> In (snd (snd br)) (folders keys) -> ~ In (snd br) (ids w) ->
    is_direct (folders keys) (ids w) br = true.
  Proof.
    destruct br as [b r]. cbn [fst snd]. intros F I N. subst b. unfold is_direct. cbn [fst snd].
    destruct (kmem cid_eqb r (ids w)) eqn:K.
    - exfalso. apply N. apply (kmem_In cid cid_eqb cid_eqb_eq). exact K.
    - cbn. apply (kmem_In string String.eqb string_eqb_eq). exact I.
  Qed.
End Man.
