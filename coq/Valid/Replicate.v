(* C11 — replication preserves acyclicity.  A mirror of the expansion of coq/Repl (apply_replicate) on graphs with
   STRUCTURED node identifiers (component, replica index) instead of the textual "name ++ index" (the textual identifiers and
   their clashes - replica k of `sample` next to an authored `sample1` - are modelled in Model.expand_ids / accept_repl
   and proved in Valid/Prim.v): a replicated component becomes n
   copies, copy k consumes copy k of a replicated producer, a component that is not replicated (an aggregator, or
   one outside the replicated region) consumes ALL copies of a replicated producer.  The theorem holds for ANY
   assignment of replica counts, in particular the one propagate_replicate computes. *)
From Coq Require Import String Ascii List Bool ZArith NArith Arith Lia Relations.
Import ListNotations.
Require Import V.Lib.PyStr V.Valid.Model V.Valid.Proofs.
Open Scope string_scope.
Open Scope list_scope.

Section Hom.
  Variables (A B : Type) (R : A -> A -> Prop) (S : B -> B -> Prop) (h : B -> A).
  Hypothesis hom : forall u v, S u v -> R (h u) (h v).

  Lemma hom_path u v : clos_trans B S u v -> clos_trans A R (h u) (h v).
  Proof.
    induction 1 as [u v E | u v x _ IH1 _ IH2]; [apply t_step; apply hom; exact E | eapply t_trans; eassumption].
  Qed.

  (* a graph that maps edge-by-edge into an acyclic graph is acyclic *)
  Lemma hom_acyclic : (forall x, ~ clos_trans A R x x) -> forall y, ~ clos_trans B S y y.
  Proof. intros Ac y C. exact (Ac (h y) (hom_path y y C)). Qed.
End Hom.

Section Replicate.
  Variable K : Type.
  Definition rid : Type := (K * option N)%type.           (* (component, replica index) *)
  Variable cnt : K -> option N.                             (* Some n: the component is expanded into n copies *)

  Definition nseq (n : N) : list N := map N.of_nat (seq 0 (N.to_nat n)).

  (* what consumer copy [i] (None: a single, not replicated, node) consumes for its reference to [r] *)
  Definition expand_ref (i : option N) (r : K) : list rid :=
    match cnt r with
    | Some n => match i with
                | Some k => [(r, Some k)]
                | None => map (fun k => (r, Some k)) (nseq n)
                end
    | None => [(r, None)]
    end.

  Definition expand_comp (c : K * list K) : list (rid * list rid) :=
    match cnt (fst c) with
    | Some n => map (fun k => ((fst c, Some k), flat_map (expand_ref (Some k)) (snd c))) (nseq n)
    | None => [((fst c, None), flat_map (expand_ref None) (snd c))]
    end.

  Definition expand_graph (g : list (K * list K)) : list (rid * list rid) := flat_map expand_comp g.

  Lemma expand_ref_fst i r u : In u (expand_ref i r) -> fst u = r.
  Proof.
    unfold expand_ref. destruct (cnt r) as [n|].
    - destruct i as [k|].
      + intros [<- | []]. reflexivity.
      + intros I. apply in_map_iff in I as [k [<- _]]. reflexivity.
    - intros [<- | []]. reflexivity.
  Qed.

  (* every edge of the replicated graph lies over an edge of the component graph *)
  Lemma expand_edge g u v : edge (expand_graph g) u v -> edge g (fst u) (fst v).
  Proof.
    intros [rs [I Iu]]. unfold expand_graph in I. apply in_flat_map in I as [c [Ic I]].
    assert (X : fst v = fst c /\ exists i, rs = flat_map (expand_ref i) (snd c)).
    { unfold expand_comp in I. destruct (cnt (fst c)) as [n|].
      - apply in_map_iff in I as [k [E _]]. inversion E; subst. split; [reflexivity | eexists; reflexivity].
      - destruct I as [E | []]. inversion E; subst. split; [reflexivity | eexists; reflexivity]. }
    destruct X as [Ev [i ->]]. apply in_flat_map in Iu as [r [Ir Iu]]. apply expand_ref_fst in Iu.
    exists (snd c). split; [rewrite Ev; destruct c; exact Ic | rewrite Iu; exact Ir].
  Qed.

  Theorem replicate_acyclic g :
    (forall x, ~ clos_trans K (edge g) x x) -> forall y, ~ clos_trans rid (edge (expand_graph g)) y y.
  Proof. apply (hom_acyclic K rid (edge g) (edge (expand_graph g)) fst). apply expand_edge. Qed.
End Replicate.
Arguments expand_graph {K}. Arguments rid : clear implicits.

(* the expansion is not trivial: a replicated producer feeding a replicated consumer and an aggregator *)
Definition ex_cnt (c : cid) : option N := if cid_eqb c (1%N, "agg") then None else Some 2%N.
Definition ex_repl_graph : list (cid * list cid) :=
  [((0%N, "p"), []); ((0%N, "q"), [(0%N, "p")]); ((1%N, "agg"), [(0%N, "q"); (0%N, "p")])].

Lemma ex_repl_expansion :
  expand_graph ex_cnt ex_repl_graph =
  [(((0%N, "p"), Some 0%N), []); (((0%N, "p"), Some 1%N), []);
   (((0%N, "q"), Some 0%N), [((0%N, "p"), Some 0%N)]); (((0%N, "q"), Some 1%N), [((0%N, "p"), Some 1%N)]);
   (((1%N, "agg"), None), [((0%N, "q"), Some 0%N); ((0%N, "q"), Some 1%N); ((0%N, "p"), Some 0%N); ((0%N, "p"), Some 1%N)])].
Proof. vm_compute. reflexivity. Qed.

(* an accepted workflow, replicated with any replica counts, has no dependency cycle *)
Theorem accept_replicated_acyclic cs w (cnt : cid -> option N) :
  accept cs w = true -> forall y, ~ clos_trans (rid cid) (edge (expand_graph cnt (graph_of w))) y y.
Proof.
  intros A. apply replicate_acyclic. apply (acyclic_b_sound cid cid_eqb cid_eqb_eq).
  unfold accept in A. apply andb_prop in A as [A _]. apply andb_prop in A as [A _]. apply andb_prop in A as [A _].
  apply andb_prop in A as [_ A]. exact A.
Qed.
