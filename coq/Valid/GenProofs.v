(* C11 — facts about the REGENERATED schema (coq/Valid/Generated.v is rewritten from the running code on every
   check run, so these are re-checked against what FlowIR.type_flowir_component('full') says now). *)
From Coq Require Import String Ascii List Bool ZArith NArith Relations.
Import ListNotations.
Require Import V.Lib.PyStr V.Valid.Model V.Valid.Proofs V.Valid.Kahn V.Valid.Generated.
Open Scope string_scope.
Open Scope list_scope.

Definition section_rules (p : list pk) : option (list rule) :=
  match sub_at p component_full with Some s => dict_rules s | None => None end.

Definition section_keys (p : list pk) : list pk :=
  match section_rules p with Some rules => const_keys rules | None => [] end.

Definition section_closed (p : list pk) : bool :=
  match section_rules p with Some rules => closed_rules rules | None => false end.

(* every option section of default_component_structure() is, in the schema, a dictionary with constant keys only *)
Lemma sections_closed : forallb section_closed option_sections = true.
Proof. vm_compute. reflexivity. Qed.

Lemma unknown_key_regenerated p doc m k x lbl :
  In p option_sections -> pget p doc = Some (VDict m) -> In (k, x) m ->
  kmem pk_eqb k (section_keys p) = false ->
  In (EKeyUnknown (key_label (path_label lbl p) k)) (check component_full doc lbl).
Proof.
  intros Ip Hg Hin Hk.
  pose proof sections_closed as C. rewrite forallb_forall in C. specialize (C _ Ip).
  unfold section_closed, section_keys, section_rules in *.
  destruct (sub_at p component_full) as [s'|] eqn:Hs; [|discriminate].
  destruct (dict_rules s') as [rules|] eqn:D; [|discriminate].
  eapply schema_unknown_key; [exact Hs | exact D | exact Hg | exact Hin |].
  apply find_rule_closed; assumption.
Qed.

Definition leaf_rejects_list (p : list pk) : bool :=
  match sub_at p component_full with Some s => no_list s | None => false end.

Definition pk_str (k : pk) : string := pk_text k.

(* the options of default_component_structure() whose schema admits a list: exactly the list-valued ones *)
Lemma list_valued_options :
  map (map pk_str) (filter (fun p => negb (leaf_rejects_list p)) option_leaves)
  = [["references"]; ["workflowAttributes"; "shutdownOn"]; ["workflowAttributes"; "restartHookOn"];
     ["executors"; "pre"]; ["executors"; "main"]; ["executors"; "post"]].
Proof. vm_compute. reflexivity. Qed.

Lemma wrong_type_regenerated p doc l lbl :
  In p option_leaves -> leaf_rejects_list p = true -> pget p doc = Some (VList l) ->
  In (EValueInvalid (path_label lbl p)) (check component_full doc lbl).
Proof.
  intros _ R Hg. unfold leaf_rejects_list in R.
  destruct (sub_at p component_full) as [s'|] eqn:Hs; [|discriminate].
  eapply schema_wrong_type; eassumption.
Qed.

(* the defaults of the code satisfy the schema of the code but for the missing name *)
(* ------------------------------------------------------------------ a concrete workflow (non-vacuity) *)
Definition ex_doc (name : string) (stage : Z) (refs : list string) (extra : list (pk * pv)) : pv :=
  VDict ([(KS "name", VStr name); (KS "stage", VInt stage);
          (KS "command", VDict [(KS "executable", VStr "echo"); (KS "arguments", VStr "x")]);
          (KS "references", VList (map VStr refs))] ++ extra).

Definition ex_wf : wf :=
  mkWf [("g0", []); ("g1", ["g0"])]
       [mkComp 0 "a" [] ["g1"] [("lv", ["g0"])] (ex_doc "a" 0 [] [(KS "variables", VDict [(KS "lv", VStr "%(g0)s")])]);
        mkComp 0 "b" [(0%N, "a")] ["g0"] []
               (ex_doc "b" 0 ["stage0.a:ref"] [(KS "resourceRequest", VDict [(KS "numberProcesses", VInt 2)])]);
        mkComp 1 "c" [(0%N, "b"); (0%N, "a")] [] [] (ex_doc "c" 1 ["stage0.b:ref"; "stage0.a:ref"] [])].

(* the three CyclicVars instances of the non-vacuity example satisfy [applicable]; the variable tables of the example
   are dictionaries *)
Lemma ex_cyclic_applicable :
  applicable component_full (CyclicVars None "g0" "g1") ex_wf /\
  applicable component_full (CyclicVars None "g0" "lv") ex_wf /\
  applicable component_full (CyclicVars (Some 0) "lv" "lv") ex_wf /\
  dicts_ok ex_wf.
Proof.
  split; [|split; [|split]].
  - left. cbn. split; [auto|]. split; [auto|]. right. apply t_step. exists ["g0"]. cbn. auto.
  - right. eexists. exists []. split; [left; reflexivity|]. split; [cbn; auto|]. split; [|split].
    + cbn. intros [E | []]; discriminate.
    + reflexivity.
    + right. apply t_step. exists ["g0"]. cbn. auto.
  - eexists. exists ["g0"]. split; [reflexivity|]. split; [cbn; auto|]. left; reflexivity.
  - split.
    + cbn. repeat constructor; cbn; intuition discriminate.
    + intros c I. cbn in I. destruct I as [<- | [<- | [<- | []]]]; cbn; repeat constructor; cbn; intuition.
Qed.

(* two sibling components of stage 0 that both define `chunk` and derive `label` from it (the shape behind which a
   loader that shares the variable context between the components of a stage hides): used for RemoveCompVar *)
Definition ex_sib_vars (z : Z) : list (pk * pv) :=
  [(KS "variables", VDict [(KS "chunk", VInt z); (KS "label", VStr "part-%(chunk)s")])].

Definition ex_wf_sib : wf :=
  mkWf [("g0", [])]
       [mkComp 0 "a" [] ["label"] [("chunk", []); ("label", ["chunk"])] (ex_doc "a" 0 [] (ex_sib_vars 4));
        mkComp 0 "b" [] ["label"; "g0"] [("chunk", []); ("label", ["chunk"]); ("g0", [])] (ex_doc "b" 0 [] (ex_sib_vars 8));
        mkComp 1 "c" [(0%N, "a"); (0%N, "b")] [] [] (ex_doc "c" 1 ["stage0.a:ref"; "stage0.b:ref"] [])].

Lemma ex_remove_comp_var_applicable :
  applicable component_full (RemoveCompVar 0 "chunk") ex_wf_sib /\
  applicable component_full (RemoveCompVar 1 "chunk") ex_wf_sib /\
  applicable component_full (RemoveCompVar 0 "label") ex_wf_sib.
Proof.
  split; [|split].
  - eexists. split; [reflexivity|]. split; [cbn; intros [E | []]; discriminate|].
    right. exists "label", ["chunk"]. cbn. auto.
  - eexists. split; [reflexivity|]. split; [cbn; intros [E | []]; discriminate|].
    right. exists "label", ["chunk"]. cbn. auto.
  - eexists. split; [reflexivity|]. split; [cbn; intros [E | []]; discriminate|]. left. cbn. auto.
Qed.
