From Coq Require Import String List Bool.
Import ListNotations.
Require Import V.Valid.Model V.Valid.Proofs V.Valid.Generated.
Theorem C11_tmp : True. Proof. exact I. Qed.
Print Assumptions C11_tmp.
