(* C11 — A workflow that loads is structurally executable; a broken one is rejected.  Property theorems only.
   [component_full] is the schema regenerated from the running code (Valid/Generated.v). *)
From Coq Require Import String Ascii List Bool ZArith NArith Relations.
Import ListNotations.
Require Import V.Lib.PyStr V.Valid.Model V.Valid.Proofs V.Valid.Kahn V.Valid.Replicate V.Valid.Generated V.Valid.GenProofs.
Open Scope string_scope.

(* accepted => identifiers unique, every reference names a component, no dependency cycle (no path from a
   component to itself), every variable a component sees or uses is defined and not cyclic, no schema error *)
Theorem C11_sound : forall w, accept component_full w = true ->
  NoDup (ids w) /\
  (forall c r, In c (w_comps w) -> In r (c_refs c) -> exists c', In c' (w_comps w) /\ c_id c' = r) /\
  (forall u, ~ clos_trans cid (wedge w) u u) /\
  (forall c, In c (w_comps w) -> vars_resolvable w c) /\
  (forall c, In c (w_comps w) -> hard_errs component_full (c_doc c) "" = []).
Proof. exact (accept_sound component_full). Qed.
Print Assumptions C11_sound.

(* the topological-order check is sound for every graph: no path from a node to itself *)
Theorem C11_acyclic_check_sound : forall g : list (cid * list cid),
  acyclic_b cid_eqb g = true -> forall u, ~ clos_trans cid (edge g) u u.
Proof. exact (acyclic_b_sound cid cid_eqb cid_eqb_eq). Qed.
Print Assumptions C11_acyclic_check_sound.

(* ... and complete: for every finite graph with distinct node names whose edges start at nodes of the graph
   (both hypotheses are necessary: Refuted.v), "no node reaches itself" implies that the check accepts.
   Any node type with a decidable equality. *)
Theorem C11_acyclic_check_complete : forall (K : Type) (keqb : K -> K -> bool),
  (forall a b, keqb a b = true <-> a = b) ->
  forall g : list (K * list K),
  NoDup (map fst g) -> closed_graph g -> (forall u, ~ clos_trans K (edge g) u u) -> acyclic_b keqb g = true.
Proof. exact acyclic_b_complete. Qed.
Print Assumptions C11_acyclic_check_complete.

(* hence the checker's verdict IS acyclicity *)
Theorem C11_acyclic_check_correct : forall (K : Type) (keqb : K -> K -> bool),
  (forall a b, keqb a b = true <-> a = b) ->
  forall g : list (K * list K),
  NoDup (map fst g) -> closed_graph g ->
  (acyclic_b keqb g = true <-> forall u, ~ clos_trans K (edge g) u u).
Proof. exact acyclic_b_correct. Qed.
Print Assumptions C11_acyclic_check_correct.

(* on a workflow whose identifiers are distinct and whose references resolve (the two checks that precede it in
   [accept]) the cycle check accepts exactly when no component depends, directly or not, on itself *)
Theorem C11_cycle_check_exact : forall w,
  uniq cid_eqb (ids w) = true -> refs_exist w = true ->
  (acyclic_b cid_eqb (graph_of w) = true <-> forall u, ~ clos_trans cid (wedge w) u u).
Proof. exact cycle_check_exact. Qed.
Print Assumptions C11_cycle_check_exact.

(* the converse of C11_sound: [accept] is EXACTLY the structural predicate (identifiers unique, references
   resolve, no dependency cycle, variables defined and not cyclic per component and among the globals, no schema
   error, stage indices without a gap) - the model rejects for no other reason.  Variable tables are dictionaries
   (no name twice; necessary: Refuted.v) *)
Theorem C11_accept_exact : forall w, dicts_ok w ->
  (accept component_full w = true <-> structurally_ok component_full w).
Proof. exact (accept_exact component_full). Qed.
Print Assumptions C11_accept_exact.

(* replication preserves acyclicity, for every graph and every assignment of replica counts (structured replica
   identifiers: copy k consumes copy k of a replicated producer, a node that is not replicated consumes all copies) *)
Theorem C11_replication_preserves_acyclicity : forall (K : Type) (cnt : K -> option N) (g : list (K * list K)),
  (forall x, ~ clos_trans K (edge g) x x) ->
  forall y, ~ clos_trans (rid K) (edge (expand_graph cnt g)) y y.
Proof. exact replicate_acyclic. Qed.
Print Assumptions C11_replication_preserves_acyclicity.

(* so the expanded graph of an accepted workflow is acyclic whatever the replica counts are *)
Theorem C11_accepted_replicated_acyclic : forall w (cnt : cid -> option N),
  accept component_full w = true ->
  forall y, ~ clos_trans (rid cid) (edge (expand_graph cnt (graph_of w))) y y.
Proof. exact (accept_replicated_acyclic component_full). Qed.
Print Assumptions C11_accepted_replicated_acyclic.

(* every applicable single fault (8 constructors, any position; CyclicVars: a variable - global, or of one
   component - additionally mentions a variable that already depends on it) turns an accepted workflow into a
   rejected one *)
Theorem C11_complete : forall m w,
  accept component_full w = true -> applicable component_full m w -> accept component_full (mutate m w) = false.
Proof. exact (complete component_full). Qed.
Print Assumptions C11_complete.

(* the same for ANY schema (the interpreter never masks an error below a path of dictionary keys) *)
Theorem C11_complete_any_schema : forall cs m w,
  accept cs w = true -> applicable cs m w -> accept cs (mutate m w) = false.
Proof. exact complete. Qed.
Print Assumptions C11_complete_any_schema.

(* unknown key => a key-unknown class error at that position, for every schema/document/path *)
Theorem C11_schema_unknown_key_any : forall s v p s' rules m k x lbl,
  sub_at p s = Some s' -> dict_rules s' = Some rules -> pget p v = Some (VDict m) ->
  In (k, x) m -> find_rule rules k = None ->
  In (EKeyUnknown (key_label (path_label lbl p) k)) (check s v lbl).
Proof. exact schema_unknown_key. Qed.
Print Assumptions C11_schema_unknown_key_any.

(* over the regenerated component schema: in every option section a key that is not one of the section's options
   is reported as unknown, whatever else the document contains *)
Theorem C11_schema_unknown_key : forall p doc m k x lbl,
  In p option_sections -> pget p doc = Some (VDict m) -> In (k, x) m ->
  kmem pk_eqb k (section_keys p) = false ->
  In (EKeyUnknown (key_label (path_label lbl p) k)) (check component_full doc lbl).
Proof. exact unknown_key_regenerated. Qed.
Print Assumptions C11_schema_unknown_key.

(* wrong type => a value-invalid class error at that position: a list given to any option of the regenerated
   schema that is not list-valued ... *)
Theorem C11_schema_wrong_type : forall p doc l lbl,
  In p option_leaves -> leaf_rejects_list p = true -> pget p doc = Some (VList l) ->
  In (EValueInvalid (path_label lbl p)) (check component_full doc lbl).
Proof. exact wrong_type_regenerated. Qed.
Print Assumptions C11_schema_wrong_type.

(* ... and the list-valued options of the regenerated schema are exactly these six *)
Theorem C11_schema_list_valued_options :
  map (map pk_str) (filter (fun p => negb (leaf_rejects_list p)) option_leaves)
  = [["references"]; ["workflowAttributes"; "shutdownOn"]; ["workflowAttributes"; "restartHookOn"];
     ["executors"; "pre"]; ["executors"; "main"]; ["executors"; "post"]].
Proof. exact list_valued_options. Qed.
Print Assumptions C11_schema_list_valued_options.

Theorem C11_schema_wrong_type_any : forall s v p s' l lbl,
  sub_at p s = Some s' -> no_list s' = true -> pget p v = Some (VList l) ->
  In (EValueInvalid (path_label lbl p)) (check s v lbl).
Proof. exact schema_wrong_type. Qed.
Print Assumptions C11_schema_wrong_type_any.

(* non-vacuity: a three-component, two-stage workflow with variables is accepted by the regenerated schema and each
   of the eight faults (here: one position each; three for CyclicVars: among the globals, a global through a
   component variable, a component variable on itself) makes it rejected; the CyclicVars instances are applicable *)
Example C11_nonvacuous :
  accept component_full ex_wf = true /\
  map (fun m => accept component_full (mutate m ex_wf))
      [DropComponent 0; RenameRef 2 1 (0%N, "nx"); AddBackEdge 0 (1%N, "c"); DupName 1 0;
       UnknownKey 1 [KS "resourceRequest"] (KS "numberProcessez") (VInt 1);
       WrongType 1 [KS "resourceRequest"] (KS "numberProcesses") (VList [VInt 1]);
       RemoveVar "g0"; CyclicVars None "g0" "g1"; CyclicVars None "g0" "lv"; CyclicVars (Some 0) "lv" "lv"]
  = [false; false; false; false; false; false; false; false; false; false] /\
  reasons component_full (mutate (AddBackEdge 0 (1%N, "c")) ex_wf) = [4] /\
  reasons component_full (mutate (CyclicVars None "g0" "g1") ex_wf) = [5; 5] /\
  applicable component_full (CyclicVars None "g0" "g1") ex_wf /\
  applicable component_full (CyclicVars None "g0" "lv") ex_wf /\
  applicable component_full (CyclicVars (Some 0) "lv" "lv") ex_wf /\
  dicts_ok ex_wf /\
  length (expand_graph ex_cnt ex_repl_graph) = 5.
Proof.
  split; [vm_compute; reflexivity|]. split; [vm_compute; reflexivity|]. split; [vm_compute; reflexivity|].
  split; [vm_compute; reflexivity|].
  destruct ex_cyclic_applicable as [H1 [H2 [H3 H4]]]. repeat (split; [assumption|]). vm_compute. reflexivity.
Qed.
