(* C11 — A workflow that loads is structurally executable; a broken one is rejected.  Property theorems only.
   [component_full] is the schema regenerated from the running code (Valid/Generated.v). *)
From Coq Require Import String Ascii List Bool ZArith NArith Relations.
Import ListNotations.
Require Import V.Lib.PyStr V.Valid.Model V.Valid.Proofs V.Valid.Kahn V.Valid.Replicate V.Valid.Generated V.Valid.GenProofs
  V.Valid.Scalars V.Valid.Prim V.Valid.PrimEx V.Valid.ManifestModel V.Valid.Manifest V.Valid.ManifestEx.
Open Scope string_scope.

(* accepted => identifiers unique, every reference names a component, no dependency cycle (no path from a
   component to itself), every variable a component sees or uses is defined and not cyclic, no schema error *)
Theorem C11_sound : forall w, accept component_full w = true ->
  NoDup (ids w) /\
  (forall c r, In c (w_comps w) -> In r (c_refs c) -> exists c', In c' (w_comps w) /\ c_id c' = r) /\
  (forall u, ~ clos_trans cid (wedge w) u u) /\
  (forall c, In c (w_comps w) -> vars_resolvable w c) /\
  (forall c, In c (w_comps w) -> doc_hard_errs component_full (c_doc c) = []).
Proof. exact (accept_sound component_full). Qed.
Print Assumptions C11_sound.

(* ("no schema error" is judged on the document as convert_component_types converts it: [doc_hard_errs]; for a
   document that the conversion leaves as it is, this is the schema applied to the document as written) *)
Theorem C11_sound_typed : forall w, accept component_full w = true ->
  forall c, In c (w_comps w) -> convert (Some expected_types) (c_doc c) = Some (c_doc c) ->
  hard_errs component_full (c_doc c) "" = [].
Proof. exact (sound_typed component_full). Qed.
Print Assumptions C11_sound_typed.

(* the topological-order check is sound for every graph: no path from a node to itself *)
Theorem C11_acyclic_check_sound : forall g : list (cid * list cid),
  acyclic_b cid_eqb g = true -> forall u, ~ clos_trans cid (edge g) u u.
Proof. exact (acyclic_b_sound cid cid_eqb cid_eqb_eq). Qed.
Print Assumptions C11_acyclic_check_sound.

(* ... and complete: for every finite graph with distinct node names whose edges start at nodes of the graph
   (both hypotheses are necessary: Refuted.v), "no node reaches itself" implies that the check accepts.
   Any node type with a decidable equality. *)
Theorem C11_acyclic_check_complete : forall (K : Type) (keqb : K -> K -> bool),
  (forall a b, keqb a b = true <-> a = b) ->
  forall g : list (K * list K),
  NoDup (map fst g) -> closed_graph g -> (forall u, ~ clos_trans K (edge g) u u) -> acyclic_b keqb g = true.
Proof. exact acyclic_b_complete. Qed.
Print Assumptions C11_acyclic_check_complete.

(* hence the checker's verdict IS acyclicity *)
Theorem C11_acyclic_check_correct : forall (K : Type) (keqb : K -> K -> bool),
  (forall a b, keqb a b = true <-> a = b) ->
  forall g : list (K * list K),
  NoDup (map fst g) -> closed_graph g ->
  (acyclic_b keqb g = true <-> forall u, ~ clos_trans K (edge g) u u).
Proof. exact acyclic_b_correct. Qed.
Print Assumptions C11_acyclic_check_correct.

(* on a workflow whose identifiers are distinct and whose references resolve (the two checks that precede it in
   [accept]) the cycle check accepts exactly when no component depends, directly or not, on itself *)
Theorem C11_cycle_check_exact : forall w,
  uniq cid_eqb (ids w) = true -> refs_exist w = true ->
  (acyclic_b cid_eqb (graph_of w) = true <-> forall u, ~ clos_trans cid (wedge w) u u).
Proof. exact cycle_check_exact. Qed.
Print Assumptions C11_cycle_check_exact.

(* the converse of C11_sound: [accept] is EXACTLY the structural predicate (identifiers unique, references
   resolve, no dependency cycle, variables defined and not cyclic per component and among the globals, no schema
   error, stage indices without a gap) - the model rejects for no other reason.  Variable tables are dictionaries
   (no name twice; necessary: Refuted.v) *)
Theorem C11_accept_exact : forall w, dicts_ok w ->
  (accept component_full w = true <-> structurally_ok component_full w).
Proof. exact (accept_exact component_full). Qed.
Print Assumptions C11_accept_exact.

(* replication preserves acyclicity, for every graph and every assignment of replica counts (structured replica
   identifiers: copy k consumes copy k of a replicated producer, a node that is not replicated consumes all copies) *)
Theorem C11_replication_preserves_acyclicity : forall (K : Type) (cnt : K -> option N) (g : list (K * list K)),
  (forall x, ~ clos_trans K (edge g) x x) ->
  forall y, ~ clos_trans (rid K) (edge (expand_graph cnt g)) y y.
Proof. exact replicate_acyclic. Qed.
Print Assumptions C11_replication_preserves_acyclicity.

(* so the expanded graph of an accepted workflow is acyclic whatever the replica counts are *)
Theorem C11_accepted_replicated_acyclic : forall w (cnt : cid -> option N),
  accept component_full w = true ->
  forall y, ~ clos_trans (rid cid) (edge (expand_graph cnt (graph_of w))) y y.
Proof. exact (accept_replicated_acyclic component_full). Qed.
Print Assumptions C11_accepted_replicated_acyclic.

(* every applicable single fault (9 constructors, any position; CyclicVars: a variable - global, or of one
   component - additionally mentions a variable that already depends on it) turns an accepted workflow into a
   rejected one *)
Theorem C11_complete : forall m w,
  accept component_full w = true -> applicable component_full m w -> accept component_full (mutate m w) = false.
Proof. exact (complete component_full). Qed.
Print Assumptions C11_complete.

(* the ninth fault constructor, RemoveCompVar i n ("remove a variable" applied to a COMPONENT-level variable), in the
   shape that needs the variable context of a component to be its own: the removed variable n is used only INDIRECTLY,
   by another variable v of the same component (label: part-%(chunk)s after chunk was removed), and it is not a global
   variable.  The workflow is ANY accepted workflow: whatever the other components - siblings of the same stage
   included - define under the name n, the mutant is rejected (variables of a component are private to it) *)
Theorem C11_remove_comp_var_indirect : forall w i c n v rs,
  accept component_full w = true -> nth_error (w_comps w) i = Some c -> ~ In n (map fst (w_gvars w)) ->
  In (v, rs) (c_vars c) -> v <> n -> In n rs ->
  accept component_full (mutate (RemoveCompVar i n) w) = false.
Proof. exact (remove_comp_var_indirect component_full). Qed.
Print Assumptions C11_remove_comp_var_indirect.

(* the same for ANY schema (the interpreter never masks an error below a path of dictionary keys) *)
Theorem C11_complete_any_schema : forall cs m w,
  accept cs w = true -> applicable cs m w -> accept cs (mutate m w) = false.
Proof. exact complete. Qed.
Print Assumptions C11_complete_any_schema.

(* unknown key => a key-unknown class error at that position, for every schema/document/path *)
Theorem C11_schema_unknown_key_any : forall s v p s' rules m k x lbl,
  sub_at p s = Some s' -> dict_rules s' = Some rules -> pget p v = Some (VDict m) ->
  In (k, x) m -> find_rule rules k = None ->
  In (EKeyUnknown (key_label (path_label lbl p) k)) (check s v lbl).
Proof. exact schema_unknown_key. Qed.
Print Assumptions C11_schema_unknown_key_any.

(* over the regenerated component schema: in every option section a key that is not one of the section's options
   is reported as unknown, whatever else the document contains *)
Theorem C11_schema_unknown_key : forall p doc m k x lbl,
  In p option_sections -> pget p doc = Some (VDict m) -> In (k, x) m ->
  kmem pk_eqb k (section_keys p) = false ->
  In (EKeyUnknown (key_label (path_label lbl p) k)) (check component_full doc lbl).
Proof. exact unknown_key_regenerated. Qed.
Print Assumptions C11_schema_unknown_key.

(* wrong type => a value-invalid class error at that position: a list given to any option of the regenerated
   schema that is not list-valued ... *)
Theorem C11_schema_wrong_type : forall p doc l lbl,
  In p option_leaves -> leaf_rejects_list p = true -> pget p doc = Some (VList l) ->
  In (EValueInvalid (path_label lbl p)) (check component_full doc lbl).
Proof. exact wrong_type_regenerated. Qed.
Print Assumptions C11_schema_wrong_type.

(* ... and the list-valued options of the regenerated schema are exactly these six *)
Theorem C11_schema_list_valued_options :
  map (map pk_str) (filter (fun p => negb (leaf_rejects_list p)) option_leaves)
  = [["references"]; ["workflowAttributes"; "shutdownOn"]; ["workflowAttributes"; "restartHookOn"];
     ["executors"; "pre"]; ["executors"; "main"]; ["executors"; "post"]].
Proof. exact list_valued_options. Qed.
Print Assumptions C11_schema_list_valued_options.

Theorem C11_schema_wrong_type_any : forall s v p s' l lbl,
  sub_at p s = Some s' -> no_list s' = true -> pget p v = Some (VList l) ->
  In (EValueInvalid (path_label lbl p)) (check s v lbl).
Proof. exact schema_wrong_type. Qed.
Print Assumptions C11_schema_wrong_type_any.

(* ------------------------------------------------------------------ scalar-for-scalar WrongType faults.
   The conversion table modelled in Model.v is the expected_types table read from the source of the running code *)
Theorem C11_conversion_table_current : expected_types_code = expected_types.
Proof. exact expected_types_current. Qed.
Print Assumptions C11_conversion_table_current.

(* the options converted with int() / float() / to_bool, str_to_bool (over the regenerated option list) *)
Theorem C11_scalar_option_classes :
  map (map pk_str) int_options
  = [["workflowAttributes"; "replicate"]; ["workflowAttributes"; "repeatInterval"];
     ["workflowAttributes"; "repeatRetries"]; ["workflowAttributes"; "maxRestarts"];
     ["resourceManager"; "kubernetes"; "gracePeriod"]; ["resourceRequest"; "numberProcesses"];
     ["resourceRequest"; "numberThreads"]; ["resourceRequest"; "ranksPerNode"];
     ["resourceRequest"; "threadsPerCore"]; ["resourceRequest"; "gpus"]] /\
  map (map pk_str) float_options
  = [["workflowAttributes"; "optimizer"; "exploitChance"]; ["workflowAttributes"; "optimizer"; "exploitTarget"];
     ["workflowAttributes"; "optimizer"; "exploitTargetLow"]; ["workflowAttributes"; "optimizer"; "exploitTargetHigh"];
     ["resourceManager"; "config"; "walltime"]; ["resourceManager"; "lsf"; "statusRequestInterval"];
     ["resourceManager"; "kubernetes"; "cpuUnitsPerCore"]] /\
  map (map pk_str) bool_options
  = [["workflowAttributes"; "aggregate"]; ["workflowAttributes"; "isMigratable"]; ["workflowAttributes"; "isMigrated"];
     ["workflowAttributes"; "isRepeat"]; ["workflowAttributes"; "memoization"; "disable"; "strong"];
     ["workflowAttributes"; "memoization"; "disable"; "fuzzy"]; ["workflowAttributes"; "optimizer"; "disable"];
     ["command"; "resolvePath"]].
Proof. exact (conj int_options_exact (conj float_options_exact bool_options_exact)). Qed.
Print Assumptions C11_scalar_option_classes.

(* a float, WHATEVER its value (2.5, 0.5, but also 600.0), is rejected at every option of the regenerated schema but
   these nine: no float is ever truncated to an integer *)
Theorem C11_scalar_float_options : forall r,
  map (map pk_str) (float_admitting r)    (* = the options p with wrong_rejected component_full p (VFlt r) = false *)
  = [["workflowAttributes"; "repeatInterval"];
     ["workflowAttributes"; "optimizer"; "exploitChance"]; ["workflowAttributes"; "optimizer"; "exploitTarget"];
     ["workflowAttributes"; "optimizer"; "exploitTargetLow"]; ["workflowAttributes"; "optimizer"; "exploitTargetHigh"];
     ["resourceManager"; "config"; "walltime"]; ["resourceManager"; "lsf"; "statusRequestInterval"];
     ["resourceManager"; "kubernetes"; "cpuUnitsPerCore"]; ["resourceRequest"; "memory"]].
Proof. exact float_admitting_exact. Qed.
Print Assumptions C11_scalar_float_options.

Theorem C11_scalar_float_rejected : forall r p,
  (In p int_options -> p <> p_repeat_interval -> wrong_rejected component_full p (VFlt r) = true) /\
  (In p bool_options -> wrong_rejected component_full p (VFlt r) = true) /\
  (In p str_options -> wrong_rejected component_full p (VFlt r) = true).
Proof.
  intros r p. exact (conj (float_for_int_rejected r p) (conj (float_for_bool_rejected r p) (float_for_str_rejected r p))).
Qed.
Print Assumptions C11_scalar_float_rejected.

(* a string that int() / float() / str_to_bool does not parse (py_int: the plain spellings [+-]?[0-9]+, py_float:
   digits with at most one point, str_to_bool: true/false/yes/no in any case) makes the conversion raise: rejected
   under ANY schema *)
Theorem C11_scalar_string_rejected : forall cs s p,
  (In p int_options -> py_int s = None -> wrong_rejected cs p (VStr s) = true) /\
  (In p float_options -> py_float s = false -> wrong_rejected cs p (VStr s) = true) /\
  (In p bool_options -> str_to_bool s = None -> wrong_rejected cs p (VStr s) = true).
Proof.
  intros cs s p. exact (conj (string_for_int_rejected cs s p) (conj (string_for_float_rejected cs s p)
                                                                    (string_for_bool_rejected cs s p))).
Qed.
Print Assumptions C11_scalar_string_rejected.

(* a dictionary for a scalar: a non-empty one makes the conversion raise wherever the table names a converter other
   than `dict`; the empty one is left alone and then reported by the schema of every option but podSpec; an int for
   command.resolvePath (str_to_bool) raises *)
Theorem C11_scalar_dict_rejected :
  (forall cs k x m p c, tree_at p (Some expected_types) = Some (CLeaf c) -> c <> CDictT ->
                        wrong_rejected cs p (VDict ((k, x) :: m)) = true) /\
  (forall p, In p option_leaves -> p <> [KS "resourceManager"; KS "kubernetes"; KS "podSpec"] ->
             wrong_rejected component_full p (VDict []) = true) /\
  (forall cs z, wrong_rejected cs p_resolve_path (VInt z) = true).
Proof. exact (conj dict_for_scalar_rejected (conj empty_dict_rejected int_for_str_to_bool_rejected)). Qed.
Print Assumptions C11_scalar_dict_rejected.

(* THE EXCEPTION LIST: what convert_component_types coerces instead (for these values the option is not wrongly
   typed for the loader; the schema judges the converted value).  None, a float and a list are never converted. *)
Theorem C11_scalar_coercions : forall p,
  (In p int_options ->
     (forall s z, py_int s = Some z -> conv_at p (VStr s) = Some (VInt z)) /\
     (forall b : bool, conv_at p (VBool b) = Some (VInt (if b then 1 else 0))) /\
     (forall z, conv_at p (VInt z) = Some (VInt z))) /\
  (In p float_options ->
     (forall s, py_float s = true -> conv_at p (VStr s) = Some (VFlt s)) /\
     (forall z, conv_at p (VInt z) = Some (VFlt (zdec z ++ ".0"))) /\
     (forall b : bool, conv_at p (VBool b) = Some (VFlt (if b then "1.0" else "0.0")))) /\
  (In p bool_options ->
     (forall s b, str_to_bool s = Some b -> conv_at p (VStr s) = Some (VBool b)) /\
     (forall b, conv_at p (VBool b) = Some (VBool b)) /\
     (p <> p_resolve_path -> forall z, conv_at p (VInt z) = Some (VBool (negb (Z.eqb z 0))))) /\
  (In p str_options ->
     (forall z, conv_at p (VInt z) = Some (VStr (zdec z))) /\
     (forall b : bool, conv_at p (VBool b) = Some (VStr (if b then "True" else "False"))) /\
     (forall s, conv_at p (VStr s) = Some (VStr s))).
Proof. intros p. exact (conj (coerced_int p) (conj (coerced_float p) (conj (coerced_bool p) (coerced_str p)))). Qed.
Print Assumptions C11_scalar_coercions.

Theorem C11_never_converted : forall t,
  convert t VNone = Some VNone /\ (forall r, convert t (VFlt r) = Some (VFlt r)) /\
  (forall l, convert t (VList l) = Some (VList l)).
Proof. exact never_converted. Qed.
Print Assumptions C11_never_converted.

(* mutant level (instances of C11_complete): in EVERY accepted workflow, at EVERY component, a float given to an
   option converted with int() (the repeat interval excepted), or a string that int() does not parse, is rejected *)
Theorem C11_float_for_int_option_rejected : forall w i c p k r m,
  accept component_full w = true -> nth_error (w_comps w) i = Some c -> pget p (c_doc c) = Some (VDict m) ->
  In (p ++ [k])%list int_options -> (p ++ [k])%list <> p_repeat_interval ->
  accept component_full (mutate (WrongType i p k (VFlt r)) w) = false.
Proof. exact float_for_int_option_rejected. Qed.
Print Assumptions C11_float_for_int_option_rejected.

Theorem C11_string_for_int_option_rejected : forall w i c p k s m,
  accept component_full w = true -> nth_error (w_comps w) i = Some c -> pget p (c_doc c) = Some (VDict m) ->
  In (p ++ [k])%list int_options -> py_int s = None ->
  accept component_full (mutate (WrongType i p k (VStr s)) w) = false.
Proof. exact string_for_int_option_rejected. Qed.
Print Assumptions C11_string_for_int_option_rejected.

(* ---- the PRIMITIVE load (graphFromFlowIR / packageFromLocation with their default primitive=True; the gate for a
   dangling reference there is FlowIR.validate_references alone).  accept_prim is the structural part of that load;
   whatever the full load accepts it accepts *)
Theorem C11_prim_sound : forall w, accept_prim component_full w = true ->
  NoDup (ids w) /\
  (forall c r, In c (w_comps w) -> In r (c_refs c) -> exists c', In c' (w_comps w) /\ c_id c' = r) /\
  (forall c, In c (w_comps w) -> doc_hard_errs component_full (c_doc c) = []).
Proof. exact (prim_sound component_full). Qed.
Print Assumptions C11_prim_sound.

Theorem C11_prim_weaker : forall w, accept component_full w = true -> accept_prim component_full w = true.
Proof. exact (accept_prim_weaker component_full). Qed.
Print Assumptions C11_prim_weaker.

(* every structural single fault that does not need the expanded graph is refused by the primitive load too, at any
   position: a reference is looked up by (stage, name) - [applicable] of DropComponent / RenameRef speaks about the
   IDENTIFIER, so a component of the same name in another stage does not make the reference resolved *)
Theorem C11_prim_complete : forall m w,
  accept_prim component_full w = true -> prim_fault m = true -> applicable component_full m w ->
  accept_prim component_full (mutate m w) = false.
Proof. exact (prim_complete component_full). Qed.
Print Assumptions C11_prim_complete.

(* the instance a loader that indexes the known components by NAME gets wrong: only the STAGE of the reference is wrong *)
Theorem C11_prim_reference_wrong_stage : forall w i j c s n s',
  accept_prim component_full w = true ->
  nth_error (w_comps w) i = Some c -> nth_error (c_refs c) j = Some (s, n) -> ~ In (s', n) (ids w) ->
  accept_prim component_full (mutate (RenameRef i j (s', n)) w) = false.
Proof. exact (prim_wrong_stage component_full). Qed.
Print Assumptions C11_prim_reference_wrong_stage.

(* ---- the identifiers of the EXPANDED workflow (replicated load; replica k of `name` is called name ++ decimal k):
   whatever the replica counts, an accepted workflow has unique expanded identifiers ... *)
Theorem C11_expanded_ids_unique : forall (cnt : cid -> option N) w,
  accept_repl component_full cnt w = true -> accept component_full w = true /\ NoDup (expand_ids cnt w).
Proof. exact (repl_sound component_full). Qed.
Print Assumptions C11_expanded_ids_unique.

(* ... and a workflow in which the expansions of two different components share an identifier is rejected: *)
Theorem C11_expansion_clash_rejected : forall (cnt : cid -> option N) w i j c d x,
  i <> j -> nth_error (w_comps w) i = Some c -> nth_error (w_comps w) j = Some d ->
  In x (replica_ids cnt c) -> In x (replica_ids cnt d) ->
  accept_repl component_full cnt w = false.
Proof. exact (repl_clash_rejected component_full). Qed.
Print Assumptions C11_expansion_clash_rejected.

(* replica k of c (n replicas, k < n) is called like the authored component d of the same stage (sample x3 / sample1) *)
Theorem C11_replica_vs_authored_name_rejected : forall (cnt : cid -> option N) w i j c d n k,
  i <> j -> nth_error (w_comps w) i = Some c -> nth_error (w_comps w) j = Some d ->
  cnt (c_id c) = Some n -> (k < n)%N -> cnt (c_id d) = None ->
  c_stage d = c_stage c -> c_name d = (c_name c ++ dec k)%string ->
  accept_repl component_full cnt w = false.
Proof. exact (repl_authored_clash component_full). Qed.
Print Assumptions C11_replica_vs_authored_name_rejected.

(* replica k of c and replica k' of d have the same text (run x11 / run1 x2: "run" ++ "10" = "run1" ++ "0") *)
Theorem C11_replica_vs_replica_name_rejected : forall (cnt : cid -> option N) w i j c d n m k k',
  i <> j -> nth_error (w_comps w) i = Some c -> nth_error (w_comps w) j = Some d ->
  cnt (c_id c) = Some n -> (k < n)%N -> cnt (c_id d) = Some m -> (k' < m)%N ->
  c_stage d = c_stage c -> (c_name d ++ dec k')%string = (c_name c ++ dec k)%string ->
  accept_repl component_full cnt w = false.
Proof. exact (repl_replica_clash component_full). Qed.
Print Assumptions C11_replica_vs_replica_name_rejected.

(* ------------------------------------------------------------------ loading WITH A MANIFEST
   the top-level folder a manifest key declares is its LEFT-MOST segment: a nested key top/leaf declares top (and
   never leaf), a key without a separator declares itself, and no declared name holds a separator *)
Theorem C11_manifest_top_level_of_nested_key : forall top leaf : string,
  no_sep top = true -> top_level (top ++ String "/"%char leaf) = top.
Proof. exact top_level_nested. Qed.
Print Assumptions C11_manifest_top_level_of_nested_key.

Theorem C11_manifest_top_level_of_flat_key : forall k : string, no_sep k = true -> top_level k = k.
Proof. exact top_level_flat. Qed.
Print Assumptions C11_manifest_top_level_of_flat_key.

(* accepted with a manifest (replicated load) => the workflow whose references are the written references that are
   not folder references has every conclusion of C11_sound, and EVERY written reference names a component or is a
   stage-less reference to the name of a top-level folder (left-most segment of a manifest key, or a special folder) *)
Theorem C11_manifest_sound : forall keys w wr, accept_man component_full keys w wr = true ->
  accept component_full (resolve_refs keys w wr) = true /\
  forall i c brs, nth_error (w_comps w) i = Some c -> nth_error wr i = Some brs ->
  forall br, In br brs -> wref_ok keys w br.
Proof. exact (man_sound component_full). Qed.
Print Assumptions C11_manifest_sound.

Theorem C11_manifest_prim_sound : forall keys w wr, accept_man_prim component_full keys w wr = true ->
  forall i c brs, nth_error (w_comps w) i = Some c -> nth_error wr i = Some brs ->
  forall br, In br brs -> wref_ok keys w br.
Proof. exact (man_prim_sound component_full). Qed.
Print Assumptions C11_manifest_prim_sound.

(* a written reference that names no component and is not a stage-less reference to a folder is refused by both
   loads, whatever the manifest *)
Theorem C11_manifest_dangling_rejected : forall keys w wr i c brs br,
  nth_error (w_comps w) i = Some c -> nth_error wr i = Some brs -> In br brs -> dangling keys w br ->
  accept_man component_full keys w wr = false /\ accept_man_prim component_full keys w wr = false.
Proof. exact (man_dangling_rejected component_full). Qed.
Print Assumptions C11_manifest_dangling_rejected.

(* ... in particular the one named like the right-most segment of a nested manifest key *)
Theorem C11_manifest_nested_leaf_rejected : forall top leaf w wr i c brs st,
  no_sep top = true -> leaf <> top -> ~ In leaf special_folders ->
  nth_error (w_comps w) i = Some c -> nth_error wr i = Some brs -> In (true, (st, leaf)) brs ->
  ~ In (st, leaf) (ids w) ->
  accept_man component_full [(top ++ String "/"%char leaf)%string] w wr = false /\
  accept_man_prim component_full [(top ++ String "/"%char leaf)%string] w wr = false.
Proof. exact (man_nested_leaf_rejected component_full). Qed.
Print Assumptions C11_manifest_nested_leaf_rejected.

(* the control: a stage-less reference to a declared folder that names no component is a folder reference *)
Theorem C11_manifest_folder_reference : forall keys w (br : wref),
  fst br = true -> In (snd (snd br)) (folders keys) -> ~ In (snd br) (ids w) ->
  is_direct (folders keys) (ids w) br = true.
Proof. exact man_folder_reference. Qed.
Print Assumptions C11_manifest_folder_reference.


(* non-vacuity: a three-component, two-stage workflow with variables is accepted by the regenerated schema and each
   of the eight faults (here: one position each; three for CyclicVars: among the globals, a global through a
   component variable, a component variable on itself) makes it rejected; the CyclicVars instances are applicable *)
Example C11_nonvacuous :
  accept component_full ex_wf = true /\
  map (fun m => accept component_full (mutate m ex_wf))
      [DropComponent 0; RenameRef 2 1 (0%N, "nx"); AddBackEdge 0 (1%N, "c"); DupName 1 0;
       UnknownKey 1 [KS "resourceRequest"] (KS "numberProcessez") (VInt 1);
       WrongType 1 [KS "resourceRequest"] (KS "numberProcesses") (VList [VInt 1]);
       RemoveVar "g0"; CyclicVars None "g0" "g1"; CyclicVars None "g0" "lv"; CyclicVars (Some 0) "lv" "lv"]
  = [false; false; false; false; false; false; false; false; false; false] /\
  reasons component_full (mutate (AddBackEdge 0 (1%N, "c")) ex_wf) = [4] /\
  reasons component_full (mutate (CyclicVars None "g0" "g1") ex_wf) = [5; 5] /\
  applicable component_full (CyclicVars None "g0" "g1") ex_wf /\
  applicable component_full (CyclicVars None "g0" "lv") ex_wf /\
  applicable component_full (CyclicVars (Some 0) "lv" "lv") ex_wf /\
  dicts_ok ex_wf /\
  length (expand_graph ex_cnt ex_repl_graph) = 5 /\
  (* scalar faults at resourceRequest.numberProcesses of component 1: a float (also 600.0), a non-numeric string, a
     dictionary are rejected; '3', True and 7 are coerced and the workflow still loads; the option is an int option *)
  map (fun x => accept component_full (mutate (WrongType 1 [KS "resourceRequest"] (KS "numberProcesses") x) ex_wf))
      [VFlt "2.5"; VFlt "600.0"; VStr "abc"; VDict [(KS "x", VInt 1)]; VDict []; VStr "3"; VBool true; VInt 7]
  = [false; false; false; false; false; true; true; true] /\
  In ex_p_nproc int_options /\ ex_p_nproc <> p_repeat_interval /\
  wrong_rejected component_full ex_p_nproc (VFlt "2.5") = true /\ py_int "abc" = None /\
  (* RemoveCompVar: two siblings of stage 0 both define chunk and derive label from it; removing chunk from either
     (used only through label), or label (used directly), is rejected; removing the local g0 of b un-shadows the global
     g0 and is harmless; the three faulty instances are applicable *)
  accept component_full ex_wf_sib = true /\
  map (fun m => accept component_full (mutate m ex_wf_sib))
      [RemoveCompVar 0 "chunk"; RemoveCompVar 1 "chunk"; RemoveCompVar 0 "label"; RemoveCompVar 1 "g0"]
  = [false; false; false; true] /\
  reasons component_full (mutate (RemoveCompVar 1 "chunk") ex_wf_sib) = [5] /\
  applicable component_full (RemoveCompVar 0 "chunk") ex_wf_sib /\
  applicable component_full (RemoveCompVar 1 "chunk") ex_wf_sib /\
  applicable component_full (RemoveCompVar 0 "label") ex_wf_sib /\
  (* the primitive load: the name a is used in stages 0 and 1; dropping stage0.a (two consumers remain, stage1.a keeps
     the name) and renaming the reference stage0.b to stage1.b (only the stage is wrong) are refused for reason 3;
     both faults are applicable; a back edge is NOT refused by the primitive load (no graph is built) *)
  accept component_full ex_wf_twin = true /\ accept_prim component_full ex_wf_twin = true /\
  map (fun m => (accept_prim component_full (mutate m ex_wf_twin), reasons_prim component_full (mutate m ex_wf_twin)))
      [DropComponent 0; RenameRef 2 0 (1%N, "b"); RenameRef 2 0 (0%N, "a"); AddBackEdge 0 (1%N, "a")]
  = [(false, [3]); (false, [3]); (true, []); (true, [])] /\
  applicable component_full (DropComponent 0) ex_wf_twin /\
  applicable component_full (RenameRef 2 0 (1%N, "b")) ex_wf_twin /\
  (* expanded identifiers: sample x3 next to the authored sample1 clashes (x1: sample0 only, no clash); run x10 next
     to run1 x2 gives 12 distinct identifiers, run x11 yields run10 twice; both workflows have unique identifiers as
     written *)
  accept component_full ex_wf_clash = true /\ accept component_full ex_wf_run = true /\
  map (fun n => accept_repl component_full (cnt_of [((0%N, "sample"), n)]) ex_wf_clash) [0%N; 1%N; 2%N; 3%N]
  = [true; true; false; false] /\
  reasons_repl component_full (cnt_of [((0%N, "sample"), 3%N)]) ex_wf_clash = [2] /\
  map (fun n => accept_repl component_full (ex_cnt_run n) ex_wf_run) [2%N; 10%N; 11%N] = [true; true; false] /\
  length (expand_ids (ex_cnt_run 10) ex_wf_run) = 12 /\
  (* manifest: consume references `extra:ref` / `extract:ref` without a stage; the manifests {}, {extra}, {data/extra},
     {extra/deep}, {extra/}, {a/b/extra}, {./extra}: the dangling extra:ref is refused by both loads unless extra is the
     LEFT-MOST segment of a key; written with a stage it is refused also then; extract:ref always loads; data (a
     special folder) needs no manifest *)
  top_level_folders ["extra"; "data/extra"; "extra/deep"; "extra/"; "a/b/extra"; "./extra"; ""]
  = ["extra"; "data"; "extra"; "extra"; "a"; "."; ""] /\
  map (fun k => (accept_man component_full k ex_man_wf (ex_man_written true "extra"),
                 accept_man_prim component_full k ex_man_wf (ex_man_written true "extra")))
      [[]; ["extra"]; ["data/extra"]; ["extra/deep"]; ["extra/"]; ["a/b/extra"]; ["./extra"]; ["zz"; "data/extra"]]
  = [(false, false); (true, true); (false, false); (true, true); (true, true); (false, false); (false, false);
     (false, false)] /\
  map (fun k => accept_man component_full k ex_man_wf (ex_man_written false "extra")) [[]; ["extra"]; ["data/extra"]]
  = [false; false; false] /\
  map (fun k => accept_man component_full k ex_man_wf (ex_man_written true "extract")) [[]; ["extra"]; ["x/extract"]]
  = [true; true; true] /\
  accept_man component_full [] ex_man_wf (ex_man_written true "data") = true /\
  dangling ["data/extra"] ex_man_wf (true, (0%N, "extra")).
Proof.
  split; [vm_compute; reflexivity|]. split; [vm_compute; reflexivity|]. split; [vm_compute; reflexivity|].
  split; [vm_compute; reflexivity|].
  destruct ex_cyclic_applicable as [H1 [H2 [H3 H4]]]. repeat (split; [assumption|]).
  split; [vm_compute; reflexivity|]. split; [vm_compute; reflexivity|]. split; [exact ex_nproc_int|].
  split; [discriminate|]. split; [vm_compute; reflexivity|]. split; [vm_compute; reflexivity|].
  split; [vm_compute; reflexivity|]. split; [vm_compute; reflexivity|]. split; [vm_compute; reflexivity|].
  destruct ex_remove_comp_var_applicable as [R1 [R2 R3]]. repeat (split; [assumption|]).
  split; [vm_compute; reflexivity|]. split; [vm_compute; reflexivity|]. split; [vm_compute; reflexivity|].
  destruct ex_prim_applicable as [P1 P2]. repeat (split; [assumption|]).
  split; [vm_compute; reflexivity|]. split; [vm_compute; reflexivity|]. split; [vm_compute; reflexivity|].
  split; [vm_compute; reflexivity|]. split; [vm_compute; reflexivity|]. split; [vm_compute; reflexivity|].
  split; [vm_compute; reflexivity|]. split; [vm_compute; reflexivity|]. split; [vm_compute; reflexivity|].
  split; [vm_compute; reflexivity|]. split; [vm_compute; reflexivity|].
  split; cbn.
  - intros [E|[E|[]]]; discriminate.
  - right. intros [E|[E|[E|[E|[E|[]]]]]]; discriminate.
Qed.
