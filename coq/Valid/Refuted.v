(* C11 - witnesses that the hypotheses of the completeness/exactness theorems of Property.v are NECESSARY (each
   statement without the hypothesis is false of the model).  None of them is a defect of the code: the loader checks
   identifier uniqueness and reference resolution before it looks for cycles, and YAML/Python mappings cannot hold a
   name twice.  The last one shows that the applicability condition of CyclicVars cannot be dropped. *)
From Coq Require Import String Ascii List Bool ZArith NArith Relations.
Import ListNotations.
Require Import V.Lib.PyStr V.Valid.Model V.Valid.Proofs V.Valid.Kahn V.Valid.Generated V.Valid.GenProofs V.Valid.Scalars.
Open Scope string_scope.

(* a node name listed twice: closed, acyclic, yet the order check refuses the second occurrence *)
Theorem C11_acyclic_complete_needs_distinct_refuted :
  exists g : list (string * list string),
    closed_graph g /\ (forall u, ~ clos_trans string (edge g) u u) /\ acyclic_b String.eqb g = false.
Proof. exists g_dup. exact needs_distinct. Qed.
Print Assumptions C11_acyclic_complete_needs_distinct_refuted.

(* an edge from a name that is no node of the graph: the consumer never becomes ready *)
Theorem C11_acyclic_complete_needs_closed_refuted :
  exists g : list (string * list string),
    NoDup (map fst g) /\ (forall u, ~ clos_trans string (edge g) u u) /\ acyclic_b String.eqb g = false.
Proof. exists g_dangling. exact needs_closed. Qed.
Print Assumptions C11_acyclic_complete_needs_closed_refuted.

(* a variable table holding one name twice *)
Theorem C11_accept_exact_needs_dicts_refuted :
  exists cs w, structurally_ok cs w /\ accept cs w = false.
Proof. exists (SPred PTrue), w_dupvar. exact needs_dicts. Qed.
Print Assumptions C11_accept_exact_needs_dicts_refuted.

(* a mention that closes no cycle is harmless: g1 mentions g0 once more *)
Theorem C11_cyclic_vars_needs_cycle_refuted :
  exists w a b, accept component_full w = true /\ accept component_full (mutate (CyclicVars None a b) w) = true.
Proof. exists ex_wf, "g1", "g0". vm_compute. split; reflexivity. Qed.
Print Assumptions C11_cyclic_vars_needs_cycle_refuted.

(* the applicability condition of the scalar WrongType faults (wrong_rejected) cannot be dropped: a scalar of another
   type that convert_component_types coerces is accepted - the string '3' and the bool True for the int option
   resourceRequest.numberProcesses, the int 30 for the float option resourceManager.config.walltime, the string 'yes'
   for the bool option workflowAttributes.aggregate.  By design of the loader (C11_scalar_coercions), not a defect *)
Theorem C11_wrong_type_needs_rejected_refuted :
  exists w, accept component_full w = true /\
    forallb (fun m => accept component_full (mutate m w))
      [WrongType 1 [KS "resourceRequest"] (KS "numberProcesses") (VStr "3");
       WrongType 1 [KS "resourceRequest"] (KS "numberProcesses") (VBool true)] = true /\
    conv_at [KS "resourceManager"; KS "config"; KS "walltime"] (VInt 30) = Some (VFlt "30.0") /\
    conv_at [KS "workflowAttributes"; KS "aggregate"] (VStr "yes") = Some (VBool true).
Proof. exists ex_wf. vm_compute. repeat split; reflexivity. Qed.
Print Assumptions C11_wrong_type_needs_rejected_refuted.

(* the exception of C11_scalar_float_rejected / C11_float_for_int_option_rejected is necessary: the repeat interval is
   converted with int() like the other int options, but its schema also admits a float, so a float there is not a
   wrongly typed value (it is left alone by the conversion and accepted by the schema).  Not a defect. *)
Theorem C11_float_for_int_needs_exception_refuted :
  exists p r, In p int_options /\ wrong_rejected component_full p (VFlt r) = false.
Proof. exists p_repeat_interval, "2.5". split; [vm_compute; tauto | vm_compute; reflexivity]. Qed.
Print Assumptions C11_float_for_int_needs_exception_refuted.

(* the applicability condition of RemoveCompVar cannot be dropped: a component variable that nothing uses (lv of
   component a of the example) can be removed without harm.  Not a defect. *)
Theorem C11_remove_comp_var_needs_use_refuted :
  exists w i n, accept component_full w = true /\ accept component_full (mutate (RemoveCompVar i n) w) = true.
Proof. exists ex_wf, 0%nat, "lv". vm_compute. split; reflexivity. Qed.
Print Assumptions C11_remove_comp_var_needs_use_refuted.
