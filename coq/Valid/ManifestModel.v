(* C11 — the MANIFEST of a workflow and the references it turns into direct (non-component) references.
   Manifest.top_level_folders (flowir.py): for every target key of the manifest the LEFT-MOST path segment
   (x.split(os.path.sep, 1)[0]).  FlowIRExperimentConfiguration hands this list to expand_component_references,
   FlowIRConcrete.validate / FlowIR.validate_component / validate_references, propagate_replicate and the graph
   builders; all of them (expand_potential_component_reference) treat a reference WRITTEN WITHOUT A STAGE (name:ref)
   whose producer is not a component of the consumer's stage and is the name of a top-level folder (of the manifest,
   or one of FlowIR.SpecialFolders) as a reference to that folder: nothing checks it against the components.  Every
   other reference must name a component (stage and name).  Total computable definitions only. *)
From Coq Require Import String Ascii List Bool NArith Arith.
Import ListNotations.
Require Import V.Lib.PyStr V.Valid.Model.
Open Scope string_scope.
Open Scope list_scope.

Definition is_sep (c : ascii) : bool := Ascii.eqb c "/"%char.

(* key.split('/', 1)[0]: the text before the first separator (the whole key when it has none) *)
Fixpoint top_level (k : string) : string :=
  match k with
  | EmptyString => EmptyString
  | String c r => if is_sep c then EmptyString else String c (top_level r)
  end.

Fixpoint no_sep (k : string) : bool :=
  match k with
  | EmptyString => true
  | String c r => negb (is_sep c) && no_sep r
  end.

Definition top_level_folders (keys : list string) : list string := map top_level keys.

Definition special_folders : list string := ["input"; "data"; "bin"; "conf"].     (* FlowIR.SpecialFolders *)

(* the names a stage-less reference may name without naming a component *)
Definition folders (keys : list string) : list string := top_level_folders keys ++ special_folders.

(* a reference as written: (written without a stage, (stage it is read in, producer name)) *)
Definition wref : Type := (bool * cid)%type.

(* a component of the consumer's stage wins (known_components in expand_potential_component_reference); otherwise a
   stage-less reference to the name of a folder is a direct reference *)
Definition is_direct (fs : list string) (idl : list cid) (br : wref) : bool :=
  negb (kmem cid_eqb (snd br) idl) && fst br && kmem String.eqb (snd (snd br)) fs.

Definition component_refs (fs : list string) (idl : list cid) (brs : list wref) : list cid :=
  map snd (filter (fun br => negb (is_direct fs idl br)) brs).

Fixpoint map2 {A B C} (f : A -> B -> C) (l : list A) (m : list B) : list C :=
  match l, m with
  | x :: l', y :: m' => f x y :: map2 f l' m'
  | _, _ => []
  end.

(* the workflow whose component references are those of the written references [wr] (one list per component, in the
   order of the components) that the manifest keys [keys] do not turn into direct references *)
Definition resolve_refs (keys : list string) (w : wf) (wr : list (list wref)) : wf :=
  mkWf (w_gvars w)
       (map2 (fun c brs => set_refs (fun _ => component_refs (folders keys) (ids w) brs) c) (w_comps w) wr).

(* loading with validation and a manifest: the replicated load and the primitive one *)
Definition accept_man (cs : schema) (keys : list string) (w : wf) (wr : list (list wref)) : bool :=
  Nat.eqb (length wr) (length (w_comps w)) && accept cs (resolve_refs keys w wr).
Definition accept_man_prim (cs : schema) (keys : list string) (w : wf) (wr : list (list wref)) : bool :=
  Nat.eqb (length wr) (length (w_comps w)) && accept_prim cs (resolve_refs keys w wr).

(* ------------------------------------------------------------------ correspondence checkers *)
Fixpoint str_list_eqb (a b : list string) : bool :=
  match a, b with
  | [], [] => true
  | x :: a', y :: b' => String.eqb x y && str_list_eqb a' b'
  | _, _ => false
  end.

(* (manifest keys, Manifest(keys).top_level_folders of the running code) *)
Definition check_tlf_case (c : list string * list string) : bool :=
  let '(keys, out) := c in str_list_eqb (top_level_folders keys) out.

(* (manifest keys, workflow, written references, primitive load?, accepted by the real load, reason codes) *)
Definition check_man_case (cs : schema) (c : list string * wf * list (list wref) * bool * bool * list nat) : bool :=
  let '(keys, w, wr, prim, acc, rs) := c in
  Nat.eqb (length wr) (length (w_comps w)) &&
  (if prim then check_prim_case cs (resolve_refs keys w wr, acc, rs)
   else check_load_case cs (resolve_refs keys w wr, acc, rs)).
