(* C11 — example for loading with a manifest (non-vacuity): extract and consume in stage 0; consume's only reference is
   written without a stage.  ex_man_written n = what consume writes when the producer is called n. *)
From Coq Require Import String Ascii List Bool ZArith NArith.
Import ListNotations.
Require Import V.Lib.PyStr V.Valid.Model V.Valid.Proofs V.Valid.Prim V.Valid.Generated V.Valid.GenProofs
  V.Valid.ManifestModel.
Open Scope string_scope.

Definition ex_man_wf : wf :=
  mkWf []
       [mkComp 0 "extract" [] [] [] (ex_doc "extract" 0 [] []);
        mkComp 0 "consume" [] [] [] (ex_doc "consume" 0 ["extract:ref"] [])].

Definition ex_man_written (stageless : bool) (n : string) : list (list wref) := [[]; [(stageless, (0%N, n))]].
