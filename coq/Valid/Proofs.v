(* C11 — lemmas: the schema interpreter never masks an error below a path of dictionary keys; the
   topological-order check is sound; every single-fault mutation of an accepted workflow is rejected. *)
From Coq Require Import String Ascii List Bool ZArith NArith Arith Lia Relations.
Import ListNotations.
Require Import V.Lib.PyStr V.Valid.Model.
Open Scope string_scope.
Open Scope list_scope.

(* ------------------------------------------------------------------ dictionaries *)
Lemma pk_eqb_refl k : pk_eqb k k = true.
Proof. apply pk_eqb_eq; reflexivity. Qed.

Lemma plookup_In k m v : plookup k m = Some v -> In (k, v) m.
Proof.
  induction m as [|[k' v'] r IH]; cbn; [discriminate|].
  destruct (pk_eqb k k') eqn:E.
  - intros H; inversion H; subst. apply pk_eqb_eq in E; subst; left; reflexivity.
  - intros H; right; auto.
Qed.

Lemma plookup_pset k x m : plookup k (pset k x m) = Some x.
Proof.
  induction m as [|[k' v'] r IH]; cbn.
  - rewrite pk_eqb_refl; reflexivity.
  - destruct (pk_eqb k k') eqn:E; cbn; [rewrite pk_eqb_refl; reflexivity | rewrite E; exact IH].
Qed.

Lemma In_pset k x m : In (k, x) (pset k x m).
Proof. apply plookup_In, plookup_pset. Qed.

Lemma pget_pput_dict p : forall k x v m,
  pget p v = Some (VDict m) -> pget p (pput p k x v) = Some (VDict (pset k x m)).
Proof.
  induction p as [|k0 p IH]; intros k x v m H; cbn in *.
  - inversion H; subst; reflexivity.
  - destruct v; try discriminate.
    destruct (plookup k0 m0) eqn:L; [|discriminate].
    cbn. rewrite plookup_pset. apply IH; assumption.
Qed.

Lemma pget_app p q v w : pget p v = Some w -> pget (p ++ q) v = pget q w.
Proof.
  revert v; induction p as [|k p IH]; intros v H; cbn in *.
  - inversion H; reflexivity.
  - destruct v; try discriminate. destruct (plookup k m); [|discriminate]. apply IH; assumption.
Qed.

Lemma pget_pput_leaf p k x v m :
  pget p v = Some (VDict m) -> pget (p ++ [k]) (pput p k x v) = Some x.
Proof.
  intros H. rewrite (pget_app _ _ _ _ (pget_pput_dict p k x v m H)). cbn. rewrite plookup_pset. reflexivity.
Qed.

(* ------------------------------------------------------------------ the interpreter, first-order form *)
Lemma check_dict_eq rules m lbl :
  check (SDict rules) (VDict m) lbl = flat_map (entry_errs rules lbl) m ++ missing_errs rules m lbl.
Proof.
  cbn [check]. unfold missing_errs. f_equal.
  apply flat_map_ext. intros [k x]. unfold entry_errs, find_rule. cbn [fst snd].
  assert (G : forall sel rs,
    (fix go (sel : rule -> bool) (rs : list rule) (k : pk) (x : pv) {struct rs} : option (list err) :=
       match rs with
       | [] => None
       | Rule o km t s' :: rest =>
           if sel (Rule o km t s') && rule_matches (Rule o km t s') k
           then Some (check s' x (key_label lbl k)) else go sel rest k x
       end) sel rs k x
    = option_map (fun r => check (rule_schema r) x (key_label lbl k)) (first_rule sel k rs)).
  { intros sel rs. induction rs as [|[o km t s'] rest IH]; [reflexivity|].
    cbn [first_rule]. destruct (sel (Rule o km t s') && rule_matches (Rule o km t s') k); [reflexivity | exact IH]. }
  rewrite !G.
  destruct (first_rule is_const_rule k rules); [reflexivity|].
  destruct (first_rule is_type_rule k rules); [reflexivity|].
  destruct (first_rule is_maybe_rule k rules); reflexivity.
Qed.

Lemma check_opt_dict s m lbl : check (SOpt s) (VDict m) lbl = check s (VDict m) lbl.
Proof. reflexivity. Qed.

Definition unopt (s : schema) : schema := match s with SOpt s' => s' | _ => s end.

Lemma check_unopt_dict s m lbl : check s (VDict m) lbl = check (unopt s) (VDict m) lbl.
Proof. destruct s; reflexivity. Qed.

(* an error reported for the value found under a constant/typed/optional key is reported for the document *)
Lemma entry_in_check rules m lbl k x e :
  In (k, x) m -> In e (entry_errs rules lbl (k, x)) -> In e (check (SDict rules) (VDict m) lbl).
Proof.
  intros Hin He. rewrite check_dict_eq. apply in_or_app; left.
  apply in_flat_map. exists (k, x); split; assumption.
Qed.

Lemma lift_errors p : forall s v s' v' lbl e,
  sub_at p s = Some s' -> pget p v = Some v' ->
  In e (check s' v' (path_label lbl p)) -> In e (check s v lbl).
Proof.
  induction p as [|k p IH]; intros s v s' v' lbl e Hs Hv He; cbn in *.
  - inversion Hs; inversion Hv; subst; assumption.
  - destruct v; try discriminate.
    destruct (plookup k m) eqn:L; [|discriminate].
    rewrite check_unopt_dict. unfold unopt.
    destruct (match s with SOpt s'0 => s'0 | _ => s end) eqn:U; try discriminate.
    destruct (find_rule rules k) eqn:F; [|discriminate].
    apply (entry_in_check rules m lbl k p0).
    + apply plookup_In; assumption.
    + unfold entry_errs; cbn [fst snd]. rewrite F.
      eapply IH; eassumption.
Qed.

Lemma unknown_key_reported s rules m lbl k x :
  dict_rules s = Some rules -> In (k, x) m -> find_rule rules k = None ->
  In (EKeyUnknown (key_label lbl k)) (check s (VDict m) lbl).
Proof.
  intros D Hin F. rewrite check_unopt_dict. unfold dict_rules, unopt in *.
  destruct (match s with SOpt s' => s' | _ => s end); try discriminate. inversion D; subst.
  apply (entry_in_check rules m lbl k x); [assumption|].
  unfold entry_errs; cbn [fst snd]. rewrite F. left; reflexivity.
Qed.

(* any document holding, at a dictionary position of the schema, a key that no rule matches is reported *)
Lemma schema_unknown_key s v p s' rules m k x lbl :
  sub_at p s = Some s' -> dict_rules s' = Some rules -> pget p v = Some (VDict m) ->
  In (k, x) m -> find_rule rules k = None ->
  In (EKeyUnknown (key_label (path_label lbl p) k)) (check s v lbl).
Proof.
  intros Hs D Hv Hin F.
  eapply lift_errors; [exact Hs | exact Hv |].
  eapply unknown_key_reported; eassumption.
Qed.

(* closed dictionaries: only constant keys *)
Definition closed_rules (rules : list rule) : bool :=
  forallb (fun r => match rule_km r with MConst _ => true | _ => false end) rules.
Definition const_keys (rules : list rule) : list pk :=
  flat_map (fun r => match rule_km r with MConst k => [k] | _ => [] end) rules.

Lemma first_rule_closed sel rules k :
  closed_rules rules = true -> kmem pk_eqb k (const_keys rules) = false -> first_rule sel k rules = None.
Proof.
  induction rules as [|[o km t s] rest IH]; intros C N; [reflexivity|].
  cbn in C. apply andb_prop in C as [C1 C2].
  destruct km; try discriminate.
  cbn in N. apply orb_false_elim in N as [N1 N2].
  assert (M : rule_matches (Rule o (MConst k0) t s) k = false).
  { unfold rule_matches; cbn. destruct o; exact N1. }
  cbn [first_rule]. rewrite M, andb_false_r. apply IH; assumption.
Qed.

Lemma find_rule_closed rules k :
  closed_rules rules = true -> kmem pk_eqb k (const_keys rules) = false -> find_rule rules k = None.
Proof. intros C N. unfold find_rule. rewrite !first_rule_closed by assumption. reflexivity. Qed.

(* values that are lists are rejected by every scalar schema *)
Definition no_list1 (s : schema) : bool :=
  match s with
  | SConst _ | SDict _ => true
  | SType tys => negb (existsb (fun t => match t with TList => true | _ => false end) tys)
  | SPred PTrue => false
  | SPred _ => true
  | _ => false
  end.
Definition no_list (s : schema) : bool :=
  match unopt s with
  | SOr alts => forallb no_list1 alts
  | s' => no_list1 s'
  end.

Lemma no_list1_sound s l lbl : no_list1 s = true -> check s (VList l) lbl = [EValueInvalid lbl].
Proof.
  destruct s; cbn; try discriminate; intros H.
  - destruct c; reflexivity.
  - replace (existsb (fun t => ty_match t (VList l)) tys) with false; [reflexivity|].
    symmetry. apply negb_true_iff in H.
    induction tys as [|t r IH]; [reflexivity|]. cbn in *. apply orb_false_elim in H as [H1 H2].
    rewrite IH by assumption. destruct t; try reflexivity; discriminate.
  - destruct p; try discriminate; reflexivity.
  - reflexivity.
Qed.

Lemma no_list_sound s l lbl : no_list s = true -> check s (VList l) lbl = [EValueInvalid lbl].
Proof.
  unfold no_list. intros H.
  assert (E : check s (VList l) lbl = check (unopt s) (VList l) lbl) by (destruct s; reflexivity).
  rewrite E. destruct (unopt s) eqn:U; try (apply no_list1_sound; exact H).
  cbn [check].
  replace ((fix any (al : list schema) : bool :=
              match al with
              | [] => false
              | a :: r => match check a (VList l) lbl with [] => true | _ :: _ => any r end
              end) alts) with false; [reflexivity|].
  symmetry. clear U E. induction alts as [|a r IH]; [reflexivity|].
  cbn in H. apply andb_prop in H as [H1 H2]. rewrite (no_list1_sound a l lbl H1). apply IH; assumption.
Qed.

Lemma schema_wrong_type s v p s' l lbl :
  sub_at p s = Some s' -> no_list s' = true -> pget p v = Some (VList l) ->
  In (EValueInvalid (path_label lbl p)) (check s v lbl).
Proof.
  intros Hs N Hv. eapply lift_errors; [exact Hs | exact Hv |].
  rewrite (no_list_sound s' l _ N). left; reflexivity.
Qed.

Lemma hard_in s v lbl e : In e (check s v lbl) -> is_hard e = true -> hard_errs s v lbl <> [].
Proof.
  intros H1 H2 E. unfold hard_errs in E.
  assert (In e (filter is_hard (check s v lbl))) by (apply filter_In; split; assumption).
  rewrite E in H; destruct H.
Qed.

(* ------------------------------------------------------------------ graphs *)
Section GraphProofs.
  Variable K : Type.
  Variable keqb : K -> K -> bool.
  Hypothesis keqb_eq : forall a b, keqb a b = true <-> a = b.

  Lemma kmem_In x l : kmem keqb x l = true <-> In x l.
  Proof.
    unfold kmem. rewrite existsb_exists. split.
    - intros [y [H1 H2]]. apply keqb_eq in H2; subst; assumption.
    - intros H; exists x; split; [assumption | apply keqb_eq; reflexivity].
  Qed.

  Definition edge (g : list (K * list K)) (u v : K) : Prop := exists rs, In (v, rs) g /\ In u rs.

  (* rank of a node in an order: earlier nodes have a larger rank, absent nodes rank 0 *)
  Fixpoint rk (x : K) (ord : list (K * list K)) : nat :=
    match ord with
    | [] => 0
    | e :: r => if keqb x (fst e) then S (length r) else rk x r
    end.

  Lemma rk_le x ord : rk x ord <= length ord.
  Proof. induction ord as [|e r IH]; cbn; [lia|]. destruct (keqb x (fst e)); lia. Qed.

  Lemma vo_rank ord : forall seen,
    vo keqb seen ord = true ->
    forall v rs u, In (v, rs) ord -> In u rs ->
      ~ In v seen /\ (In u seen \/ rk u ord > rk v ord).
  Proof.
    induction ord as [|e r IH]; intros seen H v rs u Hin Hu; [destruct Hin|].
    cbn in H. apply andb_prop in H as [H H3]. apply andb_prop in H as [H1 H2].
    apply negb_true_iff in H2.
    destruct Hin as [E | Hin].
    - subst e; cbn in *. split.
      + intros C. apply kmem_In in C. congruence.
      + left. rewrite forallb_forall in H1. apply kmem_In. apply H1; assumption.
    - destruct (IH _ H3 v rs u Hin Hu) as [N D].
      assert (Nv : v <> fst e) by (intros C; apply N; left; symmetry; exact C).
      split; [intros C; apply N; right; exact C|].
      cbn [rk].
      destruct (keqb v (fst e)) eqn:Ev; [apply keqb_eq in Ev; contradiction|].
      destruct (keqb u (fst e)) eqn:Eu.
      + right. pose proof (rk_le v r). lia.
      + destruct D as [[D|D]|D].
        * subst u. assert (keqb (fst e) (fst e) = true) by (apply keqb_eq; reflexivity). congruence.
        * left; assumption.
        * right; assumption.
  Qed.

  Lemma vo_edge_rank ord u v : vo keqb [] ord = true -> edge ord u v -> rk u ord > rk v ord.
  Proof.
    intros H [rs [H1 H2]]. destruct (vo_rank ord [] H v rs u H1 H2) as [_ [[]|D]]. exact D.
  Qed.

  Lemma covers_edge g ord u v : covers keqb g ord = true -> edge g u v -> edge ord u v.
  Proof.
    intros C [rs [H1 H2]]. unfold covers in C. rewrite forallb_forall in C.
    specialize (C _ H1). apply existsb_exists in C as [e' [I E]].
    apply andb_prop in E as [E1 E2]. cbn in *. apply keqb_eq in E1. subst v.
    rewrite forallb_forall in E2. specialize (E2 _ H2). apply kmem_In in E2.
    exists (snd e'). split; [destruct e'; exact I | exact E2].
  Qed.

  Theorem acyclic_b_sound g : acyclic_b keqb g = true -> forall u, ~ clos_trans K (edge g) u u.
  Proof.
    unfold acyclic_b. intros H u C. apply andb_prop in H as [H1 H2].
    set (ord := kahn keqb (length g) [] g) in *.
    assert (P : forall a b, clos_trans K (edge g) a b -> rk a ord > rk b ord).
    { intros a b T. induction T as [a b E | a b c _ IH1 _ IH2].
      - apply vo_edge_rank; [assumption | eapply covers_edge; eassumption].
      - lia. }
    specialize (P _ _ C). lia.
  Qed.

  Lemma uniq_NoDup l : uniq keqb l = true -> NoDup l.
  Proof.
    induction l as [|x r IH]; intros H; [constructor|].
    cbn in H. apply andb_prop in H as [H1 H2]. constructor; [|auto].
    intros C. apply kmem_In in C. rewrite C in H1; discriminate.
  Qed.

  Lemma NoDup_uniq l : NoDup l -> uniq keqb l = true.
  Proof.
    induction 1 as [|x r N _ IH]; [reflexivity|]. cbn. rewrite IH, andb_true_r.
    apply negb_true_iff. destruct (kmem keqb x r) eqn:E; [|reflexivity]. apply kmem_In in E; contradiction.
  Qed.
End GraphProofs.
Arguments edge {K}.

Lemma cid_eqb_eq a b : cid_eqb a b = true <-> a = b.
Proof.
  destruct a as [a1 a2], b as [b1 b2]; unfold cid_eqb; cbn. rewrite andb_true_iff, N.eqb_eq, String.eqb_eq.
  split; [intros [-> ->]; reflexivity | intros H; inversion H; auto].
Qed.
