(* C11 — lemmas: the schema interpreter never masks an error below a path of dictionary keys; the
   topological-order check is sound; every single-fault mutation of an accepted workflow is rejected. *)
From Coq Require Import String Ascii List Bool ZArith NArith Arith Lia Relations.
Import ListNotations.
Require Import V.Lib.PyStr V.Valid.Model.
Open Scope string_scope.
Open Scope list_scope.

(* ------------------------------------------------------------------ dictionaries *)
Lemma pk_eqb_refl k : pk_eqb k k = true.
Proof. apply pk_eqb_eq; reflexivity. Qed.

Lemma plookup_In k m v : plookup k m = Some v -> In (k, v) m.
Proof.
  induction m as [|[k' v'] r IH]; cbn; [discriminate|].
  destruct (pk_eqb k k') eqn:E.
  - intros H; inversion H; subst. apply pk_eqb_eq in E; subst; left; reflexivity.
  - intros H; right; auto.
Qed.

Lemma plookup_pset k x m : plookup k (pset k x m) = Some x.
Proof.
  induction m as [|[k' v'] r IH]; cbn.
  - rewrite pk_eqb_refl; reflexivity.
  - destruct (pk_eqb k k') eqn:E; cbn; [rewrite pk_eqb_refl; reflexivity | rewrite E; exact IH].
Qed.

Lemma In_pset k x m : In (k, x) (pset k x m).
Proof. apply plookup_In, plookup_pset. Qed.

Lemma pget_pput_dict p : forall k x v m,
  pget p v = Some (VDict m) -> pget p (pput p k x v) = Some (VDict (pset k x m)).
Proof.
  induction p as [|k0 p IH]; intros k x v m H; cbn in *.
  - inversion H; subst; reflexivity.
  - destruct v; try discriminate.
    destruct (plookup k0 m0) eqn:L; [|discriminate].
    cbn. rewrite plookup_pset. apply IH; assumption.
Qed.

Lemma pget_app p q v w : pget p v = Some w -> pget (p ++ q) v = pget q w.
Proof.
  revert v; induction p as [|k p IH]; intros v H; cbn in *.
  - inversion H; reflexivity.
  - destruct v; try discriminate. destruct (plookup k m); [|discriminate]. apply IH; assumption.
Qed.

Lemma pget_pput_leaf p k x v m :
  pget p v = Some (VDict m) -> pget (p ++ [k]) (pput p k x v) = Some x.
Proof.
  intros H. rewrite (pget_app _ _ _ _ (pget_pput_dict p k x v m H)). cbn. rewrite plookup_pset. reflexivity.
Qed.

(* ------------------------------------------------------------------ the interpreter, first-order form *)
Lemma check_dict_eq rules m lbl :
  check (SDict rules) (VDict m) lbl = flat_map (entry_errs rules lbl) m ++ missing_errs rules m lbl.
Proof.
  cbn [check]. unfold missing_errs. f_equal.
  apply flat_map_ext. intros [k x]. unfold entry_errs, find_rule. cbn [fst snd].
  assert (G : forall sel rs,
    (fix go (sel : rule -> bool) (rs : list rule) (k : pk) (x : pv) {struct rs} : option (list err) :=
       match rs with
       | [] => None
       | Rule o km t s' :: rest =>
           if sel (Rule o km t s') && rule_matches (Rule o km t s') k
           then Some (check s' x (key_label lbl k)) else go sel rest k x
       end) sel rs k x
    = option_map (fun r => check (rule_schema r) x (key_label lbl k)) (first_rule sel k rs)).
  { intros sel rs. induction rs as [|[o km t s'] rest IH]; [reflexivity|].
    cbn [first_rule]. destruct (sel (Rule o km t s') && rule_matches (Rule o km t s') k); [reflexivity | exact IH]. }
  rewrite !G.
  destruct (first_rule is_const_rule k rules); [reflexivity|].
  destruct (first_rule is_type_rule k rules); [reflexivity|].
  destruct (first_rule is_maybe_rule k rules); reflexivity.
Qed.

Lemma check_opt_dict s m lbl : check (SOpt s) (VDict m) lbl = check s (VDict m) lbl.
Proof. reflexivity. Qed.

Definition unopt (s : schema) : schema := match s with SOpt s' => s' | _ => s end.

Lemma check_unopt_dict s m lbl : check s (VDict m) lbl = check (unopt s) (VDict m) lbl.
Proof. destruct s; reflexivity. Qed.

(* an error reported for the value found under a constant/typed/optional key is reported for the document *)
Lemma entry_in_check rules m lbl k x e :
  In (k, x) m -> In e (entry_errs rules lbl (k, x)) -> In e (check (SDict rules) (VDict m) lbl).
Proof.
  intros Hin He. rewrite check_dict_eq. apply in_or_app; left.
  apply in_flat_map. exists (k, x); split; assumption.
Qed.

Lemma lift_errors p : forall s v s' v' lbl e,
  sub_at p s = Some s' -> pget p v = Some v' ->
  In e (check s' v' (path_label lbl p)) -> In e (check s v lbl).
Proof.
  induction p as [|k p IH]; intros s v s' v' lbl e Hs Hv He; cbn in *.
  - inversion Hs; inversion Hv; subst; assumption.
  - destruct v; try discriminate.
    destruct (plookup k m) eqn:L; [|discriminate].
    rewrite check_unopt_dict. unfold unopt.
    destruct (match s with SOpt s'0 => s'0 | _ => s end) eqn:U; try discriminate.
    destruct (find_rule rules k) eqn:F; [|discriminate].
    apply (entry_in_check rules m lbl k p0).
    + apply plookup_In; assumption.
    + unfold entry_errs; cbn [fst snd]. rewrite F.
      eapply IH; eassumption.
Qed.

Lemma unknown_key_reported s rules m lbl k x :
  dict_rules s = Some rules -> In (k, x) m -> find_rule rules k = None ->
  In (EKeyUnknown (key_label lbl k)) (check s (VDict m) lbl).
Proof.
  intros D Hin F. rewrite check_unopt_dict. unfold dict_rules, unopt in *.
  destruct (match s with SOpt s' => s' | _ => s end); try discriminate. inversion D; subst.
  apply (entry_in_check rules m lbl k x); [assumption|].
  unfold entry_errs; cbn [fst snd]. rewrite F. left; reflexivity.
Qed.

(* any document holding, at a dictionary position of the schema, a key that no rule matches is reported *)
Lemma schema_unknown_key s v p s' rules m k x lbl :
  sub_at p s = Some s' -> dict_rules s' = Some rules -> pget p v = Some (VDict m) ->
  In (k, x) m -> find_rule rules k = None ->
  In (EKeyUnknown (key_label (path_label lbl p) k)) (check s v lbl).
Proof.
  intros Hs D Hv Hin F.
  eapply lift_errors; [exact Hs | exact Hv |].
  eapply unknown_key_reported; eassumption.
Qed.

(* closed dictionaries: only constant keys *)
Definition closed_rules (rules : list rule) : bool :=
  forallb (fun r => match rule_km r with MConst _ => true | _ => false end) rules.
Definition const_keys (rules : list rule) : list pk :=
  flat_map (fun r => match rule_km r with MConst k => [k] | _ => [] end) rules.

Lemma first_rule_closed sel rules k :
  closed_rules rules = true -> kmem pk_eqb k (const_keys rules) = false -> first_rule sel k rules = None.
Proof.
  induction rules as [|[o km t s] rest IH]; intros C N; [reflexivity|].
  cbn in C. apply andb_prop in C as [C1 C2].
  destruct km; try discriminate.
  cbn in N. apply orb_false_elim in N as [N1 N2].
  assert (M : rule_matches (Rule o (MConst k0) t s) k = false).
  { unfold rule_matches; cbn. destruct o; exact N1. }
  cbn [first_rule]. rewrite M, andb_false_r. apply IH; assumption.
Qed.

Lemma find_rule_closed rules k :
  closed_rules rules = true -> kmem pk_eqb k (const_keys rules) = false -> find_rule rules k = None.
Proof. intros C N. unfold find_rule. rewrite !first_rule_closed by assumption. reflexivity. Qed.

(* values that are lists are rejected by every scalar schema *)
Definition no_list1 (s : schema) : bool :=
  match s with
  | SConst _ | SDict _ => true
  | SType tys => negb (existsb (fun t => match t with TList => true | _ => false end) tys)
  | SPred PTrue => false
  | SPred _ => true
  | _ => false
  end.
Definition no_list (s : schema) : bool :=
  match unopt s with
  | SOr alts => forallb no_list1 alts
  | s' => no_list1 s'
  end.

Lemma no_list1_sound s l lbl : no_list1 s = true -> check s (VList l) lbl = [EValueInvalid lbl].
Proof.
  destruct s; cbn; try discriminate; intros H.
  - destruct c; reflexivity.
  - replace (existsb (fun t => ty_match t (VList l)) tys) with false; [reflexivity|].
    symmetry. apply negb_true_iff in H.
    induction tys as [|t r IH]; [reflexivity|]. cbn in *. apply orb_false_elim in H as [H1 H2].
    rewrite IH by assumption. destruct t; try reflexivity; discriminate.
  - destruct p; try discriminate; reflexivity.
  - reflexivity.
Qed.

Lemma no_list_sound s l lbl : no_list s = true -> check s (VList l) lbl = [EValueInvalid lbl].
Proof.
  unfold no_list. intros H.
  assert (E : check s (VList l) lbl = check (unopt s) (VList l) lbl) by (destruct s; reflexivity).
  rewrite E. destruct (unopt s) eqn:U; try (apply no_list1_sound; exact H).
  cbn [check].
  replace ((fix any (al : list schema) : bool :=
              match al with
              | [] => false
              | a :: r => match check a (VList l) lbl with [] => true | _ :: _ => any r end
              end) alts) with false; [reflexivity|].
  symmetry. clear U E. induction alts as [|a r IH]; [reflexivity|].
  cbn in H. apply andb_prop in H as [H1 H2]. rewrite (no_list1_sound a l lbl H1). apply IH; assumption.
Qed.

Lemma schema_wrong_type s v p s' l lbl :
  sub_at p s = Some s' -> no_list s' = true -> pget p v = Some (VList l) ->
  In (EValueInvalid (path_label lbl p)) (check s v lbl).
Proof.
  intros Hs N Hv. eapply lift_errors; [exact Hs | exact Hv |].
  rewrite (no_list_sound s' l _ N). left; reflexivity.
Qed.

Lemma hard_in s v lbl e : In e (check s v lbl) -> is_hard e = true -> hard_errs s v lbl <> [].
Proof.
  intros H1 H2 E. unfold hard_errs in E.
  assert (In e (filter is_hard (check s v lbl))) by (apply filter_In; split; assumption).
  rewrite E in H; destruct H.
Qed.

(* ------------------------------------------------------------------ convert_component_types *)
Lemma convert_none v : convert None v = Some v.
Proof. destruct v; reflexivity. Qed.

(* a list is never converted *)
Lemma convert_list t l : convert t (VList l) = Some (VList l).
Proof. destruct t as [[c|ch]|]; reflexivity. Qed.

(* a float is never converted: whatever its value *)
Lemma convert_float t r : convert t (VFlt r) = Some (VFlt r).
Proof. destruct t as [[c|ch]|]; reflexivity. Qed.

Lemma convert_node ch m :
  convert (Some (CNode ch)) (VDict m)
  = option_map VDict (omap (fun kv => option_map (pair (fst kv)) (convert (child ch (fst kv)) (snd kv))) m).
Proof. reflexivity. Qed.

Lemma omap_plookup (f : pk -> pv -> option pv) : forall m m' k w,
  omap (fun kv => option_map (pair (fst kv)) (f (fst kv) (snd kv))) m = Some m' ->
  plookup k m = Some w -> exists w', plookup k m' = Some w' /\ f k w = Some w'.
Proof.
  induction m as [|[k0 x0] r IH]; intros m' k w H L; [discriminate|].
  cbn [omap fst snd] in H.
  destruct (f k0 x0) as [y|] eqn:F; cbn in H; [|discriminate].
  destruct (omap _ r) as [r'|] eqn:O; [|discriminate]. inversion H; subst m'. clear H.
  cbn [plookup] in *. destruct (pk_eqb k k0) eqn:E.
  - apply pk_eqb_eq in E; subst k0. inversion L; subst. exists y. split; [reflexivity | exact F].
  - apply (IH r' k w eq_refl L).
Qed.

Lemma omap_keys (f : pk -> pv -> option pv) : forall m m',
  omap (fun kv => option_map (pair (fst kv)) (f (fst kv) (snd kv))) m = Some m' -> map fst m' = map fst m.
Proof.
  induction m as [|[k0 x0] r IH]; intros m' H; cbn [omap fst snd] in H.
  - inversion H; reflexivity.
  - destruct (f k0 x0) as [y|]; cbn in H; [|discriminate].
    destruct (omap _ r) as [r'|] eqn:O; [|discriminate]. inversion H; subst. cbn. f_equal. apply IH. reflexivity.
Qed.

(* what sits at a path of dictionary keys after a successful conversion is the conversion, by the entry of the table
   for that path, of what sat there before *)
Lemma convert_pget : forall p t v v' x,
  convert t v = Some v' -> pget p v = Some x ->
  exists x', pget p v' = Some x' /\ convert (tree_at p t) x = Some x'.
Proof.
  induction p as [|k p IH]; intros t v v' x C G; cbn [pget tree_at] in *.
  - inversion G; subst. exists v'. split; [reflexivity | exact C].
  - destruct v; try discriminate. destruct (plookup k m) as [w|] eqn:L; [|discriminate].
    destruct t as [[c|ch]|].
    + (* a callable in the table, a non-empty dictionary in the document: only `dict` lets it through *)
      assert (E : v' = VDict m).
      { cbn in C. destruct c, m; try discriminate; inversion C; reflexivity. }
      subst v'. exists x. split; [cbn [pget]; rewrite L; exact G | apply convert_none].
    + rewrite convert_node in C.
      destruct (omap _ m) as [m'|] eqn:O; [|discriminate]. inversion C; subst v'. clear C.
      destruct (omap_plookup (fun k0 x0 => convert (child ch k0) x0) m m' k w O L) as [w' [L' Cw]].
      destruct (IH (child ch k) w w' x Cw G) as [x' [G' Cx]].
      exists x'. split; [cbn [pget]; rewrite L'; exact G' | exact Cx].
    + rewrite convert_none in C. inversion C; subst v'.
      exists x. split; [cbn [pget]; rewrite L; exact G | apply convert_none].
Qed.

(* a dictionary keeps its keys *)
Lemma convert_dict_keys t m v' : convert t (VDict m) = Some v' -> exists m', v' = VDict m' /\ map fst m' = map fst m.
Proof.
  intros C. destruct t as [[c|ch]|].
  - exists m. split; [|reflexivity]. cbn in C. destruct c, m; try discriminate; inversion C; reflexivity.
  - rewrite convert_node in C. destruct (omap _ m) as [m'|] eqn:O; [|discriminate]. inversion C; subst.
    exists m'. split; [reflexivity|]. exact (omap_keys (fun k0 x0 => convert (child ch k0) x0) m m' O).
  - cbn in C. inversion C. exists m. split; reflexivity.
Qed.

Lemma in_keys_entry {A B} (k : A) (m : list (A * B)) : In k (map fst m) -> exists x, In (k, x) m.
Proof. intros I. apply in_map_iff in I as [[k' x] [E I]]. cbn in E; subst. exists x; exact I. Qed.

(* ------------------------------------------------------------------ graphs *)
Section GraphProofs.
  Variable K : Type.
  Variable keqb : K -> K -> bool.
  Hypothesis keqb_eq : forall a b, keqb a b = true <-> a = b.

  Lemma kmem_In x l : kmem keqb x l = true <-> In x l.
  Proof.
    unfold kmem. rewrite existsb_exists. split.
    - intros [y [H1 H2]]. apply keqb_eq in H2; subst; assumption.
    - intros H; exists x; split; [assumption | apply keqb_eq; reflexivity].
  Qed.

  Definition edge (g : list (K * list K)) (u v : K) : Prop := exists rs, In (v, rs) g /\ In u rs.

  (* rank of a node in an order: earlier nodes have a larger rank, absent nodes rank 0 *)
  Fixpoint rk (x : K) (ord : list (K * list K)) : nat :=
    match ord with
    | [] => 0
    | e :: r => if keqb x (fst e) then S (length r) else rk x r
    end.

  Lemma rk_le x ord : rk x ord <= length ord.
  Proof. induction ord as [|e r IH]; cbn; [lia|]. destruct (keqb x (fst e)); lia. Qed.

  Lemma vo_rank ord : forall seen,
    vo keqb seen ord = true ->
    forall v rs u, In (v, rs) ord -> In u rs ->
      ~ In v seen /\ (In u seen \/ rk u ord > rk v ord).
  Proof.
    induction ord as [|e r IH]; intros seen H v rs u Hin Hu; [destruct Hin|].
    cbn in H. apply andb_prop in H as [H H3]. apply andb_prop in H as [H1 H2].
    apply negb_true_iff in H2.
    destruct Hin as [E | Hin].
    - subst e; cbn in *. split.
      + intros C. apply kmem_In in C. congruence.
      + left. rewrite forallb_forall in H1. apply kmem_In. apply H1; assumption.
    - destruct (IH _ H3 v rs u Hin Hu) as [N D].
      assert (Nv : v <> fst e) by (intros C; apply N; left; symmetry; exact C).
      split; [intros C; apply N; right; exact C|].
      cbn [rk].
      destruct (keqb v (fst e)) eqn:Ev; [apply keqb_eq in Ev; contradiction|].
      destruct (keqb u (fst e)) eqn:Eu.
      + right. pose proof (rk_le v r). lia.
      + destruct D as [[D|D]|D].
        * subst u. assert (keqb (fst e) (fst e) = true) by (apply keqb_eq; reflexivity). congruence.
        * left; assumption.
        * right; assumption.
  Qed.

  Lemma vo_edge_rank ord u v : vo keqb [] ord = true -> edge ord u v -> rk u ord > rk v ord.
  Proof.
    intros H [rs [H1 H2]]. destruct (vo_rank ord [] H v rs u H1 H2) as [_ [[]|D]]. exact D.
  Qed.

  Lemma covers_edge g ord u v : covers keqb g ord = true -> edge g u v -> edge ord u v.
  Proof.
    intros C [rs [H1 H2]]. unfold covers in C. rewrite forallb_forall in C.
    specialize (C _ H1). apply existsb_exists in C as [e' [I E]].
    apply andb_prop in E as [E1 E2]. cbn in *. apply keqb_eq in E1. subst v.
    rewrite forallb_forall in E2. specialize (E2 _ H2). apply kmem_In in E2.
    exists (snd e'). split; [destruct e'; exact I | exact E2].
  Qed.

  Theorem acyclic_b_sound g : acyclic_b keqb g = true -> forall u, ~ clos_trans K (edge g) u u.
  Proof.
    unfold acyclic_b. intros H u C. apply andb_prop in H as [H1 H2].
    set (ord := kahn keqb (length g) [] g) in *.
    assert (P : forall a b, clos_trans K (edge g) a b -> rk a ord > rk b ord).
    { intros a b T. induction T as [a b E | a b c _ IH1 _ IH2].
      - apply vo_edge_rank; [assumption | eapply covers_edge; eassumption].
      - lia. }
    specialize (P _ _ C). lia.
  Qed.

  Lemma uniq_NoDup l : uniq keqb l = true -> NoDup l.
  Proof.
    induction l as [|x r IH]; intros H; [constructor|].
    cbn in H. apply andb_prop in H as [H1 H2]. constructor; [|auto].
    intros C. apply kmem_In in C. rewrite C in H1; discriminate.
  Qed.

  Lemma NoDup_uniq l : NoDup l -> uniq keqb l = true.
  Proof.
    induction 1 as [|x r N _ IH]; [reflexivity|]. cbn. rewrite IH, andb_true_r.
    apply negb_true_iff. destruct (kmem keqb x r) eqn:E; [|reflexivity]. apply kmem_In in E; contradiction.
  Qed.
End GraphProofs.
Arguments edge {K}.

Lemma cid_eqb_eq a b : cid_eqb a b = true <-> a = b.
Proof.
  destruct a as [a1 a2], b as [b1 b2]; unfold cid_eqb; cbn. rewrite andb_true_iff, N.eqb_eq, String.eqb_eq.
  split; [intros [-> ->]; reflexivity | intros H; inversion H; auto].
Qed.

Lemma string_eqb_eq' a b : String.eqb a b = true <-> a = b.
Proof. apply String.eqb_eq. Qed.

Lemma clos_trans_mono {A} (R S : A -> A -> Prop) :
  (forall a b, R a b -> S a b) -> forall a b, clos_trans A R a b -> clos_trans A S a b.
Proof.
  intros H a b T. induction T as [a b E | a b c _ IH1 _ IH2].
  - apply t_step; auto.
  - eapply t_trans; eassumption.
Qed.

(* ------------------------------------------------------------------ soundness of accept *)
Definition wedge (w : wf) (u v : cid) : Prop :=
  exists c, In c (w_comps w) /\ c_id c = v /\ In u (c_refs c).

Definition var_edge (w : wf) (c : comp) (u v : string) : Prop :=
  exists rs, In (v, rs) (env_of w c) /\ In u rs.

Definition vars_resolvable (w : wf) (c : comp) : Prop :=
  (forall u, In u (c_uses c) -> In u (map fst (env_of w c))) /\
  (forall n rs u, In (n, rs) (env_of w c) -> In u rs -> In u (map fst (env_of w c))) /\
  (forall x, ~ clos_trans string (var_edge w c) x x).

Lemma wedge_graph w : refs_exist w = true -> forall u v, wedge w u v -> edge (graph_of w) u v.
Proof.
  intros R u v [c [Hc [Hid Hu]]]. unfold refs_exist in R. rewrite forallb_forall in R.
  specialize (R _ Hc). rewrite forallb_forall in R. specialize (R _ Hu).
  exists (filter (fun r => kmem cid_eqb r (ids w)) (c_refs c)). split.
  - unfold graph_of. apply in_map_iff. exists c. rewrite Hid. split; [reflexivity | assumption].
  - apply filter_In; split; assumption.
Qed.

Lemma var_edge_graph w c : vars_defined w c = true -> forall u v, var_edge w c u v -> edge (var_graph w c) u v.
Proof.
  intros D u v [rs [H1 H2]]. unfold vars_defined in D. apply andb_prop in D as [_ D].
  rewrite forallb_forall in D. specialize (D _ H1). cbn in D. rewrite forallb_forall in D. specialize (D _ H2).
  exists (filter (fun u0 => kmem String.eqb u0 (map fst (env_of w c))) rs). split.
  - unfold var_graph. apply in_map_iff. exists (v, rs). split; [reflexivity | assumption].
  - apply filter_In; split; assumption.
Qed.

Section AcceptProofs.
  Variable cs : schema.

  Theorem accept_sound w : accept cs w = true ->
    NoDup (ids w) /\
    (forall c r, In c (w_comps w) -> In r (c_refs c) -> exists c', In c' (w_comps w) /\ c_id c' = r) /\
    (forall u, ~ clos_trans cid (wedge w) u u) /\
    (forall c, In c (w_comps w) -> vars_resolvable w c) /\
    (forall c, In c (w_comps w) -> doc_hard_errs cs (c_doc c) = []).
  Proof.
    unfold accept. intros H.
    apply andb_prop in H as [H _]. apply andb_prop in H as [H _]. apply andb_prop in H as [H Hv]. apply andb_prop in H as [H Hc].
    apply andb_prop in H as [H Hr]. apply andb_prop in H as [Hs Hu].
    split; [|split; [|split; [|split]]].
    - apply (uniq_NoDup cid cid_eqb cid_eqb_eq); assumption.
    - intros c r Ic Ir. unfold refs_exist in Hr. rewrite forallb_forall in Hr. specialize (Hr _ Ic).
      rewrite forallb_forall in Hr. specialize (Hr _ Ir). apply (kmem_In cid cid_eqb cid_eqb_eq) in Hr.
      unfold ids in Hr. apply in_map_iff in Hr as [c' [E I]]. exists c'; split; assumption.
    - intros u C. apply (acyclic_b_sound cid cid_eqb cid_eqb_eq _ Hc u).
      eapply clos_trans_mono; [|exact C]. apply wedge_graph; assumption.
    - intros c Ic. rewrite forallb_forall in Hv. specialize (Hv _ Ic). apply andb_prop in Hv as [D A].
      pose proof D as D0. unfold vars_defined in D. apply andb_prop in D as [D1 D2].
      split; [|split].
      + intros u Iu. rewrite forallb_forall in D1. apply (kmem_In string String.eqb string_eqb_eq'). auto.
      + intros n rs u I1 I2. rewrite forallb_forall in D2. specialize (D2 _ I1). cbn in D2.
        rewrite forallb_forall in D2. apply (kmem_In string String.eqb string_eqb_eq'). auto.
      + intros x C. apply (acyclic_b_sound string String.eqb string_eqb_eq' _ A x).
        eapply clos_trans_mono; [|exact C]. apply var_edge_graph; assumption.
    - intros c Ic. rewrite forallb_forall in Hs. specialize (Hs _ Ic). unfold schema_ok in Hs.
      destruct (doc_hard_errs cs (c_doc c)); [reflexivity | discriminate].
  Qed.

  (* ---------------------------------------------------------------- list surgery *)
  Lemma upd_nth_In {A} (f : A -> A) : forall i (l : list A) c, nth_error l i = Some c -> In (f c) (upd_nth i f l).
  Proof.
    induction i as [|i IH]; intros [|x r] c H; cbn in *; try discriminate.
    - inversion H; left; reflexivity.
    - right; apply IH; assumption.
  Qed.

  Lemma upd_nth_map {A B} (f : A -> A) (g : A -> B) : (forall x, g (f x) = g x) ->
    forall i l, map g (upd_nth i f l) = map g l.
  Proof.
    intros E. induction i as [|i IH]; intros [|x r]; cbn; try reflexivity.
    - rewrite E; reflexivity.
    - rewrite IH; reflexivity.
  Qed.

  Lemma accept_schema_false w c :
    In c (w_comps w) -> doc_hard_errs cs (c_doc c) <> [] -> accept cs w = false.
  Proof.
    intros Ic Hh. destruct (accept cs w) eqn:A; [|reflexivity].
    destruct (accept_sound w A) as [_ [_ [_ [_ S]]]]. specialize (S _ Ic). contradiction.
  Qed.

  (* the conversion raises, or the converted document has a hard schema error *)
  Lemma doc_hard_in d :
    (forall d', convert (Some expected_types) d = Some d' ->
                exists e, In e (check cs d' "") /\ is_hard e = true) ->
    doc_hard_errs cs d <> [].
  Proof.
    intros H. unfold doc_hard_errs. destruct (convert (Some expected_types) d) as [d'|]; [|discriminate].
    destruct (H d' eq_refl) as [e [I Hh]]. eapply hard_in; eassumption.
  Qed.

  (* UnknownKey / WrongType: the mutated document of component i has a hard schema error (after the conversion of
     convert_component_types, which keeps the keys of every dictionary and never touches a list) *)
  Lemma complete_unknown_key w i c p k x s' rules m :
    nth_error (w_comps w) i = Some c ->
    sub_at p cs = Some s' -> dict_rules s' = Some rules -> pget p (c_doc c) = Some (VDict m) ->
    find_rule rules k = None ->
    accept cs (mutate (UnknownKey i p k x) w) = false.
  Proof.
    intros Hn Hs D Hg F. cbn [mutate].
    apply accept_schema_false with (c := set_doc (pput p k x) c).
    - cbn. apply upd_nth_In; assumption.
    - cbn. apply doc_hard_in. intros d' C.
      destruct (convert_pget p _ _ d' _ C (pget_pput_dict p k x _ m Hg)) as [y [G Cy]].
      destruct (convert_dict_keys _ _ _ Cy) as [m' [-> K]].
      assert (Ik : In k (map fst m')).
      { rewrite K. apply in_map_iff. exists (k, x). split; [reflexivity | apply In_pset]. }
      destruct (in_keys_entry k m' Ik) as [x' Ix].
      exists (EKeyUnknown (key_label (path_label "" p) k)). split; [|reflexivity].
      eapply schema_unknown_key; [exact Hs | exact D | exact G | exact Ix | exact F].
  Qed.

  Lemma complete_wrong_type w i c p k l s' m :
    nth_error (w_comps w) i = Some c ->
    sub_at (p ++ [k]) cs = Some s' -> no_list s' = true -> pget p (c_doc c) = Some (VDict m) ->
    accept cs (mutate (WrongType i p k (VList l)) w) = false.
  Proof.
    intros Hn Hs N Hg. cbn [mutate].
    apply accept_schema_false with (c := set_doc (pput p k (VList l)) c).
    - cbn. apply upd_nth_In; assumption.
    - cbn. apply doc_hard_in. intros d' C.
      destruct (convert_pget (p ++ [k]) _ _ d' _ C (pget_pput_leaf p k (VList l) _ m Hg)) as [y [G Cy]].
      rewrite convert_list in Cy. inversion Cy; subst y.
      exists (EValueInvalid (path_label "" (p ++ [k]))). split; [|reflexivity].
      eapply schema_wrong_type; [exact Hs | exact N | exact G].
  Qed.

  (* WrongType, any value: what the value is converted to (if the conversion does not raise) has a hard schema error
     at that position *)
  Lemma complete_wrong_scalar w i c p k x m :
    nth_error (w_comps w) i = Some c -> pget p (c_doc c) = Some (VDict m) ->
    wrong_rejected cs (p ++ [k]) x = true ->
    accept cs (mutate (WrongType i p k x) w) = false.
  Proof.
    intros Hn Hg R. cbn [mutate].
    apply accept_schema_false with (c := set_doc (pput p k x) c).
    - cbn. apply upd_nth_In; assumption.
    - cbn. apply doc_hard_in. intros d' C.
      destruct (convert_pget (p ++ [k]) _ _ d' _ C (pget_pput_leaf p k x _ m Hg)) as [y [G Cy]].
      unfold wrong_rejected, conv_at in R. rewrite Cy in R.
      destruct (sub_at (p ++ [k]) cs) as [s'|] eqn:Hs; [|discriminate].
      apply existsb_exists in R as [e [Ie He]].
      exists e. split; [|exact He]. eapply lift_errors; [exact Hs | exact G | exact Ie].
  Qed.

  Lemma accept_uniq w : accept cs w = true -> uniq cid_eqb (ids w) = true.
  Proof.
    unfold accept. intros H. repeat (apply andb_prop in H as [H ?]). assumption.
  Qed.

  (* DupName: two positions with the same identifier *)
  Lemma nodup_nth {A} (l : list A) i j x : NoDup l -> nth_error l i = Some x -> nth_error l j = Some x -> i = j.
  Proof. intros N H1 H2. eapply NoDup_nth_error; eauto. apply nth_error_Some. congruence. congruence. Qed.

  Lemma nth_upd_same {A} (f : A -> A) : forall i (l : list A) c, nth_error l i = Some c -> nth_error (upd_nth i f l) i = Some (f c).
  Proof. induction i as [|i IH]; intros [|x r] c H; cbn in *; try discriminate; [inversion H; reflexivity | auto]. Qed.

  Lemma nth_upd_other {A} (f : A -> A) : forall i j (l : list A), i <> j -> nth_error (upd_nth i f l) j = nth_error l j.
  Proof.
    induction i as [|i IH]; intros [|j] [|x r] N; cbn; try reflexivity; try contradiction.
    apply IH; congruence.
  Qed.

  Lemma complete_dup_name w i j ci cj :
    i <> j -> nth_error (w_comps w) i = Some ci -> nth_error (w_comps w) j = Some cj ->
    accept cs (mutate (DupName i j) w) = false.
  Proof.
    intros N Hi Hj. cbn [mutate]. rewrite Hj.
    destruct (accept cs _) eqn:A; [|reflexivity]. exfalso.
    apply accept_uniq in A. apply (uniq_NoDup cid cid_eqb cid_eqb_eq) in A. unfold ids in A; cbn in A.
    apply N. eapply (nodup_nth _ i j (c_id cj) A).
    - rewrite nth_error_map, (nth_upd_same _ _ _ _ Hi). reflexivity.
    - rewrite nth_error_map, nth_upd_other by assumption. rewrite Hj; reflexivity.
  Qed.

  Lemma accept_refs w : accept cs w = true -> refs_exist w = true.
  Proof.
    unfold accept. intros H. apply andb_prop in H as [H _]. apply andb_prop in H as [H _].
    apply andb_prop in H as [H _]. apply andb_prop in H as [H _]. apply andb_prop in H as [_ H]. assumption.
  Qed.

  (* RenameRef: the j-th reference of component i now names no component *)
  Lemma complete_rename_ref w i j c r r' :
    nth_error (w_comps w) i = Some c -> nth_error (c_refs c) j = Some r ->
    ~ In r' (ids w) ->
    accept cs (mutate (RenameRef i j r') w) = false.
  Proof.
    intros Hi Hj Nr. cbn [mutate].
    destruct (accept cs _) eqn:A; [|reflexivity]. exfalso.
    destruct (accept_sound _ A) as [_ [R _]]. cbn in R.
    destruct (R (set_refs (upd_nth j (fun _ => r')) c) r') as [c' [I E]].
    - apply upd_nth_In; assumption.
    - cbn. apply (upd_nth_In (fun _ => r') j (c_refs c) r Hj).
    - apply Nr. unfold ids.
      assert (M : map c_id (upd_nth i (set_refs (upd_nth j (fun _ => r'))) (w_comps w)) = map c_id (w_comps w))
        by (apply upd_nth_map; intros; reflexivity).
      pose proof (in_map c_id _ _ I) as I2. rewrite M, E in I2. exact I2.
  Qed.

  (* DropComponent: a consumer of the dropped component remains *)
  Lemma del_nth_In {A} : forall i (l : list A) x, In x (del_nth i l) -> In x l.
  Proof.
    induction i as [|i IH]; intros [|y r] x H; cbn in *; try contradiction; [right; assumption|].
    destruct H; [left; assumption | right; apply IH; assumption].
  Qed.

  Lemma del_nth_keeps {A} : forall i j (l : list A) x, i <> j -> nth_error l j = Some x -> In x (del_nth i l).
  Proof.
    induction i as [|i IH]; intros [|j] [|y r] x N H; cbn in *; try discriminate; try contradiction.
    - eapply nth_error_In; eassumption.
    - inversion H; left; reflexivity.
    - right. eapply IH; [|eassumption]. congruence.
  Qed.

  Lemma del_nth_nodup {A} (g : A -> cid) : forall i (l : list A) x,
    NoDup (map g l) -> nth_error l i = Some x -> ~ In (g x) (map g (del_nth i l)).
  Proof.
    induction i as [|i IH]; intros [|y r] x N H; cbn in *; try discriminate.
    - inversion H; subst. inversion N; assumption.
    - inversion N as [|? ? N1 N2]; subst. intros [E | I].
      + apply N1. rewrite E. apply in_map. eapply nth_error_In; eassumption.
      + eapply IH; eassumption.
  Qed.

  Lemma complete_drop w i j c d :
    accept cs w = true -> i <> j ->
    nth_error (w_comps w) i = Some c -> nth_error (w_comps w) j = Some d -> In (c_id c) (c_refs d) ->
    accept cs (mutate (DropComponent i) w) = false.
  Proof.
    intros A0 N Hi Hj Hr. cbn [mutate].
    destruct (accept cs (mkWf (w_gvars w) (del_nth i (w_comps w)))) eqn:A; [|reflexivity]. exfalso.
    destruct (accept_sound _ A0) as [U _].
    destruct (accept_sound _ A) as [_ [R _]]. cbn in R.
    destruct (R d (c_id c)) as [c' [I E]].
    - eapply del_nth_keeps; eassumption.
    - assumption.
    - apply (del_nth_nodup c_id i (w_comps w) c U Hi). rewrite <- E. apply in_map; assumption.
  Qed.

  (* AddBackEdge: the new edge closes a cycle *)
  Lemma upd_nth_other_In {A} (f : A -> A) : forall i (l : list A) x, In x l -> In x (upd_nth i f l) \/ nth_error l i = Some x.
  Proof.
    induction i as [|i IH]; intros [|y r] x H; cbn in *; try contradiction.
    - destruct H; [right; subst; reflexivity | left; right; assumption].
    - destruct H; [left; left; assumption|]. destruct (IH r x H); [left; right; assumption | right; assumption].
  Qed.

  Lemma complete_back_edge w i c r :
    nth_error (w_comps w) i = Some c ->
    (r = c_id c \/ clos_trans cid (wedge w) (c_id c) r) ->
    accept cs (mutate (AddBackEdge i r) w) = false.
  Proof.
    intros Hi Hp. cbn [mutate].
    destruct (accept cs _) eqn:A; [|reflexivity]. exfalso.
    destruct (accept_sound _ A) as [_ [_ [C _]]].
    set (w' := mkWf (w_gvars w) (upd_nth i (set_refs (fun l => (l ++ [r])%list)) (w_comps w))) in *.
    assert (Mono : forall u v, wedge w u v -> wedge w' u v).
    { intros u v [d [Id [Ed Iu]]].
      destruct (upd_nth_other_In (set_refs (fun l => (l ++ [r])%list)) i (w_comps w) d Id) as [I | E].
      - exists d; repeat split; assumption.
      - exists (set_refs (fun l => (l ++ [r])%list) d). split; [apply upd_nth_In; assumption|].
        split; [exact Ed | cbn; apply in_or_app; left; assumption]. }
    assert (New : wedge w' r (c_id c)).
    { exists (set_refs (fun l => (l ++ [r])%list) c). split; [apply upd_nth_In; assumption|].
      split; [reflexivity | cbn; apply in_or_app; right; left; reflexivity]. }
    destruct Hp as [-> | T].
    - apply (C (c_id c)). apply t_step; assumption.
    - apply (C (c_id c)). eapply t_trans; [eapply clos_trans_mono; [exact Mono | exact T] | apply t_step; exact New].
  Qed.

  (* RemoveVar: a component that sees the global variable n (does not define it itself) and mentions it *)
  Lemma complete_remove_var w n c :
    In c (w_comps w) -> ~ In n (map fst (c_vars c)) ->
    (In n (c_uses c) \/ exists v rs, In (v, rs) (env_of (mutate (RemoveVar n) w) c) /\ In n rs) ->
    accept cs (mutate (RemoveVar n) w) = false.
  Proof.
    intros Ic Nl Hu.
    destruct (accept cs _) eqn:A; [|reflexivity]. exfalso.
    destruct (accept_sound _ A) as [_ [_ [_ [V _]]]].
    destruct (V c Ic) as [V1 [V2 _]].
    assert (Nn : ~ In n (map fst (env_of (mutate (RemoveVar n) w) c))).
    { unfold env_of; cbn [mutate w_gvars]. rewrite map_app, map_map. cbn [fst]. intros I.
      apply in_app_or in I as [I | I]; [contradiction|].
      apply in_map_iff in I as [[n' rs] [E I]]. cbn in E; subst n'.
      apply filter_In in I as [I _]. apply filter_In in I as [_ I]. cbn in I.
      rewrite String.eqb_refl in I. discriminate. }
    destruct Hu as [Hu | [v [rs [H1 H2]]]].
    - apply Nn, V1, Hu.
    - apply Nn. eapply V2; eassumption.
  Qed.
  (* RemoveCompVar: the variable n of component i is removed while the component still uses it - directly, or only
     INDIRECTLY through another variable it resolves (label: part-%(chunk)s after chunk was removed) - and there is no
     global variable of that name.  What the OTHER components define does not matter: variables of a component are
     private to it (a sibling of the same stage that defines n does not make it defined) *)
  Lemma complete_remove_comp_var w i n c :
    nth_error (w_comps w) i = Some c -> ~ In n (map fst (w_gvars w)) ->
    (In n (c_uses c) \/
     exists v rs, In (v, rs) (env_of (mutate (RemoveCompVar i n) w) (set_vars (drop_var n) c)) /\ In n rs) ->
    accept cs (mutate (RemoveCompVar i n) w) = false.
  Proof.
    intros Hi Ng Hu.
    destruct (accept cs _) eqn:A; [|reflexivity]. exfalso.
    destruct (accept_sound _ A) as [_ [_ [_ [V _]]]].
    set (c' := set_vars (drop_var n) c) in *.
    assert (Ic : In c' (w_comps (mutate (RemoveCompVar i n) w))) by (cbn [mutate w_comps]; apply upd_nth_In; exact Hi).
    destruct (V c' Ic) as [V1 [V2 _]].
    assert (Nn : ~ In n (map fst (env_of (mutate (RemoveCompVar i n) w) c'))).
    { unfold env_of; cbn [mutate w_gvars]. rewrite map_app, map_map. cbn [fst]. intros I.
      apply in_app_or in I as [I | I].
      - cbn [c' set_vars c_vars] in I. apply in_map_iff in I as [[n' rs] [E I]]. cbn in E; subst n'.
        apply filter_In in I as [_ I]. cbn in I. rewrite String.eqb_refl in I. discriminate.
      - apply in_map_iff in I as [[n' rs] [E I]]. cbn in E; subst n'.
        apply filter_In in I as [I _]. apply Ng. apply in_map_iff. exists (n, rs). split; [reflexivity | exact I]. }
    destruct Hu as [Hu | [v [rs [H1 H2]]]].
    - apply Nn, V1. exact Hu.
    - apply Nn. eapply V2; eassumption.
  Qed.
  (* ---------------------------------------------------------------- CyclicVars: a mention that closes a cycle *)
  Lemma accept_gvars w : accept cs w = true -> gvars_acyclic w = true.
  Proof. unfold accept. intros H. apply andb_prop in H as [_ H]. exact H. Qed.

  Lemma add_mention_names a b vs : map fst (add_mention a b vs) = map fst vs.
  Proof.
    unfold add_mention. rewrite map_map. apply map_ext. intros e. destruct (String.eqb (fst e) a); reflexivity.
  Qed.

  Lemma add_mention_keeps a b vs v rs :
    In (v, rs) vs -> exists rs', In (v, rs') (add_mention a b vs) /\ (forall u, In u rs -> In u rs').
  Proof.
    intros I. unfold add_mention. destruct (String.eqb v a) eqn:E.
    - exists (rs ++ [b]). split; [|intros u Hu; apply in_or_app; left; exact Hu].
      apply in_map_iff. exists (v, rs). cbn. rewrite E. split; [reflexivity | exact I].
    - exists rs. split; [|auto]. apply in_map_iff. exists (v, rs). cbn. rewrite E. split; [reflexivity | exact I].
  Qed.

  Lemma add_mention_new a b vs rs : In (a, rs) vs -> In (a, rs ++ [b]) (add_mention a b vs).
  Proof.
    intros I. unfold add_mention. apply in_map_iff. exists (a, rs). cbn. rewrite String.eqb_refl. split; [reflexivity | exact I].
  Qed.

  Lemma vlookup_add_mention a b vs n :
    vlookup n (add_mention a b vs) = option_map (fun rs => if String.eqb n a then rs ++ [b] else rs) (vlookup n vs).
  Proof.
    induction vs as [|[k rs] r IH]; [reflexivity|]. cbn [add_mention map fst snd].
    destruct (String.eqb k a) eqn:Ka; cbn [vlookup fst snd]; destruct (String.eqb n k) eqn:Nk.
    - apply String.eqb_eq in Nk; subst k. rewrite Ka. reflexivity.
    - exact IH.
    - apply String.eqb_eq in Nk; subst k. rewrite Ka. reflexivity.
    - exact IH.
  Qed.

  Lemma forallb_imp {A} (f g : A -> bool) l : (forall x, f x = true -> g x = true) -> forallb f l = true -> forallb g l = true.
  Proof. intros H F. rewrite forallb_forall in *. auto. Qed.

  (* one more mention makes no global variable resolvable that was not *)
  Lemma gres_mention_anti a b vs : forall f n, gres (add_mention a b vs) f n = true -> gres vs f n = true.
  Proof.
    induction f as [|f IH]; intros n H; [discriminate|]. cbn [gres] in *.
    rewrite vlookup_add_mention in H. destruct (vlookup n vs) as [rs|]; [|discriminate]. cbn in H.
    destruct (String.eqb n a).
    - rewrite forallb_app in H. apply andb_prop in H as [H _]. eapply forallb_imp; [exact IH | exact H].
    - eapply forallb_imp; [exact IH | exact H].
  Qed.

  Lemma gres_fuel_mono vs : forall f n, gres vs f n = true -> gres vs (S f) n = true.
  Proof.
    induction f as [|f IH]; intros n H; [discriminate|].
    cbn [gres] in H. change (gres vs (S (S f)) n) with
      (match vlookup n vs with None => false | Some rs => forallb (gres vs (S f)) rs end).
    destruct (vlookup n vs) as [rs|]; [|discriminate]. eapply forallb_imp; [exact IH | exact H].
  Qed.

  Lemma add_mention_length a b vs : length (add_mention a b vs) = length vs.
  Proof. unfold add_mention. apply map_length. Qed.

  Lemma vlookup_In n vs rs : In (n, rs) vs -> exists rs0, vlookup n vs = Some rs0.
  Proof.
    induction vs as [|[k r0] r IH]; [intros []|]. intros [E | I]; cbn.
    - inversion E; subst. rewrite String.eqb_refl. eexists; reflexivity.
    - destruct (String.eqb n k); [eexists; reflexivity | exact (IH I)].
  Qed.

  (* a now mentions b, and b cannot be resolved among the globals: neither can a *)
  Lemma gres_mention_new a b vs rs :
    In (a, rs) vs -> gres vs (length vs) b = false -> gres (add_mention a b vs) (length vs) a = false.
  Proof.
    intros I Hb. destruct (length vs) as [|f] eqn:L; [reflexivity|]. cbn [gres].
    rewrite vlookup_add_mention. destruct (vlookup_In a vs rs I) as [rs0 E]. rewrite E. cbn.
    rewrite String.eqb_refl, forallb_app. cbn.
    destruct (gres (add_mention a b vs) f b) eqn:G; [|rewrite andb_false_r; reflexivity].
    apply gres_mention_anti, gres_fuel_mono in G. congruence.
  Qed.

  Definition env_edge (env : list (string * list string)) (u v : string) : Prop :=
    exists rs, In (v, rs) env /\ In u rs.

  (* env' keeps every mention of env and, in addition, a mentions b, while b already depended on a: a cycle *)
  Lemma env_cycle env env' a b :
    (forall v rs, In (v, rs) env -> exists rs', In (v, rs') env' /\ (forall u, In u rs -> In u rs')) ->
    (exists rs', In (a, rs') env' /\ In b rs') ->
    (b = a \/ clos_trans string (env_edge env) a b) ->
    clos_trans string (env_edge env') a a.
  Proof.
    intros K N [-> | T].
    - apply t_step. exact N.
    - eapply t_trans; [|apply t_step; exact N].
      eapply clos_trans_mono; [|exact T]. intros u v [rs [I Iu]].
      destruct (K v rs I) as [rs' [I' S]]. exists rs'. split; [exact I' | apply S; exact Iu].
  Qed.

  (* scope None, seen through a component: the global a is visible to component c, b depends on a there, and b is not
     resolvable among the globals (e.g. b is a variable of the component) - otherwise a stays a constant *)
  Lemma complete_cyclic_gsees w a b c rs :
    In c (w_comps w) -> In (a, rs) (w_gvars w) -> ~ In a (map fst (c_vars c)) -> gresolved w b = false ->
    (b = a \/ clos_trans string (var_edge w c) a b) ->
    accept cs (mutate (CyclicVars None a b) w) = false.
  Proof.
    intros Ic Ia Ns Gb Hp. cbn [mutate].
    set (w' := mkWf (add_mention a b (w_gvars w)) (w_comps w)).
    destruct (accept cs w') eqn:A; [|reflexivity]. exfalso.
    destruct (accept_sound _ A) as [_ [_ [_ [V _]]]].
    destruct (V c Ic) as [_ [_ C]]. apply (C a).
    assert (Q : forall n, negb (kmem String.eqb n (map fst (c_vars c))) = true -> forall r0, In (n, r0) (w_gvars w) ->
                exists r1, In (n, r1) (env_of w' c) /\ (gresolved w n = false -> forall u, In u r0 -> In u r1)).
    { intros n Qn r0 I0. destruct (add_mention_keeps a b _ n r0 I0) as [r1 [I1 S]].
      exists (if gresolved w' n then [] else r1). split.
      - unfold env_of. apply in_or_app; right. apply in_map_iff. exists (n, r1). split; [reflexivity|].
        apply filter_In. split; [exact I1 | exact Qn].
      - intros G. destruct (gresolved w' n) eqn:G'; [|exact S]. exfalso.
        unfold gresolved in G'. cbn [w' w_gvars] in G'. rewrite add_mention_length in G'.
        apply gres_mention_anti in G'. unfold gresolved in G. congruence. }
    apply (env_cycle (env_of w c) _ a b); [| |exact Hp].
    - intros v rs0 I. unfold env_of in I. apply in_app_or in I as [I | I].
      + exists rs0. split; [unfold env_of; apply in_or_app; left; exact I | auto].
      + apply in_map_iff in I as [[n r0] [E I]]. cbn in E. inversion E; subst. apply filter_In in I as [I Qn]. cbn in Qn.
        destruct (Q v Qn r0 I) as [r1 [I1 S]]. exists r1. split; [exact I1|].
        destruct (gresolved w v); [intros u [] | apply S; reflexivity].
    - exists (rs ++ [b]). split; [|apply in_or_app; right; left; reflexivity].
      unfold env_of. apply in_or_app; right. apply in_map_iff. exists (a, rs ++ [b]). split.
      + cbn. unfold gresolved. cbn [w' w_gvars]. rewrite add_mention_length.
        rewrite (gres_mention_new a b _ rs Ia Gb). reflexivity.
      + apply filter_In. split; [apply add_mention_new; exact Ia|].
        cbn. apply negb_true_iff. destruct (kmem String.eqb a (map fst (c_vars c))) eqn:M; [|reflexivity].
        apply (kmem_In string String.eqb string_eqb_eq') in M. contradiction.
  Qed.

  (* scope None, among the global variables themselves (resolved on their own when the configuration is initialised) *)
  Lemma gvar_edge_spec w u v :
    edge (gvar_graph w) u v <-> exists rs, In (v, rs) (w_gvars w) /\ In u rs /\ In u (map fst (w_gvars w)).
  Proof.
    unfold edge, gvar_graph. split.
    - intros [rs [I Iu]]. apply in_map_iff in I as [[v' rs'] [E I]]. cbn in E. inversion E; subst.
      apply filter_In in Iu as [Iu M]. apply (kmem_In string String.eqb string_eqb_eq') in M.
      exists rs'. repeat split; assumption.
    - intros [rs [I [Iu M]]]. exists (filter (fun u0 => kmem String.eqb u0 (map fst (w_gvars w))) rs). split.
      + apply in_map_iff. exists (v, rs). split; [reflexivity | exact I].
      + apply filter_In. split; [exact Iu | apply (kmem_In string String.eqb string_eqb_eq'); exact M].
  Qed.

  Lemma complete_cyclic_gvars w a b :
    In a (map fst (w_gvars w)) -> In b (map fst (w_gvars w)) ->
    (b = a \/ clos_trans string (edge (gvar_graph w)) a b) ->
    accept cs (mutate (CyclicVars None a b) w) = false.
  Proof.
    intros Ia Ib Hp. cbn [mutate].
    set (w' := mkWf (add_mention a b (w_gvars w)) (w_comps w)).
    destruct (accept cs w') eqn:A; [|reflexivity]. exfalso.
    apply accept_gvars in A. unfold gvars_acyclic in A.
    apply (acyclic_b_sound string String.eqb string_eqb_eq' _ A a).
    assert (Nm : map fst (w_gvars w') = map fst (w_gvars w)) by (apply add_mention_names).
    assert (Mono : forall u v, edge (gvar_graph w) u v -> edge (gvar_graph w') u v).
    { intros u v E. apply gvar_edge_spec in E as [rs [I [Iu M]]]. apply gvar_edge_spec.
      destruct (add_mention_keeps a b _ v rs I) as [rs' [I' S]].
      exists rs'. split; [exact I'|]. split; [apply S; exact Iu | rewrite Nm; exact M]. }
    assert (New : edge (gvar_graph w') b a).
    { apply gvar_edge_spec. apply in_map_iff in Ia as [[a' rs] [E I]]. cbn in E; subst a'.
      exists (rs ++ [b]). split; [apply add_mention_new; exact I|].
      split; [apply in_or_app; right; left; reflexivity | rewrite Nm; exact Ib]. }
    destruct Hp as [-> | T].
    - apply t_step; exact New.
    - eapply t_trans; [eapply clos_trans_mono; [exact Mono | exact T] | apply t_step; exact New].
  Qed.

  (* scope Some i: a variable of component i additionally mentions b, and b depends on a in what component i sees *)
  Lemma complete_cyclic_local w i c a b rs :
    nth_error (w_comps w) i = Some c -> In (a, rs) (c_vars c) ->
    (b = a \/ clos_trans string (var_edge w c) a b) ->
    accept cs (mutate (CyclicVars (Some i) a b) w) = false.
  Proof.
    intros Hi Ia Hp. cbn [mutate].
    set (c' := set_vars (add_mention a b) c).
    set (w' := mkWf (w_gvars w) (upd_nth i (set_vars (add_mention a b)) (w_comps w))).
    destruct (accept cs w') eqn:A; [|reflexivity]. exfalso.
    destruct (accept_sound _ A) as [_ [_ [_ [V _]]]].
    assert (Ic : In c' (w_comps w')) by (apply upd_nth_In; exact Hi).
    destruct (V c' Ic) as [_ [_ C]]. apply (C a).
    apply (env_cycle (env_of w c) _ a b); [| |exact Hp].
    - intros v rs0 I. unfold env_of in *. cbn [c_vars c' set_vars]. rewrite add_mention_names.
      change (gresolved w') with (gresolved w). change (w_gvars w') with (w_gvars w).
      apply in_app_or in I as [I | I].
      + destruct (add_mention_keeps a b _ v rs0 I) as [rs' [I' S]].
        exists rs'. split; [apply in_or_app; left; exact I' | exact S].
      + exists rs0. split; [apply in_or_app; right; exact I | auto].
    - exists (rs ++ [b]). split; [|apply in_or_app; right; left; reflexivity].
      unfold env_of. cbn [c_vars c' set_vars]. apply in_or_app; left. apply add_mention_new; exact Ia.
  Qed.
End AcceptProofs.

(* ------------------------------------------------------------------ completeness over the fault constructors *)
Section Complete.
  Variable cs : schema.

  Definition applicable (m : fault) (w : wf) : Prop :=
    match m with
    | DropComponent i =>            (* the dropped component has a consumer *)
        exists j c d, i <> j /\ nth_error (w_comps w) i = Some c /\ nth_error (w_comps w) j = Some d /\
                      In (c_id c) (c_refs d)
    | RenameRef i j r' =>           (* an existing reference is renamed to an identifier nobody has *)
        exists c r, nth_error (w_comps w) i = Some c /\ nth_error (c_refs c) j = Some r /\ ~ In r' (ids w)
    | AddBackEdge i r =>            (* r consumes, directly or not, from component i (or is component i) *)
        exists c, nth_error (w_comps w) i = Some c /\ (r = c_id c \/ clos_trans cid (wedge w) (c_id c) r)
    | DupName i j =>
        i <> j /\ exists ci cj, nth_error (w_comps w) i = Some ci /\ nth_error (w_comps w) j = Some cj
    | UnknownKey i p k x =>         (* p leads to a dictionary of the schema and of the document; no rule matches k *)
        exists c s' rules m, nth_error (w_comps w) i = Some c /\ sub_at p cs = Some s' /\
                             dict_rules s' = Some rules /\ pget p (c_doc c) = Some (VDict m) /\
                             find_rule rules k = None
    | WrongType i p k x =>          (* a list where the schema of option p.k admits no list, or any value whose
                                       conversion by convert_component_types raises or yields something for which
                                       the schema of option p.k reports a hard error (wrong_rejected) *)
        (exists c s' m l, x = VList l /\ nth_error (w_comps w) i = Some c /\ sub_at (p ++ [k]) cs = Some s' /\
                          no_list s' = true /\ pget p (c_doc c) = Some (VDict m)) \/
        (exists c m, nth_error (w_comps w) i = Some c /\ pget p (c_doc c) = Some (VDict m) /\
                     wrong_rejected cs (p ++ [k]) x = true)
    | RemoveVar n =>                (* some component sees the global n and mentions it *)
        exists c, In c (w_comps w) /\ ~ In n (map fst (c_vars c)) /\
                  (In n (c_uses c) \/ exists v rs, In (v, rs) (env_of (mutate (RemoveVar n) w) c) /\ In n rs)
    | CyclicVars None a b =>        (* the global a now mentions b, which already depends on a: among the globals
                                       themselves, or in what some component that sees a resolves (b is then not
                                       resolvable among the globals, e.g. it is a variable of the component) *)
        (In a (map fst (w_gvars w)) /\ In b (map fst (w_gvars w)) /\
         (b = a \/ clos_trans string (edge (gvar_graph w)) a b)) \/
        (exists c rs, In c (w_comps w) /\ In (a, rs) (w_gvars w) /\ ~ In a (map fst (c_vars c)) /\
                      gresolved w b = false /\ (b = a \/ clos_trans string (var_edge w c) a b))
    | CyclicVars (Some i) a b =>    (* the variable a of component i now mentions b, which depends on a there *)
        exists c rs, nth_error (w_comps w) i = Some c /\ In (a, rs) (c_vars c) /\
                     (b = a \/ clos_trans string (var_edge w c) a b)
    | RemoveCompVar i n =>          (* no global is called n, and component i still uses n: directly, or INDIRECTLY
                                       through a variable it resolves (whatever its siblings define) *)
        exists c, nth_error (w_comps w) i = Some c /\ ~ In n (map fst (w_gvars w)) /\
                  (In n (c_uses c) \/
                   exists v rs, In (v, rs) (env_of (mutate (RemoveCompVar i n) w) (set_vars (drop_var n) c)) /\ In n rs)
    end.

  Theorem complete m w : accept cs w = true -> applicable m w -> accept cs (mutate m w) = false.
  Proof.
    intros A H. destruct m; cbn [applicable] in H.
    - destruct H as [j [c [d [N [Hi [Hj Hr]]]]]]. eapply complete_drop; eassumption.
    - destruct H as [c [r [Hi [Hj Nr]]]]. eapply complete_rename_ref; eassumption.
    - destruct H as [c [Hi Hp]]. eapply complete_back_edge; eassumption.
    - destruct H as [N [ci [cj [Hi Hj]]]]. eapply complete_dup_name; eassumption.
    - destruct H as [c [s' [rules [m [Hi [Hs [D [Hg F]]]]]]]]. eapply complete_unknown_key; eassumption.
    - destruct H as [[c [s' [m [l [-> [Hi [Hs [N Hg]]]]]]]] | [c [m [Hi [Hg R]]]]].
      + eapply complete_wrong_type; eassumption.
      + eapply complete_wrong_scalar; eassumption.
    - destruct H as [c [Ic [Nl Hu]]]. eapply complete_remove_var; eassumption.
    - destruct scope as [i|].
      + destruct H as [c [rs [Hi [Ia Hp]]]]. eapply complete_cyclic_local; eassumption.
      + destruct H as [[Ia [Ib Hp]] | [c [rs [Ic [Ia [Ns [Gb Hp]]]]]]].
        * apply complete_cyclic_gvars; assumption.
        * eapply complete_cyclic_gsees; eassumption.
    - destruct H as [c [Hi [Ng Hu]]]. eapply complete_remove_comp_var; eassumption.
  Qed.

  (* the instance that a loader which resolves a component with a context shared with its siblings gets wrong: the
     removed variable n of component i is used ONLY by another variable v of the same component; every other
     component of the workflow - in particular a sibling of the same stage - may define n *)
  Lemma remove_comp_var_indirect w i c n v rs :
    accept cs w = true -> nth_error (w_comps w) i = Some c -> ~ In n (map fst (w_gvars w)) ->
    In (v, rs) (c_vars c) -> v <> n -> In n rs ->
    accept cs (mutate (RemoveCompVar i n) w) = false.
  Proof.
    intros A Hi Ng Iv Nv In_. apply complete; [exact A|]. cbn [applicable].
    exists c. split; [exact Hi|]. split; [exact Ng|]. right. exists v, rs. split; [|exact In_].
    unfold env_of. apply in_or_app; left. cbn [set_vars c_vars]. unfold drop_var. apply filter_In.
    split; [exact Iv|]. cbn [fst]. apply negb_true_iff. apply String.eqb_neq. congruence.
  Qed.
End Complete.
