(* C03 — lemmas about the replication model. *)
From Coq Require Import String Ascii List Bool Arith NArith Lia FinFun.
Require Import V.Lib.PyStr V.Lib.JTree V.Repl.Model.
Import ListNotations.
Open Scope list_scope.

(* ------------------------------------------------------------------ association lists *)
Lemma id_eqb_eq a b : id_eqb a b = true <-> a = b.
Proof.
  destruct a as [s n], b as [s' n']. unfold id_eqb. cbn. rewrite andb_true_iff, N.eqb_eq, String.eqb_eq.
  split; [intros [-> ->]; reflexivity | intros H; inversion H; auto].
Qed.

Lemma id_eqb_refl a : id_eqb a a = true.
Proof. apply id_eqb_eq. reflexivity. Qed.

Lemma alookup_In {A} k (m : list (id * A)) v : alookup k m = Some v -> In (k, v) m.
Proof.
  induction m as [|[k' v'] r IH]; cbn; [discriminate|].
  destruct (id_eqb k k') eqn:E.
  - intros H. inversion H; subst. apply id_eqb_eq in E. subst. left. reflexivity.
  - intros H. right. auto.
Qed.

Lemma alookup_app_some {A} k (m m' : list (id * A)) v : alookup k m = Some v -> alookup k (m ++ m') = Some v.
Proof.
  induction m as [|[k' v'] r IH]; cbn; [discriminate|].
  destruct (id_eqb k k'); auto.
Qed.

Lemma alookup_notin {A} k (m : list (id * A)) : ~ In k (map fst m) -> alookup k m = None.
Proof.
  induction m as [|[k' v'] r IH]; cbn; [reflexivity|].
  intros H. destruct (id_eqb k k') eqn:E.
  - apply id_eqb_eq in E. subst. exfalso. apply H. left. reflexivity.
  - apply IH. intros H1. apply H. right. exact H1.
Qed.

Lemma alookup_nodup {A} k (v : A) m : NoDup (map fst m) -> In (k, v) m -> alookup k m = Some v.
Proof.
  induction m as [|[k' v'] r IH]; cbn; [intros _ []|].
  intros Hn [H|H].
  - inversion H; subst. rewrite id_eqb_refl. reflexivity.
  - inversion Hn as [|x l Hx Hl]; subst. destruct (id_eqb k k') eqn:E.
    + apply id_eqb_eq in E. subst. exfalso. apply Hx. apply (in_map fst) in H. exact H.
    + auto.
Qed.

Lemma alookup_some_in_keys {A} k (m : list (id * A)) v : alookup k m = Some v -> In k (map fst m).
Proof. intros H. apply alookup_In in H. apply (in_map fst) in H. exact H. Qed.

Lemma nodup_map_inj {A B} (f : A -> B) l a b : NoDup (map f l) -> In a l -> In b l -> f a = f b -> a = b.
Proof.
  induction l as [|x r IH]; cbn; [intros _ []|].
  intros Hn Ha Hb E. inversion Hn as [|y l Hx Hl]; subst.
  destruct Ha as [Ha|Ha], Hb as [Hb|Hb]; subst; auto.
  - exfalso. apply Hx. rewrite E. apply in_map. exact Hb.
  - exfalso. apply Hx. rewrite <- E. apply in_map. exact Ha.
Qed.

(* ------------------------------------------------------------------ merge, pred_vals *)
Lemma merge_spec vals : forall acc v, merge acc vals = Some v ->
  (forall y, acc = Some y -> v = Some y) /\
  (forall x, In (Some x) vals -> v = Some x) /\
  (forall x, v = Some x -> acc = Some x \/ In (Some x) vals).
Proof.
  induction vals as [|[x|] r IH]; intros acc v H; cbn in H.
  - inversion H; subst. repeat split; auto. intros x [].
  - destruct acc as [y|].
    + destruct (N.eqb x y) eqn:E; [|discriminate]. apply N.eqb_eq in E. subst.
      destruct (IH _ _ H) as (A & B & C). repeat split.
      * exact A.
      * intros x [Hx|Hx]; [inversion Hx; subst; apply A; reflexivity | apply B; exact Hx].
      * intros x Hx. destruct (C x Hx); [left; assumption | right; right; assumption].
    + destruct (IH _ _ H) as (A & B & C). repeat split.
      * discriminate.
      * intros z [Hz|Hz]; [inversion Hz; subst; apply A; reflexivity | apply B; exact Hz].
      * intros z Hz. destruct (C z Hz) as [Hc|Hc]; [right; left; exact Hc | right; right; exact Hc].
  - destruct (IH _ _ H) as (A & B & C). repeat split.
    + exact A.
    + intros x [Hx|Hx]; [discriminate | apply B; exact Hx].
    + intros x Hx. destruct (C x Hx); [left; assumption | right; right; assumption].
Qed.

Lemma pred_vals_spec info ids : forall pv, pred_vals info ids = Some pv ->
  (forall i, In i ids -> exists rp ap, alookup i info = Some (rp, ap) /\ In (if ap then None else rp) pv) /\
  (forall x, In x pv -> exists i rp ap, In i ids /\ alookup i info = Some (rp, ap) /\ x = (if ap then None else rp)).
Proof.
  induction ids as [|i r IH]; intros pv H; cbn in H.
  - inversion H; subst. split; [intros i []|intros x []].
  - destruct (alookup i info) as [[rp ap]|] eqn:E; [|discriminate].
    destruct (pred_vals info r) as [l|] eqn:E2; [|discriminate]. inversion H; subst.
    destruct (IH _ eq_refl) as [A B]. split.
    + intros j [Hj|Hj].
      * subst. exists rp, ap. split; [exact E|left; reflexivity].
      * destruct (A j Hj) as (rp' & ap' & H1 & H2). exists rp', ap'. split; [exact H1|right; exact H2].
    + intros x [Hx|Hx].
      * exists i, rp, ap. split; [left; reflexivity|]. split; [exact E|symmetry; exact Hx].
      * destruct (B x Hx) as (j & rp' & ap' & H1 & H2 & H3). exists j, rp', ap'. split; [right; exact H1|]. split; assumption.
Qed.

(* ------------------------------------------------------------------ propagate *)
(* what was done when c was reached *)
Definition Step (info : list entry) (c : scomp) : Prop :=
  exists pre post v pv, info = pre ++ (sid c, (v, s_agg c)) :: post /\
                        pred_vals pre (ref_ids (s_refs c)) = Some pv /\
                        merge None (pv ++ [s_own c]) = Some v.

Lemma propagate_aux_steps cs : forall info0 info, propagate_aux cs info0 = Some info ->
  (exists new, info = info0 ++ new /\ map fst new = map sid cs) /\ (forall c, In c cs -> Step info c).
Proof.
  induction cs as [|c r IH]; intros info0 info H; cbn in H.
  - inversion H; subst. split; [exists []; split; [symmetry; apply app_nil_r|reflexivity]|intros c []].
  - destruct (pred_vals info0 (ref_ids (s_refs c))) as [pv|] eqn:E1; [|discriminate].
    destruct (merge None (pv ++ [s_own c])) as [v|] eqn:E2; [|discriminate].
    destruct (IH _ _ H) as [[new [Hi Hk]] Hs]. split.
    + exists ((sid c, (v, s_agg c)) :: new). split.
      * rewrite Hi. rewrite <- app_assoc. reflexivity.
      * cbn. rewrite Hk. reflexivity.
    + intros c' [Hc|Hc].
      * subst c'. exists info0, new, v, pv. split; [|split; assumption].
        rewrite Hi. rewrite <- app_assoc. reflexivity.
      * apply Hs. exact Hc.
Qed.

Lemma propagate_keys cs info : propagate cs = Some info -> map fst info = map sid cs.
Proof.
  intros H. destruct (propagate_aux_steps _ _ _ H) as [[new [Hi Hk]] _]. cbn in Hi. subst. exact Hk.
Qed.

Section WithWorkflow.
  Variable cs : list scomp.
  Variable info : list entry.
  Hypothesis Hnd : NoDup (map sid cs).
  Hypothesis Hp : propagate cs = Some info.

  Lemma info_nodup : NoDup (map fst info).
  Proof. rewrite (propagate_keys _ _ Hp). exact Hnd. Qed.

  Lemma step_of c : In c cs -> Step info c.
  Proof. intros H. destruct (propagate_aux_steps _ _ _ Hp) as [_ Hs]. apply Hs. exact H. Qed.

  (* the entry of a component, and what it was merged from *)
  Lemma entry_of_comp c : In c cs ->
    exists v, alookup (sid c) info = Some (v, s_agg c) /\
              (forall n, s_own c = Some n -> v = Some n) /\
              (forall i, In i (ref_ids (s_refs c)) ->
                 exists rp ap, alookup i info = Some (rp, ap) /\ (ap = false -> forall n, rp = Some n -> v = Some n)) /\
              (forall n, v = Some n -> s_own c = Some n \/
                 exists i, In i (ref_ids (s_refs c)) /\ alookup i info = Some (Some n, false)).
  Proof.
    intros Hc. destruct (step_of c Hc) as (pre & post & v & pv & Hi & Hpv & Hm).
    exists v. split; [|split; [|split]].
    - apply alookup_nodup; [apply info_nodup|]. rewrite Hi. apply in_or_app. right. left. reflexivity.
    - intros n Hn. destruct (merge_spec _ _ _ Hm) as (_ & B & _). apply B. apply in_or_app. right. left. rewrite Hn. reflexivity.
    - intros i Hin. destruct (pred_vals_spec _ _ _ Hpv) as [A _]. destruct (A i Hin) as (rp & ap & H1 & H2).
      exists rp, ap. split.
      + rewrite Hi. apply alookup_app_some. exact H1.
      + intros -> n ->. destruct (merge_spec _ _ _ Hm) as (_ & B & _). apply B. apply in_or_app. left. exact H2.
    - intros n ->. destruct (merge_spec _ _ _ Hm) as (_ & _ & C). destruct (C n eq_refl) as [Hx|Hx]; [discriminate|].
      apply in_app_or in Hx as [Hx|[Hx|[]]].
      + right. destruct (pred_vals_spec _ _ _ Hpv) as [_ B]. destruct (B _ Hx) as (i & rp & ap & H1 & H2 & H3).
        exists i. split; [exact H1|]. rewrite Hi. apply alookup_app_some. rewrite H2.
        destruct ap; [discriminate|]. rewrite <- H3. reflexivity.
      + left. exact Hx.
  Qed.

  (* every reference names a component of the workflow *)
  Lemma producer_exists c i : In c cs -> In i (ref_ids (s_refs c)) -> exists p, In p cs /\ sid p = i.
  Proof.
    intros Hc Hi. destruct (entry_of_comp c Hc) as (v & _ & _ & B & _). destruct (B i Hi) as (rp & ap & H1 & _).
    apply alookup_some_in_keys in H1. rewrite (propagate_keys _ _ Hp) in H1. apply in_map_iff in H1 as (p & H2 & H3).
    exists p. split; assumption.
  Qed.

  (* a consumer of a replicated, non aggregating producer carries the same count *)
  Lemma consumer_inherits c i n : In c cs -> In i (ref_ids (s_refs c)) -> repl_count info i = Some n ->
    alookup (sid c) info = Some (Some n, s_agg c) /\ (0 < n)%N.
  Proof.
    intros Hc Hi Hr. unfold repl_count in Hr.
    destruct (alookup i info) as [[[m|] [|]]|] eqn:E; try discriminate.
    destruct (N.ltb 0 m) eqn:L; [|discriminate]. inversion Hr; subst. apply N.ltb_lt in L.
    destruct (entry_of_comp c Hc) as (v & A & _ & B & _). destruct (B i Hi) as (rp & ap & H1 & H2).
    rewrite E in H1. inversion H1; subst. rewrite (H2 eq_refl n eq_refl) in A. split; assumption.
  Qed.

  (* region: Reach <-> the propagated count *)
  Lemma reach_to_info n c : Reach cs n c -> alookup (sid c) info = Some (Some n, s_agg c).
  Proof.
    induction 1 as [c Hc Ho | c p Hc Hi Hr IH Ha].
    - destruct (entry_of_comp c Hc) as (v & A & B & _). rewrite (B n Ho) in A. exact A.
    - destruct (entry_of_comp c Hc) as (v & A & _ & B & _). destruct (B _ Hi) as (rp & ap & H1 & H2).
      rewrite IH in H1. inversion H1; subst. rewrite Ha in H2. rewrite (H2 eq_refl n eq_refl) in A. exact A.
  Qed.

  Lemma info_to_reach_aux : forall l info0 info1, propagate_aux l info0 = Some info1 -> incl l cs ->
    (forall i n a, In (i, (Some n, a)) info0 -> exists p, In p cs /\ sid p = i /\ s_agg p = a /\ Reach cs n p) ->
    (forall i n a, In (i, (Some n, a)) info1 -> exists p, In p cs /\ sid p = i /\ s_agg p = a /\ Reach cs n p).
  Proof.
    induction l as [|c r IH]; intros info0 info1 H Hincl Hinv; cbn in H.
    - inversion H; subst. exact Hinv.
    - destruct (pred_vals info0 (ref_ids (s_refs c))) as [pv|] eqn:E1; [|discriminate].
      destruct (merge None (pv ++ [s_own c])) as [v|] eqn:E2; [|discriminate].
      apply (IH _ _ H); [intros x Hx; apply Hincl; right; exact Hx|].
      intros i n a Hin. apply in_app_or in Hin as [Hin|[Hin|[]]]; [apply Hinv; exact Hin|].
      inversion Hin; subst. assert (Hc : In c cs) by (apply Hincl; left; reflexivity).
      exists c. split; [exact Hc|]. split; [reflexivity|]. split; [reflexivity|].
      destruct (merge_spec _ _ _ E2) as (_ & _ & C). destruct (C n eq_refl) as [Hx|Hx]; [discriminate|].
      apply in_app_or in Hx as [Hx|[Hx|[]]].
      + destruct (pred_vals_spec _ _ _ E1) as [_ B]. destruct (B _ Hx) as (j & rp & ap & H1 & H2 & H3).
        destruct ap; [discriminate|]. subst rp. apply alookup_In in H2.
        destruct (Hinv _ _ _ H2) as (p & Hp1 & Hp2 & Hp3 & Hp4).
        apply (Reach_via cs n c p); auto. rewrite Hp2. exact H1.
      + apply Reach_own; auto.
  Qed.

  Lemma info_to_reach n a c : In c cs -> alookup (sid c) info = Some (Some n, a) -> Reach cs n c.
  Proof.
    intros Hc H. apply alookup_In in H.
    destruct (info_to_reach_aux cs [] info Hp (incl_refl _) ltac:(intros i m b []) _ _ _ H) as (p & H1 & H2 & _ & H4).
    rewrite (nodup_map_inj sid cs c p Hnd Hc H1 (eq_sym H2)). exact H4.
  Qed.

  (* ---------------------------------------------------------------- shape of the expansion *)
  Lemma nseq_in n j : In j (nseq n) <-> (j < n)%N.
  Proof.
    unfold nseq. rewrite in_map_iff. split.
    - intros (k & <- & H). apply in_seq in H. lia.
    - intros H. exists (N.to_nat j). split; [apply N2Nat.id|]. apply in_seq. lia.
  Qed.

  Lemma nseq_nodup n : NoDup (nseq n).
  Proof.
    unfold nseq. apply FinFun.Injective_map_NoDup; [|apply seq_NoDup].
    intros a b H. apply Nat2N.inj. exact H.
  Qed.

  Lemma nseq_length n : length (nseq n) = N.to_nat n.
  Proof. unfold nseq. rewrite map_length, seq_length. reflexivity. Qed.

  Lemma append_inj_l p a b : (p ++ a)%string = (p ++ b)%string -> a = b.
  Proof. induction p as [|c p IH]; cbn; [auto|]. intros H. inversion H. auto. Qed.

  Lemma copies_shape c n : In c cs -> alookup (sid c) info = Some (Some n, false) -> (0 < n)%N ->
    expand_one info c = map (copy_comp info c) (nseq n) /\
    length (expand_one info c) = N.to_nat n /\
    NoDup (map so_name (expand_one info c)).
  Proof.
    intros Hc H L. unfold expand_one. rewrite H. apply N.ltb_lt in L. rewrite L. split; [reflexivity|]. split.
    - rewrite map_length. apply nseq_length.
    - rewrite map_map. cbn. apply FinFun.Injective_map_NoDup; [|apply nseq_nodup].
      intros a b E. apply append_inj_l in E. apply dec_inj. exact E.
  Qed.

  Lemma aggregator_shape c : In c cs -> s_agg c = true -> expand_one info c = [agg_comp info c].
  Proof.
    intros Hc Ha. destruct (entry_of_comp c Hc) as (v & A & _). unfold expand_one. rewrite A, Ha. destruct v; reflexivity.
  Qed.

  Lemma outside_shape c : In c cs -> s_agg c = false -> repl_count info (sid c) = None ->
    expand_one info c = [same_comp c] /\
    (forall i, In i (ref_ids (s_refs c)) -> repl_count info i = None).
  Proof.
    intros Hc Ha Hr. destruct (entry_of_comp c Hc) as (v & A & _). split.
    - unfold expand_one. unfold repl_count in Hr. rewrite A in *. rewrite Ha in *.
      destruct v as [n|]; [|reflexivity]. destruct (N.ltb 0 n); [discriminate|reflexivity].
    - intros i Hi. destruct (repl_count info i) as [n|] eqn:E; [|reflexivity].
      destruct (consumer_inherits c i n Hc Hi E) as [H1 H2]. unfold repl_count in Hr. rewrite H1, Ha in Hr.
      apply N.ltb_lt in H2. rewrite H2 in Hr. discriminate.
  Qed.

  (* what a producer contributes to the expansion *)
  Lemma producer_copies p n j : In p cs -> repl_count info (sid p) = Some n -> (j < n)%N ->
    In (copy_comp info p j) (expand_with info cs).
  Proof.
    intros Hc Hr Hj. unfold expand_with. apply in_flat_map. exists p. split; [exact Hc|].
    unfold repl_count in Hr. unfold expand_one.
    destruct (alookup (sid p) info) as [[[m|] [|]]|]; try discriminate.
    destruct (N.ltb 0 m); [|discriminate]. inversion Hr; subst. apply in_map. apply nseq_in. exact Hj.
  Qed.

  Lemma producer_single p : In p cs -> repl_count info (sid p) = None ->
    exists o, In o (expand_with info cs) /\ so_stage o = s_stage p /\ so_name o = s_name p /\ so_replica o = None.
  Proof.
    intros Hc Hr. destruct (entry_of_comp p Hc) as (v & A & _).
    assert (E : expand_one info p = [agg_comp info p] \/ expand_one info p = [same_comp p]).
    { unfold expand_one. unfold repl_count in Hr. rewrite A in *. destruct (s_agg p); [left; destruct v; reflexivity|].
      right. destruct v as [n|]; [|reflexivity]. destruct (N.ltb 0 n); [discriminate|reflexivity]. }
    destruct E as [E|E]; [exists (agg_comp info p) | exists (same_comp p)];
      (split; [unfold expand_with; apply in_flat_map; exists p; split; [exact Hc|rewrite E; left; reflexivity]|
               repeat split; reflexivity]).
  Qed.

  (* wiring of one declared reference *)
  Lemma wiring c abs st p f m : In c cs -> In (SComp abs st p f m) (s_refs c) ->
    match repl_count info (st, p) with
    | Some n => (s_agg c = true \/ alookup (sid c) info = Some (Some n, false)) /\
                forall j, (j < n)%N -> exists o, In o (expand_with info cs) /\ so_stage o = st /\
                                                so_name o = (p ++ dec j)%string /\ so_replica o = Some j
    | None => exists o, In o (expand_with info cs) /\ so_stage o = st /\ so_name o = p /\ so_replica o = None
    end.
  Proof.
    intros Hc Hr.
    assert (Hi : In (st, p) (ref_ids (s_refs c))).
    { clear -Hr. induction (s_refs c) as [|r l IH]; [destruct Hr|]. destruct Hr as [->|Hr]; cbn; [left; reflexivity|].
      destruct (ref_id r); [right|]; auto. }
    destruct (producer_exists c _ Hc Hi) as (pc & Hpc & Hid).
    destruct (repl_count info (st, p)) as [n|] eqn:E.
    - split.
      + destruct (consumer_inherits c _ n Hc Hi E) as [H1 _]. destruct (s_agg c); [left; reflexivity|right; exact H1].
      + intros j Hj. exists (copy_comp info pc j). split; [apply (producer_copies pc n j Hpc); [rewrite Hid; exact E|exact Hj]|].
        unfold sid in Hid. inversion Hid; subst. repeat split; reflexivity.
    - rewrite <- Hid in E. destruct (producer_single pc Hpc E) as (o & H1 & H2 & H3 & H4).
      unfold sid in Hid. inversion Hid; subst. exists o. repeat split; assumption.
  Qed.

  Lemma ref_ids_in l i : In i (ref_ids l) <-> exists r, In r l /\ ref_id r = Some i.
  Proof.
    induction l as [|r l IH]; cbn; [split; [intros []|intros (r & [] & _)]|].
    destruct (ref_id r) as [j|] eqn:E; cbn; rewrite IH; split.
    - intros [->|(r' & H1 & H2)]; [exists r; split; [left; reflexivity|exact E]|exists r'; split; [right; exact H1|exact H2]].
    - intros (r' & [->|H1] & H2); [left; congruence|right; exists r'; split; assumption].
    - intros (r' & H1 & H2). exists r'. split; [right; exact H1|exact H2].
    - intros (r' & [->|H1] & H2); [congruence|exists r'; split; assumption].
  Qed.

  (* every reference of the expansion names a component of the expansion *)
  Lemma closed o i : In o (expand_with info cs) -> In i (ref_ids (so_refs o)) ->
    exists o', In o' (expand_with info cs) /\ (so_stage o', so_name o') = i.
  Proof.
    intros Ho Hi. unfold expand_with in Ho. apply in_flat_map in Ho as (c & Hc & Ho).
    apply ref_ids_in in Hi as (r & Hr & Hid).
    destruct (entry_of_comp c Hc) as (v & A & _).
    assert (Single : forall abs st p f m, In (SComp abs st p f m) (s_refs c) -> repl_count info (st, p) = None ->
                     exists o', In o' (expand_with info cs) /\ (so_stage o', so_name o') = (st, p)).
    { intros abs st p f m Hin E. pose proof (wiring c abs st p f m Hc Hin) as W. rewrite E in W.
      destruct W as (o' & H1 & H2 & H3 & _). exists o'. split; [exact H1|]. rewrite H2, H3. reflexivity. }
    assert (Copy : forall abs st p f m n j, In (SComp abs st p f m) (s_refs c) -> repl_count info (st, p) = Some n -> (j < n)%N ->
                     exists o', In o' (expand_with info cs) /\ (so_stage o', so_name o') = (st, (p ++ dec j)%string)).
    { intros abs st p f m n j Hin E Hj. pose proof (wiring c abs st p f m Hc Hin) as W. rewrite E in W.
      destruct W as [_ W]. destruct (W j Hj) as (o' & H1 & H2 & H3 & _). exists o'. split; [exact H1|]. rewrite H2, H3. reflexivity. }
    assert (Inh : forall abs st p f m n, In (SComp abs st p f m) (s_refs c) -> repl_count info (st, p) = Some n ->
                  v = Some n /\ (0 < n)%N).
    { intros abs st p f m n Hin E.
      assert (Hi : In (st, p) (ref_ids (s_refs c))) by (apply ref_ids_in; exists (SComp abs st p f m); split; [exact Hin|reflexivity]).
      destruct (consumer_inherits c _ n Hc Hi E) as [H1 H2]. rewrite A in H1. inversion H1. split; [reflexivity|exact H2]. }
    assert (Same : In o [same_comp c] -> (forall n, v = Some n -> N.ltb 0 n = false) ->
                   exists o', In o' (expand_with info cs) /\ (so_stage o', so_name o') = i).
    { intros [<-|[]] Hv. cbn in Hr. destruct r as [abs st p f m|t]; [|discriminate]. cbn in Hid. inversion Hid; subst.
      destruct (repl_count info (st, p)) as [n|] eqn:E; [|eauto].
      destruct (Inh _ _ _ _ _ _ Hr E) as [H1 H2]. apply N.ltb_lt in H2. rewrite (Hv n H1) in H2. discriminate. }
    unfold expand_one in Ho. rewrite A in Ho.
    destruct (s_agg c) eqn:Ha.
    - (* aggregator *)
      assert (Ho' : In o [agg_comp info c]) by (destruct v; exact Ho). clear Ho.
      destruct Ho' as [<-|[]]. cbn in Hr. apply in_flat_map in Hr as (r0 & Hr0 & Hr).
      destruct r0 as [abs st p f m|t]; cbn in Hr.
      + destruct (repl_count info (st, p)) as [n|] eqn:E.
        * apply in_map_iff in Hr as (j & <- & Hj). cbn in Hid. inversion Hid; subst. apply nseq_in in Hj. eauto.
        * destruct Hr as [<-|[]]. cbn in Hid. inversion Hid; subst. eauto.
      + destruct Hr as [<-|[]]. discriminate.
    - destruct v as [n|].
      + destruct (N.ltb 0 n) eqn:L.
        * (* copy j *)
          apply in_map_iff in Ho as (j & <- & Hj). apply nseq_in in Hj. cbn in Hr.
          apply in_map_iff in Hr as (r0 & <- & Hr0).
          destruct r0 as [abs st p f m|t]; cbn in Hid.
          -- destruct (repl_count info (st, p)) as [n'|] eqn:E; cbn in Hid; inversion Hid; subst.
             ++ destruct (Inh _ _ _ _ _ _ Hr0 E) as [H1 _]. inversion H1; subst. eauto.
             ++ eauto.
          -- discriminate.
        * apply Same; [exact Ho|]. intros m Hm. inversion Hm; subst. exact L.
      + apply Same; [exact Ho|]. intros m Hm. discriminate.
  Qed.

End WithWorkflow.

(* ------------------------------------------------------------------ textual layer: sequential replacement *)
Lemma tfun_cons k v L s : tfun ((k, v) :: L) s = tfun L (replace k v s).
Proof. reflexivity. Qed.

Lemma tfun_absent L : forall t, keys_absent L t = true -> tfun L t = t.
Proof.
  induction L as [|[k v] r IH]; intros t H; [reflexivity|].
  cbn in H. apply andb_true_iff in H as [H1 H2]. rewrite tfun_cons.
  rewrite replace_no_occ by (apply negb_true_iff; exact H1). apply IH. exact H2.
Qed.

Lemma replace_self k v : k <> EmptyString -> replace k v k = v.
Proof.
  intros Hk. unfold replace. destruct k as [|a k]; [contradiction|].
  rewrite <- (append_nil_r (String a k)) at 2. rewrite repl_head by discriminate. cbn. apply append_nil_r.
Qed.

Lemma ok_from_pre L : forall pre k v, ok_from pre L = true -> entry_of k L = Some v ->
  forall k', In k' pre -> occurs k' k = false.
Proof.
  induction L as [|[k0 v0] r IH]; intros pre k v H E k' Hin; [discriminate|].
  cbn in H. apply andb_true_iff in H as [H Hrest]. apply andb_true_iff in H as [H Hlater].
  apply andb_true_iff in H as [Hne Hpre]. cbn in E.
  destruct (String.eqb k k0) eqn:Ek.
  - apply String.eqb_eq in Ek. subst. rewrite forallb_forall in Hpre. apply negb_true_iff. apply Hpre. exact Hin.
  - apply (IH _ _ _ Hrest E). apply in_or_app. left. exact Hin.
Qed.

Lemma tfun_key L : forall pre k v, ok_from pre L = true -> entry_of k L = Some v -> tfun L k = v.
Proof.
  induction L as [|[k0 v0] r IH]; intros pre k v H E; [discriminate|].
  cbn in H. apply andb_true_iff in H as [H Hrest]. apply andb_true_iff in H as [H Hlater].
  apply andb_true_iff in H as [Hne Hpre]. cbn in E. rewrite tfun_cons.
  destruct (String.eqb k k0) eqn:Ek.
  - apply String.eqb_eq in Ek. subst. inversion E; subst.
    rewrite replace_self by (intros ->; discriminate). apply tfun_absent. exact Hlater.
  - rewrite replace_no_occ.
    + apply (IH _ _ _ Hrest E).
    + apply (ok_from_pre r (pre ++ [k0]) k v Hrest E). apply in_or_app. right. left. reflexivity.
Qed.

Lemma textual_refs_refine info i refs :
  no_overlap info i refs = true ->
  map (tfun (sorted_translation (repl_refs info refs) i)) (map spell refs) = map spell (map (rw_ref info i) refs).
Proof.
  unfold no_overlap. set (L := sorted_translation (repl_refs info refs) i). intros H.
  apply andb_true_iff in H as [Hok Hall]. rewrite forallb_forall in Hall.
  rewrite !map_map. apply map_ext_in. intros r Hr. specialize (Hall r Hr).
  destruct r as [abs st p f m|t]; cbn [ref_ok] in Hall.
  - cbn [rw_ref] in *. destruct (repl_count info (st, p)) as [n|].
    + destruct (entry_of (spell (SComp abs st p f m)) L) as [v|] eqn:E; [|discriminate].
      apply String.eqb_eq in Hall. rewrite <- Hall. apply (tfun_key L [] _ _ Hok E).
    + apply tfun_absent. exact Hall.
  - apply tfun_absent. exact Hall.
Qed.
