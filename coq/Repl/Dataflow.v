(* C03 — from the strings to the dataflow: under the guards of every component the textual expansion
   (expand_all_t: what the code computes) is, component by component, the spelling of the structured
   expansion, and its edges are the edges of the structured expansion. *)
From Coq Require Import String Ascii List Bool Arith NArith Lia.
Require Import V.Lib.PyStr V.Lib.JTree V.Repl.Model V.Repl.Proofs V.Repl.Aggregate.
Import ListNotations.
Open Scope list_scope.

(* a component of the textual expansion spells a component of the structured expansion *)
Definition corr (so : socomp) (o : ocomp) : Prop :=
  so_stage so = o_stage o /\ so_name so = o_name o /\ map spell (so_refs so) = o_refs o /\ so_replica so = o_replica o.

Lemma list_eqb_eq {A} (e : A -> A -> bool) : (forall x y, e x y = true -> x = y) ->
  forall a b, list_eqb e a b = true -> a = b.
Proof.
  intros He. induction a as [|x a IH]; intros [|y b] H; cbn in H; try discriminate; [reflexivity|].
  apply andb_true_iff in H as [H1 H2]. rewrite (He _ _ H1), (IH _ H2). reflexivity.
Qed.

Lemma str_list_eqb_eq a b : list_eqb String.eqb a b = true -> a = b.
Proof. apply list_eqb_eq. intros x y H. apply String.eqb_eq. exact H. Qed.

Lemma Forall2_map_same {A B C} (R : B -> C -> Prop) (f : A -> B) (g : A -> C) l :
  (forall x, In x l -> R (f x) (g x)) -> Forall2 R (map f l) (map g l).
Proof.
  induction l as [|x r IH]; intros H; cbn; constructor.
  - apply H. left. reflexivity.
  - apply IH. intros y Hy. apply H. right. exact Hy.
Qed.

Lemma parse_comp_fields w c sc : parse_comp w c = Some sc ->
  s_stage sc = t_stage c /\ s_name sc = t_name c /\ s_agg sc = t_agg c /\ parse_refs (t_stage c) (t_refs c) = Some (s_refs sc).
Proof.
  unfold parse_comp. destruct (resolve_count w c) as [own|]; [|discriminate].
  destruct (parse_refs (t_stage c) (t_refs c)) as [refs|]; [|discriminate].
  intros H. inversion H; subst. cbn. repeat split; reflexivity.
Qed.

Lemma repl_refs_origin info refs st p f m n : In (st, p, f, m, n) (repl_refs info refs) ->
  exists abs, In (SComp abs st p f m) refs /\ repl_count info (st, p) = Some n.
Proof.
  induction refs as [|r l IH]; cbn; [intros []|].
  destruct r as [a s q g k|t].
  - destruct (repl_count info (s, q)) as [n'|] eqn:E.
    + intros [H|H].
      * inversion H; subst. exists a. split; [left; reflexivity|exact E].
      * destruct (IH H) as (abs & H1 & H2). exists abs. split; [right; exact H1|exact H2].
    + intros H. destruct (IH H) as (abs & H1 & H2). exists abs. split; [right; exact H1|exact H2].
  - intros H. destruct (IH H) as (abs & H1 & H2). exists abs. split; [right; exact H1|exact H2].
Qed.

Lemma in_ref_ids l abs st p f m : In (SComp abs st p f m) l -> In (st, p) (ref_ids l).
Proof.
  induction l as [|r l IH]; [intros []|]. intros [->|H]; cbn; [left; reflexivity|].
  destruct (ref_id r); [right|]; auto.
Qed.

Section Workflow.
  Variable scs : list scomp.
  Variable info : list entry.
  Hypothesis Hnd : NoDup (map sid scs).
  Hypothesis Hp : propagate scs = Some info.

  (* the count handed to compile_component_aggregate is the count of every replicated producer *)
  Lemma aggregator_count sc v : In sc scs -> alookup (sid sc) info = Some (v, true) ->
    forall r, In r (repl_refs info (s_refs sc)) -> rr_count r = match v with Some n => n | None => 0%N end.
  Proof.
    intros Hc E [[[[st p] f] m] n] Hr. cbn.
    destruct (repl_refs_origin _ _ _ _ _ _ _ Hr) as (abs & Hin & Hrc).
    destruct (consumer_inherits scs info Hnd Hp sc (st, p) n Hc (in_ref_ids _ _ _ _ _ _ Hin) Hrc) as [H1 _].
    rewrite E in H1. inversion H1; subst. reflexivity.
  Qed.

  (* the strings of an aggregator *)
  Lemma textual_aggregate c sc : In sc scs -> s_agg sc = true -> t_refs c = map spell (s_refs sc) ->
    agg_sep info (s_refs sc) = true ->
    exists count, expand_one_t info c sc = [aggregate_comp c (repl_refs info (s_refs sc)) count] /\
                  expand_one info sc = [agg_comp info sc] /\
                  o_refs (aggregate_comp c (repl_refs info (s_refs sc)) count) = map spell (so_refs (agg_comp info sc)).
  Proof.
    intros Hc Ha Ht Hs. destruct (entry_of_comp scs info Hnd Hp sc Hc) as (v & A & _). rewrite Ha in A.
    exists (match v with Some n => n | None => 0%N end). split; [|split].
    - unfold expand_one_t. rewrite A. destruct v; reflexivity.
    - apply (aggregator_shape scs info Hnd Hp sc Hc Ha).
    - cbn [o_refs aggregate_comp so_refs agg_comp]. rewrite Ht.
      apply aggregate_refs_refine; [apply (aggregator_count sc v Hc A)|exact Hs].
  Qed.

  Lemma corr_one w c sc : In sc scs -> parse_comp w c = Some sc -> map spell (s_refs sc) = t_refs c ->
    comp_guard info sc = true -> Forall2 corr (expand_one info sc) (expand_one_t info c sc).
  Proof.
    intros Hc Hpc Hcan Hg. destruct (parse_comp_fields _ _ _ Hpc) as (Hst & Hnm & Hag & _).
    unfold comp_guard in Hg. unfold expand_one, expand_one_t.
    destruct (alookup (sid sc) info) as [[v [|]]|] eqn:E.
    - (* aggregator *)
      assert (Hg' : agg_sep info (s_refs sc) && name_unseen (repl_refs info (s_refs sc)) (s_name sc) = true) by (destruct v; exact Hg).
      clear Hg. apply andb_true_iff in Hg' as [Hsep Hname].
      assert (Es : (match v with Some _ => [agg_comp info sc] | None => [agg_comp info sc] end) = [agg_comp info sc]) by (destruct v; reflexivity).
      assert (Et : forall x : list ocomp, (match v with Some _ => x | None => x end) = x) by (intros x; destruct v; reflexivity).
      rewrite ?Es, ?Et. constructor; [|constructor].
      unfold corr. cbn [so_stage so_name so_refs so_replica agg_comp o_stage o_name o_refs o_replica aggregate_comp].
      split; [exact Hst|]. split; [|split; [|reflexivity]].
      + rewrite <- Hnm. symmetry. apply agg_string_fix. unfold name_unseen in Hname. rewrite forallb_forall in Hname. exact Hname.
      + rewrite <- Hcan. symmetry.
        apply aggregate_refs_refine; [apply (aggregator_count sc v Hc E)|exact Hsep].
    - destruct v as [n|].
      + destruct (N.ltb 0 n) eqn:L.
        * apply Forall2_map_same. intros i Hi. rewrite forallb_forall in Hg. specialize (Hg i Hi).
          apply andb_true_iff in Hg as [Hno Hname].
          unfold corr. cbn [so_stage so_name so_refs so_replica copy_comp o_stage o_name o_refs o_replica replica_comp].
          split; [exact Hst|]. split; [|split; [|reflexivity]].
          -- rewrite <- Hnm. symmetry. apply tfun_absent. exact Hname.
          -- rewrite <- Hcan. symmetry. apply textual_refs_refine. exact Hno.
        * constructor; [|constructor]. unfold corr. cbn. repeat split; assumption.
      + constructor; [|constructor]. unfold corr. cbn. repeat split; assumption.
    - constructor; [|constructor]. unfold corr. cbn. repeat split; assumption.
  Qed.

  Lemma corr_all w : forall cs scs', parse_comps w cs = Some scs' -> incl scs' scs ->
    map (fun sc => map spell (s_refs sc)) scs' = map t_refs cs ->
    forallb (comp_guard info) scs' = true ->
    Forall2 corr (expand_with info scs') (expand_all_t info cs scs').
  Proof.
    induction cs as [|c cs IH]; intros scs' H Hincl Hcan Hg; cbn in H.
    - inversion H; subst. constructor.
    - destruct (parse_comp w c) as [sc|] eqn:E1; [|discriminate].
      destruct (parse_comps w cs) as [r|] eqn:E2; [|discriminate]. inversion H; subst. clear H.
      cbn in Hcan. inversion Hcan as [[Hc1 Hc2]]. cbn in Hg. apply andb_true_iff in Hg as [Hg1 Hg2].
      unfold expand_with. cbn [flat_map expand_all_t]. apply Forall2_app.
      + apply (corr_one w c sc); [apply Hincl; left; reflexivity|exact E1|exact Hc1|exact Hg1].
      + apply (IH r eq_refl); [intros x Hx; apply Hincl; right; exact Hx|exact Hc2|exact Hg2].
  Qed.
End Workflow.

(* ------------------------------------------------------------------ edges *)
Lemma corr_nodes sl tl : Forall2 corr sl tl ->
  map (fun o => node_name (so_stage o) (so_name o)) sl = map (fun o => node_name (o_stage o) (o_name o)) tl.
Proof.
  induction 1 as [|so o sl tl (H1 & H2 & _) _ IH]; cbn [map]; [reflexivity|]. rewrite H1, H2, IH. reflexivity.
Qed.

Lemma rt_ref_edge nodes me st r : rt_ref st r = true ->
  match parse_full (spell r) st with
  | Some (DComp _ s p _ _) => let pn := node_name s p in if mem_str pn nodes then [(pn, me)] else []
  | _ => []
  end =
  match r with
  | SComp _ s p _ _ => let pn := node_name s p in if mem_str pn nodes then [(pn, me)] else []
  | SOther _ => @nil (string * string)
  end.
Proof.
  unfold rt_ref. destruct (parse_full (spell r) st) as [[a s p f m|]|]; destruct r as [a' s' p' f' m'|t]; try discriminate.
  - intros H. repeat (apply andb_true_iff in H as [H ?]).
    match goal with E : N.eqb _ _ = true |- _ => apply N.eqb_eq in E end.
    match goal with E : String.eqb p p' = true |- _ => apply String.eqb_eq in E end. subst. reflexivity.
  - reflexivity.
Qed.

Lemma corr_edges nodes : forall sl tl, Forall2 corr sl tl -> rt_ok sl = true ->
  flat_map (fun o =>
    flat_map (fun t => match parse_full t (o_stage o) with
                       | Some (DComp _ s p _ _) => let pn := node_name s p in
                                                 if mem_str pn nodes then [(pn, node_name (o_stage o) (o_name o))] else []
                       | _ => []
                       end) (o_refs o)) tl =
  flat_map (fun o =>
    flat_map (fun r => match r with
                       | SComp _ s p _ _ => let pn := node_name s p in
                                            if mem_str pn nodes then [(pn, node_name (so_stage o) (so_name o))] else []
                       | SOther _ => []
                       end) (so_refs o)) sl.
Proof.
  induction 1 as [|so o sl tl (H1 & H2 & H3 & _) _ IH]; intros Hrt; [reflexivity|].
  cbn [rt_ok forallb] in Hrt. apply andb_true_iff in Hrt as [Hr Hrt]. cbn [flat_map]. f_equal; [|exact (IH Hrt)].
  rewrite <- H3, <- H1, <- H2, flat_map_map'. apply flat_map_ext_in'. intros r Hin.
  rewrite forallb_forall in Hr. apply rt_ref_edge. apply Hr. exact Hin.
Qed.

Lemma textual_dataflow w scs info tout :
  parse_comps w (w_comps w) = Some scs -> NoDup (map sid scs) -> propagate scs = Some info ->
  expand_t w = Some tout ->
  canonical_refs (w_comps w) scs = true -> forallb (comp_guard info) scs = true ->
  rt_ok (expand_with info scs) = true ->
  tout = expand_all_t info (w_comps w) scs /\
  Forall2 corr (expand_with info scs) tout /\
  map (fun o => node_name (o_stage o) (o_name o)) tout = map (fun o => node_name (so_stage o) (so_name o)) (expand_with info scs) /\
  edges_of tout = sedges_of (expand_with info scs).
Proof.
  intros Hpc Hnd Hp Ht Hcan Hg Hrt. unfold expand_t in Ht. rewrite Hpc, Hp in Ht. inversion Ht as [Ht']. clear Ht.
  assert (Hc : Forall2 corr (expand_with info scs) (expand_all_t info (w_comps w) scs)).
  { apply (corr_all scs info Hnd Hp w (w_comps w) scs Hpc (incl_refl _)); [|exact Hg].
    unfold canonical_refs in Hcan. apply (list_eqb_eq (list_eqb String.eqb) str_list_eqb_eq). exact Hcan. }
  split; [reflexivity|]. split; [exact Hc|]. split; [symmetry; apply corr_nodes; exact Hc|].
  unfold edges_of, sedges_of. rewrite <- (corr_nodes _ _ Hc). apply corr_edges; assumption.
Qed.
