(* C03 — Replication expands a workflow without changing its dataflow.  Property theorems only.
   cs: the components in a topological order, with parsed references; info: what propagate_replicate
   computes; expand_with info cs: the replicated workflow (structured layer).  The textual layer
   (what compile_component_replica does to strings) is tied to it by C03_textual_refines. *)
From Coq Require Import String Ascii List Bool NArith.
Import ListNotations.
Require Import V.Lib.PyStr V.Repl.Model V.Repl.Proofs V.Repl.Aggregate V.Repl.Dataflow V.Repl.Arguments V.Repl.Platform V.Repl.Everywhere.
Open Scope list_scope.

(* The replicated region: a component carries the count n exactly when it requests n replicas itself or
   transitively consumes, through non aggregating components, from one that does. *)
Theorem C03_structured_region : forall cs info c n,
  NoDup (map sid cs) -> propagate cs = Some info -> In c cs ->
  (Reach cs n c <-> exists a, alookup (sid c) info = Some (Some n, a)).
Proof.
  intros cs info c n Hnd Hp Hc. split.
  - intros H. exists (s_agg c). exact (reach_to_info cs info Hnd Hp n c H).
  - intros [a H]. exact (info_to_reach cs info Hnd Hp n a c Hc H).
Qed.
Print Assumptions C03_structured_region.

(* Exactly N copies, suffixes 0..N-1, each knowing its replica index, pairwise different names; copy i
   carries the references of the component rewired by rw_ref info i. *)
Theorem C03_structured_copies : forall cs info c n,
  NoDup (map sid cs) -> propagate cs = Some info -> In c cs ->
  alookup (sid c) info = Some (Some n, false) -> (0 < n)%N ->
  expand_one info c = map (copy_comp info c) (nseq n) /\
  length (expand_one info c) = N.to_nat n /\
  NoDup (map so_name (expand_one info c)) /\
  (forall j, In j (nseq n) <-> (j < n)%N) /\
  (forall j, so_name (copy_comp info c j) = (s_name c ++ dec j)%string /\ so_replica (copy_comp info c j) = Some j).
Proof.
  intros cs info c n Hnd Hp Hc H L. destruct (copies_shape cs info c n Hc H L) as (A & B & C).
  repeat split; auto; try (apply nseq_in).
Qed.
Print Assumptions C03_structured_copies.

(* Wiring: for every declared reference to a producer (st, p): if the producer is replicated (n copies,
   not aggregating) then the consumer is an aggregator or is itself replicated n times, and all copies
   p0..p(n-1) exist in the expansion with their replica index; otherwise the producer exists as a
   single instance.  Together with rw_ref / agg_ref (copy i -> copy i; aggregator -> copies in index
   order) this is the expected edge relation. *)
Theorem C03_structured_wiring : forall cs info c abs st p f m,
  NoDup (map sid cs) -> propagate cs = Some info -> In c cs -> In (SComp abs st p f m) (s_refs c) ->
  match repl_count info (st, p) with
  | Some n => (s_agg c = true \/ alookup (sid c) info = Some (Some n, false)) /\
              forall j, (j < n)%N -> exists o, In o (expand_with info cs) /\ so_stage o = st /\
                                              so_name o = (p ++ dec j)%string /\ so_replica o = Some j
  | None => exists o, In o (expand_with info cs) /\ so_stage o = st /\ so_name o = p /\ so_replica o = None
  end.
Proof. intros cs info c abs st p f m Hnd Hp. exact (wiring cs info Hnd Hp c abs st p f m). Qed.
Print Assumptions C03_structured_wiring.

(* An aggregating component stays single and consumes all copies of each replicated producer in index order. *)
Theorem C03_structured_aggregator : forall cs info c,
  NoDup (map sid cs) -> propagate cs = Some info -> In c cs -> s_agg c = true ->
  expand_one info c = [agg_comp info c] /\
  so_name (agg_comp info c) = s_name c /\
  so_refs (agg_comp info c) = flat_map (agg_ref info) (s_refs c) /\
  (forall abs st p f m n, repl_count info (st, p) = Some n ->
     agg_ref info (SComp abs st p f m) = map (fun i => SComp true st (p ++ dec i)%string f m) (nseq n)).
Proof.
  intros cs info c Hnd Hp Hc Ha. split; [exact (aggregator_shape cs info Hnd Hp c Hc Ha)|].
  repeat split. intros abs st p f m n E. cbn. rewrite E. reflexivity.
Qed.
Print Assumptions C03_structured_aggregator.

(* Everything outside the replicated region is unchanged (and none of its producers is replicated). *)
Theorem C03_structured_outside : forall cs info c,
  NoDup (map sid cs) -> propagate cs = Some info -> In c cs -> s_agg c = false -> repl_count info (sid c) = None ->
  expand_one info c = [same_comp c] /\ (forall i, In i (ref_ids (s_refs c)) -> repl_count info i = None).
Proof. intros cs info c Hnd Hp. exact (outside_shape cs info Hnd Hp c). Qed.
Print Assumptions C03_structured_outside.

(* Every reference in the result names a component that exists. *)
Theorem C03_structured_closed : forall cs out o i,
  NoDup (map sid cs) -> expand cs = Some out -> In o out -> In i (ref_ids (so_refs o)) ->
  exists o', In o' out /\ (so_stage o', so_name o') = i.
Proof.
  intros cs out o i Hnd He. unfold expand in He. destruct (propagate cs) as [info|] eqn:Hp; [|discriminate].
  inversion He; subst. exact (closed cs info Hnd Hp o i).
Qed.
Print Assumptions C03_structured_closed.

(* The strings: compile_component_replica (sequential str.replace over the translation table sorted by key
   length) rewrites the declared reference strings of a component exactly as the structured layer says,
   provided its reference spellings do not overlap (no_overlap: Model.v). *)
Theorem C03_textual_refines : forall info c sc n i,
  t_refs c = map spell (s_refs sc) -> no_overlap info i (s_refs sc) = true ->
  o_refs (replica_comp c (repl_refs info (s_refs sc)) n i) = map spell (so_refs (copy_comp info sc i)).
Proof.
  intros info c sc n i Ht Hn. cbn. rewrite Ht. exact (textual_refs_refine info i (s_refs sc) Hn).
Qed.
Print Assumptions C03_textual_refines.

(* The strings of an aggregator: compile_component_aggregate (translation map with the list of copies per spelling,
   regular-expression search, str.replace, then str.split() of every rewritten reference) turns the declared
   reference strings of an aggregating component into exactly the spellings of the structured rewiring — every
   replicated reference replaced by all its copies in index order, everything else unchanged — under agg_sep
   (Model.v: agg_guard, pairwise different spellings, single-word references, and no spelling of another
   replicated reference found by the regular expression).  The count handed to the function is the aggregator's
   own propagated count; that it is the count of each replicated producer is part of the proof. *)
Theorem C03_textual_refines_aggregate : forall cs info c sc,
  NoDup (map sid cs) -> propagate cs = Some info -> In sc cs -> s_agg sc = true ->
  t_refs c = map spell (s_refs sc) -> agg_sep info (s_refs sc) = true ->
  exists count, expand_one_t info c sc = [aggregate_comp c (repl_refs info (s_refs sc)) count] /\
                expand_one info sc = [agg_comp info sc] /\
                o_refs (aggregate_comp c (repl_refs info (s_refs sc)) count) = map spell (so_refs (agg_comp info sc)).
Proof. intros cs info c sc Hnd Hp. exact (textual_aggregate cs info Hnd Hp c sc). Qed.
Print Assumptions C03_textual_refines_aggregate.

(* agg_sep is the guard the correspondence evaluates (agg_guard) plus further computable conditions *)
Theorem C03_agg_sep_guard : forall info refs, agg_sep info refs = true -> agg_guard info refs = true.
Proof.
  intros info refs H. unfold agg_sep in H. apply andb_true_iff in H as [H _]. apply andb_true_iff in H as [H _]. exact H.
Qed.
Print Assumptions C03_agg_sep_guard.

(* The dataflow of the code's algorithm.  For a workflow whose references are written in the printed spelling
   (canonical_refs), every component of which satisfies its guard (comp_guard: no_overlap for every copy, agg_sep
   for aggregators, and the component name untouched by the rewriting), and whose structured expansion is read
   back by the parser as written (rt_ok, computable): the textual expansion expand_t — what replicate() returns —
   consists, in order, of the spellings of the components of the structured expansion (same stage, name, replica
   index, references), has the same nodes, and edges_of (the edges _createCompleteGraph derives by parsing the
   rewritten strings) is exactly the edge list of the structured expansion, whose shape the C03_structured_*
   theorems give. *)
Theorem C03_textual_dataflow : forall w scs info tout,
  parse_comps w (w_comps w) = Some scs -> NoDup (map sid scs) -> propagate scs = Some info ->
  expand_t w = Some tout ->
  canonical_refs (w_comps w) scs = true -> forallb (comp_guard info) scs = true ->
  rt_ok (expand_with info scs) = true ->
  tout = expand_all_t info (w_comps w) scs /\
  Forall2 corr (expand_with info scs) tout /\
  map (fun o => node_name (o_stage o) (o_name o)) tout =
    map (fun o => node_name (so_stage o) (so_name o)) (expand_with info scs) /\
  edges_of tout = sedges_of (expand_with info scs).
Proof. exact textual_dataflow. Qed.
Print Assumptions C03_textual_dataflow.

(* The argument string of a copy: the same sequential str.replace, applied to command.arguments written as
   blank-separated tokens, rewrites exactly the tokens that are declared spellings (to the spelling of the
   structured rewiring of that reference, second conjunct) and leaves every other token and every blank as it
   is, under no_overlap and args_sep (no spelling is empty or contains a blank; every token either is a
   spelling or contains none). *)
Theorem C03_textual_arguments_replica : forall info c sc n i toks,
  t_args c = join " " toks ->
  no_overlap info i (s_refs sc) = true ->
  args_sep (sorted_translation (repl_refs info (s_refs sc)) i) toks = true ->
  o_args (replica_comp c (repl_refs info (s_refs sc)) n i) =
    join " " (map (tok_spec (sorted_translation (repl_refs info (s_refs sc)) i)) toks) /\
  forall r, In r (s_refs sc) ->
    tok_spec (sorted_translation (repl_refs info (s_refs sc)) i) (spell r) = spell (rw_ref info i r).
Proof.
  intros info c sc n i toks Ht Hno Hsep. cbn [o_args replica_comp]. rewrite Ht.
  exact (textual_args_replica info (s_refs sc) i toks Hno Hsep).
Qed.
Print Assumptions C03_textual_arguments_replica.

(* ---- the layer in front of the expansion (Platform.v): spelling of the attributes, platform, entry point ---- *)

(* Spelling.  The workflow that is propagated and expanded for platform p (select w p) consists of the written
   components, and a component is aggregating there exactly when its workflowAttributes.aggregate — taken from
   override.p when given there, a boolean, a text, or the value of %(v)s found in the component's (overridden) / the
   stage's / the global variables of p — reads true / y / yes in any letter case.  Nothing else of the component
   enters: not its own replicate, not the platform the object was built for. *)
Theorem C03_spelling_aggregate : forall w p t,
  select w p = Some t ->
  Forall2 (fun c tc => t_stage tc = r_stage c /\ t_name tc = r_name c /\ t_refs tc = r_refs c /\ t_args tc = r_args c /\
                       (t_agg tc = true <-> exists s, spelled w p c = Some s /\ mem_str (lower s) true_words = true))
          (rw_comps w) (w_comps t).
Proof. exact select_components. Qed.
Print Assumptions C03_spelling_aggregate.

(* ... and such a component stays single in the expansion and consumes all copies in index order
   (C03_structured_aggregator applies to it), also when it requests no replicas itself. *)
Theorem C03_spelled_aggregator_single : forall w p t scs info c sc,
  select w p = Some t -> parse_comps t (w_comps t) = Some scs -> NoDup (map sid scs) -> propagate scs = Some info ->
  In (c, sc) (combine (rw_comps w) scs) ->
  (exists s, spelled w p c = Some s /\ mem_str (lower s) true_words = true) ->
  s_name sc = r_name c /\ s_stage sc = r_stage c /\
  expand_one info sc = [agg_comp info sc] /\ so_name (agg_comp info sc) = s_name sc /\
  so_refs (agg_comp info sc) = flat_map (agg_ref info) (s_refs sc).
Proof.
  intros w p t scs info c sc Hs Hp Hnd Hpr Hi Hsp.
  destruct (spelled_aggregator w p t scs c sc Hs Hp Hi Hsp) as (Hin & Ha & Hn & Hst).
  repeat split; auto. exact (aggregator_shape scs info Hnd Hpr sc Hin Ha).
Qed.
Print Assumptions C03_spelled_aggregator_single.

(* Platform.  FlowIRConcrete(flowir, ctor).replicate(platform=p) expands the workflow for p, whatever platform the
   object was built for; without a request it expands for the platform of the object (default when none was given). *)
Theorem C03_platform_requested : forall w ctor ctor' p,
  p <> ""%string -> replicate_concrete w ctor (Some p) = replicate_concrete w ctor' (Some p).
Proof. exact replicate_concrete_requested. Qed.
Print Assumptions C03_platform_requested.

Theorem C03_platform_active : forall w ctor,
  replicate_concrete w ctor None = replicate_concrete w None (Some (por ctor default_label)).
Proof. exact replicate_concrete_active. Qed.
Print Assumptions C03_platform_active.

(* The dataflow theorem for the public entry point: what replicate(platform=req) of an object built for ctor returns
   is the textual expansion of the workflow selected for (req or ctor or default), to which C03_textual_dataflow
   (and through it the C03_structured_* theorems) applies. *)
Theorem C03_platform_dataflow : forall w ctor req t scs info tout,
  select w (por req (por ctor default_label)) = Some t ->
  parse_comps t (w_comps t) = Some scs -> NoDup (map sid scs) -> propagate scs = Some info ->
  replicate_concrete w ctor req = Some tout ->
  canonical_refs (w_comps t) scs = true -> forallb (comp_guard info) scs = true ->
  rt_ok (expand_with info scs) = true ->
  tout = expand_all_t info (w_comps t) scs /\
  Forall2 corr (expand_with info scs) tout /\
  map (fun o => node_name (o_stage o) (o_name o)) tout =
    map (fun o => node_name (so_stage o) (so_name o)) (expand_with info scs) /\
  edges_of tout = sedges_of (expand_with info scs).
Proof.
  intros w ctor req t scs info tout Hs Hp Hnd Hpr Hr. rewrite (replicate_concrete_select w ctor req t Hs) in Hr.
  exact (textual_dataflow t scs info tout Hp Hnd Hpr Hr).
Qed.
Print Assumptions C03_platform_dataflow.

(* non-vacuity: A (2 replicas, count via a variable) -> C (also reads B) -> aggregator D -> E *)
Definition ex_wf : twf := {| w_gvars := [("n", "2")]%string; w_svars := []; w_comps := [
  {| t_stage := 0; t_name := "A"; t_refs := []; t_args := "hi"; t_rep := RVar "n"; t_agg := false; t_vars := [] |};
  {| t_stage := 0; t_name := "B"; t_refs := []; t_args := "hi"; t_rep := RNone; t_agg := false; t_vars := [] |};
  {| t_stage := 0; t_name := "C"; t_refs := ["A:ref"; "stage0.B/out.txt:copy"]; t_args := "A:ref stage0.B/out.txt:copy";
     t_rep := RNone; t_agg := false; t_vars := [] |};
  {| t_stage := 1; t_name := "D"; t_refs := ["stage0.C:output"]; t_args := "stage0.C:output/x.dat"; t_rep := RNone;
     t_agg := true; t_vars := [] |};
  {| t_stage := 1; t_name := "E"; t_refs := ["D:ref"]; t_args := "D:ref"; t_rep := RNone; t_agg := false; t_vars := [] |}
  ]%string |}.

Example C03_nonvacuous :
  exists scs info out,
    parse_comps ex_wf (w_comps ex_wf) = Some scs /\ NoDup (map sid scs) /\ propagate scs = Some info /\
    expand scs = Some out /\
    map (fun o => (so_name o, so_replica o, map spell (so_refs o))) out =
      [("A0", Some 0, []); ("A1", Some 1, []); ("B", None, []);
       ("C0", Some 0, ["stage0.A0:ref"; "stage0.B/out.txt:copy"]); ("C1", Some 1, ["stage0.A1:ref"; "stage0.B/out.txt:copy"]);
       ("D", None, ["stage0.C0:output"; "stage0.C1:output"]); ("E", None, ["D:ref"])]%string%N /\
    forallb (fun sc => no_overlap info 0 (s_refs sc) && no_overlap info 1 (s_refs sc)) scs = true /\
    forallb (fun sc => agg_sep info (s_refs sc)) scs = true /\
    canonical_refs (w_comps ex_wf) scs = true /\ forallb (comp_guard info) scs = true /\
    rt_ok out = true /\
    (* the copies of C: arguments "A:ref stage0.B/out.txt:copy" *)
    forallb (fun c => negb (String.eqb (t_name c) "C") ||
                      (args_sep (sorted_translation (repl_refs info (match parse_comp ex_wf c with Some sc => s_refs sc | None => [] end)) 1)
                                (split_on " "%char (t_args c)) &&
                       String.eqb (join " " (split_on " "%char (t_args c))) (t_args c))) (w_comps ex_wf) = true /\
    sedges_of out = [("stage0.A0", "stage0.C0"); ("stage0.B", "stage0.C0"); ("stage0.A1", "stage0.C1");
                     ("stage0.B", "stage0.C1"); ("stage0.C0", "stage1.D"); ("stage0.C1", "stage1.D");
                     ("stage1.D", "stage1.E")]%string /\
    option_map (map (fun o => (o_name o, o_refs o, o_args o))) (expand_t ex_wf) =
      Some [("A0", [], "hi"); ("A1", [], "hi"); ("B", [], "hi");
            ("C0", ["stage0.A0:ref"; "stage0.B/out.txt:copy"], "stage0.A0:ref stage0.B/out.txt:copy");
            ("C1", ["stage0.A1:ref"; "stage0.B/out.txt:copy"], "stage0.A1:ref stage0.B/out.txt:copy");
            ("D", ["stage0.C0:output"; "stage0.C1:output"], "stage0.C0:output/x.dat stage0.C1:output/x.dat");
            ("E", ["D:ref"], "D:ref")]%string.
Proof.
  eexists. eexists. eexists.
  split; [vm_compute; reflexivity|].
  split; [repeat constructor; cbn; intuition discriminate|].
  split; [vm_compute; reflexivity|].
  split; [vm_compute; reflexivity|].
  split; [vm_compute; reflexivity|].
  split; [vm_compute; reflexivity|].
  split; [vm_compute; reflexivity|].
  split; [vm_compute; reflexivity|].
  split; [vm_compute; reflexivity|].
  split; [vm_compute; reflexivity|].
  split; [vm_compute; reflexivity|].
  split; vm_compute; reflexivity.
Qed.

(* non-vacuity of the platform layer: A asks for %(n)s replicas (n = 2 on default, 4 on hpc; the stage-0 variable
   n = 9 of the default platform is hidden on hpc by hpc's global n), X asks for 1 replica but 3 on hpc through its
   override, G aggregates with the flag spelled through a variable, H with the flag spelled "Yes" on hpc only *)
Definition ex_rwf : rwf := {|
  rw_platforms := ["default"; "hpc"]%string;
  rw_vars := [("default", {| p_global := [("n", "2"); ("doAggregate", "y")]; p_stages := [(1%N, [("k", "1")])] |});
              ("hpc", {| p_global := [("n", "4")]; p_stages := [] |})]%string;
  rw_comps := [
    {| r_stage := 0; r_name := "A"; r_refs := []; r_args := "hi"; r_rep := CVar "n"; r_agg := ANone; r_vars := [];
       r_over := [] |};
    {| r_stage := 0; r_name := "B"; r_refs := ["A:ref"]; r_args := "A:ref/out.txt"; r_rep := CNone; r_agg := AText "no";
       r_vars := []; r_over := [] |};
    {| r_stage := 0; r_name := "X"; r_refs := []; r_args := "hi"; r_rep := CLit 1; r_agg := ANone; r_vars := [];
       r_over := [("hpc", {| ov_rep := CText "3"; ov_agg := ANone; ov_vars := [] |})] |};
    {| r_stage := 1; r_name := "G"; r_refs := ["stage0.B:ref"]; r_args := "stage0.B:ref"; r_rep := CNone;
       r_agg := AVar "doAggregate"; r_vars := []; r_over := [] |};
    {| r_stage := 1; r_name := "H"; r_refs := ["stage0.X:ref"]; r_args := "stage0.X:ref"; r_rep := CNone;
       r_agg := ABool false; r_vars := [];
       r_over := [("hpc", {| ov_rep := CNone; ov_agg := AText "Yes"; ov_vars := [] |})] |}
  ]%string |}.

Definition names_refs (o : option (list ocomp)) := option_map (map (fun o => (o_name o, o_refs o))) o.

Example C03_platform_nonvacuous :
  names_refs (replicate_concrete ex_rwf None None) =
    Some [("A0", []); ("A1", []); ("B0", ["stage0.A0:ref"]); ("B1", ["stage0.A1:ref"]); ("X0", []);
          ("G", ["stage0.B0:ref"; "stage0.B1:ref"]); ("H0", ["stage0.X0:ref"])]%string /\
  names_refs (replicate_concrete ex_rwf (Some "default") (Some "hpc"))%string =
    Some [("A0", []); ("A1", []); ("A2", []); ("A3", []);
          ("B0", ["stage0.A0:ref"]); ("B1", ["stage0.A1:ref"]); ("B2", ["stage0.A2:ref"]); ("B3", ["stage0.A3:ref"]);
          ("X0", []); ("X1", []); ("X2", []);
          ("G", ["stage0.B0:ref"; "stage0.B1:ref"; "stage0.B2:ref"; "stage0.B3:ref"]);
          ("H", ["stage0.X0:ref"; "stage0.X1:ref"; "stage0.X2:ref"])]%string /\
  replicate_concrete ex_rwf (Some "hpc") (Some "default")%string = replicate_concrete ex_rwf None None /\
  replicate_concrete ex_rwf (Some "hpc") None%string = replicate_concrete ex_rwf None (Some "hpc")%string /\
  replicate_concrete ex_rwf None (Some "nope")%string = None /\
  (exists t scs info, select ex_rwf "hpc" = Some t /\ parse_comps t (w_comps t) = Some scs /\
                      propagate scs = Some info /\ canonical_refs (w_comps t) scs = true /\
                      forallb (comp_guard info) scs = true /\ rt_ok (expand_with info scs) = true /\
                      map t_agg (w_comps t) = [false; false; false; true; true]).
Proof.
  split; [vm_compute; reflexivity|].
  split; [vm_compute; reflexivity|].
  split; [vm_compute; reflexivity|].
  split; [vm_compute; reflexivity|].
  split; [vm_compute; reflexivity|].
  eexists. eexists. eexists.
  split; [vm_compute; reflexivity|].
  split; [vm_compute; reflexivity|].
  split; [vm_compute; reflexivity|].
  split; [vm_compute; reflexivity|].
  split; [vm_compute; reflexivity|].
  split; vm_compute; reflexivity.
Qed.

(* ---- every other string of a component (Everywhere.v): variables, executable / environment, executors,
   resourceManager ... ---- *)

(* expand_x — the expansion carrying the variables of every component (those the platform selects) and its other
   strings along — produces exactly the components of expand_t: the theorems above speak about its x_comp part. *)
Theorem C03_everywhere_same_expansion : forall w xs, option_map (map x_comp) (expand_x w xs) = expand_t w.
Proof. exact expand_x_comp. Qed.
Print Assumptions C03_everywhere_same_expansion.

(* Copy i of a replicated component: in EVERY string of its definition — the value of any of its variables (so
   what %(variable)s puts on its command line) and any other string (extra: command.executable / environment,
   executors payloads, resourceManager options, labelled by path) — written as blank-separated tokens, exactly the
   tokens that are declared spellings are rewritten, to the spelling of the structured rewiring (copy i of the
   replicated producer, last conjunct), and nothing else changes; under the hypotheses of
   C03_textual_arguments_replica.  Keys (variable names, paths) are never rewritten. *)
Theorem C03_textual_everywhere_replica : forall info c sc extra n i,
  alookup (sid sc) info = Some (Some n, false) -> (0 < n)%N -> In i (nseq n) ->
  no_overlap info i (s_refs sc) = true ->
  let L := sorted_translation (repl_refs info (s_refs sc)) i in
  exists x, In x (expand_one_x info c sc extra) /\
    x_comp x = replica_comp c (repl_refs info (s_refs sc)) n i /\
    (forall k toks, In (k, join " " toks) (t_vars c) -> args_sep L toks = true ->
                    In (k, join " " (map (tok_spec L) toks)) (x_vars x)) /\
    (forall k toks, In (k, join " " toks) extra -> args_sep L toks = true ->
                    In (k, join " " (map (tok_spec L) toks)) (x_extra x)) /\
    (forall r, In r (s_refs sc) -> tok_spec L (spell r) = spell (rw_ref info i r)).
Proof. exact everywhere_replica. Qed.
Print Assumptions C03_textual_everywhere_replica.

(* A component outside the replicated region keeps every string of its definition. *)
Theorem C03_everywhere_outside : forall info c sc extra,
  (alookup (sid sc) info = Some (None, false) \/ alookup (sid sc) info = None) ->
  expand_one_x info c sc extra = [plain_x c extra] /\ x_vars (plain_x c extra) = t_vars c /\
  x_extra (plain_x c extra) = extra.
Proof. exact everywhere_outside. Qed.
Print Assumptions C03_everywhere_outside.

(* non-vacuity: C consumes the replicated A and spells it in two variables used on its command line (relative
   spelling; the other spelling of a reference with a file), in command.environment and — with a path after the
   method — in an executors payload; the aggregator D spells its input in a variable *)
Definition ex_xwf : twf := {| w_gvars := []; w_svars := []; w_comps := [
  {| t_stage := 0; t_name := "A"; t_refs := []; t_args := "hi"; t_rep := RLit 2; t_agg := false; t_vars := [] |};
  {| t_stage := 0; t_name := "C"; t_refs := ["A:ref"; "stage0.A/r.bin:copy"]; t_args := "-c %(conf)s %(restart)s";
     t_rep := RNone; t_agg := false;
     t_vars := [("conf", "A:ref"); ("restart", "-r A/r.bin:copy"); ("steps", "10")] |};
  {| t_stage := 0; t_name := "D"; t_refs := ["C:output"]; t_args := "%(inputs)s"; t_rep := RNone; t_agg := true;
     t_vars := [("inputs", "stage0.C:output")] |}
  ]%string |}.
Definition ex_xs : list strs :=
  [[]; [("command.environment", "stage0.A:ref"); ("executors.pre.0.payload", "A:ref/x.dat")]; []]%string.

Example C03_everywhere_nonvacuous :
  option_map (map (fun x => (o_name (x_comp x), x_vars x, x_extra x))) (expand_x ex_xwf ex_xs) =
    Some [("A0", [], []); ("A1", [], []);
          ("C0", [("conf", "stage0.A0:ref"); ("restart", "-r stage0.A0/r.bin:copy"); ("steps", "10")],
                 [("command.environment", "stage0.A0:ref"); ("executors.pre.0.payload", "stage0.A0:ref/x.dat")]);
          ("C1", [("conf", "stage0.A1:ref"); ("restart", "-r stage0.A1/r.bin:copy"); ("steps", "10")],
                 [("command.environment", "stage0.A1:ref"); ("executors.pre.0.payload", "stage0.A1:ref/x.dat")]);
          ("D", [("inputs", "stage0.C0:output stage0.C1:output")], [])]%string /\
  (exists scs info, parse_comps ex_xwf (w_comps ex_xwf) = Some scs /\ propagate scs = Some info /\
     forallb (fun sc => negb (String.eqb (s_name sc) "C") ||
        (no_overlap info 1 (s_refs sc) &&
         args_sep (sorted_translation (repl_refs info (s_refs sc)) 1) ["-r"; "A/r.bin:copy"]%string &&
         args_sep (sorted_translation (repl_refs info (s_refs sc)) 1) ["stage0.A:ref"]%string)) scs = true).
Proof.
  split; [vm_compute; reflexivity|]. eexists. eexists.
  split; [vm_compute; reflexivity|]. split; vm_compute; reflexivity.
Qed.
