(* C03 — replication.  Model of FlowIR.propagate_replicate, apply_replicate, compile_component_replica,
   compile_component_aggregate, ParseDataReferenceFull / ParseDataReference / ParseProducerReference,
   compile_reference (python/experiment/model/frontends/flowir.py) and of the edge construction of
   WorkflowGraph._createCompleteGraph (graph.py).

   Two layers:
   (a) structured: components with parsed references [sref]; [propagate] walks the components in
       topological order, [expand] makes the copies / rewires aggregators;
   (b) textual: what the code does — the rewriting of every string of a component by sequential
       str.replace over a translation table sorted by key length (replicas), and by the
       regex / str.replace mixture of compile_component_aggregate (aggregators).
   Both layers share [propagate] (the code parses references before propagating).  *)
From Coq Require Import String Ascii List Bool Arith NArith.
Require Import V.Lib.PyStr V.Lib.JTree.
Import ListNotations.
Open Scope string_scope.

(* ------------------------------------------------------------------ small helpers *)
Definition id := (N * string)%type.
Definition id_eqb (a b : id) : bool := N.eqb (fst a) (fst b) && String.eqb (snd a) (snd b).

Fixpoint alookup {A} (k : id) (m : list (id * A)) : option A :=
  match m with
  | [] => None
  | (k', v) :: r => if id_eqb k k' then Some v else alookup k r
  end.

Definition nseq (n : N) : list N := map N.of_nat (seq 0 (N.to_nat n)).

Definition mem_str (s : string) (l : list string) : bool := existsb (String.eqb s) l.

Definition is_lower (a : ascii) : bool := let n := nat_of_ascii a in Nat.leb 97 n && Nat.leb n 122.
Definition is_alnum (a : ascii) : bool := is_digit a || is_upper a || is_lower a.
Definition is_char (c : ascii) (a : ascii) : bool := Ascii.eqb a c.

Fixpoint span (p : ascii -> bool) (s : string) : nat :=
  match s with String a s' => if p a then S (span p s') else O | EmptyString => O end.

Definition opt_str_eqb (a b : option string) : bool :=
  match a, b with Some x, Some y => String.eqb x y | None, None => true | _, _ => false end.
Definition opt_N_eqb (a b : option N) : bool :=
  match a, b with Some x, Some y => N.eqb x y | None, None => true | _, _ => false end.
Fixpoint list_eqb {A} (e : A -> A -> bool) (a b : list A) : bool :=
  match a, b with
  | [], [] => true
  | x :: a', y :: b' => e x y && list_eqb e a' b'
  | _, _ => false
  end.

(* ------------------------------------------------------------------ references: parsing and printing *)
Definition special_folders : list string := ["input"; "data"; "bin"; "conf"].

(* FlowIR.compile_reference *)
Definition compile_reference (prod : string) (file : option string) (meth : string)
           (st : option N) (replica : option N) : string :=
  let p := match replica with Some i => prod ++ dec i | None => prod end in
  let r := match file with None => p ++ ":" ++ meth | Some f => p ++ "/" ++ f ++ ":" ++ meth end in
  match st with Some s => "stage" ++ dec s ++ "." ++ r | None => r end.

(* int() of a run of digits *)
Fixpoint digits_val (acc : N) (s : string) : N :=
  match s with
  | String a s' => if is_digit a then digits_val (acc * 10 + N.of_nat (nat_of_ascii a - 48)) s' else acc
  | EmptyString => acc
  end.

(* re.compile(r"stage([0-9]+)").match(tok): a prefix match, the rest of the token is ignored *)
Definition parse_stage_tok (tok : string) : option N :=
  if prefixb "stage" tok then
    match drop 5 tok with
    | String a r => if is_digit a then Some (digits_val 0 (String a r)) else None
    | EmptyString => None
    end
  else None.

(* FlowIR.VariablePattern  %\([a-zA-Z0-9_.-]+\)s  searched anywhere *)
Definition is_varc (a : ascii) : bool := is_alnum a || is_char "_" a || is_char "." a || is_char "-" a.
Definition var_here (s : string) : bool :=
  let k := span is_varc s in negb (Nat.eqb k 0) && prefixb ")s" (drop k s).
Fixpoint has_var (s : string) : bool :=
  match s with
  | EmptyString => false
  | String _ s' => (prefixb "%(" s && var_here (drop 2 s)) || has_var s'
  end.

(* ParseProducerReference: (stageIndex, jobName, hasIndex), index always given here *)
Definition parse_producer (reference : string) (index : N) : N * string * bool :=
  if prefixb "/" reference then (index, reference, false)
  else match split1 "." reference with
       | None => (index, reference, false)
       | Some (tok, job) => match parse_stage_tok tok with
                            | Some s => (s, job, true)
                            | None => (index, reference, false)
                            end
       end.

(* a parsed reference: component reference (stage, producer, file, method) or something else *)
Inductive pden := DComp (abs : bool) (st : N) (prod : string) (file : option string) (meth : string) | DOther.
(* abs: the reference was written with its stage (hasIndex) *)

(* ParseDataReference followed by ParseDataReferenceFull (no application dependencies, no
   top-level folders).  None: the reference is malformed (ValueError). *)
Definition parse_full (value : string) (index : N) : option pden :=
  match split_on ":" value with
  | [reference; meth] =>
      if prefixb "/" reference then Some DOther      (* head of os.path.split keeps the leading "/" *)
      else
        let '(reference', file) :=
          match split1 "/" reference with
          | Some (h, t) => if mem_str h special_folders then (reference, None) else (h, Some t)
          | None => (reference, None)
          end in
        let '(st, job, has_index) := parse_producer reference' index in
        if (mem_str job special_folders && negb has_index) || (occurs "/" job && negb has_index) || has_var job
        then Some DOther else Some (DComp has_index st job file meth)
  | _ => None
  end.

(* ------------------------------------------------------------------ (a) structured layer *)
Inductive sref :=
  | SComp (abs : bool) (st : N) (prod : string) (file : option string) (meth : string)
  | SOther (text : string).

Record scomp := { s_stage : N; s_name : string; s_refs : list sref; s_own : option N; s_agg : bool }.
Definition sid (c : scomp) : id := (s_stage c, s_name c).

(* how a structured reference is written *)
Definition spell (r : sref) : string :=
  match r with
  | SComp abs st p f m => compile_reference p f m (if abs then Some st else None) None
  | SOther t => t
  end.

Definition ref_id (r : sref) : option id := match r with SComp _ st p _ _ => Some (st, p) | SOther _ => None end.
Fixpoint ref_ids (l : list sref) : list id :=
  match l with [] => [] | r :: t => match ref_id r with Some i => i :: ref_ids t | None => ref_ids t end end.

Definition entry := (id * (option N * bool))%type.

(* replicate values seen through the producers; None: a producer is unknown (or not earlier in the order) *)
Fixpoint pred_vals (info : list entry) (ids : list id) : option (list (option N)) :=
  match ids with
  | [] => Some []
  | i :: r => match alookup i info, pred_vals info r with
              | Some (rp, ag), Some l => Some ((if ag then None else rp) :: l)
              | _, _ => None
              end
  end.

(* set([rep for rep in all_replicate if rep is not None]): more than one value is an error *)
Fixpoint merge (acc : option N) (vals : list (option N)) : option (option N) :=
  match vals with
  | [] => Some acc
  | None :: r => merge acc r
  | Some x :: r => match acc with
                   | None => merge (Some x) r
                   | Some y => if N.eqb x y then merge acc r else None
                   end
  end.

(* propagate_replicate over components listed in topological order *)
Fixpoint propagate_aux (cs : list scomp) (info : list entry) : option (list entry) :=
  match cs with
  | [] => Some info
  | c :: r =>
      match pred_vals info (ref_ids (s_refs c)) with
      | None => None
      | Some pv => match merge None (pv ++ [s_own c])%list with
                   | None => None
                   | Some v => propagate_aux r (info ++ [(sid c, (v, s_agg c))])%list
                   end
      end
  end.
Definition propagate (cs : list scomp) : option (list entry) := propagate_aux cs [].

(* the producer is replicated and does not aggregate: its consumers see copies *)
Definition repl_count (info : list entry) (i : id) : option N :=
  match alookup i info with
  | Some (Some n, false) => if N.ltb 0 n then Some n else None
  | _ => None
  end.

Definition rw_ref (info : list entry) (i : N) (r : sref) : sref :=
  match r with
  | SComp abs st p f m => match repl_count info (st, p) with
                          | Some _ => SComp true st (p ++ dec i) f m
                          | None => r
                          end
  | SOther _ => r
  end.

Definition agg_ref (info : list entry) (r : sref) : list sref :=
  match r with
  | SComp abs st p f m => match repl_count info (st, p) with
                          | Some n => map (fun i => SComp true st (p ++ dec i) f m) (nseq n)
                          | None => [r]
                          end
  | SOther _ => [r]
  end.

Record socomp := { so_stage : N; so_name : string; so_replica : option N; so_refs : list sref }.

Definition same_comp (c : scomp) : socomp :=
  {| so_stage := s_stage c; so_name := s_name c; so_replica := None; so_refs := s_refs c |}.
Definition copy_comp (info : list entry) (c : scomp) (i : N) : socomp :=
  {| so_stage := s_stage c; so_name := s_name c ++ dec i; so_replica := Some i;
     so_refs := map (rw_ref info i) (s_refs c) |}.
Definition agg_comp (info : list entry) (c : scomp) : socomp :=
  {| so_stage := s_stage c; so_name := s_name c; so_replica := None;
     so_refs := flat_map (agg_ref info) (s_refs c) |}.

(* apply_replicate, one component *)
Definition expand_one (info : list entry) (c : scomp) : list socomp :=
  match alookup (sid c) info with
  | Some (_, true) => [agg_comp info c]
  | Some (Some n, false) => if N.ltb 0 n then map (copy_comp info c) (nseq n) else [same_comp c]
  | _ => [same_comp c]
  end.

Definition expand_with (info : list entry) (cs : list scomp) : list socomp := flat_map (expand_one info) cs.
Definition expand (cs : list scomp) : option (list socomp) :=
  match propagate cs with Some info => Some (expand_with info cs) | None => None end.

(* "transitively consumes from a component that requests n replicas, up to the next aggregator" *)
Inductive Reach (cs : list scomp) (n : N) : scomp -> Prop :=
  | Reach_own c : In c cs -> s_own c = Some n -> Reach cs n c
  | Reach_via c p : In c cs -> In (sid p) (ref_ids (s_refs c)) -> Reach cs n p -> s_agg p = false -> Reach cs n c.

(* ------------------------------------------------------------------ (b) textual layer *)
Inductive rspec := RNone | RLit (n : N) | RVar (v : string).

Record tcomp := { t_stage : N; t_name : string; t_refs : list string; t_args : string;
                  t_rep : rspec; t_agg : bool; t_vars : list (string * string) }.
Record twf := { w_comps : list tcomp; w_gvars : list (string * string);
                w_svars : list (N * list (string * string)) }.

Fixpoint nlookup {A} (k : N) (m : list (N * A)) : option A :=
  match m with [] => None | (k', v) :: r => if N.eqb k k' then Some v else nlookup k r end.

Definition all_digits (s : string) : bool := negb (String.eqb s "") && all_chars is_digit s.

(* workflowAttributes.replicate after fill_in + int(); outer None: error *)
Definition resolve_count (w : twf) (c : tcomp) : option (option N) :=
  match t_rep c with
  | RNone => Some None
  | RLit n => Some (Some n)
  | RVar v =>
      let val := match lookup v (t_vars c) with
                 | Some x => Some x
                 | None => match nlookup (t_stage c) (w_svars w) with
                           | Some sv => match lookup v sv with Some x => Some x | None => lookup v (w_gvars w) end
                           | None => lookup v (w_gvars w)
                           end
                 end in
      match val with
      | Some x => if all_digits x then Some (Some (digits_val 0 x)) else None
      | None => None
      end
  end.

Fixpoint parse_refs (st : N) (l : list string) : option (list sref) :=
  match l with
  | [] => Some []
  | t :: r => match parse_full t st, parse_refs st r with
              | Some (DComp a s p f m), Some l' => Some (SComp a s p f m :: l')
              | Some DOther, Some l' => Some (SOther t :: l')
              | _, _ => None
              end
  end.

Definition parse_comp (w : twf) (c : tcomp) : option scomp :=
  match resolve_count w c, parse_refs (t_stage c) (t_refs c) with
  | Some own, Some refs => Some {| s_stage := t_stage c; s_name := t_name c; s_refs := refs; s_own := own; s_agg := t_agg c |}
  | _, _ => None
  end.

Fixpoint parse_comps (w : twf) (l : list tcomp) : option (list scomp) :=
  match l with
  | [] => Some []
  | c :: r => match parse_comp w c, parse_comps w r with Some x, Some y => Some (x :: y) | _, _ => None end
  end.

(* references to replicated, non aggregating producers, as (stage, producer, file, method, count);
   apply_replicate hands them over as absolute reference strings which are parsed again *)
Definition rref := (N * string * option string * string * N)%type.
Fixpoint repl_refs (info : list entry) (l : list sref) : list rref :=
  match l with
  | [] => []
  | SComp _ st p f m :: r => match repl_count info (st, p) with
                             | Some n => (st, p, f, m, n) :: repl_refs info r
                             | None => repl_refs info r
                             end
  | SOther _ :: r => repl_refs info r
  end.

Definition rr_long (r : rref) : string := let '(st, p, f, m, _) := r in compile_reference p f m (Some st) None.
Definition rr_short (r : rref) : string := let '(st, p, f, m, _) := r in compile_reference p f m None None.
Definition rr_rew (r : rref) (i : N) : string := let '(st, p, f, m, _) := r in compile_reference p f m (Some st) (Some i).

(* --- compile_component_replica *)
Definition replica_translation (rrs : list rref) (i : N) : list (string * string) :=
  fold_left (fun tr r => set_key (rr_short r) (rr_rew r i) (set_key (rr_long r) (rr_rew r i) tr)) rrs [].

(* sorted(translation, key=len, reverse=True): stable *)
Fixpoint ins_len (x : string * string) (l : list (string * string)) : list (string * string) :=
  match l with
  | [] => [x]
  | y :: r => if Nat.ltb (String.length (fst y)) (String.length (fst x)) then x :: l else y :: ins_len x r
  end.
Definition sort_len (l : list (string * string)) : list (string * string) :=
  fold_left (fun acc x => ins_len x acc) l [].

Definition tfun (L : list (string * string)) (s : string) : string :=
  fold_left (fun s kv => replace (fst kv) (snd kv) s) L s.

Definition sorted_translation (rrs : list rref) (i : N) := sort_len (replica_translation rrs i).

Record ocomp := { o_stage : N; o_name : string; o_refs : list string; o_args : string;
                  o_replica : option N; o_replicate : option N }.

Definition replica_comp (c : tcomp) (rrs : list rref) (total i : N) : ocomp :=
  let L := sorted_translation rrs i in
  {| o_stage := t_stage c; o_name := tfun L (t_name c ++ dec i); o_refs := map (tfun L) (t_refs c);
     o_args := tfun L (t_args c); o_replica := Some i; o_replicate := Some total |}.

(* --- compile_component_aggregate *)
Fixpoint add_multi (k : string) (v : string) (m : list (string * list string)) : list (string * list string) :=
  match m with
  | [] => [(k, [v])]
  | (k', l) :: r => if String.eqb k k' then (k', (l ++ [v])%list) :: r else (k', l) :: add_multi k v r
  end.

Definition agg_translation (count : N) (rrs : list rref) : list (string * list string) :=
  fold_left (fun tm r =>
    fold_left (fun tm i => add_multi (rr_short r) (rr_rew r i) (add_multi (rr_long r) (rr_rew r i) tm)) (nseq count) tm)
    rrs [].

(* the greedy match of the optional regex group (one or more segments "/" + word characters, dots, stars;
   then commas) at the start of s; 0: the group does not take part *)
Definition is_pathc (a : ascii) : bool := is_alnum a || is_char "_" a || is_char "." a || is_char "*" a.
Fixpoint segs (fuel : nat) (s : string) : nat :=
  match fuel with
  | O => O
  | S f => match s with
           | String c s' => if is_char "/" c then
                              let k := span is_pathc s' in
                              if Nat.eqb k 0 then O else S k + segs f (drop k s')
                            else O
           | EmptyString => O
           end
  end.
Definition path_len (s : string) : nat :=
  let k := segs (String.length s) s in
  if Nat.eqb k 0 then O else k + span (is_char ",") (drop k s).

(* the reference is interpolated unescaped into the regular expression: its dots ("stage0.A", "out.txt")
   match any character; no other metacharacter occurs in the modelled inputs *)
Fixpoint rprefixb (p s : string) : bool :=
  match p with
  | EmptyString => true
  | String a p' => match s with
                   | EmptyString => false
                   | String b s' => (is_char "." a || Ascii.eqb a b) && rprefixb p' s'
                   end
  end.
Fixpoint rfind (r s : string) : option nat :=
  if rprefixb r s then Some O
  else match s with
       | EmptyString => None
       | String _ s' => option_map S (rfind r s')
       end.

(* expression.sub(new, s) for expression = ref followed by that optional group *)
Fixpoint rsub (r new : string) (skip : nat) (s : string) : string :=
  match s with
  | EmptyString => EmptyString
  | String c s' =>
      match skip with
      | S k => rsub r new k s'
      | O => if rprefixb r s then new ++ rsub r new (String.length r + path_len (drop (String.length r) s) - 1) s'
             else String c (rsub r new 0 s')
      end
  end.

Definition last_is_comma (s : string) : bool :=
  match rev_str s with String c _ => is_char "," c | EmptyString => false end.

Definition agg_apply (tm : list (string * list string)) (r : string) (s : string) : string :=
  match r with EmptyString => s | _ =>
  match rfind r s with
  | None => s
  | Some i =>
      let rest := drop (i + String.length r) s in
      let pl := path_len rest in
      let vals := match lookup r tm with Some l => l | None => [] end in
      if Nat.eqb pl 0 then replace r (join " " vals) s
      else
        let path := take pl rest in
        let '(sep, path') := if last_is_comma path then (",", take (pl - 1) path) else (" ", path) in
        rsub r (join sep (map (fun el => el ++ path') vals)) 0 s
  end end.

Definition agg_string (tm : list (string * list string)) (rrs : list rref) (s : string) : string :=
  fold_left (fun str r =>
               let s1 := agg_apply tm (rr_long r) str in
               if String.eqb s1 str then agg_apply tm (rr_short r) str else s1) rrs s.

(* str.split(): on runs of blanks, no empty pieces *)
Fixpoint words_aux (acc : string) (s : string) : list string :=
  match s with
  | EmptyString => match acc with EmptyString => [] | _ => [acc] end
  | String c s' => if is_char " " c then
                     match acc with EmptyString => words_aux EmptyString s' | _ => acc :: words_aux EmptyString s' end
                   else words_aux (acc ++ String c EmptyString) s'
  end.
Definition words (s : string) : list string := words_aux EmptyString s.

Definition aggregate_comp (c : tcomp) (rrs : list rref) (count : N) : ocomp :=
  let tm := agg_translation count rrs in
  {| o_stage := t_stage c; o_name := agg_string tm rrs (t_name c);
     o_refs := flat_map words (map (agg_string tm rrs) (t_refs c));
     o_args := agg_string tm rrs (t_args c); o_replica := None; o_replicate := None |}.

Definition plain_comp (c : tcomp) : ocomp :=
  {| o_stage := t_stage c; o_name := t_name c; o_refs := t_refs c; o_args := t_args c;
     o_replica := None; o_replicate := None |}.

(* apply_replicate, one component *)
Definition expand_one_t (info : list entry) (c : tcomp) (sc : scomp) : list ocomp :=
  let rrs := repl_refs info (s_refs sc) in
  match alookup (sid sc) info with
  | Some (rep, true) => [aggregate_comp c rrs (match rep with Some n => n | None => 0%N end)]
  | Some (Some n, false) => if N.ltb 0 n then map (replica_comp c rrs n) (nseq n) else [plain_comp c]
  | _ => [plain_comp c]
  end.

Fixpoint expand_all_t (info : list entry) (cs : list tcomp) (scs : list scomp) : list ocomp :=
  match cs, scs with
  | c :: r, sc :: r' => (expand_one_t info c sc ++ expand_all_t info r r')%list
  | _, _ => []
  end.

(* FlowIRConcrete.replicate(): None = an exception *)
Definition expand_t (w : twf) : option (list ocomp) :=
  match parse_comps w (w_comps w) with
  | None => None
  | Some scs => match propagate scs with
                | None => None
                | Some info => Some (expand_all_t info (w_comps w) scs)
                end
  end.

(* --- graph: nodes and edges of _createCompleteGraph *)
Definition node_name (st : N) (name : string) : string := "stage" ++ dec st ++ "." ++ name.

Definition edges_of (out : list ocomp) : list (string * string) :=
  let nodes := map (fun o => node_name (o_stage o) (o_name o)) out in
  flat_map (fun o =>
    flat_map (fun t => match parse_full t (o_stage o) with
                       | Some (DComp _ s p _ _) => let pn := node_name s p in
                                                 if mem_str pn nodes then [(pn, node_name (o_stage o) (o_name o))] else []
                       | _ => []
                       end) (o_refs o)) out.

(* ------------------------------------------------------------------ the hypothesis of the refinement *)
(* for the sorted table L: no earlier key occurs in a key, no later key occurs in the value it is
   replaced by, no key is empty *)
Fixpoint ok_from (pre : list string) (L : list (string * string)) : bool :=
  match L with
  | [] => true
  | (k, v) :: r => negb (String.eqb k "") &&
                   forallb (fun k' => negb (occurs k' k)) pre &&
                   forallb (fun kv => negb (occurs (fst kv) v)) r &&
                   ok_from (pre ++ [k])%list r
  end.

Definition keys_absent (L : list (string * string)) (t : string) : bool :=
  forallb (fun kv => negb (occurs (fst kv) t)) L.

Fixpoint entry_of (k : string) (L : list (string * string)) : option string :=
  match L with [] => None | (k', v) :: r => if String.eqb k k' then Some v else entry_of k r end.

(* every declared reference of the component is either the key of its own rewriting, or contains no key *)
Definition ref_ok (info : list entry) (i : N) (L : list (string * string)) (r : sref) : bool :=
  match r with
  | SComp abs st p f m =>
      match repl_count info (st, p) with
      | Some _ => match entry_of (spell r) L with
                  | Some v => String.eqb v (spell (rw_ref info i r))
                  | None => false
                  end
      | None => keys_absent L (spell r)
      end
  | SOther t => keys_absent L t
  end.

Definition no_overlap (info : list entry) (i : N) (refs : list sref) : bool :=
  let L := sorted_translation (repl_refs info refs) i in
  ok_from [] L && forallb (ref_ok info i L) refs.

(* the analogous condition for an aggregator (no theorem is proved about it; it only guards the
   executable comparison of the two layers in the correspondence run): no spelling of a replicated
   reference occurs in a spelling or rewritten form of another declared reference, nor the relative
   spelling in its own rewritten forms *)
Definition sref_same (a b : sref) : bool :=
  match a, b with
  | SComp _ s p f m, SComp _ s' p' f' m' => N.eqb s s' && String.eqb p p' && opt_str_eqb f f' && String.eqb m m'
  | SOther t, SOther t' => String.eqb t t'
  | _, _ => false
  end.
Definition ref_texts (info : list entry) (r : sref) : list string :=
  match r with
  | SComp a s p f m =>
      (spell r :: compile_reference p f m (Some s) None :: compile_reference p f m None None ::
       match repl_count info (s, p) with
       | Some n => map (fun j => compile_reference p f m (Some s) (Some j)) (nseq n)
       | None => []
       end)%list
  | SOther t => [t]
  end.
Definition agg_guard (info : list entry) (refs : list sref) : bool :=
  forallb (fun r1 =>
    match r1 with
    | SComp _ s p f m =>
        match repl_count info (s, p) with
        | Some n1 =>
            let kl := compile_reference p f m (Some s) None in
            let ks := compile_reference p f m None None in
            forallb (fun r2 =>
              if sref_same r1 r2
              then forallb (fun j => negb (occurs ks (compile_reference p f m (Some s) (Some j)))) (nseq n1)
              else forallb (fun t => negb (occurs kl t) && negb (occurs ks t)) (ref_texts info r2)) refs
        | None => true
        end
    | SOther _ => true
    end) refs.

(* the hypothesis of C03_textual_refines_aggregate: agg_guard, and — because compile_component_aggregate searches
   with a regular expression (the dots of the reference match any character), joins the copies with blanks and
   splits the rewritten references at blanks again — (a) no two replicated references share a spelling, (b) every
   declared reference and every copy is a single non-empty word, (c) no spelling of ANOTHER replicated reference
   is found by the regular expression in the reference or in the joined list of its copies *)
Definition rocc (k t : string) : bool := match rfind k t with Some _ => true | None => false end.
Definition nonblank (s : string) : bool := negb (String.eqb s "") && negb (occurs " " s).
Fixpoint nodup_str (l : list string) : bool :=
  match l with [] => true | x :: r => negb (mem_str x r) && nodup_str r end.
Definition rr_keys (rrs : list rref) : list string := flat_map (fun r => [rr_long r; rr_short r]) rrs.
Definition rr_count (r : rref) : N := let '(_, _, _, _, n) := r in n.
Definition rr_rews (r : rref) : list string := map (rr_rew r) (nseq (rr_count r)).
Definition keys_unseen (r' : rref) (t : string) : bool := negb (rocc (rr_long r') t) && negb (rocc (rr_short r') t).

Definition agg_ref_sep (info : list entry) (rrs : list rref) (r : sref) : bool :=
  let s := spell r in
  nonblank s &&
  match r with
  | SComp _ st p f m =>
      match repl_count info (st, p) with
      | Some n => let own := (st, p, f, m, n) in
                  forallb nonblank (rr_rews own) &&
                  forallb (fun r' => String.eqb (rr_long r') (rr_long own) ||
                                     (keys_unseen r' s && keys_unseen r' (join " " (rr_rews own)))) rrs
      | None => forallb (fun r' => keys_unseen r' s) rrs
      end
  | SOther _ => forallb (fun r' => keys_unseen r' s) rrs
  end.

Definition agg_sep (info : list entry) (refs : list sref) : bool :=
  let rrs := repl_refs info refs in
  agg_guard info refs && nodup_str (rr_keys rrs) && forallb (agg_ref_sep info rrs) refs.

(* ------------------------------------------------------------------ argument strings of a copy *)
(* what the rewriting is meant to do to the blank-separated tokens of command.arguments: a token that is a
   declared spelling (a key of the table) becomes its rewritten form, every other token is untouched *)
Definition tok_spec (L : list (string * string)) (tok : string) : string :=
  match entry_of tok L with Some v => v | None => tok end.
(* separation: no spelling contains a blank or is empty, and every token either is a spelling or contains none *)
Definition tok_ok (L : list (string * string)) (tok : string) : bool :=
  match entry_of tok L with Some _ => true | None => keys_absent L tok end.
Definition args_sep (L : list (string * string)) (toks : list string) : bool :=
  forallb (fun kv => nonblank (fst kv)) L && forallb (tok_ok L) toks.

(* ------------------------------------------------------------------ the dataflow of the two layers *)
(* edges of the structured expansion: one per component reference whose producer is a node *)
Definition sedges_of (out : list socomp) : list (string * string) :=
  let nodes := map (fun o => node_name (so_stage o) (so_name o)) out in
  flat_map (fun o =>
    flat_map (fun r => match r with
                       | SComp _ s p _ _ => let pn := node_name s p in
                                            if mem_str pn nodes then [(pn, node_name (so_stage o) (so_name o))] else []
                       | SOther _ => []
                       end) (so_refs o)) out.

(* the guards of one component: those of its references (no_overlap for every copy / agg_sep) and the same
   condition for its name, which the code passes through the same rewriting *)
Definition name_unseen (rrs : list rref) (name : string) : bool := forallb (fun r' => keys_unseen r' name) rrs.

Definition comp_guard (info : list entry) (sc : scomp) : bool :=
  let rrs := repl_refs info (s_refs sc) in
  match alookup (sid sc) info with
  | Some (_, true) => agg_sep info (s_refs sc) && name_unseen rrs (s_name sc)
  | Some (Some n, false) =>
      if N.ltb 0 n
      then forallb (fun i => no_overlap info i (s_refs sc) &&
                             keys_absent (sorted_translation rrs i) (s_name sc ++ dec i)) (nseq n)
      else true
  | _ => true
  end.

(* the references are written in the spelling compile_reference prints (stage0.A, not stage00.A) *)
Definition canonical_refs (cs : list tcomp) (scs : list scomp) : bool :=
  list_eqb (list_eqb String.eqb) (map (fun sc => map spell (s_refs sc)) scs) (map t_refs cs).

(* a printed reference is read back as the same reference (stage, producer, file, method, spelling) *)
Definition rt_ref (st : N) (r : sref) : bool :=
  match parse_full (spell r) st, r with
  | Some (DComp a s p f m), SComp a' s' p' f' m' =>
      Bool.eqb a a' && N.eqb s s' && String.eqb p p' && opt_str_eqb f f' && String.eqb m m'
  | Some DOther, SOther _ => true
  | _, _ => false
  end.
Definition rt_ok (out : list socomp) : bool :=
  forallb (fun o => forallb (rt_ref (so_stage o)) (so_refs o)) out.

(* ------------------------------------------------------------------ the checker of the correspondence *)
Definition ocomp_eqb (a b : ocomp) : bool :=
  N.eqb (o_stage a) (o_stage b) && String.eqb (o_name a) (o_name b) &&
  list_eqb String.eqb (o_refs a) (o_refs b) && String.eqb (o_args a) (o_args b) &&
  opt_N_eqb (o_replica a) (o_replica b) && opt_N_eqb (o_replicate a) (o_replicate b).

Definition same_members {A} (e : A -> A -> bool) (a b : list A) : bool :=
  Nat.eqb (List.length a) (List.length b) &&
  forallb (fun x => existsb (e x) b) a && forallb (fun y => existsb (e y) a) b.

Definition pair_str_eqb (a b : string * string) : bool := String.eqb (fst a) (fst b) && String.eqb (snd a) (snd b).

(* the structured expansion, written out, agrees with the textual one on every component whose
   references satisfy no_overlap (executable form of C03_textual_refines, also for aggregators) *)
Definition struct_agrees_one (info : list entry) (c : tcomp) (sc : scomp) : bool :=
  let souts := expand_one info sc in
  let touts := expand_one_t info c sc in
  Nat.eqb (List.length souts) (List.length touts) &&
  forallb (fun st : socomp * ocomp =>
             let (so, o) := st in
             opt_N_eqb (so_replica so) (o_replica o) && N.eqb (so_stage so) (o_stage o) &&
             let guard := match so_replica so with
                          | Some i => no_overlap info i (s_refs sc)
                          | None => (* a reference declared twice (in two spellings) is finding F3c: the copies
                                       are appended once per declaration; C03_textual_refines_aggregate excludes it
                                       (agg_sep: the keys of the translation table are pairwise different) *)
                                    agg_guard info (s_refs sc) && nodup_str (rr_keys (repl_refs info (s_refs sc)))
                          end in
             (if guard then String.eqb (so_name so) (o_name o) &&
                            list_eqb String.eqb (map spell (so_refs so)) (o_refs o)
              else true) &&
             (* executable form of C03_textual_arguments_replica *)
             match so_replica so with
             | Some i => let L := sorted_translation (repl_refs info (s_refs sc)) i in
                         let toks := split_on " " (t_args c) in
                         if no_overlap info i (s_refs sc) && args_sep L toks && String.eqb (join " " toks) (t_args c)
                         then String.eqb (o_args o) (join " " (map (tok_spec L) toks)) else true
             | None => true
             end) (combine souts touts).

Fixpoint struct_agrees (info : list entry) (cs : list tcomp) (scs : list scomp) : bool :=
  match cs, scs with
  | c :: r, sc :: r' => struct_agrees_one info c sc && struct_agrees info r r'
  | [], [] => true
  | _, _ => false
  end.

Definition struct_check (w : twf) : bool :=
  match parse_comps w (w_comps w) with
  | None => true
  | Some scs => match propagate scs with
                | None => true
                | Some info => struct_agrees info (w_comps w) scs &&
                               list_eqb (list_eqb String.eqb) (map (fun sc => map spell (s_refs sc)) scs)
                                        (map t_refs (w_comps w)) &&
                               (* executable form of C03_textual_dataflow, and of its round-trip hypothesis *)
                               (if forallb (comp_guard info) scs
                                then rt_ok (expand_with info scs) &&
                                     list_eqb pair_str_eqb (edges_of (expand_all_t info (w_comps w) scs))
                                              (sedges_of (expand_with info scs))
                                else true)
                end
  end.

(* a case: the workflow, what replicate() returned (None: raised), and — when the graph was built —
   its nodes and edges *)
Definition case := (twf * option (list ocomp) * option (list string * list (string * string)))%type.

Definition check_case (c : case) : bool :=
  let '(w, impl, graph) := c in
  struct_check w &&
  match expand_t w, impl with
  | None, None => true
  | Some mo, Some io =>
      same_members ocomp_eqb mo io &&
      match graph with
      | None => true
      | Some (nodes, edges) =>
          same_members String.eqb (map (fun o => node_name (o_stage o) (o_name o)) mo) nodes &&
          forallb (fun e => existsb (pair_str_eqb e) edges) (edges_of mo) &&
          forallb (fun e => existsb (pair_str_eqb e) (edges_of mo)) edges
      end
  | _, _ => false
  end.
